import Asn1cModel.L2.XerTypes
import Asn1cModel.Impl.Oid
/-
  L2 XER: BASIC-XER / CANONICAL-XER codec of asn1c, byte for byte.

  Encoder: mirrors skeletons/xer_encoder.c and the `*_encode_xer` functions (what is written, including
  the indentation and line breaks of BASIC-XER, `ASN__TEXT_INDENT`).
  Decoder: mirrors the streaming decoders: `nextTok` = one call of `xer_next_token` (the `pxml_parse` state
  machine of xer_support.c run until its first callback), `checkTag` = `xer_check_tag`, `decGeneral` =
  `xer_decode_general`, `primCb` = `xer_decode_primitive`, `decSeq*` / `decSet*` / `decChoice*` /
  `decList*` = the phase machines of SEQUENCE / SET / CHOICE / SET_OF `_decode_xer`.
  Result `none` of the decoder = RC_FAIL or RC_WMORE (the input is the whole buffer; a decoder that
  runs out of input never answers RC_OK).  `fuel` bounds the depth of the recursion (loop iterations +
  nesting); `input length + 2` is always enough (every iteration consumes at least one octet).
  Core Lean only.
-/
namespace Asn1c.L2.Xer
open Asn1c Asn1c.L2

/-! ## literals -/

def cLT : Nat := 0x3c   -- '<'
def cGT : Nat := 0x3e   -- '>'
def cSL : Nat := 0x2f   -- '/'
def litTrueTag : Bytes := [60, 116, 114, 117, 101, 47, 62]        -- "<true/>"
def litFalseTag : Bytes := [60, 102, 97, 108, 115, 101, 47, 62]   -- "<false/>"
def litTrue : Bytes := [116, 114, 117, 101]
def litFalse : Bytes := [102, 97, 108, 115, 101]

def openTag (n : Bytes) : Bytes := cLT :: (n ++ [cGT])
def closeTag (n : Bytes) : Bytes := cLT :: cSL :: (n ++ [cGT])
def emptyTag (n : Bytes) : Bytes := cLT :: (n ++ [cSL, cGT])

/-- `ASN__TEXT_INDENT(1, level)`: a newline and four spaces per level -/
def indent (level : Nat) : Bytes := 10 :: List.replicate (4 * level) 32

/-! ## encoder -/

/-- decimal digits, most significant first (fuel `n` is always enough) -/
def natDecF : Nat → Nat → Bytes
  | 0, n => [48 + n % 10]
  | f + 1, n => if n < 10 then [48 + n] else natDecF f (n / 10) ++ [48 + n % 10]
def natDec (n : Nat) : Bytes := natDecF n n

/-- `%ld` -/
def intDec (z : Int) : Bytes := if z < 0 then 45 :: natDec z.natAbs else natDec z.toNat

def hexUp (n : Nat) : Nat := if n < 10 then 48 + n else 55 + n    -- "0123456789ABCDEF"

/-- "XX:YY:ZZ" (INTEGER__dump, the long form) -/
def hexColon : Bytes → Bytes
  | [] => []
  | [b] => [hexUp (b / 16), hexUp (b % 16)]
  | b :: r => hexUp (b / 16) :: hexUp (b % 16) :: 58 :: hexColon r

/-- NativeInteger_encode_xer (`%ld` / `%lu`: the whole `unsigned long` range is a decimal numeral) and
    INTEGER__dump: decimal when the value fits `intmax_t`, else the octets in hexadecimal -/
def encInt (r : IntRepr) (z : Int) : Option Bytes :=
  match r with
  | .long => if -(2 ^ 63) ≤ z ∧ z < 2 ^ 63 then some (intDec z) else none
  | .ulong => if 0 ≤ z ∧ z < 2 ^ 64 then some (intDec z) else none
  | .wide => if -(2 ^ 63) ≤ z ∧ z < 2 ^ 63 then some (intDec z) else some (hexColon (intOctets z))

/-- `INTEGER_map_value2enum` -/
def lookupName : List Bytes → List Int → Int → Option Bytes
  | n :: ns, v :: vs, z => if v = z then some n else lookupName ns vs z
  | _, _, _ => none

def hex2 (b : Nat) : Bytes := [hexUp (b / 16 % 16), hexUp (b % 16)]

/-- the BASIC-XER body loop of OCTET_STRING_encode_xer: "XX " per octet (the blank after the last one is
    taken back), a line break before every 16th octet (and before the first one when there are more than 16) -/
def hexBasic (il size : Nat) : Nat → Bytes → Bytes
  | _, [] => []
  | i, [b] => (if i % 16 = 0 ∧ (i ≠ 0 ∨ size > 16) then indent il else []) ++ hex2 b
  | i, b :: r =>
    (if i % 16 = 0 ∧ (i ≠ 0 ∨ size > 16) then indent il else []) ++ hex2 b ++ 32 :: hexBasic il size (i + 1) r

def encHex (c : Bool) (il : Nat) (bs : Bytes) : Bytes :=
  if c then bs.flatMap hex2
  else hexBasic il bs.length 0 bs ++ (if bs.length > 16 then indent (il - 1) else [])

def bits8 (v : Nat) : Bytes :=
  [48 + v / 128 % 2, 48 + v / 64 % 2, 48 + v / 32 % 2, 48 + v / 16 % 2, 48 + v / 8 % 2, 48 + v / 4 % 2, 48 + v / 2 % 2, 48 + v % 2]

/-- the loop of BIT_STRING_encode_xer over all octets but the last one in BASIC-XER: every 8th octet
    flushes the scratch buffer (`pend`) and starts a new line; result = (written, still in the scratch buffer) -/
def bitsLoop (il : Nat) : Nat → Bytes → Bytes → Bytes × Bytes
  | _, pend, [] => ([], pend)
  | i, pend, b :: r =>
    if i % 8 = 0 then
      let (o, p) := bitsLoop il (i + 1) (bits8 b) r
      (pend ++ indent il ++ o, p)
    else bitsLoop il (i + 1) (pend ++ bits8 b) r

/-- BIT_STRING_encode_xer.  BASIC-XER: the line break that follows a complete group of 8 octets is written
    BEFORE the scratch buffer holding that group is flushed. -/
def encBits (c : Bool) (il : Nat) (bs : Bytes) (unused : Nat) : Bytes :=
  let n := bs.length
  let last : Bytes :=
    match bs.getLast? with
    | some v => (bits8 v).take (8 - unused)
    | none => []
  if c then (bs.take (n - 1)).flatMap bits8 ++ last
  else
    let (o, p) := bitsLoop il 0 [] (bs.take (n - 1))
    o ++ (if (n - 1) % 8 = 0 then indent il else []) ++ p ++ last ++ indent (il - 1)

/-- identifiers of OCTET_STRING__xer_escape_table[0..31] (`[]`: the character is written as it is) -/
def ctlNames : List Bytes :=
  [[110, 117, 108], [115, 111, 104], [115, 116, 120], [101, 116, 120], [101, 111, 116], [101, 110, 113], [97, 99, 107],
   [98, 101, 108], [98, 115], [], [], [118, 116], [102, 102], [], [115, 111], [115, 105], [100, 108, 101], [100, 99, 49],
   [100, 99, 50], [100, 99, 51], [100, 99, 52], [110, 97, 107], [115, 121, 110], [101, 116, 98], [99, 97, 110], [101, 109],
   [115, 117, 98], [101, 115, 99], [105, 115, 52], [105, 115, 51], [105, 115, 50], [105, 115, 49]]

/-- OCTET_STRING__xer_escape_table -/
def escapeByte (b : Nat) : Bytes :=
  if b = 38 then [38, 97, 109, 112, 59]            -- &amp;
  else if b = 60 then [38, 108, 116, 59]           -- &lt;
  else if b = 62 then [38, 103, 116, 59]           -- &gt;
  else if b < 32 then
    match ctlNames[b]? with
    | some (c :: cs) => emptyTag (c :: cs)
    | _ => [b]
  else [b]

/-- OCTET_STRING_encode_xer_utf8 -/
def encUtf8 (bs : Bytes) : Bytes := bs.flatMap escapeByte

/-- one code point in the (pre-2003, up to six octets) UTF-8 form written by BMPString__dump /
    UniversalString__dump -/
def utf8Enc (wc : Nat) : Bytes :=
  if wc < 0x80 then [wc]
  else if wc < 0x800 then [0xc0 + wc / 64, 0x80 + wc % 64]
  else if wc < 0x10000 then [0xe0 + wc / 4096, 0x80 + wc / 64 % 64, 0x80 + wc % 64]
  else if wc < 0x200000 then [0xf0 + wc / 262144, 0x80 + wc / 4096 % 64, 0x80 + wc / 64 % 64, 0x80 + wc % 64]
  else if wc < 0x4000000 then [0xf8 + wc / 16777216, 0x80 + wc / 262144 % 64, 0x80 + wc / 4096 % 64, 0x80 + wc / 64 % 64, 0x80 + wc % 64]
  else [0xfc + wc / 1073741824 % 2, 0x80 + wc / 16777216 % 64, 0x80 + wc / 262144 % 64, 0x80 + wc / 4096 % 64, 0x80 + wc / 64 % 64, 0x80 + wc % 64]

/-- BMPString__dump: the UTF-8 text of the pairs of octets, a trailing odd octet is ignored -/
def bmpUtf8 : Bytes → Bytes
  | a :: b :: r => utf8Enc (a * 256 + b) ++ bmpUtf8 r
  | _ => []

/-- UniversalString__dump -/
def uniUtf8 : Bytes → Bytes
  | a :: b :: c :: d :: r => utf8Enc (((a * 256 + b) * 256 + c) * 256 + d) ++ uniUtf8 r
  | _ => []

/-- BMPString_encode_xer (finding F150 repaired): the UTF-8 text goes through the escaping of
    OCTET_STRING_encode_xer_utf8 (`BMPString__xer_escape`) -/
def encBmp (bs : Bytes) : Bytes := encUtf8 (bmpUtf8 bs)

/-- UniversalString_encode_xer -/
def encUni (bs : Bytes) : Bytes := encUtf8 (uniUtf8 bs)

def joinDot : List Nat → Bytes
  | [] => []
  | [a] => natDec a
  | a :: r => natDec a ++ 46 :: joinDot r

/-- OBJECT_IDENTIFIER__dump_body / RELATIVE_OID__dump_body -/
def encOid (relative : Bool) (bs : Bytes) : Option Bytes :=
  match (if relative then Impl.Oid.roidGetArcs bs else Impl.Oid.getArcs bs) with
  | .ok arcs => some (joinDot arcs)
  | _ => none

/-- the value BASIC-XER substitutes for an absent DEFAULT component (`default_value_set`: BOOLEAN, INTEGER, ENUMERATED) -/
def dfltVal (a : Attr) : Option Val :=
  match a.dflt with
  | some (.int d) => some (.int d)
  | some (.bool b) => some (.bool b)
  | _ => none

def omitable (a : Attr) : Bool := a.optional || a.ext

/-- elements of SEQUENCE OF / SET OF: `f` encodes one element -/
def mapEnc {α : Type} (f : α → Option Bytes) : List α → Option (List Bytes)
  | [] => some []
  | v :: vs =>
    match f v, mapEnc f vs with
    | some b, some bs => some (b :: bs)
    | _, _ => none

/-- one element of SEQUENCE_OF_encode_xer -/
def wrapSeqOfElem (c : Bool) (mode : Nat) (en : Bytes) (il : Nat) (body : Bytes) : Bytes :=
  if mode = 0 then (if c then [] else indent il) ++ openTag en ++ body ++ closeTag en
  else if body = [] then (if c then [] else indent (il + 1)) ++ emptyTag en
  else body

/-- one element of SET_OF_encode_xer -/
def wrapSetOfElem (c : Bool) (mode : Nat) (en : Bytes) (il : Nat) (body : Bytes) : Bytes :=
  if mode = 0 then (if c then [] else indent il) ++ openTag en ++ body ++ closeTag en
  else (if !c ∧ mode = 1 then indent (il + 1) else []) ++ body ++ (if body = [] then emptyTag en else [])

mutual
/-- `td->op->xer_encoder(td, sptr, ilevel, flags, ..)`: the body, without the tags of the type itself -/
def encTy (c : Bool) : XTy → Nat → Val → Option Bytes
  | .boolean, _, .bool b => some (if b then litTrueTag else litFalseTag)
  | .null, _, .null => some []
  | .integer r, _, .int z => encInt r z
  | .enumerated ns vs, _, .int z => (lookupName ns vs z).map emptyTag
  | .hexstr, il, .octets bs => some (encHex c il bs)
  | .bitstr, il, .bits bs u => some (encBits c il bs u)
  | .utf8str, _, .octets bs => some (encUtf8 bs)
  | .timestr _, _, .octets bs => some (encUtf8 bs)
  | .bmpstr, _, .octets bs => some (encBmp bs)
  | .unistr, _, .octets bs => some (encUni bs)
  | .oid, _, .octets bs => encOid false bs
  | .roid, _, .octets bs => encOid true bs
  | .seq names ms attrs _, il, .seq vs =>
    (encMembers c names ms attrs il vs).map fun b => b ++ (if c then [] else indent (il - 1))
  | .set names ms attrs order _, il, .seq vs =>
    (mapEnc (fun k => encNth c names ms attrs il vs k) order).map
      fun bs => bs.flatten ++ (if c then [] else indent (il - 1))
  | .choice names alts _, il, .choice i v =>
    (encAlt c names alts il i v).map fun b => b ++ (if c then [] else indent (il - 1))
  | .seqOf mode en e, il, .list vs =>
    (mapEnc (encTy c e (il + 1)) vs).map fun bs =>
      (bs.map (wrapSeqOfElem c mode en il)).flatten ++ (if c then [] else indent (il - 1))
  | .setOf mode en e, il, .list vs =>
    (mapEnc (encTy c e (if mode = 2 then il else il + 1)) vs).map fun bs =>
      let es := bs.map (wrapSetOfElem c mode en il)
      (if c then sortBy bytesLe es else es).flatten ++ (if c then [] else indent (il - 1))
  | _, _, _ => none
/-- SEQUENCE_encode_xer: the members in declaration order.  BASIC-XER: an absent DEFAULT member is written with
    its default value (`default_value_set && !xcan`), an absent OPTIONAL member / extension addition is skipped.
    CANONICAL-XER: default values are not encoded - an absent member is skipped and so is a member that is stored
    with its DEFAULT value (`xcan && default_value_cmp(..) == 0`) -/
def encMembers (c : Bool) : List Bytes → List XTy → List Attr → Nat → List Val → Option Bytes
  | [], [], _, _, [] => some []
  | n :: ns, m :: ms, a :: as, il, v :: vs =>
    let v? : Option (Option Val) :=
      match v with
      | .absent =>
        match (if c then none else dfltVal a) with
        | some d => some (some d)
        | none => if omitable a then some none else none
      | v => if c && isDefault a v then some none else some (some v)
    match v?, encMembers c ns ms as il vs with
    | some none, some rest => some rest
    | some (some x), some rest =>
      match encTy c m (il + 1) x with
      | some b => some ((if c then [] else indent il) ++ openTag n ++ b ++ closeTag n ++ rest)
      | none => none
    | _, _ => none
  | _, _, _, _, _ => none
/-- SET_encode_xer, member number `k`, treats the member like SEQUENCE_encode_xer does (finding F76 repaired: an
    absent DEFAULT member used to be skipped in BASIC-XER unless it was stored inline - DEFAULT 0 of a native type -,
    so that the text depended on the representation): BASIC-XER writes an absent DEFAULT member with its default
    value (`default_value_set && !xcan`), an absent OPTIONAL member / extension addition is skipped;
    CANONICAL-XER skips every member that is absent or holds its DEFAULT value -/
def encNth (c : Bool) : List Bytes → List XTy → List Attr → Nat → List Val → Nat → Option Bytes
  | n :: _, m :: _, a :: _, il, v :: _, 0 =>
    let v? : Option (Option Val) :=
      match v with
      | .absent =>
        match (if c then none else dfltVal a) with
        | some d => some (some d)
        | none => if omitable a then some none else none
      | v => if c && isDefault a v then some none else some (some v)
    match v? with
    | some none => some []
    | some (some x) =>
      match encTy c m (il + 1) x with
      | some b => some ((if c then [] else indent il) ++ openTag n ++ b ++ closeTag n)
      | none => none
    | none => none
  | _ :: ns, _ :: ms, _ :: as, il, _ :: vs, k + 1 => encNth c ns ms as il vs k
  | _, _, _, _, _, _ => none
/-- CHOICE_encode_xer -/
def encAlt (c : Bool) : List Bytes → List XTy → Nat → Nat → Val → Option Bytes
  | n :: _, m :: _, il, 0, v =>
    match encTy c m (il + 1) v with
    | some b => some ((if c then [] else indent il) ++ openTag n ++ b ++ closeTag n)
    | none => none
  | _ :: ns, _ :: ms, il, i + 1, v => encAlt c ns ms il i v
  | _, _, _, _, _ => none
end

/-- `xer_encode(td, sptr, XER_F_BASIC | XER_F_CANONICAL, ..)` -/
def encXER (canonical : Bool) (t : XTop) (v : Val) : Option Bytes :=
  (encTy canonical t.ty 1 v).map fun b => openTag t.name ++ b ++ closeTag t.name ++ (if canonical then [] else [10])

/-! ## tokenizer: `xer_next_token` = `pxml_parse` up to its first callback -/

inductive PSt where
  | text | tagStart | tagBody | quoteWait | quoted | unquoted | cw1 | cw2 | comment | cclo2 | cclort
deriving DecidableEq, Repr

inductive TK where
  | text | tag | comment
deriving DecidableEq, Repr

/-- `_charclass[c] == 1` -/
def isWsX (c : Nat) : Bool := c = 9 || c = 10 || c = 12 || c = 13 || c = 32
/-- `_charclass[c] == 3` -/
def isAlphaX (c : Nat) : Bool := (0x41 ≤ c && c ≤ 0x5a) || (0x61 ≤ c && c ≤ 0x7a)

/-- `n` = octets of the current chunk already passed (`p - chunk_start`); result: kind and size of the first
    chunk handed to the callback; `none`: the buffer ends first (the caller will answer RC_WMORE) -/
def scan : PSt → Nat → Bytes → Option (TK × Nat)
  | _, _, [] => none
  | .text, n, c :: r => if c = cLT then (if n = 0 then scan .tagStart 1 r else some (.text, n)) else scan .text (n + 1) r
  | .tagStart, n, c :: r =>
    if isAlphaX c || c = cSL then scan .tagBody (n + 1) r
    else if c = 0x21 then scan .cw1 (n + 1) r
    else some (.text, n + 1)
  | .tagBody, n, c :: r =>
    if c = cGT then some (.tag, n + 1) else if c = cLT then some (.tag, n)
    else if c = 0x3d then scan .quoteWait (n + 1) r else scan .tagBody (n + 1) r
  | .quoteWait, n, c :: r =>
    if c = 0x22 then scan .quoted (n + 1) r else if c = cGT then some (.tag, n + 1)
    else if isWsX c then scan .quoteWait (n + 1) r else scan .unquoted (n + 1) r
  | .quoted, n, c :: r => if c = 0x22 then scan .tagBody (n + 1) r else scan .quoted (n + 1) r
  | .unquoted, n, c :: r =>
    if c = cGT then some (.tag, n + 1) else if isWsX c then scan .tagBody (n + 1) r else scan .unquoted (n + 1) r
  | .cw1, n, c :: r => if c = 0x2d then scan .cw2 (n + 1) r else scan .tagBody (n + 1) r
  | .cw2, n, c :: r => if c = 0x2d then scan .comment (n + 1) r else scan .tagBody (n + 1) r
  | .comment, n, c :: r => if c = 0x2d then scan .cclo2 (n + 1) r else scan .comment (n + 1) r
  | .cclo2, n, c :: r => if c = 0x2d then scan .cclort (n + 1) r else scan .comment (n + 1) r
  | .cclort, n, c :: r =>
    if c = cGT then some (.comment, n + 1) else if c = 0x2d then scan .cclort (n + 1) r else scan .comment (n + 1) r

/-- kind, chunk, rest.  A tag chunk that does not end in '>' (a '<' inside a tag) is reported as it is;
    `checkTag` answers XCT_BROKEN for it and every decoder fails. -/
def nextTok (bs : Bytes) : Option (TK × Bytes × Bytes) :=
  match scan .text 0 bs with
  | some (k, n) => some (k, bs.take n, bs.drop n)
  | none => none

/-! ## `xer_check_tag` -/

inductive Tcv where
  | broken | opening | closing | both | unkOp | unkCl | unkBo
deriving DecidableEq, Repr

def Tcv.unk : Tcv → Tcv
  | .opening => .unkOp | .closing => .unkCl | .both => .unkBo | t => t

/-- `tcv & XCT_CLOSING` -/
def Tcv.closingBit : Tcv → Bool
  | .closing | .both | .unkCl | .unkBo => true
  | _ => false

/-- the name comparison loop; `need` has no NUL -/
def cmpName (ct : Tcv) : Bytes → Bytes → Tcv
  | [], [] => ct
  | [], _ :: _ => ct.unk
  | b :: _, [] => if b = 0 then .broken else if isWsX b then ct else ct.unk
  | b :: bs, n :: ns => if b ≠ n then ct.unk else if b = 0 then .broken else cmpName ct bs ns

def checkTag (buf need : Bytes) : Tcv :=
  match buf with
  | c0 :: c1 :: r =>
    if c0 ≠ cLT ∨ (c1 :: r).getLast? ≠ some cGT then .broken
    else if c1 = cSL then
      let body := r.dropLast
      if body.getLast? = some cSL then .broken
      else if need = [] then .unkCl else cmpName .closing body need
    else
      let body := (c1 :: r).dropLast
      let (ct, body) := if body.getLast? = some cSL then (Tcv.both, body.dropLast) else (Tcv.opening, body)
      if need = [] then ct.unk else cmpName ct body need
  | _ => .broken

/-! ## `xer_decode_general` -/

/-- the two callbacks of xer_decode_general (`have_more` is always 1: the chunk is followed by a tag) -/
structure GenCb (σ : Type) where
  /-- `opt_unexpected_tag_decoder` -/
  unexp : σ → Bytes → Option σ
  /-- `body_receiver(key, chunk, size, 1)` in phase 1 -/
  body : σ → Bytes → Option σ

def decGeneral {σ : Type} (cb : GenCb σ) (need : Bytes) : Nat → Bool → σ → Bytes → Option (σ × Bytes)
  | 0, _, _, _ => none
  | f + 1, ph, s, bs =>
    match nextTok bs with
    | none => none
    | some (.comment, _, rest) => decGeneral cb need f ph s rest
    | some (.text, chunk, rest) =>
      if ph then
        match cb.body s chunk with
        | some s' => decGeneral cb need f ph s' rest
        | none => none
      else decGeneral cb need f ph s rest
    | some (.tag, chunk, rest) =>
      match checkTag chunk need with
      | .both =>
        if ph then
          -- a value tag named like the element itself, `<true><true/></true>`: `goto unknown_bo` (finding F153 repaired)
          match cb.unexp s chunk with
          | some s' => decGeneral cb need f true s' rest
          | none => none
        else (cb.body s []).map fun s' => (s', rest)      -- XER_GOT_EMPTY
      | .opening => if ph then none else decGeneral cb need f true s rest
      | .closing => if ph then some (s, rest) else none
      | .unkBo =>
        match cb.unexp s chunk with
        | some s' => if ph then decGeneral cb need f true s' rest else some (s', rest)
        | none => none
      | _ => none

/-! ### primitive types: `xer_decode_primitive` -/

/-- `enum xer_pbd_rval` -/
inductive Pbd where
  | consumed (v : Val)
  | ignore
  | broken

/-- `xer_whitespace_span` (X.693 §8.1.4: HT, LF, CR, SPACE) -/
def isWsP (c : Nat) : Bool := c = 9 || c = 10 || c = 13 || c = 32

def primCb (pbd : Bytes → Pbd) : GenCb (Option Val) where
  unexp := fun s chunk =>
    match s with
    | some _ => none
    | none =>
      match pbd chunk with
      | .consumed v => some (some v)
      | .ignore => some none
      | .broken => none
  body := fun s chunk =>
    match s with
    | some v => if chunk.all isWsP then some (some v) else none
    | none =>
      match pbd (chunk.dropWhile isWsP) with
      | .consumed v => some (some v)
      | .ignore => some none
      | .broken => none

def decPrim (pbd : Bytes → Pbd) (need bs : Bytes) : Option (Val × Bytes) :=
  match decGeneral (primCb pbd) need (bs.length + 1) false none bs with
  | some (some v, rest) => some (v, rest)
  | some (none, rest) =>
    match pbd [] with
    | .consumed v => some (v, rest)
    | _ => none
  | none => none

/-- BOOLEAN__xer_body_decode; an empty chunk (white space next to the `<true/>`) is XPBD_NOT_BODY_IGNORE
    (finding F59 repaired) -/
def boolBody (chunk : Bytes) : Pbd :=
  match chunk with
  | c :: _ =>
    if c = cLT then
      match checkTag chunk litFalse with
      | .both => .consumed (.bool false)
      | .unkBo => if checkTag chunk litTrue = .both then .consumed (.bool true) else .broken
      | _ => .broken
    else .broken
  | [] => .ignore

/-- NULL__xer_body_decode -/
def nullBody (chunk : Bytes) : Pbd := if chunk = [] then .consumed .null else .broken

/-- `INTEGER_map_enum2value`: the identifier is what follows '<' up to white space, '/' or '>' -/
def enumLookup (names : List Bytes) (vals : List Int) (chunk : Bytes) : Option Int :=
  let stop (c : Nat) : Bool := c = 9 || c = 10 || c = 11 || c = 12 || c = 13 || c = 32 || c = cSL || c = cGT
  let body := chunk.drop 1
  let name := body.takeWhile (fun c => !stop c)
  if name.length = body.length then none
  else
    let rec find : List Bytes → List Int → Option Int
      | n :: ns, v :: vs => if n = name then some v else find ns vs
      | _, _ => none
    find names vals

def isDigitX (c : Nat) : Bool := 0x30 ≤ c && c ≤ 0x39
def hexValX (c : Nat) : Option Nat :=
  if isDigitX c then some (c - 0x30) else if 0x41 ≤ c ∧ c ≤ 0x46 then some (c - 0x41 + 10)
  else if 0x61 ≤ c ∧ c ≤ 0x66 then some (c - 0x61 + 10) else none

inductive HexSt where
  | skipsp | digit1 | digit2 (hi : Nat) | colon | trail
deriving DecidableEq

/-- the hexadecimal mode of INTEGER__xer_body_decode ("XX:YY:ZZ"), entered in ST_SKIPSPHEX at the start of
    the chunk; `some octets` = XPBD_BODY_CONSUMED -/
def intHex : HexSt → Bytes → Bytes → Option Bytes
  | st, acc, [] =>
    match st with
    | .colon | .trail => some acc
    | _ => none
  | st, acc, c :: r =>
    if isWsP c then
      match st with
      | .skipsp => intHex .skipsp acc r
      | .trail => intHex .trail acc r
      | .colon => intHex .trail acc r
      | _ => none
    else if c = 0x3a then
      match st with
      | .colon => intHex .digit1 acc r
      | _ => none
    else
      match hexValX c with
      | some d =>
        match st with
        | .skipsp | .digit1 => intHex (.digit2 (d * 16)) acc r
        | .digit2 hi => intHex .colon (acc ++ [(hi + d) % 256]) r
        | _ => none
      | none => none

inductive DecSt where
  | lead | wait | digits | trail
deriving DecidableEq

/-- the decimal mode: `some (some numeral)` = the slice handed to asn_strtoimax_lim, `some none` = switch
    to the hexadecimal mode (a ':' or a hex letter after digits, or a hex letter at the start),
    `none` = XPBD_BROKEN_ENCODING; the slice is empty when only white space was seen (ST_LEADSPACE) -/
def intDecScan : DecSt → Bytes → Bytes → Option (Option Bytes)
  | st, acc, [] =>
    match st with
    | .wait => none
    | _ => some (some acc)
  | st, acc, c :: r =>
    if isWsP c then
      match st with
      | .lead => intDecScan .lead acc r
      | .digits | .trail => intDecScan .trail acc r
      | .wait => none
    else if c = 0x2d ∨ c = 0x2b then
      match st with
      | .lead => intDecScan .wait [c] r
      | _ => none
    else if isDigitX c then
      match st with
      | .lead | .wait | .digits => intDecScan .digits (acc ++ [c]) r
      | .trail => none
    else if c = 0x3a then
      match st with
      | .digits => some none
      | _ => none
    else if (0x41 ≤ c ∧ c ≤ 0x46) ∨ (0x61 ≤ c ∧ c ≤ 0x66) then
      match st with
      | .lead | .digits => some none
      | _ => none
    else none

def digitsVal : Nat → Bytes → Nat
  | acc, [] => acc
  | acc, c :: r => digitsVal (acc * 10 + (c - 0x30)) r

/-- value of `['+' | '-'] digit+` -/
def numeralVal : Bytes → Int
  | 0x2d :: r => -(digitsVal 0 r : Int)
  | 0x2b :: r => (digitsVal 0 r : Int)
  | r => (digitsVal 0 r : Int)

/-- the INTEGER the C structure ends up holding: a native `long` / `unsigned long` (NativeInteger_decode_xer
    converts with asn_INTEGER2long / asn_INTEGER2ulong) or the octets themselves -/
def intOfOctets (r : IntRepr) (os : Bytes) : Option Int :=
  match r with
  | .wide => some (Spec.twosVal os)
  | .long => let z := Spec.twosVal os; if -(2 ^ 63) ≤ z ∧ z < 2 ^ 63 then some z else none
  | .ulong =>
    -- asn_INTEGER2ulong: a negative INTEGER (first octet ≥ 0x80) is a range error (finding F3 repaired)
    match os with
    | b :: _ => if b ≥ 128 then none else (let n := ofBE 0 os; if n < 2 ^ 64 then some (n : Int) else none)
    | [] => some 0

/-- INTEGER__xer_body_decode (+ the conversion of NativeInteger_decode_xer); `names` / `vals`: the
    enumeration map of ENUMERATED (empty for INTEGER) -/
def intBody (r : IntRepr) (names : List Bytes) (vals : List Int) (chunk : Bytes) : Pbd :=
  let fin (z : Int) : Pbd :=
    -- "We model INTEGER on long for XER": the decimal value must fit `long` (asn_strtoimax_lim) - or, for a
    -- descriptor with `field_unsigned`, `unsigned long` (asn_strtoumax_lim, tried when the signed parse hits the
    -- range limit: finding F125 repaired; the numeral of 2^63 and more has no '-', which asn_strtoumax_lim rejects)
    if (-(2 ^ 63) ≤ z ∧ z < 2 ^ 63) ∨ (r = .ulong ∧ 2 ^ 63 ≤ z ∧ z < 2 ^ 64) then
      match intOfOctets r (intOctets z) with
      | some v => .consumed (.int v)
      | none => .broken
    else .broken
  let hex : Pbd :=
    match intHex .skipsp [] chunk with
    | some os =>
      match intOfOctets r os with
      | some v => .consumed (.int v)
      | none => .broken
    | none => .broken
  match chunk.dropWhile isWsP with
  | c :: _ =>
    if c = cLT then
      -- '<' in ST_LEADSPACE: the identifier is looked up from the START of the chunk
      match enumLookup names vals chunk with
      | some z => fin z
      | none => .broken
    else
      match intDecScan .lead [] chunk with
      | some (some num) => fin (numeralVal num)
      | some none => hex
      | none => .broken
  | [] => .ignore

/-- OBJECT_IDENTIFIER__xer_body_decode / RELATIVE_OID__xer_body_decode -/
def oidBody (relative : Bool) (chunk : Bytes) : Pbd :=
  match Impl.Oid.parseArcs chunk with
  | .ok [] _ => .ignore
  | .ok arcs _ =>
    match (if relative then Impl.Oid.roidSetArcs arcs else Impl.Oid.setArcs arcs) with
    | .ok bs => .consumed (.octets bs)
    | _ => .broken
  | _ => .broken

/-! ### OCTET STRING family: `OCTET_STRING__decode_xer` -/

/-- OCTET_STRING__convert_hexadecimal with `have_more` = 1: the half octet left at the end of a chunk
    is completed with a zero nibble -/
def convHex : Option Nat → Bytes → Option Bytes
  | none, [] => some []
  | some hi, [] => some [hi * 16 % 256]
  | half, c :: r =>
    if isWsX c then convHex half r
    else
      match hexValX c with
      | none => none
      | some d =>
        match half with
        | none => convHex (some d) r
        | some hi => (convHex none r).map fun t => ((hi * 16 + d) % 256) :: t

def hexCb : GenCb Bytes where
  unexp := fun _ _ => none
  body := fun s chunk => (convHex none chunk).map fun b => s ++ b

/-- OCTET_STRING__convert_binary: the accumulated value is kept as a list of bits -/
def convBin : Bytes → Option (List Bool)
  | [] => some []
  | c :: r =>
    if isWsX c then convBin r
    else if c = 0x30 then (convBin r).map (false :: ·)
    else if c = 0x31 then (convBin r).map (true :: ·)
    else none

def binCb : GenCb (List Bool) where
  unexp := fun _ _ => none
  body := fun s chunk => (convBin chunk).map fun b => s ++ b

def packBitsF : Nat → List Bool → Bytes
  | 0, _ => []
  | f + 1, bs =>
    if bs = [] then []
    else bitsVal 0 ((bs.take 8) ++ List.replicate (8 - (bs.take 8).length) false) :: packBitsF f (bs.drop 8)
def packBits (bs : List Bool) : Bytes := packBitsF bs.length bs

/-- OS__strtoent: digits up to ';' (`some (value, consumed)`), `none` = character set error or value beyond
    0x10ffff; `value = none`: the end was reached without ';' -/
def strtoent (base : Nat) : Nat → Nat → Bytes → Option (Option Nat × Nat)
  | val, n, [] => some (none, n)
  | val, n, c :: r =>
    if c = 0x3b then some (some val, n + 1)
    else
      match hexValX c with
      | none => none
      | some d =>
        let v := val * base + d
        if v > 0x10ffff then none else strtoent base v (n + 1) r

/-- OCTET_STRING__convert_entrefs with `have_more` = 1 (an incomplete reference is copied verbatim);
    `none` = -1: a numeric character reference without digits or of value 0 (`&#;` `&#x;` `&#0;`) does not denote
    a character (finding F152 repaired: it was `assert(val > 0)`) -/
def convEnt : Nat → Bytes → Option Bytes
  | 0, _ => some []
  | _, [] => some []
  | f + 1, c :: r =>
    if c ≠ 0x26 then (convEnt f r).map (c :: ·)
    else
      match r with
      | [] => some [c]                                  -- "&" at the end: verbatim
      | 0x23 :: r2 =>
        match r2 with
        | [] => (convEnt f r).map (c :: ·)              -- "&#" at the end
        | x :: r3 =>
          let (base, digits) := if x = 0x78 then (16, r3) else (10, r2)
          match strtoent base 0 0 digits with
          | none => (convEnt f r).map (c :: ·)          -- invalid character set: copy verbatim
          | some (some val, len) =>
            -- `!len || pval[len-1] != ';'` cannot hold here
            if val = 0 then none
            else (convEnt f (digits.drop len)).map (utf8Enc val ++ ·)
          | some (none, _) => (convEnt f r).map (c :: ·) -- no ';' before the end of the chunk
      | _ =>
        -- memchr(p, ';', min(len, 5))
        let win := (c :: r).take 5
        match win.findIdx? (· == 0x3b) with
        | none => (convEnt f r).map (c :: ·)
        | some k =>
          if k = 4 ∧ win.take 4 = [0x26, 0x61, 0x6d, 0x70] then (convEnt f ((c :: r).drop 5)).map (0x26 :: ·)
          else if k = 3 ∧ win.take 3 = [0x26, 0x6c, 0x74] then (convEnt f ((c :: r).drop 4)).map (0x3c :: ·)
          else if k = 3 ∧ win.take 3 = [0x26, 0x67, 0x74] then (convEnt f ((c :: r).drop 4)).map (0x3e :: ·)
          else (convEnt f r).map (c :: ·)

/-- OS__check_escaped_control_char: the whole tag must be `<name/>` of the table -/
def ctlOfTag (chunk : Bytes) : Option Nat :=
  let rec go : Nat → List Bytes → Option Nat
    | _, [] => none
    | i, n :: ns => if n ≠ [] ∧ chunk = emptyTag n then some i else go (i + 1) ns
  go 0 ctlNames

def utf8Cb : GenCb Bytes where
  unexp := fun s chunk => (ctlOfTag chunk).map fun c => s ++ [c]
  body := fun s chunk => (convEnt (chunk.length + 1) chunk).map fun b => s ++ b

/-- UTF8String__process: the code points; `none` = any of the U8E_* errors -/
def utf8Points : Nat → Bytes → Option (List Nat)
  | 0, _ => none
  | _, [] => some []
  | f + 1, ch :: r =>
    let want : Nat :=
      if ch < 0x80 then 1 else if ch < 0xc0 then 0 else if ch < 0xe0 then 2 else if ch < 0xf0 then 3
      else if ch < 0xf8 then 4 else if ch < 0xfc then 5 else if ch < 0xfe then 6 else 0
    if want = 0 then none
    else if r.length + 1 < want then none
    else
      let cont := r.take (want - 1)
      if cont.all (fun c => 0x80 ≤ c && c ≤ 0xbf) then
        let value := cont.foldl (fun acc c => acc * 64 + c % 64) (ch % (2 ^ (8 - want)))
        let minv : Nat := match want with | 2 => 0x80 | 3 => 0x800 | 4 => 0x10000 | 5 => 0x200000 | 6 => 0x4000000 | _ => 0
        if value < minv then none
        else (utf8Points f (r.drop (want - 1))).map (value :: ·)
      else none

/-- BMPString_decode_xer after the UTF-8 pass: `UTF8String_to_wcs` answers 0 characters for broken UTF-8
    (so the result is the empty string), a code point above 0xffff fails -/
def bmpOfUtf8 (bs : Bytes) : Option Bytes :=
  match utf8Points (bs.length + 1) bs with
  | none => some []
  | some ps => if ps.all (· ≤ 0xffff) then some (ps.flatMap fun p => [p / 256 % 256, p % 256]) else none

def uniOfUtf8 (bs : Bytes) : Option Bytes :=
  match utf8Points (bs.length + 1) bs with
  | none => some []
  | some ps => some (ps.flatMap fun p => [p / 16777216 % 256, p / 65536 % 256, p / 256 % 256, p % 256])

def decStr {σ : Type} (cb : GenCb σ) (init : σ) (need bs : Bytes) : Option (σ × Bytes) :=
  decGeneral cb need (bs.length + 1) false init bs

/-! ## constructed types -/

/-- `elements[i].optional`: the number of consecutive OPTIONAL / DEFAULT / addition members from `i` on -/
def optCount : List Attr → Nat
  | [] => 0
  | a :: as => if omitable a then optCount as + 1 else 0

/-- the result of looking the tag up among the members `i ..< stop` (`xer_check_tag` against each name) -/
inductive Find where
  | found (i : Nat)
  | notFound (last : Tcv)

/-- the member search loop of SEQUENCE / SET / CHOICE_decode_xer -/
def findMember (chunk : Bytes) : List Bytes → Nat → Nat → Tcv → Find
  | [], _, _, last => .notFound last
  | n :: ns, i, cnt, last =>
    match cnt with
    | 0 => .notFound last
    | cnt + 1 =>
      match checkTag chunk n with
      | .both | .opening => .found i
      | .unkOp => findMember chunk ns (i + 1) cnt .unkOp
      | .unkBo => findMember chunk ns (i + 1) cnt .unkBo
      | t => .notFound t

/-- `xer_skip_unknown`: `none` = -1, otherwise the new depth and the return value 0 / 1 / 2 -/
def skipUnknown (tcv : Tcv) (depth : Nat) : Option (Nat × Nat) :=
  match tcv with
  | .both | .unkBo => some (depth, 0)
  | .opening | .unkOp => some (depth + 1, 0)
  | .closing => if depth - 1 = 0 then some (0, 2) else some (depth - 1, 0)
  | .unkCl => if depth - 1 = 0 then some (0, 1) else some (depth - 1, 0)
  | .broken => none

def absents (n : Nat) : List Val := List.replicate n .absent

/-- `IN_EXTENSION_GROUP(specs, i)` -/
def inExt (fe : Option Nat) (i : Nat) : Bool :=
  match fe with
  | some k => k ≤ i
  | none => false

/-- the test made at the closing tag of a SEQUENCE with `edx` members consumed -/
def seqEndOk (attrs : List Attr) (fe : Option Nat) (edx : Nat) : Bool :=
  edx ≥ attrs.length || edx + optCount (attrs.drop edx) = attrs.length || inExt fe edx

/-- `_SET_is_populated`: every member that is not OPTIONAL / DEFAULT / an addition is present -/
def setPopulated : List Attr → List Val → Bool
  | a :: as, v :: vs => (omitable a || (match v with | .absent => false | _ => true)) && setPopulated as vs
  | _, _ => true

def setAt (vs : List Val) (i : Nat) (v : Val) : List Val := vs.set i v

mutual
/-- `td->op->xer_decoder(ctx, td, &ptr, opt_mname = name, buf, size)` -/
def decTy : Nat → XTy → Bytes → Bytes → Option (Val × Bytes)
  | 0, _, _, _ => none
  | f + 1, t, name, bs =>
    match t with
    | .boolean => decPrim boolBody name bs
    | .null => decPrim nullBody name bs
    | .integer r => decPrim (intBody r [] []) name bs
    | .enumerated ns vs => decPrim (intBody .long ns vs) name bs
    | .oid => decPrim (oidBody false) name bs
    | .roid => decPrim (oidBody true) name bs
    | .hexstr => (decStr hexCb [] name bs).map fun (s, r) => (.octets s, r)
    | .bitstr => (decStr binCb [] name bs).map fun (s, r) => (.bits (packBits s) ((8 - s.length % 8) % 8), r)
    | .utf8str => (decStr utf8Cb [] name bs).map fun (s, r) => (.octets s, r)
    | .timestr _ => (decStr utf8Cb [] name bs).map fun (s, r) => (.octets s, r)
    | .bmpstr =>
      match decStr utf8Cb [] name bs with
      | some (s, r) => (bmpOfUtf8 s).map fun b => (.octets b, r)
      | none => none
    | .unistr =>
      match decStr utf8Cb [] name bs with
      | some (s, r) => (uniOfUtf8 s).map fun b => (.octets b, r)
      | none => none
    | .seq names ms attrs fe => decSeqOpen f names ms attrs fe name bs
    | .set names ms attrs _ ext => decSetOpen f names ms attrs ext name bs
    | .choice names alts ext =>
      if name = [] then decChoiceBody f names alts ext name bs else decChoiceOpen f names alts ext name bs
    | .seqOf _ en e => decListOpen f en e name bs
    | .setOf _ en e => decListOpen f en e name bs
termination_by structural fuel => fuel

/-- SEQUENCE_decode_xer, phase 0 -/
def decSeqOpen : Nat → List Bytes → List XTy → List Attr → Option Nat → Bytes → Bytes → Option (Val × Bytes)
  | 0, _, _, _, _, _, _ => none
  | f + 1, names, ms, attrs, fe, name, bs =>
    match nextTok bs with
    | none => none
    | some (.tag, chunk, rest) =>
      match checkTag chunk name with
      | .both => if seqEndOk attrs fe 0 then some (.seq (absents ms.length), rest) else none
      | .opening => (decSeqBody f names ms attrs fe name 0 rest).map fun (vs, r) => (.seq vs, r)
      | _ => none
    | some (_, _, rest) => decSeqOpen f names ms attrs fe name rest
termination_by structural fuel => fuel

/-- phase 1 at member `edx`; the result lists the values of the members `edx ..` -/
def decSeqBody : Nat → List Bytes → List XTy → List Attr → Option Nat → Bytes → Nat → Bytes → Option (List Val × Bytes)
  | 0, _, _, _, _, _, _, _ => none
  | f + 1, names, ms, attrs, fe, name, edx, bs =>
    match nextTok bs with
    | none => none
    | some (.tag, chunk, rest) =>
      match checkTag chunk name with
      | .closing => if seqEndOk attrs fe edx then some (absents (ms.length - edx), rest) else none
      | .broken | .unkCl => none
      | tcv =>
        let cnt := ms.length
        let fnd : Find :=
          if edx < cnt then findMember chunk (names.drop edx) edx (optCount (attrs.drop edx) + 1) tcv else .notFound tcv
        match fnd with
        | .found n =>
          match ms[n]?, names[n]? with
          | some m, some mn =>
            match decTy f m mn bs with
            | some (v, bs') =>
              (decSeqBody f names ms attrs fe name (n + 1) bs').map fun (vs, r) => (absents (n - edx) ++ v :: vs, r)
            | none => none
          | _, _ => none
        | .notFound last =>
          if inExt fe (edx + (if edx < cnt then optCount (attrs.drop edx) else 0)) then
            if last.closingBit then decSeqBody f names ms attrs fe name edx rest
            else decSeqSkip f names ms attrs fe name edx 1 rest
          else none
    | some (_, _, rest) => decSeqBody f names ms attrs fe name edx rest
termination_by structural fuel => fuel

/-- phase 3: skipping an unknown extension -/
def decSeqSkip : Nat → List Bytes → List XTy → List Attr → Option Nat → Bytes → Nat → Nat → Bytes → Option (List Val × Bytes)
  | 0, _, _, _, _, _, _, _, _ => none
  | f + 1, names, ms, attrs, fe, name, edx, depth, bs =>
    match nextTok bs with
    | none => none
    | some (.tag, chunk, rest) =>
      match skipUnknown (checkTag chunk name) depth with
      | none => none
      | some (d, 0) => decSeqSkip f names ms attrs fe name edx d rest
      | some (_, 1) => decSeqBody f names ms attrs fe name edx rest
      | some (_, _) =>
        -- the tag that closed the unknown extension is the closing tag of the SEQUENCE itself
        if seqEndOk attrs fe edx then some (absents (ms.length - edx), rest) else none
    | some (_, _, rest) => decSeqSkip f names ms attrs fe name edx depth rest
termination_by structural fuel => fuel

/-- SET_decode_xer, phase 0 -/
def decSetOpen : Nat → List Bytes → List XTy → List Attr → Bool → Bytes → Bytes → Option (Val × Bytes)
  | 0, _, _, _, _, _, _ => none
  | f + 1, names, ms, attrs, ext, name, bs =>
    match nextTok bs with
    | none => none
    | some (.tag, chunk, rest) =>
      match checkTag chunk name with
      | .both => if setPopulated attrs (absents ms.length) then some (.seq (absents ms.length), rest) else none
      | .opening => (decSetBody f names ms attrs ext name (absents ms.length) rest).map fun (vs, r) => (.seq vs, r)
      | _ => none
    | some (_, _, rest) => decSetOpen f names ms attrs ext name rest
termination_by structural fuel => fuel

def decSetBody : Nat → List Bytes → List XTy → List Attr → Bool → Bytes → List Val → Bytes → Option (List Val × Bytes)
  | 0, _, _, _, _, _, _, _ => none
  | f + 1, names, ms, attrs, ext, name, acc, bs =>
    match nextTok bs with
    | none => none
    | some (.tag, chunk, rest) =>
      match checkTag chunk name with
      | .closing => if setPopulated attrs acc then some (acc, rest) else none
      | .broken | .unkCl => none
      | tcv =>
        match findMember chunk names 0 ms.length tcv with
        | .found n =>
          match ms[n]?, names[n]?, acc[n]? with
          | some m, some mn, some .absent =>
            match decTy f m mn bs with
            | some (v, bs') => decSetBody f names ms attrs ext name (setAt acc n v) bs'
            | none => none
          | _, _, _ => none          -- duplicate element
        | .notFound last =>
          if ext then
            if last.closingBit then decSetBody f names ms attrs ext name acc rest
            else decSetSkip f names ms attrs ext name acc 1 rest
          else none
    | some (_, _, rest) => decSetBody f names ms attrs ext name acc rest
termination_by structural fuel => fuel

def decSetSkip : Nat → List Bytes → List XTy → List Attr → Bool → Bytes → List Val → Nat → Bytes → Option (List Val × Bytes)
  | 0, _, _, _, _, _, _, _, _ => none
  | f + 1, names, ms, attrs, ext, name, acc, depth, bs =>
    match nextTok bs with
    | none => none
    | some (.tag, chunk, rest) =>
      match skipUnknown (checkTag chunk name) depth with
      | none => none
      | some (d, 0) => decSetSkip f names ms attrs ext name acc d rest
      | some (_, 1) => decSetBody f names ms attrs ext name acc rest
      | some (_, _) => if setPopulated attrs acc then some (acc, rest) else none
    | some (_, _, rest) => decSetSkip f names ms attrs ext name acc depth rest
termination_by structural fuel => fuel

/-- CHOICE_decode_xer, phase 0 -/
def decChoiceOpen : Nat → List Bytes → List XTy → Bool → Bytes → Bytes → Option (Val × Bytes)
  | 0, _, _, _, _, _ => none
  | f + 1, names, alts, ext, name, bs =>
    match nextTok bs with
    | none => none
    | some (.tag, chunk, rest) =>
      match checkTag chunk name with
      | .opening => decChoiceBody f names alts ext name rest
      | _ => none
    | some (_, _, rest) => decChoiceOpen f names alts ext name rest
termination_by structural fuel => fuel

/-- phase 1 -/
def decChoiceBody : Nat → List Bytes → List XTy → Bool → Bytes → Bytes → Option (Val × Bytes)
  | 0, _, _, _, _, _ => none
  | f + 1, names, alts, ext, name, bs =>
    match nextTok bs with
    | none => none
    | some (.tag, chunk, rest) =>
      let tcv := checkTag chunk name
      match tcv with
      | .opening | .unkOp | .unkBo =>
        match findMember chunk names 0 alts.length tcv with
        | .found n =>
          match alts[n]?, names[n]? with
          | some m, some mn =>
            match decTy f m mn bs with
            | some (v, bs') => decChoiceClose f name (.choice n v) bs'
            | none => none
          | _, _ => none
        | .notFound last =>
          if ext then
            -- an unknown extension: the CHOICE ends up with no alternative selected (index = number of alternatives)
            if last.closingBit then decChoiceClose f name (.choice alts.length .absent) rest
            else decChoiceSkip f name alts.length 1 rest
          else none
      | _ => none
    | some (_, _, rest) => decChoiceBody f names alts ext name rest
termination_by structural fuel => fuel

/-- phase 3: only the closing tag is expected (none when the CHOICE has no tag of its own) -/
def decChoiceClose : Nat → Bytes → Val → Bytes → Option (Val × Bytes)
  | 0, _, _, _ => none
  | f + 1, name, v, bs =>
    if name = [] then some (v, bs)
    else
      match nextTok bs with
      | none => none
      | some (.tag, chunk, rest) =>
        match checkTag chunk name with
        | .closing => some (v, rest)
        | _ => none
      | some (_, _, rest) => decChoiceClose f name v rest
termination_by structural fuel => fuel

/-- phase 4 -/
def decChoiceSkip : Nat → Bytes → Nat → Nat → Bytes → Option (Val × Bytes)
  | 0, _, _, _, _ => none
  | f + 1, name, nalts, depth, bs =>
    match nextTok bs with
    | none => none
    | some (.tag, chunk, rest) =>
      match skipUnknown (checkTag chunk name) depth with
      | none => none
      | some (d, 0) => decChoiceSkip f name nalts d rest
      | some (_, 1) => decChoiceClose f name (.choice nalts .absent) rest
      | some (_, _) => some (.choice nalts .absent, rest)
    | some (_, _, rest) => decChoiceSkip f name nalts depth rest
termination_by structural fuel => fuel

/-- SET_OF_decode_xer (also used for SEQUENCE OF), phase 0 -/
def decListOpen : Nat → Bytes → XTy → Bytes → Bytes → Option (Val × Bytes)
  | 0, _, _, _, _ => none
  | f + 1, en, e, name, bs =>
    match nextTok bs with
    | none => none
    | some (.tag, chunk, rest) =>
      match checkTag chunk name with
      | .both => some (.list [], rest)
      | .opening => (decListBody f en e name rest).map fun (vs, r) => (.list vs, r)
      | _ => none
    | some (_, _, rest) => decListOpen f en e name rest
termination_by structural fuel => fuel

def decListBody : Nat → Bytes → XTy → Bytes → Bytes → Option (List Val × Bytes)
  | 0, _, _, _, _ => none
  | f + 1, en, e, name, bs =>
    match nextTok bs with
    | none => none
    | some (.tag, chunk, rest) =>
      match checkTag chunk name with
      | .closing => some ([], rest)
      | .broken | .unkCl => none
      | _ =>
        match decTy f e en bs with
        | some (v, bs') => (decListBody f en e name bs').map fun (vs, r) => (v :: vs, r)
        | none => none
    | some (_, _, rest) => decListBody f en e name rest
termination_by structural fuel => fuel

end

/-- `xer_decode(0, td, &ptr, buf, size)`: value and octets consumed; `none` = RC_FAIL / RC_WMORE -/
def decXERc (t : XTop) (bs : Bytes) : Option (Val × Nat) :=
  (decTy (bs.length + 2) t.ty t.name bs).map fun (v, rest) => (v, bs.length - rest.length)

def decXER (t : XTop) (bs : Bytes) : Option Val := (decXERc t bs).map (·.1)

end Asn1c.L2.Xer
