import Asn1cModel.L2.Resolve
import Asn1cModel.L2.Der
/-
  L2 OER: the OER view `OTy` of a type of the generator's module s-expression (format: see the header
  of `L2/Resolve.lean`).  Only what ITU-T X.696 (08/2015) makes visible to the encoding is kept:

  * §8.2 OER-visible constraints: non-extensible value range / single value on INTEGER, non-extensible
    SIZE on BIT STRING, OCTET STRING and known-multiplier character strings.  Extensible constraints,
    permitted alphabets, SIZE on UTF8String / SEQUENCE OF / SET OF are *not* visible.
  * §10 INTEGER: the four shapes (fixed unsigned 1/2/4/8, fixed signed 1/2/4/8, variable unsigned,
    variable signed) selected from the effective bounds.
  * §20.1 / §8.7 CHOICE: the outermost tag of every alternative (tags resolved by `L2.Resolve`,
    X.680 §31), and which alternatives are extension additions.
  * §16 SEQUENCE: root components and extension additions, OPTIONAL/DEFAULT attributes.
  Tags play no other role in OER.  SET has no OER codec in asn1c (finding F32) and is left out
  (`none` = "unsupported-type"); recursive types are outside the model (`OTy` is a finite tree).
  Core Lean only.
-/
namespace Asn1c.L2.Oer
open Asn1c Asn1c.L2 Asn1c.Impl.BerTlv

/-- X.696 §10: the encoding shape of an INTEGER type -/
inductive IntShape where
  | fixedU (w : Nat)     -- §10.2: w ∈ {1,2,4,8} octets, unsigned
  | fixedS (w : Nat)     -- §10.3: w ∈ {1,2,4,8} octets, two's complement
  | varU                 -- §10.4 a: length determinant + minimal unsigned octets
  | varS                 -- §10.4 b: length determinant + minimal two's complement octets
deriving DecidableEq, Repr, Inhabited

/-- X.696 §10.2–10.4 on the effective (OER-visible) bounds; `none` = MIN / MAX / not visible -/
def intShape (lb ub : Option Int) : IntShape :=
  match lb with
  | none => .varS
  | some l =>
    if 0 ≤ l then
      match ub with
      | none => .varU
      | some u =>
        if u ≤ 2 ^ 8 - 1 then .fixedU 1 else if u ≤ 2 ^ 16 - 1 then .fixedU 2
        else if u ≤ 2 ^ 32 - 1 then .fixedU 4 else if u ≤ 2 ^ 64 - 1 then .fixedU 8 else .varU
    else
      match ub with
      | none => .varS
      | some u =>
        if -(2 ^ 7) ≤ l ∧ u ≤ 2 ^ 7 - 1 then .fixedS 1 else if -(2 ^ 15) ≤ l ∧ u ≤ 2 ^ 15 - 1 then .fixedS 2
        else if -(2 ^ 31) ≤ l ∧ u ≤ 2 ^ 31 - 1 then .fixedS 4
        else if -(2 ^ 63) ≤ l ∧ u ≤ 2 ^ 63 - 1 then .fixedS 8 else .varS

inductive OTy where
  | boolean
  | null
  | integer (sh : IntShape)
  | enumerated
  | real
  /-- OCTET STRING, character strings, OID, time types; `fixed` = number of *octets* when a fixed SIZE is visible -/
  | octets (fixed : Option Nat)
  /-- BIT STRING; `fixed` = number of *bits* when a fixed SIZE is visible -/
  | bits (fixed : Option Nat)
  /-- SEQUENCE: extension root (components + attributes), extensibility, extension additions -/
  | seq (root : List OTy) (rattrs : List Attr) (extensible : Bool) (adds : List OTy) (aattrs : List Attr)
  /-- CHOICE: outermost tag of each alternative; alternatives with index ≥ `nroot` are extension additions -/
  | choice (tags : List Tag) (alts : List OTy) (nroot : Nat)
  | seqOf (e : OTy)
  | setOf (e : OTy)
deriving Repr, Inhabited

/-! ### constraints of the s-expression -/

/-- `- | (lo hi ext)` with `MIN`/`MAX`: OER-visible bounds (X.696 §8.2.4 g: extensible ⇒ not visible) -/
def visibleBounds : Sexp → Option (Option Int × Option Int)
  | .atom "-" => some (none, none)
  | .list [.atom lo, .atom hi, .atom ext] =>
    if ext == "1" then some (none, none)
    else
      let l? : Option (Option Int) := if lo == "MIN" then some none else lo.toInt?.map some
      let h? : Option (Option Int) := if hi == "MAX" then some none else hi.toInt?.map some
      match l?, h? with
      | some l, some h => some (l, h)
      | _, _ => none
  | _ => none

/-- fixed SIZE (lb = ub, not extensible) -/
def fixedSize (c : Sexp) : Option (Option Nat) :=
  match visibleBounds c with
  | some (some l, some h) => if l = h ∧ 0 ≤ l then some (some l.toNat) else some none
  | some _ => some none
  | none => none

/-- octets per character of the known-multiplier character string types (X.696 §27.1–27.3);
    `none`: not a known-multiplier type (UTF8String) -/
def strUnit (k : String) : Option Nat :=
  if k == "IA5String" || k == "VisibleString" || k == "PrintableString" || k == "NumericString" then some 1
  else if k == "BMPString" then some 2 else if k == "UniversalString" then some 4 else none

def splitAt {α : Type} (n : Nat) (xs : List α) : List α × List α := (xs.take n, xs.drop n)

mutual
/-- the OER view of a type expression; `fuel` bounds reference inlining (recursive types → `none`) -/
partial def resolveOTy (ctx : ModCtx) (fuel : Nat) (e : Sexp) : Option OTy :=
  match fuel with
  | 0 => none
  | fuel + 1 =>
  match e with
  | .list [.atom "BOOLEAN", _] => some .boolean
  | .list [.atom "NULL", _] => some .null
  | .list [.atom "INTEGER", _, c] => (visibleBounds c).map fun (l, h) => .integer (intShape l h)
  | .list [.atom "ENUMERATED", _, _, _] => some .enumerated
  | .list [.atom "REAL", _] => some .real
  | .list [.atom "BITSTRING", _, c] => (fixedSize c).map .bits
  | .list [.atom "OCTETSTRING", _, c] => (fixedSize c).map .octets
  | .list [.atom "STR", .atom k, _, c, _] =>
    match L2.strUniv k, strUnit k, fixedSize c with
    | some _, some u, some (some n) => some (.octets (some (u * n)))
    | some _, _, some _ => some (.octets none)
    | _, _, _ => none
  | .list [.atom "OID", _] => some (.octets none)
  | .list [.atom "ROID", _] => some (.octets none)
  | .list [.atom "UTCTime", _] => some (.octets none)
  | .list [.atom "GeneralizedTime", _] => some (.octets none)
  | .list [.atom "SEQOF", _, _, el] => (resolveOTy ctx fuel el).map .seqOf
  | .list [.atom "SETOF", _, _, el] => (resolveOTy ctx fuel el).map .setOf
  | .list [.atom "SEQUENCE", _, ext, .list comps] =>
    match resolveOComps ctx fuel comps, L2.resolveComps ctx fuel ext comps with
    | some ms, some (_, attrs) =>
      let extAt : Nat := match ext with | .atom s => s.toNat?.getD comps.length | _ => comps.length
      some (.seq (ms.take extAt) (attrs.take extAt) (ext != .atom "-") (ms.drop extAt) (attrs.drop extAt))
    | _, _ => none
  | .list [.atom "CHOICE", _, ext, .list alts] =>
    match resolveOComps ctx fuel alts, L2.resolveComps ctx fuel ext alts with
    | some ms, some (tys, _) =>
      let extAt : Nat := match ext with | .atom s => s.toNat?.getD alts.length | _ => alts.length
      -- X.696 §20.1: the outermost tag of the alternative; an untagged CHOICE alternative has none
      (tys.mapM fun t => match L2.outerTags t, L2.isUntaggedChoice t with
                         | [tg], false => some tg
                         | _, _ => none).map fun tags => .choice tags ms extAt
    | _, _ => none
  | .list [.atom "REF", _, .atom name] =>
    match ctx.env.lookup name with
    | none => none
    | some def_ => resolveOTy ctx fuel def_
  | _ => none      -- SET (F32) and anything else
partial def resolveOComps (ctx : ModCtx) (fuel : Nat) (comps : List Sexp) : Option (List OTy) :=
  comps.mapM fun
    | .list (_ :: tE :: _) => resolveOTy ctx fuel tE
    | _ => none
end

def resolveONamed (ctx : ModCtx) (name : String) : Option OTy :=
  (ctx.env.lookup name).bind (resolveOTy ctx 64)

end Asn1c.L2.Oer
