import Asn1cModel.L2.Types
/-
  Generic BER TLV layer: serialisation of `Tlv` trees (any length form) and the parser.
  The primitives are the Impl models of ber_tlv_tag.c / ber_tlv_length.c.
-/
namespace Asn1c.L2
open Asn1c Asn1c.Impl.BerTlv

/-- identifier octets: `ber_tlv_tag_serialize` plus the constructed bit set by `der_write_TL` -/
def tagOctets (t : Tag) (constructed : Bool) : Bytes :=
  match tagSerialize t with
  | [] => []
  | b :: bs => (if constructed then b + 32 else b) :: bs

/-- definite length octets in form `k` (0 = minimal / DER) -/
def lenForm (n k : Nat) : Bytes :=
  if k = 0 then lenSerialize n
  else
    let ds := List.replicate (if n ≤ 127 then k - 1 else k) 0 ++ (if n = 0 then [0] else toBE n)
    (128 + ds.length) :: ds

/-- the form recovered from a definite length `n` written with `ll` length octets -/
def formOf (n ll : Nat) : Nat :=
  if ll ≤ 1 then 0 else if n ≤ 127 then ll - 1 else ll - 1 - (toBE n).length

mutual
def Tlv.enc : Tlv → Bytes
  | .prim t k c => tagOctets t false ++ lenForm c.length k ++ c
  | .cons t (some k) cs => let body := Tlv.encList cs; tagOctets t true ++ lenForm body.length k ++ body
  | .cons t none cs => tagOctets t true ++ [128] ++ Tlv.encList cs ++ [0, 0]
def Tlv.encList : List Tlv → Bytes
  | [] => []
  | x :: xs => Tlv.enc x ++ Tlv.encList xs
end

-- number of nodes (fuel needed by the parser)
mutual
def Tlv.size : Tlv → Nat
  | .prim _ _ _ => 1
  | .cons _ _ cs => 1 + Tlv.sizeList cs
def Tlv.sizeList : List Tlv → Nat
  | [] => 1
  | x :: xs => Tlv.size x + Tlv.sizeList xs
end

inductive PRes (α : Type) where
  | ok (v : α) (rest : Bytes)
  | more
  | fail
deriving Repr

mutual
/-- parse one TLV from the front of `bs` -/
def parseTlv : Nat → Bytes → PRes Tlv
  | 0, _ => .fail
  | f + 1, bs =>
    match fetchTag bs with
    | .more => .more
    | .fail => .fail
    | .ok tag tl =>
      let constructed := isConstructed (bs.headD 0)
      match fetchLength constructed (bs.drop tl) with
      | .more => .more
      | .fail => .fail
      | .ok len ll =>
        let body := bs.drop (tl + ll)
        if len < 0 then
          match parseUntilEoc f body with
          | .ok cs rest => .ok (.cons tag none cs) rest
          | .more => .more
          | .fail => .fail
        else
          let n := len.toNat
          if body.length < n then .more
          else if constructed then
            match parseAll f (body.take n) with
            | some cs => .ok (.cons tag (some (formOf n ll)) cs) (body.drop n)
            | none => .fail
          else .ok (.prim tag (formOf n ll) (body.take n)) (body.drop n)
/-- parse a sequence of TLVs that must consume `bs` exactly -/
def parseAll : Nat → Bytes → Option (List Tlv)
  | 0, _ => none
  | _ + 1, [] => some []
  | f + 1, b :: bs =>
    match parseTlv f (b :: bs) with
    | .ok t rest => (parseAll f rest).map (t :: ·)
    | _ => none
/-- parse TLVs up to the end-of-contents octets `00 00` -/
def parseUntilEoc : Nat → Bytes → PRes (List Tlv)
  | 0, _ => .fail
  | _ + 1, [] => .more
  | _ + 1, [0] => .more
  | _ + 1, 0 :: 0 :: rest => .ok [] rest
  | f + 1, b :: bs =>
    match parseTlv f (b :: bs) with
    | .ok t rest =>
      match parseUntilEoc f rest with
      | .ok ts rest' => .ok (t :: ts) rest'
      | .more => .more
      | .fail => .fail
    | .more => .more
    | .fail => .fail
end

end Asn1c.L2
