import Asn1cModel.Base
import Asn1cModel.Impl.BerTlv
/-
  L2: resolved ASN.1 types (`Ty`), abstract values (`Val`) and generic BER TLV trees (`Tlv`).
  Core Lean only.  `Ty` is the result of tag resolution (X.680 §31: IMPLICIT/EXPLICIT/AUTOMATIC)
  performed by `L2.Resolve` on the generator's module s-expression; references are inlined, so a
  `Ty` is a finite tree (recursive types are outside this model).
-/
namespace Asn1c.L2
open Asn1c Asn1c.Impl.BerTlv

inductive Prim where
  | boolean | null | integer | enumerated | real | octets | bits
deriving DecidableEq, Repr, Inhabited

/-- abstract values; `absent` stands for an OPTIONAL/DEFAULT component that is not present -/
inductive Val where
  | absent
  | bool (b : Bool)
  | null
  | int (z : Int)                 -- INTEGER and ENUMERATED
  | real (bits : Nat)             -- IEEE-754 binary64 bit pattern
  | octets (bs : Bytes)           -- OCTET STRING, character strings, OID contents, time strings
  | bits (bs : Bytes) (unused : Nat)
  | seq (vs : List Val)           -- SEQUENCE / SET: one entry per component, in declaration order
  | choice (idx : Nat) (v : Val)
  | list (vs : List Val)          -- SEQUENCE OF / SET OF
deriving Repr, Inhabited

/-- per-component attributes of SEQUENCE / SET -/
structure Attr where
  optional : Bool            -- OPTIONAL or DEFAULT
  dflt : Option Val          -- DEFAULT value (BOOLEAN / INTEGER / ENUMERATED only)
  ext : Bool                 -- extension addition (after the marker)
deriving Repr, Inhabited

/-- is `v` the DEFAULT value of a component with attributes `a` (C: `default_value_cmp`) -/
def isDefault (a : Attr) (v : Val) : Bool :=
  match a.dflt, v with
  | some (.int d), .int z => d == z
  | some (.bool d), .bool b => d == b
  | _, _ => false

inductive Ty where
  | prim (tags : List Tag) (p : Prim)
  | seq (tags : List Tag) (ms : List Ty) (attrs : List Attr) (extensible : Bool)
  | set (tags : List Tag) (ms : List Ty) (attrs : List Attr) (extensible : Bool)
  | choice (tags : List Tag) (alts : List Ty) (extensible : Bool)    -- tags = [] : untagged CHOICE
  | seqOf (tags : List Tag) (e : Ty)
  | setOf (tags : List Tag) (e : Ty)
deriving Repr, Inhabited

/-- generic BER TLV tree.  `form` records how the length was written:
    `none` = indefinite (constructed only), `some k` = definite with `k` extra leading zero
    length octets beyond the minimal form (`some 0` = DER).  Long form for a short length
    counts as `k ≥ 1`. -/
inductive Tlv where
  | prim (tag : Tag) (form : Nat) (content : Bytes)
  | cons (tag : Tag) (form : Option Nat) (children : List Tlv)
deriving Repr, Inhabited

end Asn1c.L2
