/- S-expressions shared with the Python generator and the C reflection driver (core Lean only). -/
namespace Asn1c

inductive Sexp where
  | atom (s : String)
  | list (xs : List Sexp)
deriving Repr, Inhabited, BEq

namespace Sexp

/-- tokenizer: parentheses and whitespace-separated atoms -/
def tokenize (s : String) : List String :=
  let rec go (cs : List Char) (cur : List Char) (acc : List String) : List String :=
    match cs with
    | [] => (if cur.isEmpty then acc else String.ofList cur.reverse :: acc).reverse
    | c :: rest =>
      if c == '(' || c == ')' then
        let acc := if cur.isEmpty then acc else String.ofList cur.reverse :: acc
        go rest [] (String.singleton c :: acc)
      else if c == ' ' || c == '\n' || c == '\t' || c == '\r' then
        let acc := if cur.isEmpty then acc else String.ofList cur.reverse :: acc
        go rest [] acc
      else go rest (c :: cur) acc
  go s.toList [] []

/-- parse one expression from a token list (fuel = number of tokens) -/
def parseToks : Nat → List String → Option (Sexp × List String)
  | 0, _ => none
  | _, [] => none
  | fuel + 1, t :: rest =>
    if t == "(" then parseList fuel rest []
    else if t == ")" then none
    else some (.atom t, rest)
where
  parseList : Nat → List String → List Sexp → Option (Sexp × List String)
  | 0, _, _ => none
  | _, [], _ => none
  | fuel + 1, t :: rest, acc =>
    if t == ")" then some (.list acc.reverse, rest)
    else
      match parseToks fuel (t :: rest) with
      | some (e, rest') => parseList fuel rest' (e :: acc)
      | none => none

def parse (s : String) : Option Sexp :=
  let toks := tokenize s
  match parseToks (toks.length + 1) toks with
  | some (e, []) => some e
  | _ => none

/-- parse a token list that is already split (driver lines are split on spaces; re-join first) -/
def parseWords (ws : List String) : Option Sexp := parse (String.intercalate " " ws)

partial def toString : Sexp → String
  | .atom s => s
  | .list xs => "(" ++ String.intercalate " " (xs.map toString) ++ ")"

end Sexp
end Asn1c
