"""C07 — encoder API contract: exact size accounting, bounded writes, clean failure.

L: Props/C07.lean (the wrappers of asn_application.c over arbitrary encoder interaction trees / chunk lists).
K: the raw encoder run observed on C (`encraw <syn> <k>`: every chunk handed to the callback + the encoder's
   result, with the callback failing at invocation k) is handed to the Lean model of the wrappers, which must
   predict what asn_encode_to_buffer (every buffer size n), asn_encode_to_new_buffer and asn_encode (callback
   failing at invocation k) return on C.  The model is parametric in the chunk list: a harmless re-chunking of an
   encoder does not alarm.
P: the property predicate evaluated directly on C's outputs (python oracle below) for valid values and for
   invalid structures (one planted defect at every position: constraint violations, NULL mandatory pointers,
   CHOICE present 0 / out of range, zero-initialised members)."""
import re, json, collections, subprocess, os, time
from .. import build, core, genmod, bundle, gfind
from . import c01

DS = ("gen_c07_driver.c", "ops_gen_core.c", "ops_gen_c07.c", "reflect.c")
DEFAULT_OPTS = ("-no-gen-example", "-fcompound-names")
SYNTAXES = c01.SYNTAXES

# Entries used until the coordinator has merged them into KNOWN_FINDINGS.json (same schema; an entry with the
# same id in KNOWN_FINDINGS.json takes precedence).
PROPOSED_FINDINGS = [
    {"id": "F9", "property": "C07", "status": "known",
     "what": "SEQUENCE_encode_oer: a failing output callback aborts the process instead of giving -1/EIO: assert(ret == 0) "
             "after the first preamble bit, and the return value of asn_put_aligned_flush (preamble, extension bitmap) is "
             "ignored, so the encoder reports success and asn_encode's assert(er.encoded == -1) fires (inside an extension addition: "
             "the second pass of oer_open_type_put counts one octet less and its assert(serialized_byte_count == er.encoded) fires)",
     "witness": {"module": "M DEFINITIONS AUTOMATIC TAGS ::= BEGIN S ::= SEQUENCE { a INTEGER (0..255), b BOOLEAN OPTIONAL } END",
                 "type": "S", "op": "enccb oer 1 (seq (a (int 5)))", "expect": "^CRASH .*Assertion"},
     "matcher": "syntax oer, type contains a SEQUENCE with a preamble (OPTIONAL/DEFAULT member or extension marker), callback "
                "failure injected; C dies in `SEQUENCE_encode_oer: Assertion`, in `oer_open_type_put: Assertion` (extensible SEQUENCE) or "
                "(encoder reported success) in `asn_encode: Assertion er.encoded == -1`"},
    {"id": "F7", "property": "C07", "status": "known",
     "what": "SET_OF_encode_uper / SET_OF_encode_der: an element that fails to encode makes SET_OF__encode_sorted return NULL, "
             "which is dereferenced (constr_SET_OF.c:1080 / :481) instead of returning -1",
     "witness": {"module": "M DEFINITIONS AUTOMATIC TAGS ::= BEGIN SO ::= SET OF INTEGER (0..7) END",
                 "type": "SO", "op": "encnew uper (list (int 1) (int 9))", "expect": "^CRASH .*constr_SET_OF.c"},
     "matcher": "syntax uper or der, SET OF with an element the element encoder refuses; C dies inside constr_SET_OF.c with a "
                "null pointer access"},
    {"id": "F72", "property": "C07", "status": "known",
     "what": "SET_OF_encode_uper swallows a callback failure: `if(asn_put_many_bits(...) < 0) break;` leaves only the inner loop, "
             "the encoder returns success with bytes missing (reported size != delivered) and asn_encode aborts on "
             "assert(er.encoded == -1)",
     "witness": {"module": "M DEFINITIONS AUTOMATIC TAGS ::= BEGIN SO ::= SET OF INTEGER (0..255) END",
                 "type": "SO", "op": "enccb uper 0 (list (int 0) (int 1) (int 2) (int 3) (int 4) (int 5) (int 6) (int 7) (int 8) (int 9) (int 10) (int 11) (int 12) (int 13) (int 14) (int 15) (int 16) (int 17) (int 18) (int 19) (int 20) (int 21) (int 22) (int 23) (int 24) (int 25) (int 26) (int 27) (int 28) (int 29) (int 30) (int 31) (int 32) (int 33) (int 34) (int 35) (int 36) (int 37) (int 38) (int 39))", "expect": "^CRASH .*asn_encode: Assertion `er.encoded == -1'"},
     "matcher": "syntax uper, type contains SET OF, callback failure injected, uper_encode itself reports success (encraw k: ret >= 0)"},
    {"id": "F73", "property": "C07", "status": "known",
     "what": "NULL_encode_der ends with ASN__ENCODED_OK even when der_write_tags failed, which clears failed_type: "
             "asn_encode_internal then sets ENOENT and asn_encode aborts on assert(errno == EBADF) when the callback fails "
             "inside a NULL",
     "witness": {"module": "M DEFINITIONS AUTOMATIC TAGS ::= BEGIN N ::= NULL END",
                 "type": "N", "op": "enccb der 0 (null)", "expect": "^CRASH .*asn_encode: Assertion `errno == EBADF'"},
     "matcher": "syntax der, type contains NULL, callback failure injected, der_encode returns -1 with failed_type NULL "
                "(encraw k: ret=-1 ft=null)"},
    {"id": "F78", "property": "C07", "status": "known",
     "what": "BIT_STRING_encode_oer never terminates when a fixed-size BIT STRING (SIZE(n)) value holds fewer than ceil(n/8) octets: "
             "`while(trailing_zeros > 0)` emits zero padding without ever decrementing trailing_zeros (endless callback "
             "invocations; asn_encode_to_new_buffer grows until allocation fails and then spins)",
     "witness": {"module": "M DEFINITIONS AUTOMATIC TAGS ::= BEGIN B ::= BIT STRING (SIZE(8)) END",
                 "type": "B", "op": "encraw oer -1 (bs - 0)", "expect": "^HANG runaway"},
     "matcher": "syntax oer, type contains a fixed-size BIT STRING, planted defect = too short / zero-initialised BIT STRING; the harness "
                "callback sees more than 2^20 invocations with an all-zero last chunk, or (inside an extension addition, where the loop "
                "runs against oer_open_type_put's internal counting callback) the driver's per-line guard reports HANG"},
]


def hx(b): return b.hex() if b else "-"
def unhx(s): return b"" if s in ("-", ".") else bytes.fromhex(s)


# ------------------------------------------------------------------------------------------ invalid structures
class Raw:
    """a literal s-expression planted into a value tree"""
    def __init__(self, text): self.text = text
    def __repr__(self): return "Raw(%s)" % self.text


def render(t, v, env):
    """genmod.val_sexp that understands planted Raw nodes"""
    if isinstance(v, Raw): return v.text
    k = t["k"]
    if k == "REF": return render(env[t["name"]], v, env)
    if k in ("SEQUENCE", "SET"):
        head = "seq" if k == "SEQUENCE" else "set"
        parts = ["(%s %s)" % (c["id"], render(c["type"], v[c["id"]], env)) for c in t["comps"] if c["id"] in v]
        return "(" + " ".join([head] + parts) + ")"
    if k == "CHOICE":
        alt, x = v
        c = next(c for c in t["comps"] if c["id"] == alt)
        return "(choice %s %s)" % (alt, render(c["type"], x, env))
    if k in ("SEQUENCE OF", "SET OF"):
        return "(" + " ".join(["list"] + [render(t["elem"], x, env) for x in v]) + ")"
    return genmod.val_sexp(t, v, env)


def str_bytes(k, s):
    if k == "BMPString": return s.encode("utf-16-be")
    if k == "UniversalString": return s.encode("utf-32-be")
    if k == "UTF8String": return s.encode("utf-8")
    return s.encode("latin1")


def invalid_variants(t, v, env, rng, depth=0):
    """yields (value with one planted defect, kind).  Every position of the value is visited."""
    k = t["k"]
    if k == "REF":
        yield from invalid_variants(env[t["name"]], v, env, rng, depth); return
    if depth > 6: return
    if k == "INTEGER":
        c = t.get("cons")
        if c and not c["ext"]:
            rep = genmod.int_repr(c)
            cands = []
            if c["hi"] is not None: cands.append((c["hi"] + 1, "int-range" if c["lo"] is not None else "int-range-nolb"))
            if c["lo"] is not None and (rep != "ulong" or c["lo"] > 0): cands.append((c["lo"] - 1, "int-range" if c["hi"] is not None else "int-range-semi"))
            for x, kind in cands:
                if rep == "long" and not -(1 << 63) <= x < (1 << 63): continue
                if rep == "ulong" and not 0 <= x < (1 << 63): continue
                yield Raw("(int %d)" % x), kind
    elif k == "ENUMERATED":
        root, extv = genmod.enum_values(t)
        yield Raw("(enum %d)" % (max(root + extv) + 7)), "enum-unknown" if t.get("ext") is None else "enum-unknown-ext"
    elif k in ("OCTET STRING", "BIT STRING") or k in genmod.STRING_KINDS:
        sz = t.get("size")
        def mk(n):
            if k == "BIT STRING":
                nb = (n + 7) // 8
                b = bytearray(b"\xff" * nb)
                un = nb * 8 - n
                if nb: b[-1] = (0xff << un) & 0xff
                return Raw("(bs %s %d)" % (hx(bytes(b)), un))
            if k == "OCTET STRING": return Raw("(os %s)" % hx(bytes([0x41]) * n))
            al = t.get("alpha")
            ch = (al[0][0] if isinstance(al[0], tuple) else al[0]) if al else ("1" if k == "NumericString" else "A")
            return Raw("(os %s)" % hx(str_bytes(k, ch * n)))
        if sz and not sz["ext"]:
            nv = "-notvisible" if k == "UTF8String" else ""      # X.691: not a known-multiplier type, SIZE is not PER-visible
            if sz["hi"] is not None and sz["hi"] < 400: yield mk(sz["hi"] + 1), "size-long" + nv
            if k == "BIT STRING": nv = "-bits"      # asn1c pads a short BIT STRING with zero bits up to the lower bound (F19 family)
            if sz["lo"]: yield mk(sz["lo"] - 1), ("size-short" if sz["hi"] is not None and sz["hi"] < 65536 else "size-short-semi") + nv   # ub >= 64K: general length form (X.691 11.9.4.1), it can carry any length
        if k in ("IA5String", "VisibleString", "PrintableString", "NumericString") and v:
            bad = {"IA5String": 0x80, "VisibleString": 0x1f, "PrintableString": 0x2a, "NumericString": 0x41}[k]
            b = bytearray(str_bytes(k, v)); b[len(b) // 2] = bad
            yield Raw("(os %s)" % hx(bytes(b))), "alphabet"
        if k == "UTF8String": yield Raw("(os c3)"), "utf8-broken"
        if k == "BMPString": yield Raw("(os 410042)"), "bmp-odd"
        if k == "UniversalString": yield Raw("(os 0000004100)"), "univ-odd"
        if k == "BIT STRING": yield Raw("(bs ff 9)"), "bits-unused"
    elif k in ("OBJECT IDENTIFIER", "RELATIVE-OID"):
        yield Raw("(oid 2b8f)"), "oid-truncated"
        yield Raw("(oid -)"), "oid-empty"
    elif k in ("SEQUENCE", "SET"):
        for ci, c in enumerate(t["comps"]):
            if c["id"] in v:
                for x, kind in invalid_variants(c["type"], v[c["id"]], env, rng, depth + 1):
                    w = dict(v); w[c["id"]] = x
                    yield w, kind
            is_addition = t.get("ext") is not None and ci >= t["ext"]     # extension additions are optional in C
            if c.get("opt") is None and c["id"] in v and not is_addition:
                w = dict(v); del w[c["id"]]
                ck = genmod.resolve_kind(c["type"], env)
                if ck == "INTEGER":
                    ct = c["type"]
                    while ct["k"] == "REF": ct = env[ct["name"]]
                    if genmod.int_repr(ct.get("cons")) is None: ck = "INTEGER_t"
                yield w, "omit:" + ck.replace(" ", "_")
    elif k == "CHOICE":
        yield Raw("(choice -none)"), "choice-none"
        yield Raw("(choice -bad)"), "choice-bad"
        alt, x = v
        c = next(c for c in t["comps"] if c["id"] == alt)
        for y, kind in invalid_variants(c["type"], x, env, rng, depth + 1):
            yield (alt, y), kind
    elif k in ("SEQUENCE OF", "SET OF"):
        sz = t.get("size")
        if sz and not sz["ext"]:
            ev = genmod.ValGen(rng, env)
            if sz["hi"] is not None and sz["hi"] < 40:
                yield list(v) + [ev.value(t["elem"], None, depth + 1) for _ in range(sz["hi"] + 1 - len(v))], "list-long"
            if sz["lo"]:
                yield list(v)[:sz["lo"] - 1], "list-short" if sz["hi"] is not None and sz["hi"] < 65536 else "list-short-semi"
        if v:
            i = rng.randrange(len(v))
            for y, kind in invalid_variants(t["elem"], v[i], env, rng, depth + 1):
                w = list(v); w[i] = y
                yield w, kind


# Planted defects for which the value has no encoding at all in the given syntax: success there would be a
# silently wrong encoding.  (BER/XER and OER's ENUMERATED do not depend on the violated constraint; semi-constrained
# sizes/values and OER lengths have a general encoding that can carry the out-of-range value; the remaining
# constraint checking is asn_check_constraints' job — C08 — so success is legitimate elsewhere.)
MUST_FAIL = {
    "choice-none": set(SYNTAXES), "choice-bad": set(SYNTAXES), "omit-pointer": set(SYNTAXES), "omit:CHOICE": set(SYNTAXES),
    "int-range": {"uper"}, "size-long": {"uper"}, "size-short": {"uper"}, "list-long": {"uper"}, "list-short": {"uper"},
    "enum-unknown": {"uper"},
}


def c07_feats(t, env):
    f = set(gfind.features(t, env))
    def walk(t, seen):
        k = t["k"]
        if k == "REF":
            if t["name"] in seen: return
            walk(env[t["name"]], seen | {t["name"]}); return
        if k == "SEQUENCE" and (t.get("ext") is not None or any(c.get("opt") is not None for c in t["comps"])): f.add("seq_preamble")
        if k == "BIT STRING" and t.get("size") and not t["size"]["ext"] and t["size"]["lo"] == t["size"]["hi"]: f.add("bits_fixed_size")
        if k in ("SEQUENCE", "SET", "CHOICE"):
            for c in t["comps"]: walk(c["type"], seen)
        if k in ("SEQUENCE OF", "SET OF"): walk(t["elem"], seen)
    walk(t, set())
    return f


# ------------------------------------------------------------------------------------------ running
def parse_kv(o):
    return dict(p.split("=", 1) for p in o.split(" ") if "=" in p)


class Case:
    __slots__ = ("tn", "syn", "sx", "kind", "raw", "clean", "new", "buf", "cb", "rawk", "lines", "valid", "feats", "must")
    def __init__(self, tn, syn, sx, kind, valid, feats, must=False):
        self.tn, self.syn, self.sx, self.kind, self.valid, self.feats, self.must = tn, syn, sx, kind, valid, feats, must
        self.raw = self.clean = self.new = None
        self.buf = {}; self.cb = {}; self.rawk = {}; self.lines = {}


# leaks on encoder failure paths are C14's subject (F21); here they would only hide the API verdicts
C_ENV = {"ASAN_OPTIONS": "detect_leaks=0:abort_on_error=0:allocator_may_return_null=1"}


def run_safe(ctx, exe, lines, timeout=None):
    """run_c_bisect with a wall-clock limit proportional to the batch (30 s + 20 ms per line + 2 s per MB of input; every
    crash inside costs a process restart, hence the generous slope): a batch that exceeds it is bisected down to `HANG` lines"""
    if not lines: return []
    limit = 30 + 0.02 * len(lines) + 2e-6 * sum(len(l) for l in lines)
    try:
        outs, _ = ctx.run_c_parallel(exe, lines, jobs=8, timeout=limit, env=C_ENV)
        return outs
    except subprocess.TimeoutExpired:
        if len(lines) == 1: return ["HANG (no answer within %ds)" % limit]
        mid = len(lines) // 2
        return run_safe(ctx, exe, lines[:mid]) + run_safe(ctx, exe, lines[mid:])


def run_token(raw):
    """the <run> token of the Lean ops from an `encraw` output line"""
    if raw == "noencoder": return "noencoder"
    kv = parse_kv(raw)
    return "%s:%s:%s" % (kv["ret"], kv["ft"], kv["chunks"])


def dead(o):
    return o is None or o.startswith(("CRASH", "HANG"))


def canon_c(o):
    if o is None: return "NONE"
    if o.startswith("CRASH") and "Assertion" in o: return "abort"
    # errno after a successful call is unspecified (library internals may leave e.g. ERANGE behind)
    if re.match(r"(ret|buf=\w+ encoded)=\d", o): o = re.sub(r"errno=\w+", "errno=0", o)
    return o


class Stats:
    def __init__(self):
        self.fail = collections.OrderedDict()      # class -> [count, sample]
        self.kdis = []
        self.n_cases = self.n_lines = self.n_k = self.n_sizes = 0
        self.hist = collections.Counter()
        self.skipped = collections.Counter()
        self.k_skipped_cost = 0
        self.known = {}
    def add(self, cls, sample):
        e = self.fail.setdefault(cls, [0, sample]); e[0] += 1


def sizes_for(ctx, total, csizes, light):
    if light: return sorted({0, max(total - 1, 0), total, total + 1})
    if total <= 64: return list(range(0, total + 2))
    s = {0, 1, total - 1, total, total + 1, total + 9, 15, 16, 17, 31, 32, 33}
    cum = 0; bounds = []
    for z in csizes:
        cum += z; bounds.append(cum)
    pick = bounds if len(bounds) <= 6 else [bounds[0], bounds[1], bounds[-2]] + ctx.rng.sample(bounds, 3)
    for b in pick: s.update([b - 1, b, b + 1])
    s.update(ctx.rng.randrange(total) for _ in range(3))
    lim = 16 if ctx.quick else 64
    s = sorted(x for x in s if 0 <= x <= total + 9)
    if len(s) > lim:
        keep = {0, total - 1, total, total + 1}
        rest = [x for x in s if x not in keep]
        s = sorted(keep | set(ctx.rng.sample(rest, lim - len(keep))))
    return s


def ks_for(ctx, n, cap):
    if n <= cap: return list(range(n))
    if cap < 6: return sorted({0, n // 2, n - 1})[:cap]
    head = [0, 1, 2, n - 2, n - 1]
    rest = list(range(3, n - 2))
    return sorted(set(head + ctx.rng.sample(rest, cap - len(head))))


def match_known(ctx, case, key, out):
    """narrow matchers of the known findings of C07; key = which line of the case produced `out`"""
    o = out or ""
    kind = key[0] if isinstance(key, tuple) else key
    if o.startswith("CRASH"):
        rawk = case.rawk.get(key[1]) if kind == "cb" else None
        rk = parse_kv(rawk) if rawk and rawk.startswith("ret=") else {}
        if case.syn == "oer" and kind in ("cb", "rawk") and "seq_preamble" in case.feats:
            if "SEQUENCE_encode_oer: Assertion `ret == 0'" in o:
                return ctx.match_finding(lambda f: f["id"] == "F9")
            # the unchecked preamble flush inside an extension addition: the second pass of oer_open_type_put counts one octet less
            if "ext:SEQUENCE" in case.feats and "oer_open_type_put: Assertion `serialized_byte_count == (size_t)er.encoded'" in o:
                return ctx.match_finding(lambda f: f["id"] == "F9")
            if kind == "cb" and "asn_encode: Assertion `er.encoded == -1'" in o and rk and int(rk["ret"]) >= 0:
                return ctx.match_finding(lambda f: f["id"] == "F9")
        if case.syn == "uper" and kind == "cb" and "SET OF" in case.feats and "asn_encode: Assertion `er.encoded == -1'" in o \
           and rk and int(rk["ret"]) >= 0:
            return ctx.match_finding(lambda f: f["id"] == "F72")
        if case.syn == "der" and kind == "cb" and "NULL" in case.feats and "asn_encode: Assertion `errno == EBADF'" in o \
           and rk and rk["ret"] == "-1" and rk["ft"] == "null":
            return ctx.match_finding(lambda f: f["id"] == "F73")
        if case.syn in ("uper", "der") and "SET OF" in case.feats and "constr_SET_OF.c" in o and "null pointer" in o and not case.valid:
            return ctx.match_finding(lambda f: f["id"] == "F7")
        return None
    if o.startswith("HANG") and case.syn == "oer" and "bits_fixed_size" in case.feats and not case.valid \
       and (case.kind.startswith("size-short") or case.kind == "omit:BIT_STRING") \
       and (o == "HANG" or re.search(r"^HANG runaway.*last chunk (00)+$", o)):
        # plain HANG (the driver's per-line guard): the loop runs against an internal callback (oer_open_type_put's counting pass)
        return ctx.match_finding(lambda f: f["id"] == "F78")
    return None


def evaluate(ctx, st, m, txt, opts, cases):
    """P verdicts for the cases of one module"""
    def viol(cls, case, key, out, extra=""):
        st.add(cls, {"module": txt, "opts": list(opts), "type": case.tn, "op": case.lines[key], "c_output": str(out)[:600],
                     "kind": case.kind, "syntax": case.syn, "detail": extra[:300]})
    for c in cases:
        st.n_cases += 1
        st.hist[(("valid" if c.valid else "invalid:" + c.kind.split(":")[0]), c.syn)] += 1
        # ---- crashes / hangs anywhere = failure of P unless a known finding
        fatal = False
        allouts = [("raw", c.raw), ("clean", c.clean), ("new", c.new)] + [(("buf", n), o) for n, o in c.buf.items()] \
            + [(("cb", k), o) for k, o in c.cb.items()] + [(("rawk", k), o) for k, o in c.rawk.items()]
        for key, out in allouts:
            if key not in c.lines: continue                      # operation not run (runaway encoder)
            if out is not None and (out.startswith("load-error") or out in ("bad-op", "no-type", "no-such-type")):
                viol("harness:" + out[:30], c, key, out); fatal = True; continue
            if not dead(out): continue
            if key in ("raw", "clean"): fatal = True
            kf = match_known(ctx, c, key, out)
            if kf:
                st.hist[("known-crash", kf["id"], c.syn)] += 1
                st.known.setdefault(kf["id"], {"module": txt, "type": c.tn, "op": c.lines[key], "c_output": str(out)[:300]})
            else:
                what = "hang" if out and out.startswith("HANG") else "crash"
                site = re.sub(r"^CRASH\s+(driver: )?(/\S*/)?", "", out or "none")
                site = re.sub(r"[^A-Za-z_.:` =-]", "", site)[:50]
                viol(f"{what}:{c.syn}:{c.kind.split(':')[0]}:{site}", c, key, out)
        if fatal or dead(c.clean): continue
        clean = parse_kv(c.clean)
        ret = int(clean["ret"])
        full = unhx(clean["delivered"])
        csizes = [] if clean["chunks"] == "-" else [int(x) for x in clean["chunks"].split(",")]
        # ---- P: reported = delivered (callback variant); clean failure
        if ret >= 0:
            if ret != len(full) or sum(csizes) != ret: viol("P:reported!=delivered", c, "clean", c.clean)
            if c.must: viol("P:unencodable-value-accepted:" + c.kind + ":" + c.syn, c, "clean", c.clean)
            if not c.valid: st.hist[("invalid-accepted", c.kind.split(":")[0], c.syn)] += 1
        else:
            if ret != -1: viol("P:ret<-1", c, "clean", c.clean)
            if clean["errno"] not in ("EBADF", "ENOENT", "EINVAL"): viol("P:failure-without-errno", c, "clean", c.clean)
            st.hist[("valid-value-refused", c.syn) if c.valid else ("invalid-refused", c.kind.split(":")[0], c.syn)] += 1
        # ---- P: asn_encode_to_new_buffer: exact-length, NUL-terminated buffer on success; NULL (and the same -1/errno) on
        #         failure (asn_application.h: "On failure: (.buffer) is NULL"; a buffer handed out with -1 is leaked by every
        #         caller that follows the documentation — F39, fixed)
        if not dead(c.new):
            nb = parse_kv(c.new)
            if ret >= 0:
                if not (c.new.startswith("buf=nonnull") and int(nb["encoded"]) == ret and nb["exact"] == "1" and nb["nul"] == "1"):
                    viol("P:to_new_buffer-not-exact", c, "new", c.new)
            else:
                if int(nb["encoded"]) != -1 or nb["errno"] != clean["errno"]: viol("P:to_new_buffer-failure-differs", c, "new", c.new)
                if not c.new.startswith("buf=null"): viol("P:to_new_buffer-buffer-on-failure", c, "new", c.new)
                else: st.hist[("new-buffer-null-on-failure", c.syn)] += 1
        # ---- P: asn_encode_to_buffer, every size: same size, no overrun, prefix
        for n, o in c.buf.items():
            if dead(o): continue
            st.n_sizes += 1
            kv = parse_kv(o)
            if kv["canary"] != "ok": viol("P:to_buffer-overrun", c, ("buf", n), o)
            if int(kv["ret"]) != ret: viol("P:to_buffer-size-depends-on-n", c, ("buf", n), o, "asn_encode returned %d" % ret)
            if ret < 0:
                if kv["errno"] != clean["errno"]: viol("P:to_buffer-errno-differs", c, ("buf", n), o)
                continue
            w = unhx(kv["wrote"])
            if n >= ret:
                if w != full: viol("P:to_buffer-content", c, ("buf", n), o, "expected " + hx(full)[:200])
            else:
                j = 0
                while j < len(w) and w[j] == full[j]: j += 1
                if len(w) != n or w[j:] != b"\xa5" * (n - j):     # written prefix, then untouched fill
                    viol("P:to_buffer-prefix", c, ("buf", n), o, "expected a prefix of " + hx(full)[:200])
        # ---- P: failing callback => -1 / EIO, delivered bytes are a prefix
        for k, o in c.cb.items():
            if dead(o): continue
            kv = parse_kv(o)
            st.n_k += 1
            if int(kv["ret"]) != -1: viol("P:cb-failure-not--1", c, ("cb", k), o)
            elif kv["errno"] != "EIO": viol("P:cb-failure-errno-not-EIO", c, ("cb", k), o)
            d = unhx(kv["delivered"])
            if full[:len(d)] != d: viol("P:cb-delivered-not-prefix", c, ("cb", k), o)
            elif len(d) != sum(csizes[:k]): viol("P:cb-delivered-wrong-prefix-length", c, ("cb", k), o)
        if ret >= 0 and c.buf and c.cb: ctx.count_nontrivial((m["name"], c.tn, c.syn, c.sx[:120]))
        elif ret < 0: ctx.count_nontrivial((m["name"], c.tn, c.syn, c.kind, c.sx[:120]))


def correspond(ctx, st, m, txt, opts, cases):
    """K leg: the Lean wrappers applied to the raw run observed on C must predict every wrapper output"""
    mlines = []; meta = []
    COST = 4e5 if ctx.quick else 4e6      # list-model cost estimate of one line (chunks x octets)
    def add(c, key, cout, ml, cost):
        if cost > COST: st.k_skipped_cost += 1; return
        mlines.append(ml); meta.append((c, key, cout))
    for c in cases:
        if dead(c.raw) or not (c.raw.startswith("ret=") or c.raw == "noencoder"): continue
        tok = run_token(c.raw)
        nch = tok.count(",") + 1
        size = len(tok) // 2
        if c.clean is not None: add(c, "clean", c.clean, f"c07.cb {c.syn} -1 {tok}", size + nch)
        if c.new is not None: add(c, "new", c.new, f"c07.tonew {c.syn} {tok}", nch * size // 2)
        for n, o in c.buf.items(): add(c, ("buf", n), o, f"c07.tobuf {c.syn} {n} {tok}", nch * (n + 64) + size)
        for k, o in c.cb.items():
            rk = c.rawk.get(k)
            if dead(rk) or not rk.startswith("ret="): continue      # the raw encoder itself dies: P leg
            add(c, ("cb", k), o, f"c07.cb {c.syn} {k} {run_token(rk)}", size + nch)
    if not mlines: return
    if not getattr(ctx, "driver_ok", True):
        if not any(b.get("name") == "application" for b in ctx.broken):
            ctx.broken.append({"kind": "correspondence", "name": "application", "msg": "Lean driver does not build"})
        return
    rc, mouts, merr = ctx.run_lines(build.model_exe(), mlines)
    if rc != 0 or len(mouts) != len(mlines):
        raise RuntimeError("model driver failed: rc=%s %s" % (rc, merr[-500:]))
    cs = ctx.cov["correspondence"].setdefault("application", {"lines": 0, "disagreements": 0, "c_crashes": 0, "model_aborts_matching_c": 0})
    for (c, key, cout), ml, mo in zip(meta, mlines, mouts):
        cs["lines"] += 1
        cc = canon_c(cout)
        if cc.startswith(("CRASH", "HANG")):
            cs["c_crashes"] += 1        # sanitizer death / hang: P leg's business, not predictable by the wrapper model
            continue
        if cc == mo:
            if mo == "abort": cs["model_aborts_matching_c"] += 1
            continue
        cs["disagreements"] += 1
        st.kdis.append({"module": txt, "opts": list(opts), "type": c.tn, "op": c.lines[key], "c_output": str(cout)[:600],
                        "model_op": ml[:2000], "model_output": mo[:600]})
    if len(ctx.cov["samples"]) < 10:
        for j in sorted({0, len(mlines) // 2, len(mlines) - 1}):
            c, key, cout = meta[j]
            ctx.cov["samples"].append({"op": c.lines[key][:300], "c": str(cout)[:300], "model_op": mlines[j][:300], "model": mouts[j][:300]})


def process_module(ctx, st, m, items, opts=DEFAULT_OPTS):
    """items: list of (type name, sexp, kind, valid, must_fail_syntaxes)"""
    txt = m.get("text") or genmod.module_text(m)
    env = dict(m["types"])
    b = bundle.Bundle(m["name"], txt, [n for n, _ in m["types"]], driver_sources=DS, opts=opts)
    try:
        exe = b.build()
    except bundle.Asn1cFailed as e:
        ctx.log("asn1c rejected module", m["name"], e.out.strip().split("\n")[0][:160]); b.cleanup(); return False
    except build.BuildError as e:
        # F43 (C10): a negative DEFAULT makes asn1c emit the identifier `asn_DFL_<n>_cmp_-3`; nothing of C07 to see there
        if re.search(r"asn_DFL_\d+_(cmp|set)_-", str(e)):
            ctx.log("module", m["name"], "skipped: generated C does not compile (negative DEFAULT identifier, F43)")
            st.skipped["F43-module"] += 1; b.cleanup(); return False
        b.cleanup(); raise
    try:
        cases = []
        featc = {}
        for tn, sx, kind, valid, must in items:
            if tn not in featc: featc[tn] = c07_feats(env[tn], env)
            feats = featc[tn]
            for syn in SYNTAXES:
                if c01.skip_region(syn, feats, st.skipped): continue
                if syn in ("xer", "cxer") and len(sx) > 20000: continue
                cases.append(Case(tn, syn, sx, kind, valid, feats, syn in must))
        # phase 0: the raw encoder run (its callback stops a runaway encoder: such cases get no further operations,
        # the library's own callbacks would loop forever)
        t0 = time.time()
        for c in cases: c.lines["raw"] = f"@{c.tn} encraw {c.syn} -1 {c.sx}"
        outs0 = run_safe(ctx, exe, [c.lines["raw"] for c in cases])
        for c, o in zip(cases, outs0): c.raw = o
        # phase 1: clean callback run, new buffer
        lines = []; live = [c for c in cases if not dead(c.raw)]
        for c in live:
            c.lines["clean"] = f"@{c.tn} enccb {c.syn} -1 {c.sx}"
            c.lines["new"] = f"@{c.tn} encnew {c.syn} {c.sx}"
            lines += [c.lines["clean"], c.lines["new"]]
        outs = run_safe(ctx, exe, lines)
        t1 = time.time()
        for i, c in enumerate(live):
            c.clean, c.new = outs[2 * i: 2 * i + 2]
        # phase 2: buffer sizes and failing callback indices
        lines = []; where = []
        kcap = 10 if ctx.quick else 100
        for c in live:
            if c.clean is None or not c.clean.startswith("ret="): continue
            kv = parse_kv(c.clean)
            ret = int(kv["ret"])
            csizes = [] if kv["chunks"] == "-" else [int(x) for x in kv["chunks"].split(",")]
            if ret >= 0:
                light = ret > 2048 or not c.valid
                ns = sizes_for(ctx, ret, csizes, light)
                cap = 3 if light else kcap
                # regions of the known callback-failure findings: a few probes only (every hit costs a process restart)
                if (c.syn == "oer" and "seq_preamble" in c.feats) or (c.syn == "uper" and "SET OF" in c.feats) \
                   or (c.syn == "der" and "NULL" in c.feats): cap = min(cap, 3 if ctx.quick else 8)
                ks = ks_for(ctx, len(csizes), cap)
            else:
                ns = [0, 1, 64]
                ks = list(range(min(len(csizes), 2)))
            for n in ns:
                c.lines[("buf", n)] = f"@{c.tn} encbuf {c.syn} {n} {c.sx}"; lines.append(c.lines[("buf", n)]); where.append((c, "buf", n))
            for k in ks:
                c.lines[("cb", k)] = f"@{c.tn} enccb {c.syn} {k} {c.sx}"; lines.append(c.lines[("cb", k)]); where.append((c, "cb", k))
                c.lines[("rawk", k)] = f"@{c.tn} encraw {c.syn} {k} {c.sx}"; lines.append(c.lines[("rawk", k)]); where.append((c, "rawk", k))
        outs2 = run_safe(ctx, exe, lines)
        t2 = time.time()
        for (c, what, x), o in zip(where, outs2):
            {"buf": c.buf, "cb": c.cb, "rawk": c.rawk}[what][x] = o
        st.n_lines += len(cases) + 2 * len(live) + len(lines)
        evaluate(ctx, st, m, txt, opts, cases)
        t3 = time.time()
        correspond(ctx, st, m, txt, opts, cases)
        if os.environ.get("C07_TIMES"):
            ncr = sum(1 for o in outs0 + outs + outs2 if dead(o))
            ctx.log(f"module {m['name']}: cases={len(cases)} phase1={t1-t0:.1f}s ({3*len(cases)} lines) phase2={t2-t1:.1f}s "
                    f"({len(lines)} lines) crashes={ncr} eval={t3-t2:.1f}s K={time.time()-t3:.1f}s")
    finally:
        b.cleanup()
    return True


# ------------------------------------------------------------------------------------------ fixed module (d)
INV_TEXT = """INV DEFINITIONS AUTOMATIC TAGS ::= BEGIN
  A ::= SEQUENCE { x INTEGER (0..7), b B }
  B ::= CHOICE { n NULL, a A, i INTEGER (0..3), s IA5String (SIZE(1..3)) }
  L ::= SEQUENCE { v INTEGER (0..255), next L OPTIONAL }
  P ::= SEQUENCE { c CHOICE { p P, z NULL }, s OCTET STRING (SIZE(2)) }
  W ::= SEQUENCE { o BOOLEAN OPTIONAL, c B, ..., e INTEGER (0..7) OPTIONAL }
  Q ::= SEQUENCE OF B
  U ::= SET OF INTEGER (0..7)
  V ::= SET OF B
  SQ ::= SEQUENCE { a INTEGER (0..255), b BOOLEAN OPTIONAL }
  SO ::= SET OF INTEGER (0..255)
  N ::= NULL
  Z ::= SEQUENCE { a OCTET STRING, b BOOLEAN }
  BF ::= BIT STRING (SIZE(16))
  BF256 ::= BIT STRING (SIZE(256))
END
"""


def inv_module_cases():
    """fixed module compiled with -findirect-choice: NULL mandatory pointers (A.b is `struct B *b`, not OPTIONAL),
    unselected / out-of-range CHOICE at every depth, the witness shapes of F7/F9/F72/F73"""
    T = lambda k, **kw: dict(k=k, **kw)
    I = lambda lo, hi: T("INTEGER", cons=genmod.cons(lo, hi))
    types = [
        ("A", T("SEQUENCE", comps=[{"id": "x", "type": I(0, 7)}, {"id": "b", "type": T("REF", name="B")}])),
        ("B", T("CHOICE", comps=[{"id": "n", "type": T("NULL")}, {"id": "a", "type": T("REF", name="A")}, {"id": "i", "type": I(0, 3)},
                                 {"id": "s", "type": T("IA5String", size=genmod.cons(1, 3))}])),
        ("L", T("SEQUENCE", comps=[{"id": "v", "type": I(0, 255)}, {"id": "next", "type": T("REF", name="L"), "opt": "OPTIONAL"}])),
        ("P", T("SEQUENCE", comps=[{"id": "c", "type": T("CHOICE", comps=[{"id": "p", "type": T("REF", name="P")}, {"id": "z", "type": T("NULL")}])},
                                   {"id": "s", "type": T("OCTET STRING", size=genmod.cons(2, 2))}])),
        ("W", T("SEQUENCE", comps=[{"id": "o", "type": T("BOOLEAN"), "opt": "OPTIONAL"}, {"id": "c", "type": T("REF", name="B")},
                                   {"id": "e", "type": I(0, 7), "opt": "OPTIONAL"}], ext=2)),
        ("Q", T("SEQUENCE OF", elem=T("REF", name="B"), size=None)),
        ("U", T("SET OF", elem=I(0, 7), size=None)),
        ("V", T("SET OF", elem=T("REF", name="B"), size=None)),
        ("SQ", T("SEQUENCE", comps=[{"id": "a", "type": I(0, 255)}, {"id": "b", "type": T("BOOLEAN"), "opt": "OPTIONAL"}])),
        ("SO", T("SET OF", elem=I(0, 255), size=None)),
        ("N", T("NULL")),
        ("Z", T("SEQUENCE", comps=[{"id": "a", "type": T("OCTET STRING")}, {"id": "b", "type": T("BOOLEAN")}])),
        ("BF", T("BIT STRING", size=genmod.cons(16, 16))),
        ("BF256", T("BIT STRING", size=genmod.cons(256, 256))),     # short values are zero-padded by the OER encoder in 16-octet chunks
    ]
    m = {"name": "INV", "tagdefault": "AUTOMATIC", "text": INV_TEXT, "types": types}
    allsyn = set(SYNTAXES)
    items = []
    def add(tn, sx, kind, valid=False, must=allsyn): items.append((tn, sx, kind, valid, set() if valid else must))
    add("A", "(seq (x (int 1)) (b (choice n (null))))", "valid", True)
    add("A", "(seq (x (int 1)) (b (choice a (seq (x (int 2)) (b (choice i (int 3)))))))", "valid", True)
    add("A", "(seq (x (int 1)))", "omit-pointer")                                         # NULL mandatory pointer
    add("A", "(seq (x (int 1)) (b (choice a (seq (x (int 2))))))", "omit-pointer")        # ... one level down
    add("A", "(seq (x (int 1)) (b (choice -none)))", "choice-none")
    add("A", "(seq (x (int 1)) (b (choice -bad)))", "choice-bad")
    add("A", "(seq (x (int 1)) (b (choice a (seq (x (int 2)) (b (choice -none))))))", "choice-none")
    add("A", "(seq (x (int 9)) (b (choice n (null))))", "int-range", must={"uper"})
    add("A", "(seq (x (int 1)) (b (choice i (int 4))))", "int-range", must={"uper"})
    add("A", "(seq (x (int 1)) (b (choice s (os 41424344))))", "size-long", must={"uper"})
    add("A", "(seq (x (int 1)) (b (choice s (os -))))", "size-short", must={"uper"})
    add("B", "(choice -none)", "choice-none"); add("B", "(choice -bad)", "choice-bad")
    add("B", "(choice i (int 2))", "valid", True); add("B", "(choice s (os 414243))", "valid", True)
    add("L", "(seq (v (int 1)) (next (seq (v (int 2)) (next (seq (v (int 3)))))))", "valid", True)
    add("L", "(seq (v (int 1)) (next (seq (v (int 256)))))", "int-range", must={"uper"})
    add("P", "(seq (c (choice z (null))) (s (os 0102)))", "valid", True)
    add("P", "(seq (c (choice p (seq (c (choice z (null))) (s (os 0304))))) (s (os 0102)))", "valid", True)
    add("P", "(seq (c (choice -none)) (s (os 0102)))", "choice-none")
    add("P", "(seq (s (os 0102)))", "choice-none")                                        # zero-initialised inline CHOICE
    add("P", "(seq (c (choice p (seq (c (choice -bad)) (s (os 0304))))) (s (os 0102)))", "choice-bad")
    add("P", "(seq (c (choice z (null))) (s (os 010203)))", "size-long", must={"uper"})
    add("P", "(seq (c (choice z (null))))", "omit:OCTET_STRING", must={"uper"})           # zero-initialised OCTET STRING (SIZE(2))
    add("W", "(seq (o (bool t)) (c (choice n (null))) (e (int 3)))", "valid", True)
    add("W", "(seq (c (choice i (int 1))))", "valid", True)
    add("W", "(seq (o (bool t)) (e (int 3)))", "choice-none")
    add("W", "(seq (c (choice -none)) (e (int 3)))", "choice-none")
    add("W", "(seq (c (choice n (null))) (e (int 8)))", "int-range", must={"uper"})
    add("Q", "(list (choice n (null)) (choice i (int 1)))", "valid", True)
    add("Q", "(list (choice n (null)) (choice -none))", "choice-none")
    add("Q", "(list (choice -bad) (choice n (null)))", "choice-bad")
    add("Q", "(list (choice i (int 5)))", "int-range", must={"uper"})
    add("U", "(list (int 1) (int 2) (int 7))", "valid", True)
    add("U", "(list (int 1) (int 9))", "int-range", must={"uper"})                       # F7 witness shape
    add("V", "(list (choice n (null)) (choice i (int 1)))", "valid", True)
    add("V", "(list (choice n (null)) (choice -none))", "choice-none")
    add("SQ", "(seq (a (int 5)))", "valid", True); add("SQ", "(seq (a (int 5)) (b (bool t)))", "valid", True)
    add("SO", "(list (int 1) (int 2) (int 3))", "valid", True); add("SO", "(list)", "valid", True)
    add("N", "(null)", "valid", True)
    add("Z", "(seq (a (os 0102)) (b (bool t)))", "valid", True)
    add("Z", "(seq (b (bool t)))", "omit:OCTET_STRING", must=set())                       # cb(NULL, 0): F51 (C04) territory
    add("BF", "(bs a5c3 0)", "valid", True)
    add("BF", "(bs a5 0)", "size-short-bits", must=set())                                # F78 witness shape (OER never terminates)
    add("BF", "(bs a5c3ff 0)", "size-long", must={"uper"})
    add("BF256", "(bs " + "a5" * 32 + " 0)", "valid", True)
    for nshort in (31, 17, 16, 15, 8, 1):      # 1, 15, 16, 17, 24, 31 octets of padding: reported size = delivered bytes whatever the encoder decides
        add("BF256", "(bs " + "c3" * nshort + " 0)", "size-short-bits", must=set())
    return m, items


# ------------------------------------------------------------------------------------------ report / replay / run
def report(ctx, st):
    if os.environ.get("C07_DUMP"):
        json.dump({"fail": st.fail, "kdis": st.kdis[:50], "known": st.known}, open(os.environ["C07_DUMP"], "w"), indent=1)
    shown = 0
    for cls, (n, sample) in st.fail.items():
        if shown >= 6:
            ctx.log("FAIL (more)", n, cls); continue
        shown += 1
        ctx.violation(f"C07 predicate fails on C [{cls}] x{n}: type {sample['type']}: {sample['op'][:160]} -> {sample['c_output'][:160]}",
                      dict(sample, count_in_class=n, failure=cls))
    if st.kdis:
        ctx.broken.append({"kind": "correspondence", "name": "application", "disagreements": len(st.kdis), "first": st.kdis[0]})
        for d in st.kdis[:3]:
            ctx.log("K-DISAGREE", d["op"][:140], "| C:", d["c_output"][:140], "| model:", d["model_output"][:140])
        if not st.fail:
            d = st.kdis[0]
            ctx.violation("C07 correspondence: the model of asn_application.c no longer predicts C "
                          f"({len(st.kdis)} lines), first: {d['op'][:120]} C={d['c_output'][:100]} model={d['model_output'][:100]}",
                          d, found_input=False)


def replay(ctx, path):
    r = json.load(open(path))
    if "module" not in r: print(json.dumps(r.get("broken"), indent=1)[:3000]); return
    names = re.findall(r"^\s*([A-Za-z][\w-]*)\s*::=", r["module"], re.M)
    b = bundle.Bundle("replay", r["module"], names, driver_sources=DS, opts=tuple(r.get("opts") or DEFAULT_OPTS))
    exe = b.build()
    outs = run_safe(ctx, exe, [r["op"]])
    print("replay:", r["op"][:300], "=>", str(outs[0])[:600])
    if r.get("model_op"):
        ctx.lean()
        rc, mo, _ = ctx.run_lines(build.model_exe(), [r["model_op"]])
        print("model :", r["model_op"][:300], "=>", (mo or ["?"])[0][:600])
    b.cleanup()


def pick_values(ctx, tn, vals, fixed):
    """quick tier, boundary module: the small values, one large one (the largest too for BOs)"""
    if not (fixed and ctx.quick): return vals
    if tn.startswith(("BI", "BJ")):
        return vals if len(vals) <= 4 else [vals[0], vals[1], vals[len(vals) // 2], vals[-1]]
    small = [v for v in vals if len(repr(v)) < 1500]
    big = [v for v in vals if len(repr(v)) >= 1500]
    return small[:6] + big[:1] + (big[-1:] if tn == "BOs" else [])


def run(ctx):
    ids = {f["id"] for f in ctx.findings}
    ctx.findings += [f for f in PROPOSED_FINDINGS if f["id"] not in ids]
    ctx.lean()
    st = Stats()
    # witnesses written for this driver's operations only (shared entries may carry another property's witness, e.g. F7/C14)
    known_ops = {"encraw", "encbuf", "encnew", "enccb", "rt", "enc", "dec", "echo", "check", "cmp", "transcode", "decchunks"}
    allf = ctx.findings
    ctx.findings = [f for f in allf if f.get("witness", {}).get("op", "").split(" ")[0] in known_ops]
    gfind.replay_witnesses(ctx, driver_sources=DS)
    ctx.findings = allf
    rng = ctx.rng
    nb = int(os.environ.get("C07_NB", 5 if ctx.quick else 20))
    nvals = 5 if ctx.quick else 16
    nvar = 8 if ctx.quick else 60
    built = 0
    bm, bvals = genmod.boundary_module(rng, ctx.quick)
    mods = [(bm, bvals)] + [(mm, None) for mm in c01.gen_bundles(ctx, nb)]
    for m, fixed in mods:
        env = dict(m["types"])
        vg = genmod.ValGen(rng, env)
        items = []
        for n, t in m["types"]:
            vals = pick_values(ctx, n, fixed[n] if fixed is not None else vg.values(t, nvals), fixed is not None)
            for v in vals:
                items.append((n, genmod.val_sexp(t, v, env), "valid", True, set()))
            # (d) one planted defect at every position of one (thorough: two) base values
            bases = vals[:1] + ([vals[len(vals) // 2]] if len(vals) > 2 and not ctx.quick else [])
            seen = set()
            for bv in bases:
                if len(repr(bv)) > 3000: continue
                cnt = 0
                for w, kind in invalid_variants(t, bv, env, rng):
                    sx = render(t, w, env)
                    if sx in seen: continue
                    seen.add(sx); cnt += 1
                    items.append((n, sx, kind, False, MUST_FAIL.get(kind, set())))
                    if cnt >= nvar: break
        if process_module(ctx, st, m, items): built += 1
    im, iitems = inv_module_cases()
    if process_module(ctx, st, im, iitems, opts=DEFAULT_OPTS + ("-findirect-choice",)): built += 1
    ctx.cov["evaluations"] += st.n_lines
    ctx.cov["programs"] = built
    ctx.cov["predicate"]["api_contract"] = {
        "modules_built": built, "cases": st.n_cases, "c_lines": st.n_lines, "buffer_sizes_checked": st.n_sizes,
        "callback_failure_points": st.n_k, "failure_classes": len(st.fail), "skipped_known_regions": dict(st.skipped),
        "K_lines_skipped_for_cost": st.k_skipped_cost,
        "histogram": {"/".join(k): v for k, v in sorted(st.hist.items())}}
    ctx.cov["rule"] = ("generated modules + boundary module + fixed recursive module (-findirect-choice); per (type, value, syntax): raw "
                       "encoder run, asn_encode_to_buffer at every size 0..n+1 (n <= 64; chunk boundaries +-1 and samples beyond), "
                       "asn_encode_to_new_buffer, asn_encode with the callback failing at each invocation index (capped per case); invalid "
                       "structures by planting one defect at every position; distinct = distinct (module, type, syntax, value); "
                       "non-trivial = the case went through the size sweep and the failure sweep (valid) or was refused by the encoder")
    report(ctx, st)
    for key, n in sorted(st.hist.items()):
        if key[0] in ("valid-value-refused", "known-crash", "new-buffer-null-on-failure", "invalid-accepted"): ctx.log("stat", "/".join(key), n)
