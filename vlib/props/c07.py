"""C07 — encoder API contract: exact size accounting, bounded writes, clean failure.

L: Props/C07.lean (wrappers of asn_application.c over arbitrary encoder interaction trees / chunk lists).
K: the raw encoder run observed on C (`encraw`: chunk list + result of der_encode/uper_encode/oer_encode/xer_encode)
   is handed to the Lean model of the wrappers, which must predict what asn_encode_to_buffer (every buffer
   size n), asn_encode_to_new_buffer and asn_encode (callback failing at invocation k) return on C.
P: the property predicate evaluated directly on C's outputs (python oracle below), valid values and
   invalid structures (constraint violations at every position, NULL mandatory pointers, CHOICE present 0 / bad,
   partially initialised members)."""
import re, json, collections, subprocess, os
from .. import build, core, genmod, bundle, gfind
from . import c01

DS = ("gen_c07_driver.c", "ops_gen_core.c", "ops_gen_c07.c", "reflect.c")
SYNTAXES = c01.SYNTAXES
FILL = "a5"

# Entries used until the coordinator has merged them into KNOWN_FINDINGS.json (same schema; an entry with the
# same id in KNOWN_FINDINGS.json takes precedence).
PROPOSED_FINDINGS = [
    {"id": "F9", "property": "C07", "status": "known",
     "what": "SEQUENCE_encode_oer: a failing output callback aborts the process (assert(ret == 0) on the first preamble bit; "
             "the return value of asn_put_aligned_flush for the preamble / extension bitmap is ignored, so the encoder "
             "reports success and asn_encode's assert(er.encoded == -1) fires) instead of returning -1/EIO",
     "witness": {"module": "M DEFINITIONS AUTOMATIC TAGS ::= BEGIN S ::= SEQUENCE { a INTEGER (0..255), b BOOLEAN OPTIONAL } END",
                 "type": "S", "op": "enccb oer 1 (seq (a (int 5)))", "expect": "^CRASH .*Assertion"},
     "matcher": "syntax oer, type contains a SEQUENCE with a preamble (OPTIONAL/DEFAULT member or extension marker), "
                "callback failure injected; C dies in `SEQUENCE_encode_oer: Assertion` or `asn_encode: Assertion`"},
    {"id": "F7", "property": "C07", "status": "known",
     "what": "SET_OF_encode_uper: an element that fails to encode makes SET_OF__encode_sorted return NULL, which is "
             "dereferenced (constr_SET_OF.c:1080) instead of returning -1",
     "witness": {"module": "M DEFINITIONS AUTOMATIC TAGS ::= BEGIN SO ::= SET OF INTEGER (0..7) END",
                 "type": "SO", "op": "encnew uper (list (int 1) (int 9))", "expect": "^CRASH .*constr_SET_OF.c"},
     "matcher": "syntax uper (or der), SET OF whose element encoder fails; C dies inside constr_SET_OF.c with a null "
                "pointer access"},
]


def hx(b): return b.hex() if b else "-"
def unhx(s): return b"" if s in ("-", ".") else bytes.fromhex(s)


class Raw:
    """a literal s-expression planted into a value tree"""
    def __init__(self, text): self.text = text
    def __repr__(self): return "Raw(%s)" % self.text


def render(t, v, env):
    """genmod.val_sexp that understands planted Raw nodes"""
    if isinstance(v, Raw): return v.text
    k = t["k"]
    if k == "REF": return render(env[t["name"]], v, env)
    if k in ("SEQUENCE", "SET"):
        head = "seq" if k == "SEQUENCE" else "set"
        parts = ["(%s %s)" % (c["id"], render(c["type"], v[c["id"]], env)) for c in t["comps"] if c["id"] in v]
        return "(" + " ".join([head] + parts) + ")"
    if k == "CHOICE":
        alt, x = v
        c = next(c for c in t["comps"] if c["id"] == alt)
        return "(choice %s %s)" % (alt, render(c["type"], x, env))
    if k in ("SEQUENCE OF", "SET OF"):
        return "(" + " ".join(["list"] + [render(t["elem"], x, env) for x in v]) + ")"
    return genmod.val_sexp(t, v, env)


def str_bytes(k, s):
    if k == "BMPString": return s.encode("utf-16-be")
    if k == "UniversalString": return s.encode("utf-32-be")
    if k == "UTF8String": return s.encode("utf-8")
    return s.encode("latin1")


def invalid_variants(t, v, env, rng, depth=0):
    """yields (value-with-one-planted-defect, kind).  kind names the defect class; `must` = syntaxes in which
    the value has no encoding at all (so success would be a silent mis-encoding)."""
    k = t["k"]
    if k == "REF":
        yield from invalid_variants(env[t["name"]], v, env, rng, depth); return
    if depth > 6: return
    if k == "INTEGER":
        c = t.get("cons")
        if c and not c["ext"]:
            rep = genmod.int_repr(c)
            cands = []
            if c["hi"] is not None: cands.append(c["hi"] + 1)
            if c["lo"] is not None and (rep != "ulong" or c["lo"] > 0): cands.append(c["lo"] - 1)
            for x in cands:
                if rep == "long" and not -(1 << 63) <= x < (1 << 63): continue
                if rep == "ulong" and not 0 <= x < (1 << 63): continue
                if not -(1 << 100) < x < (1 << 100): continue
                yield Raw("(int %d)" % x), "int-range"
    elif k == "ENUMERATED":
        root, extv = genmod.enum_values(t)
        yield Raw("(enum %d)" % (max(root + extv) + 7)), "enum-unknown"
    elif k in ("OCTET STRING", "BIT STRING") or k in genmod.STRING_KINDS:
        sz = t.get("size")
        unit = {"BMPString": 2, "UniversalString": 4}.get(k, 1)
        def mk(n):
            if k == "BIT STRING":
                nb = (n + 7) // 8
                b = bytearray(b"\xff" * nb)
                un = nb * 8 - n
                if nb: b[-1] = (0xff << un) & 0xff
                return Raw("(bs %s %d)" % (hx(bytes(b)), un))
            if k == "OCTET STRING": return Raw("(os %s)" % hx(bytes([0x41]) * n))
            al = t.get("alpha")
            ch = (al[0][0] if isinstance(al[0], tuple) else al[0]) if al else ("1" if k == "NumericString" else "A")
            return Raw("(os %s)" % hx(str_bytes(k, ch * n)))
        if sz and not sz["ext"]:
            if sz["hi"] is not None and sz["hi"] < 400: yield mk(sz["hi"] + 1), "size-long"
            if sz["lo"]: yield mk(sz["lo"] - 1), "size-short"
        n = len(v[0]) * 8 - v[1] if k == "BIT STRING" else (len(v) if v is not None else 1)
        if k in ("IA5String", "VisibleString", "PrintableString", "NumericString") and n >= 1:
            bad = {"IA5String": 0x80, "VisibleString": 0x1f, "PrintableString": 0x2a, "NumericString": 0x41}[k]
            if t.get("alpha") and k != "NumericString": bad = 0x7e if k != "PrintableString" else 0x3f
            if t.get("alpha") and k == "PrintableString": bad = 0x3d
            b = bytearray(str_bytes(k, v)); b[len(b) // 2] = bad
            yield Raw("(os %s)" % hx(bytes(b))), "alphabet"
        if k == "UTF8String": yield Raw("(os c3)"), "utf8-broken"
        if k == "BMPString": yield Raw("(os 410042)"), "bmp-odd"
        if k == "UniversalString": yield Raw("(os 0000004100)"), "univ-odd"
        if k == "BIT STRING": yield Raw("(bs ff 9)"), "bits-unused"
    elif k in ("OBJECT IDENTIFIER", "RELATIVE-OID"):
        yield Raw("(oid 2b8f)"), "oid-truncated"
        yield Raw("(oid -)"), "oid-empty"
    elif k in ("SEQUENCE", "SET"):
        for c in t["comps"]:
            if c["id"] in v:
                for x, kind in invalid_variants(c["type"], v[c["id"]], env, rng, depth + 1):
                    w = dict(v); w[c["id"]] = x
                    yield w, kind
            if c.get("opt") is None and c["id"] in v:
                w = dict(v); del w[c["id"]]
                yield w, "omit:" + genmod.resolve_kind(c["type"], env).replace(" ", "_")
    elif k == "CHOICE":
        yield Raw("(choice -none)"), "choice-none"
        yield Raw("(choice -bad)"), "choice-bad"
        alt, x = v
        c = next(c for c in t["comps"] if c["id"] == alt)
        for y, kind in invalid_variants(c["type"], x, env, rng, depth + 1):
            yield (alt, y), kind
    elif k in ("SEQUENCE OF", "SET OF"):
        sz = t.get("size")
        if sz and not sz["ext"]:
            ev = genmod.ValGen(rng, env)
            if sz["hi"] is not None and sz["hi"] < 40:
                yield list(v) + [ev.value(t["elem"], None, depth + 1) for _ in range(sz["hi"] + 1 - len(v))], "list-long"
            if sz["lo"]:
                yield list(v)[:sz["lo"] - 1], "list-short"
        if v:
            i = rng.randrange(len(v))
            for y, kind in invalid_variants(t["elem"], v[i], env, rng, depth + 1):
                w = list(v); w[i] = y
                yield w, kind


# kinds of planted defects for which the value has no encoding in the given syntax: success there would be a
# silently wrong encoding.  (DER and XER do not look at constraints: success is legitimate.)
MUST_FAIL = {
    "choice-none": set(SYNTAXES), "choice-bad": set(SYNTAXES), "omit-pointer": set(SYNTAXES),
    "int-range": {"uper"}, "size-long": {"uper"}, "size-short": {"uper"}, "list-long": {"uper"}, "list-short": {"uper"},
    "enum-unknown": {"uper", "oer"},
}


def parse_kv(o):
    return dict(p.split("=", 1) for p in o.split(" ") if "=" in p)


class Case:
    __slots__ = ("tn", "syn", "sx", "kind", "raw", "clean", "new", "buf", "cb", "rawk", "lines", "valid", "feats", "must")
    def __init__(self, tn, syn, sx, kind, valid, feats, must=False):
        self.tn, self.syn, self.sx, self.kind, self.valid, self.feats, self.must = tn, syn, sx, kind, valid, feats, must
        self.raw = self.clean = self.new = None
        self.buf = {}; self.cb = {}; self.rawk = {}; self.lines = {}


# leaks on encoder failure paths are C14's subject (F21); here they would only hide the API verdicts
C_ENV = {"ASAN_OPTIONS": "detect_leaks=0:abort_on_error=0:allocator_may_return_null=1"}

def run_safe(ctx, exe, lines, timeout):
    """run_c_bisect with a wall-clock limit: a batch that hangs is bisected down to `HANG` lines"""
    try:
        outs, _ = ctx.run_c_bisect(exe, lines, timeout=timeout, env=C_ENV)
        return outs
    except subprocess.TimeoutExpired:
        if len(lines) == 1: return ["HANG (no answer within %ds)" % timeout]
        mid = len(lines) // 2
        return run_safe(ctx, exe, lines[:mid], timeout) + run_safe(ctx, exe, lines[mid:], max(10, timeout // 2))


def run_token(raw):
    """the <run> token of the Lean ops from an `encraw` output line"""
    if raw == "noencoder": return "noencoder"
    kv = parse_kv(raw)
    return "%s:%s:%s" % (kv["ret"], kv["ft"], kv["chunks"])


def canon_c(o):
    if o is None: return "NONE"
    if o.startswith("CRASH") and "Assertion" in o: return "abort"
    return o


class Stats:
    def __init__(self):
        self.fail = collections.OrderedDict()      # class -> [count, sample]
        self.kdis = []
        self.n_cases = self.n_lines = self.n_k = 0
        self.hist = collections.Counter()
        self.samples = []
    def add(self, cls, sample):
        e = self.fail.setdefault(cls, [0, sample]); e[0] += 1


def sizes_for(ctx, total, csizes):
    cap = 64
    if total <= cap: return list(range(0, total + 2))
    s = {0, 1, total - 1, total, total + 1, total + 9}
    cum = 0; bounds = []
    for z in csizes:
        cum += z; bounds.append(cum)
    pick = bounds if len(bounds) <= 6 else [bounds[0], bounds[1], bounds[-2]] + ctx.rng.sample(bounds, 3)
    for b in pick: s.update([b - 1, b, b + 1])
    lim = 14 if ctx.quick else 60
    if total > 4096: lim = 4 if ctx.quick else 12
    s = sorted(x for x in s if 0 <= x <= total + 9)
    if len(s) > lim:
        keep = {0, total - 1, total, total + 1}
        rest = [x for x in s if x not in keep]
        s = sorted(keep | set(ctx.rng.sample(rest, max(0, lim - len(keep)))))
    return s


def ks_for(ctx, n, total):
    cap = (10 if ctx.quick else 120)
    if total > 4096: cap = 3
    if n <= cap: return list(range(n))
    if cap < 6: return sorted({0, n // 2, n - 1})
    head = list(range(3)) + [n - 2, n - 1]
    rest = [k for k in range(3, n - 2)]
    return sorted(set(head + ctx.rng.sample(rest, cap - len(head))))


def match_known(ctx, case, line, out):
    """narrow matchers of the known findings of C07"""
    o = out or ""
    if o.startswith("CRASH") and case.syn == "oer" and " enccb " in line and "SEQUENCE" in case.feats and \
       ("SEQUENCE_encode_oer: Assertion" in o or "asn_encode: Assertion `er.encoded == -1'" in o):
        return ctx.match_finding(lambda f: f["id"] == "F9")
    if o.startswith("CRASH") and case.syn in ("uper", "der") and "SET OF" in case.feats and "constr_SET_OF.c" in o \
       and "null pointer" in o and not case.valid:
        return ctx.match_finding(lambda f: f["id"] == "F7")
    if o.startswith("buf=nonnull encoded=-1"):
        return ctx.match_finding(lambda f: f["id"] == "F39")
    return None


def evaluate(ctx, st, m, txt, opts, cases):
    """P and K verdicts for the cases of one module (all outputs collected)"""
    def viol(cls, case, line, out, extra=""):
        st.add(cls, {"module": txt, "opts": list(opts), "type": case.tn, "op": line, "c_output": str(out)[:600],
                     "kind": case.kind, "syntax": case.syn, "detail": extra[:300]})
    for c in cases:
        st.n_cases += 1
        st.hist[(c.kind.split(":")[0], c.syn)] += 1
        L = c.lines
        # ---- crashes / hangs anywhere
        dead = False
        for key, out in [("raw", c.raw), ("clean", c.clean), ("new", c.new)] + [(("buf", n), o) for n, o in c.buf.items()] + [(("cb", k), o) for k, o in c.cb.items()]:
            if out is None or out.startswith("CRASH") or out.startswith("HANG") or out.startswith("load-error") or out in ("bad-op", "no-type", "no-such-type"):
                line = L[key]
                if out and (out.startswith("load-error") or out in ("bad-op", "no-type", "no-such-type")):
                    viol("harness:" + out[:30], c, line, out); dead = True; continue
                if match_known(ctx, c, line, out):
                    st.hist[("known-crash", c.syn)] += 1
                else:
                    viol(("hang" if out and out.startswith("HANG") else "crash") + ":" + c.syn + ":" + c.kind.split(":")[0] + ":" + re.sub(r"[^A-Za-z_.]", "", (out or "")[-60:])[:30], c, line, out)
                if key in ("raw", "clean", "new"): dead = True
        if dead: continue
        clean = parse_kv(c.clean)
        ret = int(clean["ret"])
        full = unhx(clean["delivered"])
        csizes = [] if clean["chunks"] == "-" else [int(x) for x in clean["chunks"].split(",")]
        # ---- P: reported = delivered (callback variant)
        if ret >= 0:
            if ret != len(full) or sum(csizes) != ret: viol("P:reported!=delivered", c, L["clean"], c.clean)
            if clean["errno"] != "0": st.hist[("errno-touched-on-success", c.syn)] += 1
            if c.must: viol("P:unencodable-value-accepted:" + c.kind + ":" + c.syn, c, L["clean"], c.clean)
            if not c.valid: st.hist[("invalid-accepted", c.kind.split(":")[0], c.syn)] += 1
        else:
            if ret != -1: viol("P:ret<-1", c, L["clean"], c.clean)
            if clean["errno"] not in ("EBADF", "ENOENT", "EINVAL"): viol("P:failure-without-errno", c, L["clean"], c.clean)
            if c.valid: st.hist[("valid-value-refused", c.syn)] += 1
            else: st.hist[("invalid-refused", c.kind.split(":")[0], c.syn)] += 1
        # ---- P: asn_encode_to_new_buffer
        if not c.new.startswith("CRASH"):
            nb = parse_kv(c.new)
            if ret >= 0:
                if not (c.new.startswith("buf=nonnull") and int(nb["encoded"]) == ret and nb["exact"] == "1" and nb["nul"] == "1"):
                    viol("P:to_new_buffer-not-exact", c, L["new"], c.new)
            else:
                if int(nb["encoded"]) != -1 or nb["errno"] != clean["errno"]: viol("P:to_new_buffer-failure-differs", c, L["new"], c.new)
                if c.new.startswith("buf=nonnull"):
                    if not match_known(ctx, c, L["new"], c.new): viol("P:to_new_buffer-buffer-on-failure", c, L["new"], c.new)
                    else: st.hist[("F39", c.syn)] += 1
        # ---- P: asn_encode_to_buffer, every size
        for n, o in c.buf.items():
            if o.startswith("CRASH") or o.startswith("HANG"): continue
            kv = parse_kv(o)
            if kv["canary"] != "ok": viol("P:to_buffer-overrun", c, L[("buf", n)], o)
            if int(kv["ret"]) != ret: viol("P:to_buffer-size-depends-on-n", c, L[("buf", n)], o, "clean run returned %d" % ret)
            if ret < 0:
                if kv["errno"] != clean["errno"]: viol("P:to_buffer-errno-differs", c, L[("buf", n)], o)
                continue
            w = unhx(kv["wrote"])
            if n >= ret:
                if w != full: viol("P:to_buffer-content", c, L[("buf", n)], o, "expected " + hx(full)[:200])
            else:
                j = 0
                while j < len(w) and w[j] == full[j]: j += 1
                # what follows the written prefix must be untouched fill
                jj = j
                while jj > 0 and w[jj:] != b"\xa5" * (len(w) - jj): jj -= 1
                if w[jj:] != b"\xa5" * (len(w) - jj) or len(w) != n:
                    viol("P:to_buffer-prefix", c, L[("buf", n)], o, "expected a prefix of " + hx(full)[:200])
        # ---- P: failing callback
        for k, o in c.cb.items():
            if o.startswith("CRASH") or o.startswith("HANG"): continue
            kv = parse_kv(o)
            st.n_k += 1
            if int(kv["ret"]) != -1: viol("P:cb-failure-not--1", c, L[("cb", k)], o)
            elif ret >= 0 and kv["errno"] != "EIO": viol("P:cb-failure-errno-not-EIO", c, L[("cb", k)], o)
            elif ret < 0 and kv["errno"] not in ("EIO",): viol("P:cb-failure-errno-not-EIO", c, L[("cb", k)], o)
            d = unhx(kv["delivered"])
            if full[:len(d)] != d: viol("P:cb-delivered-not-prefix", c, L[("cb", k)], o)
            elif len(d) != sum(csizes[:k]): viol("P:cb-delivered-wrong-prefix-length", c, L[("cb", k)], o)
        if ret >= 0 and c.buf and c.cb: ctx.count_nontrivial((m["name"], c.tn, c.syn, c.sx[:120]))
        elif ret < 0: ctx.count_nontrivial((m["name"], c.tn, c.syn, c.kind, c.sx[:120]))


def correspond(ctx, st, m, txt, opts, cases):
    """K leg: the Lean wrappers applied to the raw run observed on C must predict every wrapper output"""
    mlines = []; meta = []
    for c in cases:
        if c.raw is None or c.raw.startswith(("CRASH", "HANG", "load-error")) or c.raw in ("bad-op",): continue
        tok = run_token(c.raw)
        if len(tok) > 300000: continue
        if c.clean is not None: mlines.append(f"c07.cb {c.syn} -1 {tok}"); meta.append((c, "clean", c.clean))
        if c.new is not None: mlines.append(f"c07.tonew {c.syn} {tok}"); meta.append((c, "new", c.new))
        for n, o in c.buf.items(): mlines.append(f"c07.tobuf {c.syn} {n} {tok}"); meta.append((c, ("buf", n), o))
        for k, o in c.cb.items():
            rk = c.rawk.get(k)
            if rk is None or rk.startswith(("CRASH", "HANG")): continue     # the raw encoder itself dies: P leg
            mlines.append(f"c07.cb {c.syn} {k} {run_token(rk)}"); meta.append((c, ("cb", k), o))
    if not mlines: return
    if not getattr(ctx, "driver_ok", True):
        ctx.broken.append({"kind": "correspondence", "name": "application", "msg": "Lean driver does not build"}); return
    rc, mouts, merr = ctx.run_lines(build.model_exe(), mlines)
    if rc != 0 or len(mouts) != len(mlines):
        raise RuntimeError("model driver failed: rc=%s %s" % (rc, merr[-500:]))
    cs = ctx.cov["correspondence"].setdefault("application", {"lines": 0, "disagreements": 0, "c_crashes": 0, "explained_by_known_findings": 0})
    for (c, key, cout), ml, mo in zip(meta, mlines, mouts):
        cs["lines"] += 1
        cc = canon_c(cout)
        if cc.startswith(("CRASH", "HANG")):
            cs["c_crashes"] += 1        # sanitizer death / hang: P leg's business, not predictable by the wrapper model
            continue
        if cc == mo: continue
        if cc == "abort" and match_known(ctx, c, c.lines[key], cout):
            cs["explained_by_known_findings"] += 1; continue
        cs["disagreements"] += 1
        st.kdis.append({"module": txt, "opts": list(opts), "type": c.tn, "op": c.lines[key], "c_output": str(cout)[:600],
                        "model_op": ml[:600], "model_output": mo[:600], "encraw": (c.raw or "")[:600]})
    if len(ctx.cov["samples"]) < 10 and mlines:
        for j in sorted({0, len(mlines) // 2, len(mlines) - 1}):
            c, key, cout = meta[j]
            ctx.cov["samples"].append({"op": c.lines[key][:300], "c": str(cout)[:300], "model_op": mlines[j][:300], "model": mouts[j][:300]})


def process_module(ctx, st, m, items, opts=("-no-gen-example", "-fcompound-names")):
    """items: list of (type name, sexp, kind, valid, must_fail_syntaxes)"""
    txt = m.get("text") or genmod.module_text(m)
    env = dict(m["types"])
    b = bundle.Bundle(m["name"], txt, [n for n, _ in m["types"]], driver_sources=DS, opts=opts)
    try:
        exe = b.build()
    except bundle.Asn1cFailed as e:
        ctx.log("asn1c rejected module", m["name"], e.out.strip().split("\n")[0][:160]); b.cleanup(); return False
    except build.BuildError as e:
        ctx.log("module does not compile", m["name"], str(e)[:160]); b.cleanup(); return False
    try:
        cases = []
        featc = {}
        for tn, sx, kind, valid, must in items:
            if tn not in featc: featc[tn] = gfind.features(env[tn], env)
            feats = featc[tn]
            for syn in SYNTAXES:
                if c01.skip_region(syn, feats, st.skipped): continue
                if syn in ("xer", "cxer") and len(sx) > 20000: continue
                cases.append(Case(tn, syn, sx, kind, valid, feats, syn in must))
        # phase 1: raw run, clean callback run, new buffer
        lines = []
        for c in cases:
            c.lines["raw"] = f"@{c.tn} encraw {c.syn} -1 {c.sx}"
            c.lines["clean"] = f"@{c.tn} enccb {c.syn} -1 {c.sx}"
            c.lines["new"] = f"@{c.tn} encnew {c.syn} {c.sx}"
            lines += [c.lines["raw"], c.lines["clean"], c.lines["new"]]
        outs = run_safe(ctx, exe, lines, 300)
        for i, c in enumerate(cases):
            c.raw, c.clean, c.new = outs[3 * i: 3 * i + 3]
        # phase 2: buffer sizes and failing callback indices
        lines = []; where = []
        for c in cases:
            if c.clean is None or not c.clean.startswith("ret="): continue
            kv = parse_kv(c.clean)
            ret = int(kv["ret"])
            csizes = [] if kv["chunks"] == "-" else [int(x) for x in kv["chunks"].split(",")]
            if ret >= 0:
                ns = sizes_for(ctx, ret, csizes)
                ks = ks_for(ctx, len(csizes), ret)
                if not c.valid: ns = sorted(set(ns[:3] + ns[-3:])); ks = ks[:3]
            else:
                ns = [0, 1, 64]
                ks = list(range(min(len(csizes), 3)))
            for n in ns:
                c.lines[("buf", n)] = f"@{c.tn} encbuf {c.syn} {n} {c.sx}"; lines.append(c.lines[("buf", n)]); where.append((c, "buf", n))
            for k in ks:
                c.lines[("cb", k)] = f"@{c.tn} enccb {c.syn} {k} {c.sx}"; lines.append(c.lines[("cb", k)]); where.append((c, "cb", k))
                c.lines[("rawk", k)] = f"@{c.tn} encraw {c.syn} {k} {c.sx}"; lines.append(c.lines[("rawk", k)]); where.append((c, "rawk", k))
        outs = run_safe(ctx, exe, lines, 600)
        for (c, what, x), o in zip(where, outs):
            {"buf": c.buf, "cb": c.cb, "rawk": c.rawk}[what][x] = o
        st.n_lines += 3 * len(cases) + len(lines)
        evaluate(ctx, st, m, txt, opts, cases)
        correspond(ctx, st, m, txt, opts, cases)
    finally:
        b.cleanup()
    return True


INV_MODULE = {
    "name": "INV", "tagdefault": "AUTOMATIC",
    "text": """INV DEFINITIONS AUTOMATIC TAGS ::= BEGIN
  A ::= SEQUENCE { x INTEGER (0..7), b B }
  B ::= CHOICE { n NULL, a A, i INTEGER (0..3), s IA5String (SIZE(1..3)) }
  L ::= SEQUENCE { v INTEGER (0..255), next L OPTIONAL }
  P ::= SEQUENCE { c CHOICE { p P, z NULL }, s OCTET STRING (SIZE(2)) }
  W ::= SEQUENCE { o BOOLEAN OPTIONAL, c B, ..., e INTEGER (0..7) OPTIONAL }
  Q ::= SEQUENCE OF B
  U ::= SET OF INTEGER (0..7)
  V ::= SET OF B
END
""",
    "types": None,
}


def inv_module_cases():
    """fixed module compiled with -findirect-choice: NULL mandatory pointers, unselected / bad CHOICE at every depth"""
    T = lambda k, **kw: dict(k=k, **kw)
    types = [
        ("A", T("SEQUENCE", comps=[{"id": "x", "type": T("INTEGER", cons=genmod.cons(0, 7))}, {"id": "b", "type": T("REF", name="B")}])),
        ("B", T("CHOICE", comps=[{"id": "n", "type": T("NULL")}, {"id": "a", "type": T("REF", name="A")},
                                 {"id": "i", "type": T("INTEGER", cons=genmod.cons(0, 3))},
                                 {"id": "s", "type": T("IA5String", size=genmod.cons(1, 3))}])),
        ("L", T("SEQUENCE", comps=[{"id": "v", "type": T("INTEGER", cons=genmod.cons(0, 255))}, {"id": "next", "type": T("REF", name="L"), "opt": "OPTIONAL"}])),
        ("P", T("SEQUENCE", comps=[{"id": "c", "type": T("CHOICE", comps=[{"id": "p", "type": T("REF", name="P")}, {"id": "z", "type": T("NULL")}])},
                                   {"id": "s", "type": T("OCTET STRING", size=genmod.cons(2, 2))}])),
        ("W", T("SEQUENCE", comps=[{"id": "o", "type": T("BOOLEAN"), "opt": "OPTIONAL"}, {"id": "c", "type": T("REF", name="B")},
                                   {"id": "e", "type": T("INTEGER", cons=genmod.cons(0, 7)), "opt": "OPTIONAL"}], ext=2)),
        ("Q", T("SEQUENCE OF", elem=T("REF", name="B"), size=None)),
        ("U", T("SET OF", elem=T("INTEGER", cons=genmod.cons(0, 7)), size=None)),
        ("V", T("SET OF", elem=T("REF", name="B"), size=None)),
    ]
    m = dict(INV_MODULE); m["types"] = types
    allsyn = set(SYNTAXES)
    items = []
    def add(tn, sx, kind, valid=False, must=allsyn): items.append((tn, sx, kind, valid, must if not valid else set()))
    add("A", "(seq (x (int 1)) (b (choice n (null))))", "valid", True)
    add("A", "(seq (x (int 1)) (b (choice a (seq (x (int 2)) (b (choice i (int 3)))))))", "valid", True)
    add("A", "(seq (x (int 1)))", "omit-pointer")                                         # NULL mandatory pointer
    add("A", "(seq (x (int 1)) (b (choice a (seq (x (int 2))))))", "omit-pointer")        # ... one level down
    add("A", "(seq (x (int 1)) (b (choice -none)))", "choice-none")
    add("A", "(seq (x (int 1)) (b (choice -bad)))", "choice-bad")
    add("A", "(seq (x (int 1)) (b (choice a (seq (x (int 2)) (b (choice -none))))))", "choice-none")
    add("A", "(seq (x (int 9)) (b (choice n (null))))", "int-range", must={"uper"})
    add("A", "(seq (x (int 1)) (b (choice i (int 4))))", "int-range", must={"uper"})
    add("A", "(seq (x (int 1)) (b (choice s (os 41424344))))", "size-long", must={"uper"})
    add("A", "(seq (x (int 1)) (b (choice s (os -))))", "size-short", must={"uper"})
    add("B", "(choice -none)", "choice-none"); add("B", "(choice -bad)", "choice-bad")
    add("B", "(choice i (int 2))", "valid", True); add("B", "(choice s (os 414243))", "valid", True)
    add("L", "(seq (v (int 1)) (next (seq (v (int 2)) (next (seq (v (int 3)))))))", "valid", True)
    add("L", "(seq (v (int 1)) (next (seq (v (int 256)))))", "int-range", must={"uper"})
    add("P", "(seq (c (choice z (null))) (s (os 0102)))", "valid", True)
    add("P", "(seq (c (choice p (seq (c (choice z (null))) (s (os 0304))))) (s (os 0102)))", "valid", True)
    add("P", "(seq (c (choice -none)) (s (os 0102)))", "choice-none")
    add("P", "(seq (s (os 0102)))", "choice-none")                                        # zeroed inline CHOICE
    add("P", "(seq (c (choice p (seq (c (choice -bad)) (s (os 0304))))) (s (os 0102)))", "choice-bad")
    add("P", "(seq (c (choice z (null))) (s (os 010203)))", "size-long", must={"uper"})
    add("P", "(seq (c (choice z (null))))", "omit:OCTET_STRING", must=set())              # zeroed OCTET STRING (buf NULL)
    add("W", "(seq (o (bool t)) (c (choice n (null))) (e (int 3)))", "valid", True)
    add("W", "(seq (c (choice i (int 1))))", "valid", True)
    add("W", "(seq (o (bool t)) (e (int 3)))", "choice-none")
    add("W", "(seq (c (choice -none)) (e (int 3)))", "choice-none")
    add("W", "(seq (c (choice n (null))) (e (int 8)))", "int-range", must={"uper"})
    add("Q", "(list (choice n (null)) (choice i (int 1)))", "valid", True)
    add("Q", "(list (choice n (null)) (choice -none))", "choice-none")
    add("Q", "(list (choice -bad) (choice n (null)))", "choice-bad")
    add("Q", "(list (choice i (int 5)))", "int-range", must={"uper"})
    add("U", "(list (int 1) (int 2) (int 7))", "valid", True)
    add("U", "(list (int 1) (int 9))", "int-range", must={"uper"})                       # F7 witness shape
    add("V", "(list (choice n (null)) (choice i (int 1)))", "valid", True)
    add("V", "(list (choice n (null)) (choice -none))", "choice-none")
    return m, items


def report(ctx, st):
    if os.environ.get("C07_DUMP"):
        json.dump({"fail": {k: v for k, v in st.fail.items()}, "kdis": st.kdis[:50]}, open(os.environ["C07_DUMP"], "w"), indent=1)
    shown = 0
    for cls, (n, sample) in st.fail.items():
        if shown >= 6:
            ctx.log("FAIL (more)", n, cls); continue
        shown += 1
        ctx.violation(f"C07 predicate fails on C [{cls}] x{n}: type {sample['type']}: {sample['op'][:160]} -> {sample['c_output'][:160]}",
                      dict(sample, count_in_class=n, failure=cls))
    if st.kdis:
        ctx.broken.append({"kind": "correspondence", "name": "application", "disagreements": len(st.kdis), "first": st.kdis[0]})
        for d in st.kdis[:3]:
            ctx.log("K-DISAGREE", d["op"][:140], "| C:", d["c_output"][:140], "| model:", d["model_output"][:140])
        if not st.fail:
            ctx.violation("C07 correspondence: the model of asn_application.c no longer predicts C "
                          f"({len(st.kdis)} lines), first: {st.kdis[0]['op'][:120]} C={st.kdis[0]['c_output'][:100]} model={st.kdis[0]['model_output'][:100]}",
                          st.kdis[0], found_input=False)


def replay(ctx, path):
    r = json.load(open(path))
    if "broken" in r and "module" not in r: print(json.dumps(r["broken"], indent=1)[:3000]); return
    names = re.findall(r"^\s*([A-Za-z][\w-]*)\s*::=", r["module"], re.M)
    b = bundle.Bundle("replay", r["module"], names, driver_sources=DS, opts=tuple(r.get("opts") or ("-no-gen-example", "-fcompound-names")))
    exe = b.build()
    outs = run_safe(ctx, exe, [r["op"]], 60)
    print("replay:", r["op"][:300], "=>", str(outs[0])[:600])
    if r.get("model_op"):
        ctx.lean()
        rc, mo, _ = ctx.run_lines(build.model_exe(), [r["model_op"]])
        print("model :", r["model_op"][:300], "=>", (mo or ["?"])[0][:600])
    b.cleanup()


def run(ctx):
    ids = {f["id"] for f in ctx.findings}
    ctx.findings += [f for f in PROPOSED_FINDINGS if f["id"] not in ids]
    ctx.lean()
    st = Stats(); st.skipped = collections.Counter()
    gfind.replay_witnesses(ctx, driver_sources=DS)
    rng = ctx.rng
    nb = int(os.environ.get("C07_NB", 5 if ctx.quick else 40))
    nvals = 5 if ctx.quick else 16
    built = 0
    # ---- (a)(b)(c) valid values: boundary module + generated modules; (d) planted defects in the same modules
    bm, bvals = genmod.boundary_module(rng, ctx.quick)
    mods = [(bm, bvals)] + [(mm, None) for mm in c01.gen_bundles(ctx, nb)]
    for m, fixed in mods:
        env = dict(m["types"])
        vg = genmod.ValGen(rng, env)
        items = []
        for n, t in m["types"]:
            vals = fixed[n] if fixed is not None else vg.values(t, nvals)
            if fixed is not None and ctx.quick:
                small = [v for v in vals if len(repr(v)) < 60000]
                vals = small[:10] + small[-2:] if len(small) > 12 else small
            for v in vals:
                items.append((n, genmod.val_sexp(t, v, env), "valid", True, set()))
            # planted defects (at every position of one or two base values)
            bases = vals[:1] + ([vals[len(vals) // 2]] if len(vals) > 2 else [])
            seen = set()
            for bv in bases:
                if len(repr(bv)) > 3000: continue
                nvar = 0
                for w, kind in invalid_variants(t, bv, env, rng):
                    sx = render(t, w, env)
                    if sx in seen: continue
                    seen.add(sx); nvar += 1
                    items.append((n, sx, kind, False, MUST_FAIL.get(kind, set())))
                    if nvar >= (12 if ctx.quick else 60): break
        if process_module(ctx, st, m, items): built += 1
    # ---- (d) fixed module with recursion / -findirect-choice
    im, iitems = inv_module_cases()
    if process_module(ctx, st, im, iitems, opts=("-no-gen-example", "-fcompound-names", "-findirect-choice")): built += 1
    ctx.cov["evaluations"] += st.n_lines
    ctx.cov["programs"] = built
    ctx.cov["predicate"]["api_contract"] = {
        "modules_built": built, "cases": st.n_cases, "c_lines": st.n_lines, "callback_failure_points": st.n_k,
        "failure_classes": len(st.fail), "skipped_known_regions": dict(st.skipped),
        "histogram": {"/".join(k): v for k, v in sorted(st.hist.items())}}
    ctx.cov["rule"] = ("generated modules + boundary module + fixed recursive module; per (type, value, syntax): raw encoder run, "
                       "asn_encode_to_buffer at every size 0..n+1 (n <= 64; sampled at chunk boundaries beyond), asn_encode_to_new_buffer, "
                       "asn_encode with the callback failing at each invocation index; invalid structures by planting one defect at every "
                       "position; distinct = distinct (module, type, syntax, value); non-trivial = the case reached the size sweep and the "
                       "failure sweep (valid) or was refused by the encoder (invalid)")
    report(ctx, st)
    for key, n in sorted(st.hist.items()):
        if key[0] in ("valid-value-refused", "known-crash", "F39"): ctx.log("stat", "/".join(key), n)
