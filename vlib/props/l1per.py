"""L1 UPER / OER primitive layer (asn_bit_data.c, per_support.c, oer_support.c), shared by C01/C02/C04.

run(ctx):
  K leg: the same op lines on the real C functions (harness/ops_per.c, ASan+UBSan) and on the Lean Impl
         (Driver/Ops/PerL1.lean); disagreements -> ctx.broken.
  P leg: an independent Python oracle written from X.691 10.5-10.9 / X.696 8.6 evaluated on C's outputs:
         writers emit the standard bit strings (C02), readers invert the writers on C itself (C01),
         readers on arbitrary input never crash and never consume more than they were given (C04).
The Lean theorems about the Impl are listed in lean/props/L1PER.json (Asn1cModel.Props.L1Per).
"""
from .. import build

LONG_MIN, LONG_MAX = -(1 << 63), (1 << 63) - 1
U64 = (1 << 64) - 1
TAIL1, TAIL2 = b"\x55", b"\xaa\xbb"

# ------------------------------------------------------------------ independent oracle (from the standards)

def nnbi(w, n):
    """X.691 10.3: non-negative-binary-integer in exactly w bits"""
    assert 0 <= n < (1 << w) if w else n == 0, (w, n)
    return format(n, "0%db" % w) if w else ""

def min_octets(n):
    return n.to_bytes(max(1, (n.bit_length() + 7) // 8), "big")

def o_length_det(n):
    """10.9.3.5-10.9.3.7: a single unconstrained length determinant, n < 16K"""
    if n <= 127: return "0" + nnbi(7, n)
    assert n < 16384
    return "10" + nnbi(14, n)

def o_length_prefixed(items):
    """10.9.3.5-10.9.3.8 incl. fragmentation: items = list of bit strings"""
    out = []
    while True:
        n = len(items)
        if n < 16384:
            out.append(o_length_det(n)); out += items
            return "".join(out)
        m = min(n // 16384, 4)
        out.append("11" + nnbi(6, m)); out += items[:m * 16384]
        items = items[m * 16384:]

def o_semi_constrained(lb, n):
    os_ = min_octets(n - lb)
    return o_length_prefixed([nnbi(8, b) for b in os_])

def o_normally_small(n):
    """10.6"""
    if n <= 63: return "0" + nnbi(6, n)
    return "1" + o_semi_constrained(0, n)

def o_normally_small_length(n):
    """10.9.3.4"""
    assert n >= 1
    if n <= 64: return "0" + nnbi(6, n - 1)
    return "1" + o_length_det(n)

def o_oer_length(n):
    """X.696 8.6, canonical"""
    if n <= 127: return bytes([n])
    b = n.to_bytes((n.bit_length() + 7) // 8, "big")
    return bytes([0x80 | len(b)]) + b

OER_INT_KINDS = [(0, 0), (0, 1), (1, 0), (1, 1), (2, 0), (2, 1), (4, 0), (4, 1), (8, 0), (8, 1)]

def twos_min(z):
    """X.690 8.3: minimal two's complement octets"""
    n = 1
    while not (-(1 << (8 * n - 1)) <= z < (1 << (8 * n - 1))): n += 1
    return z.to_bytes(n, "big", signed=True)

def twos_val(b): return int.from_bytes(b, "big", signed=True) if b else 0

def o_oer_int(w, pos, z):
    """X.696 10: fixed-size unsigned / signed (1, 2, 4, 8 octets), else length + minimal octets; None = not encodable"""
    if pos and z < 0: return None
    if w:
        if pos: return z.to_bytes(w, "big") if z < (1 << (8 * w)) else None
        return z.to_bytes(w, "big", signed=True) if -(1 << (8 * w - 1)) <= z < (1 << (8 * w - 1)) else None
    body = min_octets(z) if pos else twos_min(z)
    return o_oer_length(len(body)) + body

def bits_of_bytes(b, nbits=None):
    s = "".join(format(x, "08b") for x in b)
    return s if nbits is None else s[:nbits]

def hx(b): return bytes(b).hex() if b else "-"
def unhx(s): return b"" if s == "-" else bytes.fromhex(s)
def bs(s): return s if s else "-"

# ------------------------------------------------------------------ generators

def pow2_neighbours(maxk, lo=0, hi=None):
    s = set()
    for k in range(0, maxk + 1):
        for d in (-1, 0, 1):
            v = (1 << k) + d
            if v >= lo and (hi is None or v <= hi): s.add(v)
    return s

LEN_EDGES = [0, 1, 2, 62, 63, 64, 65, 126, 127, 128, 129, 255, 256, 257, 16382, 16383, 16384, 16385,
             32767, 32768, 32769, 49151, 49152, 49153, 65535, 65536, 65537, 81919, 81920, 81921,
             98304, 131072, 131073, (1 << 31) - 1, 1 << 31, (1 << 31) + 1, (1 << 32) - 1, 1 << 32]

def rbits(rng, n):
    return "".join(rng.choice("01") for _ in range(n))

def gen_bits_scripts(ctx):
    rng = ctx.rng
    L = []
    # put: every width -1..33 at every bit offset 0..7 (and a few beyond the 32-byte tmpspace), read back
    for off in list(range(0, 8)) + [8, 15, 31]:
        for n in range(-1, 34):
            vals = {0, 1, U64 & 0xffffffff}
            if n >= 0:
                vals |= {(1 << n) - 1, (1 << n), (1 << n) + 1, (1 << max(n - 1, 0))}
            vals.add(rng.getrandbits(32)); vals.add(rng.getrandbits(40))
            for v in sorted(vals):
                pre = f"p{off}:{rng.getrandbits(off) if off else 0} " if off else ""
                gpre = f"g{off} " if off else ""
                L.append(f"bits - {pre}p{n}:{v} p3:5 x {gpre}g{n} g3 g1")
    # long outputs: cross the 32-byte tmpspace many times
    for _ in range(20 if ctx.quick else 400):
        toks = []
        widths = []
        for _ in range(rng.randrange(20, 120)):
            n = rng.choice([1, 2, 3, 7, 8, 9, 15, 16, 17, 23, 24, 25, 30, 31])
            toks.append(f"p{n}:{rng.getrandbits(rng.choice([n, 32]))}"); widths.append(n)
        rd = " ".join(f"g{n}" for n in widths)
        L.append("bits - " + " ".join(toks) + " x " + rd + " g1")
    # reads from arbitrary bit strings: every width at every offset, incl. past the end
    for total in list(range(0, 42)) + [63, 64, 65, 100]:
        src = rbits(rng, total)
        for off in (0, 1, 3, 7, 8, 9, 13):
            for n in (-1, 0, 1, 7, 8, 9, 16, 17, 24, 25, 30, 31, 32, 33):
                if ctx.quick and (total + off + n) % 3: continue
                L.append(f"bits {bs(src)} g{off} g{n} g{n}")
    for _ in range(300 if ctx.quick else 20000):
        total = rng.randrange(0, 200)
        toks = []
        for _ in range(rng.randrange(1, 8)):
            k = rng.random()
            if k < 0.6: toks.append(f"g{rng.randrange(0, 33)}")
            elif k < 0.8: toks.append(f"gm{rng.randrange(0, 80)}")
            else: toks.append(f"gr{rng.randrange(0, 80)}")
        L.append(f"bits {bs(rbits(rng, total))} " + " ".join(toks))
    # byte-level position (buffer, nboff, nbits): every start offset 0..23 x every width, tight buffers
    for size in (0, 1, 2, 3, 4, 5, 6, 9):
        for nboff in range(0, min(8 * size, 23) + 1):
            for unused in (0, 1, 7):
                nbits = 8 * size - unused
                if nbits < nboff: continue
                data = bytes(rng.getrandbits(8) for _ in range(size))
                left = nbits - nboff
                ws = {0, 1, 7, 8, 9, 15, 16, 17, 23, 24, 25, 30, 31, 32, left, left + 1, max(left - 1, 0)}
                for w in sorted(ws):
                    if ctx.quick and (size + nboff + w + unused) % 3 and w not in (left, left + 1, 24, 25, 31): continue
                    if w <= 64: L.append(f"rawget {hx(data)} {nboff} {nbits} {w} {rng.randrange(0, 9)} {rng.randrange(0, 32)}")
    for _ in range(300 if ctx.quick else 20000):
        size = rng.randrange(0, 24)
        nbits = max(0, 8 * size - rng.randrange(0, 8))
        nboff = rng.randrange(0, nbits + 1)
        data = bytes(rng.getrandbits(8) for _ in range(size))
        L.append(f"rawget {hx(data)} {nboff} {nbits} " + " ".join(str(rng.randrange(0, 34)) for _ in range(rng.randrange(1, 7))))
    # many-bits put/get at every length 0..80 and offsets
    for nb in range(0, 81):
        for off in (0, 3, 7):
            if ctx.quick and (nb + off) % 2: continue
            nbytes = (nb + 7) // 8
            data = bytes(rng.getrandbits(8) for _ in range(nbytes + rng.choice([0, 0, 1, 4])))
            pre = f"p{off}:{rng.getrandbits(off)} " if off else ""
            gpre = f"g{off} " if off else ""
            L.append(f"bits - {pre}pm{hx(data)}:{nb} p2:3 x {gpre}gm{nb} g2")
            L.append(f"bits - {pre}pm{hx(data)}:{nb} p2:3 x {gpre}gr{nb} g2")
    return L

def gen_lines(ctx, expect=None):
    """op lines; `expect` (dict line -> exact expected C output) collects the reader-conformance cases
    (standard encodings produced by the oracle that the readers must accept)"""
    rng = ctx.rng
    if expect is None: expect = {}
    L = gen_bits_scripts(ctx)
    # ---- uper_put_length
    ns = set(LEN_EDGES) | pow2_neighbours(40) | {16384 * m + d for m in range(1, 9) for d in (-1, 0, 1)}
    for _ in range(200 if ctx.quick else 20000):
        ns.add(rng.getrandbits(rng.choice([6, 7, 8, 13, 14, 15, 16, 17, 18, 20, 33, 64])))
    ns |= {U64, U64 - 1, 1 << 63}
    for n in sorted(ns):
        L.append(f"uper_put_length {n} 1")
        if n % 5 == 0 or n in LEN_EDGES: L.append(f"uper_put_length {n} 0")
    # ---- uper_get_length: unconstrained, first octet exhaustive x second octets x truncation
    for eb in (-1, 17, 18, 31, 32, 100, -5):
        for b0 in range(256):
            if eb != -1 and b0 % 7: continue
            for b1 in (0x00, 0x01, 0x7f, 0x80, 0xff, rng.getrandbits(8)):
                full = format(b0, "08b") + format(b1, "08b") + rbits(rng, rng.choice([0, 3]))
                L.append(f"uper_get_length {eb} 0 {full}")
            full = format(b0, "08b") + format(rng.getrandbits(8), "08b")
            for cut in (0, 1, 7, 8, 9, 15):
                L.append(f"uper_get_length {eb} {rng.choice([0, 5])} {bs(full[:cut])}")
    for eb in range(0, 17):
        for lb in (0, 1, 5, 65535, 1 << 32):
            for ln in (eb - 1, eb, eb + 3):
                if ln < 0: continue
                for src in (rbits(rng, ln), "1" * ln, "0" * ln):
                    L.append(f"uper_get_length {eb} {lb} {bs(src)}")
    # ---- nsnnwn
    nv = set(range(-2, 72)) | {127, 128, 129, 255, 256, 257, 65535, 65536, 65537, (1 << 24) - 1, 1 << 24, (1 << 24) + 1,
                               (1 << 31) - 1, -(1 << 31), -1000}
    for _ in range(100 if ctx.quick else 5000):
        nv.add(rng.getrandbits(rng.choice([5, 6, 7, 8, 12, 16, 17, 24, 25, 31])))
    for n in sorted(nv): L.append(f"nsnnwn_put {n}")
    for p in range(512):             # every 9-bit prefix (7 bits + the 2 extra length bits)
        pre = format(p, "09b")
        for tail in ("", rbits(rng, 7), rbits(rng, 8), rbits(rng, 15), rbits(rng, 16), rbits(rng, 20), rbits(rng, 23), rbits(rng, 24), rbits(rng, 29)):
            L.append(f"nsnnwn_get {pre + tail}")
    for cut in range(0, 9): L.append(f"nsnnwn_get {bs('101010101'[:cut])}")
    for n in sorted(nv):             # the standard encoding (X.691 10.6) must be accepted by the reader
        if 0 <= n < (1 << 24):
            e = o_normally_small(n)
            l = f"nsnnwn_get {e + rbits(rng, rng.choice([0, 1, 9]))}"
            L.append(l); expect[l] = f"{n} {len(e)}"
    # ---- nslength
    lv = set(range(0, 140)) | set(LEN_EDGES)
    for n in sorted(lv): L.append(f"nslength_put {n}")
    for p in range(512):             # 1 bit + the first octet of a length determinant
        pre = format(p, "09b")
        for tail in ("", rbits(rng, 6), rbits(rng, 8), rbits(rng, 12)):
            L.append(f"nslength_get {pre + tail}")
    for cut in range(0, 9): L.append(f"nslength_get {bs('110101011'[:cut])}")
    for n in sorted(lv):             # the standard encoding (X.691 10.9.3.4) must be accepted by the reader
        if 1 <= n < 16384:
            e = o_normally_small_length(n)
            l = f"nslength_get {e + rbits(rng, rng.choice([0, 1, 9]))}"
            L.append(l); expect[l] = f"{n} {len(e)}"
    # ---- constrained whole number
    for rb in range(-1, 71):
        vals = {0, 1, U64, (1 << 31) - 1, 1 << 31, (1 << 32) - 1, 1 << 32, (1 << 62) + 12345, rng.getrandbits(64)}
        if rb >= 0:
            vals |= {min(U64, (1 << rb) - 1), min(U64, 1 << rb), (1 << max(rb - 1, 0)), rng.getrandbits(max(rb, 1)) & U64}
        for v in sorted(vals): L.append(f"cwn_put {rb} {v}")
        for ln in (max(rb - 1, 0), max(rb, 0), max(rb, 0) + 5):
            for src in (rbits(rng, ln), "1" * ln, "0" * ln):
                L.append(f"cwn_get {rb} {bs(src)}")
    # ---- rebase / unrebase
    edges = sorted({LONG_MIN, LONG_MIN + 1, -(1 << 32), -(1 << 31), -2, -1, 0, 1, 2, (1 << 31) - 1, 1 << 31, 1 << 32,
                    LONG_MAX - 1, LONG_MAX} | {rng.randrange(LONG_MIN, LONG_MAX) for _ in range(4 if ctx.quick else 30)})
    for lb in edges:
        for ub in edges:
            if lb > ub:
                if (lb + ub) % 11 == 0: L.append(f"rebase 0 {lb} {ub}")
                continue
            rng_ = ub - lb
            for v in {lb - 1, lb, lb + 1, (lb + ub) // 2, ub - 1, ub, ub + 1, 0, -1, LONG_MIN, LONG_MAX}:
                if LONG_MIN <= v <= LONG_MAX: L.append(f"rebase {v} {lb} {ub}")
            for inp in {0, 1, rng_ - 1, rng_, rng_ + 1, LONG_MAX, LONG_MAX + 1, LONG_MAX + 2, U64, rng.getrandbits(64)}:
                if 0 <= inp <= U64: L.append(f"unrebase {inp} {lb} {ub}")
    # ---- OER length
    on = pow2_neighbours(64, 0, U64) | set(LEN_EDGES) | {(1 << (8 * k)) + d for k in range(1, 8) for d in (-1, 0, 1)}
    for _ in range(100 if ctx.quick else 5000): on.add(rng.getrandbits(rng.choice([7, 8, 16, 24, 32, 56, 63, 64])))
    for n in sorted(on): L.append(f"oer_len_put {n}")
    L.append("oer_len_get -")
    for b0 in range(256):
        k = b0 & 0x7f
        bodies = [bytes(rng.getrandbits(8) for _ in range(k)), bytes(k), bytes(max(k - 1, 0)) + (b"\x01" if k else b"")]
        if k > 8: bodies.append(bytes(k - 8) + b"\x7f" + b"\xff" * 7); bodies.append(bytes(k - 8) + b"\x80" + bytes(7))
        if k > 9: bodies.append(bytes(k - 9) + b"\x01" + bytes(8))
        for body in bodies:
            full = bytes([b0]) + body
            L.append(f"oer_len_get {hx(full)}")
            L.append(f"oer_len_get {hx(full + TAIL2)}")
            if b0 >= 0x80 and k:
                for cut in {1, 1 + k // 2, k}:
                    L.append(f"oer_len_get {hx(full[:cut])}")
    # ---- INTEGER_oer.c width logic
    zs = set()
    for k in range(0, 66):
        for d in (-1, 0, 1):
            zs.add((1 << k) + d); zs.add(-(1 << k) + d)
    for _ in range(40 if ctx.quick else 3000): zs.add(rng.getrandbits(rng.choice([7, 8, 15, 16, 31, 32, 63, 64, 70])) * rng.choice([1, -1]))
    for z in sorted(zs):
        content = twos_min(z)
        for w, pos in OER_INT_KINDS:
            if ctx.quick and (z + w + pos) % 2 and abs(z) > 70000: continue
            for pad in (0, 1, 3):
                if pad and (z % 3): continue
                c = (b"\xff" if z < 0 else b"\x00") * pad + content
                L.append(f"int_oer_enc {w} {pos} {hx(c)}")
            e = o_oer_int(w, pos, z)
            if e is not None:
                l = f"int_oer_dec {w} {pos} {hx(e + bytes(rng.getrandbits(8) for _ in range(rng.choice([0, 1, 3]))))}"
                L.append(l); expect[l] = (z, len(e))
                for cut in {0, 1, len(e) - 1}:
                    if 0 <= cut < len(e): L.append(f"int_oer_dec {w} {pos} {hx(e[:cut])}")
    L.append("int_oer_dec 0 1 00")          # F5 witness: zero length at the very end, unsigned
    L.append("int_oer_dec 0 1 8100"); L.append("int_oer_dec 0 1 80")
    for w, pos in OER_INT_KINDS:
        L.append(f"int_oer_enc {w} {pos} -")
        for _ in range(60 if ctx.quick else 3000):
            raw = bytes(rng.getrandbits(8) for _ in range(rng.randrange(0, 12)))
            if raw and rng.random() < 0.5: raw = bytes([rng.choice([0, 1, 2, 8, 9, 0x7f, 0x80, 0x81, 0x82, 0x88, 0x89])]) + raw[1:]
            L.append(f"int_oer_dec {w} {pos} {hx(raw)}")
            L.append(f"int_oer_enc {w} {pos} {hx(raw)}")
    # ---- the callers' length loops on the real OCTET STRING UPER codec
    big = [0, 1, 2, 127, 128, 129, 16383, 16384, 16385, 32768, 49152, 65535, 65536, 65537]
    if not ctx.quick: big += [32767, 49151, 49153, 81919, 81920, 81921, 98304, 131072, 131073, 147456, 200000]
    for n in big + [rng.randrange(0, 300) for _ in range(10)] + [rng.randrange(16384, 70000) for _ in range(2 if ctx.quick else 20)]:
        L.append(f"os_uper_enc {n} {rng.choice([1, 3, 7, 31, 251])}")
    dec_ns = [0, 1, 5, 127, 128, 300, 16383, 16384, 16385, 32768, 65536, 65537] + ([81920, 131072 + 77] if not ctx.quick else [])
    for n in dec_ns:
        data = bytes((i * 13 + 5) % 256 for i in range(n))
        enc = o_length_prefixed([nnbi(8, b) for b in data])
        raw = int(enc, 2).to_bytes(len(enc) // 8, "big") if enc else b""
        L.append(f"os_uper_dec {hx(raw)} 0")
        L.append(f"os_uper_dec {hx(raw + TAIL1)} 3")
        for cut in sorted({0, 1, 2, len(raw) // 2, len(raw) - 1}):
            if 0 <= cut < len(raw): L.append(f"os_uper_dec {hx(raw[:cut])} 0")
        if n >= 16384:          # fragment header surgery
            for h in (0xc0, 0xc5, 0xc1, 0xc4, 0xff, 0x80):
                L.append(f"os_uper_dec {hx(bytes([h]) + raw[1:])} 0")
    for _ in range(200 if ctx.quick else 5000):
        raw = bytes(rng.getrandbits(8) for _ in range(rng.randrange(0, 40)))
        if raw and rng.random() < 0.5: raw = bytes([rng.choice([0, 1, 3, 0x7f, 0x80, 0x81, 0xc0, 0xc1])]) + raw[1:]
        L.append(f"os_uper_dec {hx(raw)} {rng.randrange(0, 8) if raw else 0}")
    return L

# ------------------------------------------------------------------ P leg

def p_leg(ctx, drv, lines, couts, expect):
    """returns list of (line, c_output, why, region) with region in {None, 'F5'}"""
    fails = []
    second, second_chk = [], []
    n_cases = 0
    rng = ctx.rng
    def rt(op, c_bits, expect_value, src_line):
        tail = rbits(rng, rng.choice([0, 1, 5, 8]))
        second.append(f"{op} {bs(c_bits + tail)}")
        second_chk.append((src_line, f"{expect_value} {len(c_bits)}"))
    for l, c in zip(lines, couts):
        t = l.split(); op = t[0]
        if c is None or c.startswith("CRASH"):
            fails.append((l, c, "crash / sanitizer report", None)); continue
        if c.endswith("nonzero-padding") or "flush" in c:
            fails.append((l, c, "asn_put_aligned_flush: padding bits not zero / size mismatch", None)); continue
        if op == "uper_put_length" and t[2] == "1":
            n_cases += 1
            n = int(t[1])
            if n < 16384: exp = f"{o_length_det(n)} {n} 0"
            else:
                m = min(n // 16384, 4)
                exp = f"11{nnbi(6, m)} {m * 16384} {1 if n == m * 16384 else 0}"
            if c != exp: fails.append((l, c, f"X.691 10.9.3.5-8 expects {exp}", None))
            elif n < 16384:
                second.append(f"uper_get_length -1 0 {c.split()[0]}{rbits(rng, 3)}")
                second_chk.append((l, f"{n} 0 {len(c.split()[0])}"))
        elif op == "uper_get_length":
            n_cases += 1
            if c != "-1":
                v, rep, used = c.split()
                if int(used) > (0 if t[3] == "-" else len(t[3])): fails.append((l, c, "consumed more bits than available", None))
        elif op == "nsnnwn_put":
            n = int(t[1])
            if 0 <= n < (1 << 24):
                n_cases += 1
                exp = o_normally_small(n)
                if c != exp: fails.append((l, c, f"X.691 10.6 expects {exp}", None))
                if c != "-1": rt("nsnnwn_get", c, n, l)
        elif op in ("nsnnwn_get", "nslength_get", "cwn_get"):
            n_cases += 1
            src = t[-1]
            if l in expect and c != expect[l]:
                fails.append((l, c, f"the reader must accept the standard encoding: expected {expect[l]}", None))
            if c != "-1" and int(c.split()[1]) > (0 if src == "-" else len(src)):
                fails.append((l, c, "consumed more bits than available", None))
        elif op == "nslength_put":
            n = int(t[1])
            if 1 <= n < 16384:
                n_cases += 1
                exp = o_normally_small_length(n)
                if c != exp: fails.append((l, c, f"X.691 10.9.3.4 expects {exp}", None))
                if c != "-1": rt("nslength_get", c, n, l)
        elif op == "cwn_put":
            rb, v = int(t[1]), int(t[2])
            if 0 <= rb <= 64 and v < (1 << rb):
                n_cases += 1
                exp = bs(nnbi(rb, v))
                if c != exp: fails.append((l, c, f"X.691 10.5.6 expects {exp}", None))
                if c != "-1":
                    tail = rbits(rng, 4)
                    second.append(f"cwn_get {rb} {bs(('' if c == '-' else c) + tail)}")
                    second_chk.append((l, f"{v} {rb}"))
        elif op == "rebase":
            v, lb, ub = int(t[1]), int(t[2]), int(t[3])
            if lb <= ub:
                n_cases += 1
                exp = f"ok {v - lb}" if lb <= v <= ub else "fail"
                if c != exp: fails.append((l, c, f"v - lb: expected {exp}", None))
                if lb <= v <= ub:
                    second.append(f"unrebase {v - lb} {lb} {ub}"); second_chk.append((l, f"ok {v}"))
        elif op == "unrebase":
            inp, lb, ub = int(t[1]), int(t[2]), int(t[3])
            if lb <= ub:
                n_cases += 1
                exp = f"ok {inp + lb}" if inp <= ub - lb else "fail"
                if c != exp: fails.append((l, c, f"inp + lb within the range: expected {exp}", None))
        elif op == "oer_len_put":
            n_cases += 1
            n = int(t[1]); e = o_oer_length(n)
            exp = f"{hx(e)} {len(e)}"
            if c != exp: fails.append((l, c, f"X.696 8.6 expects {exp}", None))
            elif n <= (1 << 63) - 1:
                second.append(f"oer_len_get {hx(e + bytes(rng.getrandbits(8) for _ in range(rng.choice([0, 2]))))}")
                second_chk.append((l, f"ok {n} {len(e)}"))
        elif op == "oer_len_get":
            n_cases += 1
            if c.startswith("ok "):
                size = 0 if t[1] == "-" else len(t[1]) // 2
                if int(c.split()[2]) > size: fails.append((l, c, "consumed more octets than available", None))
            elif c not in ("more", "fail"): fails.append((l, c, "unexpected outcome", None))
        elif op == "os_uper_enc":
            n_cases += 1
            n, mul = int(t[1]), int(t[2])
            data = [(i * mul + 7) % 256 for i in range(n)]
            e = o_length_prefixed([nnbi(8, b) for b in data])
            exp = f"{hx(int(e, 2).to_bytes(len(e) // 8, 'big'))} {len(e)}"
            if c != exp: fails.append((l[:80], c[:80], "X.691 10.9 length-prefixed octets (fragmentation) differ from the oracle", None))
            else:
                second.append(f"os_uper_dec {c.split()[0]} 0"); second_chk.append((l, f"ok {hx(bytes(data))} {len(e)}"))
        elif op == "os_uper_dec":
            n_cases += 1
            if c.startswith("ok "):
                size = 0 if t[1] == "-" else 4 * len(t[1])
                if int(c.split()[2]) > size - int(t[2]): fails.append((l[:80], c[:80], "consumed more bits than available", None))
        elif op == "int_oer_enc":
            n_cases += 1
            w, pos = int(t[1]), int(t[2])
            content = unhx(t[3])
            if content:
                z = twos_val(content)
                e = o_oer_int(w, pos, z)
                exp = hx(e) if e is not None else "fail"
                if c != exp: fails.append((l, c, f"X.696 10 expects {exp} for value {z}", None))
            elif c != "fail": fails.append((l, c, "empty INTEGER must not be encodable", None))
        elif op == "int_oer_dec":
            n_cases += 1
            size = len(unhx(t[3]))
            if c == "oob":
                fails.append((l, c, "INTEGER_decode_oer reads ptr[size] (zero length at the end of the data, positive)", "F5"))
            elif c.startswith("ok "):
                _, ch, used = c.split()
                if int(used) > size: fails.append((l, c, "consumed more octets than available", None))
                if unhx(ch) != twos_min(twos_val(unhx(ch))):
                    fails.append((l, c, "decoded INTEGER contents not in the minimal form INTEGER_compare assumes (X.690 8.3.2)", None))
                if l in expect and (twos_val(unhx(ch)), int(used)) != expect[l]:
                    fails.append((l, c, f"expected value {expect[l][0]}, consumed {expect[l][1]}", None))
            elif l in expect: fails.append((l, c, f"the standard encoding of {expect[l][0]} must be accepted", None))
        elif op == "rawget":
            # C04: every read stays inside [nboff, nbits): position after k reads = nboff + sum of widths <= nbits
            n_cases += 1
            if c not in ("precond",):
                nboff, nbits = int(t[2]), int(t[3])
                pos = nboff
                for w, r in zip(t[4:], c.split(",")):
                    if r == "-1":
                        if int(w) <= 31 and pos + int(w) <= nbits: fails.append((l, c, "read refused although enough bits are left", None))
                        break
                    pos += int(w)
                    if pos > nbits or int(w) > 31: fails.append((l, c, "read beyond nbits accepted", None)); break
                    v, st = r.split("@"); bo, no, nb = (int(x) for x in st.split(":"))
                    raw = int.from_bytes(unhx(t[1]), "big") if t[1] != "-" else 0
                    tot = 8 * (0 if t[1] == "-" else len(t[1]) // 2)
                    exp_v = (raw >> (tot - pos)) & ((1 << int(w)) - 1)
                    if int(v) != exp_v or 8 * bo + no != pos: fails.append((l, c, f"expected value {exp_v} at bit position {pos}", None)); break
        elif op == "bits":
            n_cases += 1
    if second:
        c2, _ = ctx.run_c_bisect(drv, second)
        ctx.cov["evaluations"] += len(second)
        for (src, exp), l2, c in zip(second_chk, second, c2):
            n_cases += 1
            if c != exp:
                fails.append(((src + " ; " + l2)[:300], str(c)[:120], f"reader must invert the writer: expected {exp[:120]}", None))
    return fails, n_cases

def category(why):
    """which property a P failure belongs to ('*' = always reported)"""
    if why.startswith("crash"): return "*"
    if ("consumed more" in why or "reads ptr[size]" in why or "beyond nbits" in why or "unexpected outcome" in why):
        return "C04"
    if "reader must invert the writer" in why: return "C01"
    if ("must accept" in why or "must be accepted" in why or why.startswith("expected value") or "read refused" in why):
        return "C03"
    return "C02"

RELEVANT = {"C01": {"C01"}, "C02": {"C02", "C01", "C03"}, "C03": {"C03"}, "C04": {"C04"}}

def run(ctx):
    lib = build.build_skel("asan")
    drv = build.build_prog("per_driver", ["per_driver.c", "ops_per.c"], libs=[lib])
    expect = {}
    lines = gen_lines(ctx, expect)
    dis, couts, mouts = ctx.correspond("per-l1", drv, lines)
    ctx.cov["distribution"]["per_l1_ops"] = len(lines)
    kinds = {}
    for l in lines: kinds[l.split()[0]] = kinds.get(l.split()[0], 0) + 1
    ctx.cov["distribution"]["per_l1_kinds"] = kinds
    for i, l, c, m in dis[:50]:
        ctx.broken.append({"kind": "correspondence", "name": "per-l1", "op": l[:400], "c": str(c)[:400], "model": str(m)[:400]})
    if dis:
        ctx.log(f"per-l1 correspondence: {len(dis)} disagreements, first: {[str(x)[:200] for x in dis[0][1:]]}")

    fails, n_cases = p_leg(ctx, drv, lines, couts, expect)
    rel = RELEVANT.get(ctx.prop)
    by_cat = {}
    for f in fails: by_cat[category(f[2])] = by_cat.get(category(f[2]), 0) + 1
    if rel is not None:
        fails = [f for f in fails if category(f[2]) == "*" or category(f[2]) in rel]
    ctx.cov["predicate"]["per-l1"] = {"cases": n_cases, "failures": len(fails), "failures_by_property_all": by_cat}
    unexplained = []
    for l, c, why, region in fails:
        f = None
        if region == "F5":
            f = ctx.match_finding(lambda f: f["id"] == "F5")
        if not f: unexplained.append((l, c, why))
    for l, c, why in unexplained[:5]:
        ctx.violation(f"{ctx.prop} (L1 PER/OER primitives) predicate fails on C: {l} -> {c}: {why}",
                      {"op": l, "c_output": c, "why": why, "driver": "per_driver"})
    return {"lines": len(lines), "disagreements": len(dis), "p_failures": len(fails), "unexplained": len(unexplained)}

def replay_ops(ctx, ops):
    lib = build.build_skel("asan")
    drv = build.build_prog("per_driver", ["per_driver.c", "ops_per.c"], libs=[lib])
    c, _ = ctx.run_c_bisect(drv, ops)
    rc, m, _ = ctx.run_lines(build.model_exe(), ops)
    for o, a, b in zip(ops, c, m):
        print("replay:", o[:300], "| C:", str(a)[:300], "| model:", b[:300])
