"""C15 — decoding uses bounded stack and heap proportional to the input.

L  Lean: Props/C15.lean over Impl/StackGuard.lean and the *regenerated* Generated/StackGuard.lean
   (translator c15_translate.py: limits + which decoders contain an effective ASN__STACK_OVERFLOW_CHECK).
K  model vs C: (K1) frame-size calibration of the guarded recursion on two limits, then exact prediction of
   the reached depth / verdict for other limits and depths (`c15nest`); (K2) rc / consumed / number of
   allocations / peak bytes of the modelled decoders (`ber_decode_primitive`, `OCTET_STRING_decode_oer/uper`,
   `SET_OF_decode_uper/oer`, constructed OCTET STRING BER) on adversarial + random inputs.
P  the property on C: every adversarial input, in its own process with an 8 MiB stack: no signal / sanitizer
   report, rc in {fail, more} (ok for the benign ones), peak live heap <= K*n + F with K, F per type."""
import os, re, json, subprocess, collections, shutil
from concurrent.futures import ThreadPoolExecutor
from .. import build, bundle
from . import c15_translate

MODULE = """C15 DEFINITIONS AUTOMATIC TAGS ::= BEGIN
RSeqOf ::= SEQUENCE OF RSeqOf
RSetOf ::= SET OF RSetOf
ROpt ::= SEQUENCE { a INTEGER (0..255), next ROpt OPTIONAL }
RCh ::= CHOICE { a RCh, b NULL }
RChSeq ::= CHOICE { s SEQUENCE { inner RChSeq }, n NULL }
RSet ::= SET { a RSet OPTIONAL, b NULL }
RExt ::= SEQUENCE { a BOOLEAN, ... }
SoNull ::= SET OF NULL
SqNull ::= SEQUENCE OF NULL
SqNullC ::= SEQUENCE (SIZE(0..65535)) OF NULL
SqBool ::= SEQUENCE OF BOOLEAN
SqEmpty ::= SEQUENCE OF SEQUENCE {}
SqInt3 ::= SEQUENCE OF INTEGER (0..7)
SqEnum8 ::= SEQUENCE OF ENUMERATED { e0, e1, e2, e3, e4, e5, e6, e7 }
Os ::= OCTET STRING
Bs ::= BIT STRING
Ia5 ::= IA5String
Bmp ::= BMPString
Ia5One ::= IA5String (FROM ("a"))
OsFix ::= OCTET STRING (SIZE(65535))
OsVar ::= OCTET STRING (SIZE(0..65535))
SqOsVar ::= SEQUENCE OF OCTET STRING (SIZE(0..65535))
BsFix ::= BIT STRING (SIZE(65535))
Ia5Fix ::= IA5String (SIZE(60000))
Oid ::= OBJECT IDENTIFIER
Roid ::= RELATIVE-OID
BigInt ::= INTEGER (0..18446744073709551615000)
END
"""
TYPE_NAMES = re.findall(r"^(\w+) ::=", MODULE, re.M)
DRIVER_SOURCES = ("gen_c15_driver.c", "ops_gen_core.c", "ops_gen_c15.c", "reflect.c", "alloc_peak.c")
LINK_FLAGS = ["-Wl,--wrap=malloc", "-Wl,--wrap=calloc", "-Wl,--wrap=realloc", "-Wl,--wrap=free"]
STACK_KB = 8192
PHYS = STACK_KB * 1024

# Findings in this property's domain that are not yet in /verif/KNOWN_FINDINGS.json (entries there with the same
# id take precedence).  F13, F70 and F71 are repaired (status fixed in KNOWN_FINDINGS.json): their former witnesses
# are ordinary cases below and must satisfy the property.
PROPOSED_FINDINGS = []

# ----------------------------------------------------------------------------------------------------- encoders

def ber_len(n):
    if n < 128: return bytes([n])
    b = n.to_bytes((n.bit_length() + 7) // 8, "big")
    return bytes([0x80 + len(b)]) + b

def ber_nest_indef(first_open, open_, depth, inner=b"", close=True):
    """first_open + open_*(depth-1) + inner + EOCs"""
    if depth == 0: return inner
    return first_open + open_ * (depth - 1) + inner + (b"\x00\x00" * depth if close else b"")

def ber_nest_def(first_tag, tag, depth, inner=b"", pre=b""):
    """definite-length nesting built inside-out in linear time; `pre` is put before the nested value at each level"""
    heads = []
    size = len(inner)
    for i in range(depth):
        t = first_tag if i == depth - 1 else tag
        h = t + ber_len(size + len(pre)) + pre
        heads.append(h); size += len(h)
    return b"".join(reversed(heads)) + inner

class BitW:
    def __init__(self): self.bits = []
    def put(self, v, n):
        for i in range(n - 1, -1, -1): self.bits.append((v >> i) & 1)
        return self
    def raw(self, s):
        self.bits.extend(1 if c == "1" else 0 for c in s); return self
    def bytes(self):
        b = self.bits + [0] * (-len(self.bits) % 8)
        return bytes(int("".join(map(str, b[i:i + 8])), 2) for i in range(0, len(b), 8))

def bits_bytes(s):
    s = s + "0" * (-len(s) % 8)
    return int(s, 2).to_bytes(len(s) // 8, "big") if s else b""

def oer_qty(n):
    b = n.to_bytes(max(1, (n.bit_length() + 7) // 8), "big")
    return bytes([len(b)]) + b

# ----------------------------------------------------------------------------------------------------- cases

Case = collections.namedtuple("Case", "type syn name data expect maxstack depth tag")
# expect: set of admissible rc;  tag: "deep" | "bomb" | "prefix" | "benign"

def deep_cases(ctx):
    """recursive types x syntaxes x nesting depths; returns list of Case"""
    out = []
    depths = [100, 1000, 10000, 100000] if ctx.quick else [100, 317, 1000, 3162, 10000, 31623, 100000]
    depths = depths + [ctx.rng.randrange(150, 900), ctx.rng.randrange(1500, 9000), ctx.rng.randrange(20000, 90000)]
    small = [1, 2, 20]
    EOC = b"\x00\x00"
    def add(t, syn, name, gen, ok_small=True, stacks=(None,), closed_always=False):
        for d in small:
            if ok_small: out.append(Case(t, syn, f"{name}-closed-{d}", gen(d, True), {"ok"}, None, d, "benign"))
        for d in depths:
            for ms in stacks:
                # definite lengths are always complete: below the guard's threshold (~100 levels) the value is simply decoded
                # (a complete value may be accepted when the limit could hold d frames of >= 64 bytes)
                exp = {"ok", "fail"} if (closed_always and (ms or 30000) >= 64 * d) else {"fail", "more"}
                out.append(Case(t, syn, f"{name}-{d}" + (f"-ms{ms}" if ms else ""), gen(d, False), exp, ms, d, "deep"))
    ms_set = (None, 5000, 100000, 1000000)
    ms_one = (None, ctx.rng.choice([7000, 60000, 250000, 2000000]))
    # ---- BER
    add("RSeqOf", "ber", "indef", lambda d, c: ber_nest_indef(b"\x30\x80", b"\x30\x80", d, close=c), stacks=ms_set)
    add("RSeqOf", "ber", "def", lambda d, c: ber_nest_def(b"\x30", b"\x30", d), stacks=ms_one, closed_always=True)
    add("RSetOf", "ber", "indef", lambda d, c: ber_nest_indef(b"\x31\x80", b"\x31\x80", d, close=c), stacks=ms_one)
    add("ROpt", "ber", "indef", lambda d, c: (b"\x30\x80\x80\x01\x05" + b"\xa1\x80\x80\x01\x05" * (d - 1) + (EOC * d if c else b"")), stacks=ms_one)
    add("ROpt", "ber", "def", lambda d, c: ber_nest_def(b"\x30", b"\xa1", d, pre=b"\x80\x01\x05"), closed_always=True)
    add("RCh", "ber", "indef", lambda d, c: b"\xa0\x80" * d + (b"\x81\x00" + EOC * d if c else b""), stacks=ms_one)
    add("RChSeq", "ber", "indef", lambda d, c: b"\xa0\x80\xa0\x80" * d + (b"\x81\x00" + EOC * 2 * d if c else b""))
    add("RSet", "ber", "indef", lambda d, c: b"\x31\x80" + b"\xa0\x80" * (d - 1) + ((b"\x81\x00" + EOC) * d if c else b""))
    # unknown extension skipped by ber_skip_length (constructed, nested)
    add("RExt", "ber", "skip-indef", lambda d, c: b"\x30\x80\x80\x01\xff" + b"\xa5\x80" * d + (EOC * d + EOC if c else b""), stacks=ms_one)
    add("RExt", "ber", "skip-def", lambda d, c: b"\x30\x80\x80\x01\xff" + ber_nest_def(b"\xa5", b"\xa5", d) + (EOC if c else b""), closed_always=False)
    # ---- UPER
    add("RSeqOf", "uper", "len1", lambda d, c: b"\x01" * d + (b"\x00" if c else b""), stacks=ms_set)
    add("RSetOf", "uper", "len1", lambda d, c: b"\x01" * d + (b"\x00" if c else b""), stacks=ms_one)
    add("ROpt", "uper", "opt", lambda d, c: bits_bytes("100000101" * (d - 1) + ("000000101" if c else "100000101")), stacks=ms_one)
    add("RCh", "uper", "idx0", lambda d, c: bits_bytes("0" * d + ("1" if c else "0" * 8)), stacks=ms_one)
    add("RChSeq", "uper", "idx0", lambda d, c: bits_bytes("0" * d + ("1" if c else "0" * 8)))
    # ---- OER
    add("RSeqOf", "oer", "qty1", lambda d, c: b"\x01\x01" * d + (b"\x01\x00" if c else b""), stacks=ms_set)
    add("RSetOf", "oer", "qty1", lambda d, c: b"\x01\x01" * d + (b"\x01\x00" if c else b""), stacks=ms_one)
    add("ROpt", "oer", "opt", lambda d, c: b"\x80\x05" * (d - 1) + (b"\x00\x05" if c else b"\x80\x05"), stacks=ms_one)
    add("RChSeq", "oer", "tag80", lambda d, c: b"\x80" * d + (b"\x81" if c else b""), stacks=ms_one)
    add("RCh", "oer", "tag80", lambda d, c: b"\x80" * d + (b"\x81" if c else b""), stacks=ms_set)      # recursion through CHOICE_decode_oer only (former F13 witness)
    # ---- XER (former F13 witnesses: every constructed XER decoder recurses)
    def xer(open_, close_, leaf):
        return lambda d, c: (open_ * d + (leaf + close_ * d if c else "")).encode()
    add("RSeqOf", "xer", "tags", xer("<RSeqOf>", "</RSeqOf>", ""), stacks=ms_set)
    add("RSetOf", "xer", "tags", xer("<RSetOf>", "</RSetOf>", ""), stacks=ms_one)
    add("ROpt", "xer", "tags", lambda d, c: ("<ROpt><a>5</a>" + "<next><a>5</a>" * (d - 1) + ("</next>" * (d - 1) + "</ROpt>" if c else "")).encode(), stacks=ms_one)
    add("RCh", "xer", "tags", lambda d, c: ("<RCh>" + "<a>" * d + ("<b/>" + "</a>" * d + "</RCh>" if c else "")).encode(), stacks=ms_one)
    add("RSet", "xer", "tags", lambda d, c: ("<RSet>" + "<a>" * (d - 1) + ("<b/>" + "</a><b/>" * (d - 1) + "</RSet>" if c else "")).encode(), stacks=ms_one)
    # ---- constructed strings: nesting lives on the heap (`_stack`), any depth is fine
    # (asn1c expects the segments of a constructed string to carry the string's own tag)
    for d in small + depths:
        for t, ctag, ptag, seg in (("Os", 0x24, 0x04, b"\x03abc"), ("Bs", 0x23, 0x03, b"\x03\x00ab"), ("Ia5", 0x36, 0x16, b"\x03abc")):
            body = bytes([ctag, 0x80]) * d + bytes([ptag]) + seg
            out.append(Case(t, "ber", f"constructed-closed-{d}", body + EOC * d, {"ok"}, None, d, "benign"))
            out.append(Case(t, "ber", f"constructed-open-{d}", body, {"more", "fail"}, None, d, "deep"))
    return out

def bomb_cases(ctx):
    """length prefixes with nothing behind them, zero-width elements with maximal counts, fragments"""
    out = []
    R = ctx.rng
    def c(t, syn, name, data, expect=("fail", "more"), tag="bomb"):
        out.append(Case(t, syn, name, data, set(expect), None, 0, tag))
    # ---- BER maximal length prefixes, no data
    for t, tg in (("Os", 0x04), ("Bs", 0x03), ("Ia5", 0x16), ("Bmp", 0x1e), ("Oid", 0x06), ("Roid", 0x0d), ("BigInt", 0x02), ("OsFix", 0x04),
                  ("SqBool", 0x30), ("SoNull", 0x31), ("RSeqOf", 0x30), ("SqOsVar", 0x30)):
        for ln, nm in ((b"\x84\x7f\xff\xff\xff", "847fffffff"), (b"\x84\xff\xff\xff\xff", "84ffffffff"), (b"\x88\x3f" + b"\xff" * 7, "883fff"),
                       (b"\x88\x7f" + b"\xff" * 7, "887fff"), (b"\x83\x01\x00\x00", "83010000")):
            c(t, "ber", "prefix-" + nm, bytes([tg]) + ln, tag="prefix")
            c(t, "ber", "prefix-" + nm + "-somedata", bytes([tg]) + ln + bytes(R.getrandbits(8) for _ in range(R.randrange(1, 40))), tag="prefix")
    # ---- BER collections, benign but large: linear heap
    n = 3000 if ctx.quick else 60000
    c("SqNull", "ber", f"valid-{n}", b"\x30" + ber_len(2 * n) + b"\x05\x00" * n, ("ok",), "benign")
    c("SqBool", "ber", f"valid-{n}", b"\x30" + ber_len(3 * n) + b"\x01\x01\xff" * n, ("ok",), "benign")
    c("Os", "ber", f"valid-{n}", b"\x04" + ber_len(n) + bytes(n), ("ok",), "benign")
    c("SqOsVar", "ber", f"valid-empty-{n}", b"\x30" + ber_len(2 * n) + b"\x04\x00" * n, ("ok",), "benign")
    c("Oid", "ber", "valid", bytes.fromhex("0603550403"), ("ok",), "benign")
    # ---- UPER: zero-width elements
    for t in ("SoNull", "SqNull", "SqEmpty"):
        for k in (1, 2, 3, 4):
            c(t, "uper", f"frag-{k}x16K", bytes([0xc0 + k]))
            c(t, "uper", f"frag-{k}x16K-repeated", bytes([0xc0 + k]) * R.randrange(2, 60))
        c(t, "uper", "len-16383", b"\xbf\xff")
        c(t, "uper", "len-201", b"\x80\xc9")
        c(t, "uper", "len-200", b"\x80\xc8", ("ok",), "benign")
        c(t, "uper", "len-127", b"\x7f", ("ok",), "benign")
        c(t, "uper", f"len-random", bytes([0x80 | R.randrange(1, 64), R.getrandbits(8)]))
        c(t, "uper", "bad-fragment-multiplier", b"\xc5")
    c("SqNullC", "uper", "count-65535", b"\xff\xff")
    c("SqNullC", "uper", "count-201", b"\x00\xc9")
    c("SqNullC", "uper", "count-200", b"\x00\xc8", ("ok",), "benign")
    c("SqNullC", "uper", "count-random", bytes([R.randrange(1, 256), R.getrandbits(8)]))
    # ---- UPER: elements that consume input; fragments with and without data
    c("SqBool", "uper", "frag-64K-nodata", b"\xc4")
    c("SqBool", "uper", "frag-16K-valid", b"\xc1" + b"\xaa" * 2048 + b"\x00", ("ok",), "benign")
    c("SqBool", "uper", "frag-16K-twice-then-starved", b"\xc1" + b"\x55" * 2048 + b"\xc1" + b"\x55" * 100)
    c("SqBool", "uper", "len-16383-nodata", b"\xbf\xff")
    # elements of 3 bits whose decoder reports rv.consumed = 0 (INTEGER_decode_uper): more than 200 of them are not a
    # zero-width bomb (former F47 witness: 201 elements; the guard compares pd->moved)
    c("SqInt3", "uper", "valid-201", b"\x80\xc9" + b"\xb6" * 76, ("ok",), "benign")
    c("SqInt3", "uper", "valid-16383", b"\xbf\xff" + b"\x92" * 6144, ("ok",), "benign")
    c("SqInt3", "uper", "frag-64K-nodata", b"\xc4")
    c("SqEnum8", "uper", "valid-201", b"\x80\xc9" + b"\xb6" * 76, ("ok",), "benign")
    c("SqEnum8", "uper", "valid-300", b"\x81\x2c" + b"\x49\x24\x92" * 37 + b"\x49\x00", ("ok",), "benign")
    c("SqInt3", "uper", "len-16383-nodata", b"\xbf\xff")
    for t, bpc in (("Os", 1), ("Ia5", 1), ("Bmp", 2), ("Bs", 1)):
        for k in (1, 4):
            c(t, "uper", f"frag-{k}x16K-nodata", bytes([0xc0 + k]))
        c(t, "uper", "len-16383-nodata", b"\xbf\xff")
        c(t, "uper", "len-16383-somedata", b"\xbf\xff" + bytes(R.randrange(1, 2000)))
    c("Os", "uper", "frag-16K-valid", b"\xc1" + bytes(16384) + b"\x05hello", ("ok",), "benign")
    c("Os", "uper", "frag-64K-then-64K-nodata", b"\xc4" + bytes(65536) + b"\xc4")
    c("Os", "uper", "frag-16K-x3-starved", (b"\xc1" + bytes(16384)) * 3 + b"\xc1" + bytes(77))
    # ---- UPER: SIZE preallocation (the constant F of the type)
    c("OsFix", "uper", "empty", b"")
    c("OsFix", "uper", "short", bytes(R.randrange(1, 3000)))
    c("OsFix", "uper", "valid", bytes(65535), ("ok",), "benign")
    c("BsFix", "uper", "empty", b"\x00")
    c("Ia5Fix", "uper", "short", bytes(R.randrange(1, 3000)))
    c("OsVar", "uper", "len-65535-nodata", b"\xff\xff")
    c("OsVar", "uper", "len-0", b"\x00\x00", ("ok",), "benign")
    c("OsVar", "uper", "len-3", b"\x00\x03abc", ("ok",), "benign")
    c("SqOsVar", "uper", "ten-empty-strings", b"\x0a" + b"\x00\x00" * 10, ("ok",), "benign")      # former F70 witness: 65576 bytes per empty element
    c("Ia5One", "uper", "frag-64K-x8-zero-width-characters", b"\xc4" * 8, ("fail",))       # former F71 witness: 64 KiB of heap per octet
    c("Ia5One", "uper", "frag-16K-zero-width-characters", b"\xc1", ("fail",))
    c("Ia5One", "uper", "len-16383-zero-width-characters", b"\xbf\xff", ("ok",), "benign")
    c("Ia5One", "uper", "len-5-zero-width-characters", b"\x05", ("ok",), "benign")
    c("SqOsVar", "uper", "three-strings", b"\x03" + b"\x00\x01a" * 3, ("ok",), "benign")
    # ---- OER
    for t in ("SoNull", "SqNull", "SqEmpty"):
        c(t, "oer", "qty-200", b"\x01\xc8", ("ok",), "benign")
        c(t, "oer", "qty-201", b"\x01\xc9", ("ok",), "benign")
        c(t, "oer", "qty-202", b"\x01\xca")
        c(t, "oer", "qty-2^32-1", b"\x04\xff\xff\xff\xff")
        c(t, "oer", "qty-2^63-1", b"\x08\x7f" + b"\xff" * 7)
        c(t, "oer", "qty-2^64-1", b"\x08" + b"\xff" * 8)
        c(t, "oer", "qty-random", oer_qty(R.randrange(203, 1 << 40)))
        c(t, "oer", "qty-len-9", b"\x09\x01" + b"\x00" * 8)
    c("SqBool", "oer", "qty-2^32-1-few", b"\x04\xff\xff\xff\xff" + bytes(R.randrange(0, 50)))
    c("SqBool", "oer", f"valid-{n}", oer_qty(n) + b"\xff" * n, ("ok",), "benign")
    c("RSeqOf", "oer", "qty-2^32-1", b"\x04\xff\xff\xff\xff")
    for t in ("Os", "Ia5", "Bmp", "Oid", "Roid", "Bs"):
        c(t, "oer", "len-84ffffffff", b"\x84\xff\xff\xff\xff", tag="prefix")
        c(t, "oer", "len-887fff", b"\x88\x7f" + b"\xff" * 7, tag="prefix")
        c(t, "oer", "len-88ffff", b"\x88" + b"\xff" * 8, tag="prefix")
        c(t, "oer", "len-84ffffffff-somedata", b"\x84\xff\xff\xff\xff" + bytes(R.randrange(1, 300)), tag="prefix")
    c("OsFix", "oer", "empty", b"", tag="prefix")
    c("OsFix", "oer", "short", bytes(R.randrange(1, 3000)), tag="prefix")
    c("Os", "oer", f"valid-{n}", b"\x82" + n.to_bytes(2, "big") + bytes(n), ("ok",), "benign")
    # ---- XER: wide rather than deep
    c("SqNull", "xer", f"valid-{n}", ("<SqNull>" + "<NULL/>" * n + "</SqNull>").encode(), ("ok",), "benign")
    c("SqBool", "xer", f"valid-{n}", ("<SqBool>" + "<true/>" * n + "</SqBool>").encode(), ("ok",), "benign")
    c("Os", "xer", f"valid-{n}", ("<Os>" + "ab" * n + "</Os>").encode(), ("ok",), "benign")
    c("Os", "xer", f"open-{n}", ("<Os>" + "ab" * n).encode())
    c("SqNull", "xer", f"open-{n}", ("<SqNull>" + "<NULL/>" * n).encode())
    return out

# ----------------------------------------------------------------------------------------------------- bounds

def bounds(ssz):
    """(K, F) per (type, syntax): peak heap <= K * n + F for n input octets.
    A = bytes allocated per decoded node (structure + 16 for its slot in a doubling pointer array),
    w = minimal number of input *bits* per node in that syntax, K = ceil(8A/w); a zero-width node (w = 0)
    is cut by the guard at 202 nodes and contributes to F only.  F always contains the top structure, the first
    pointer array (32) and slack for one partially decoded node."""
    P = 16
    def K(A, w): return -(-8 * A // w)
    B = {}
    def setb(t, syn, k, f): B[(t, syn)] = (k, f + ssz.get(t, 64) + 96)
    # recursive collections: node = set structure (48) + first pointer array (32)
    for t in ("RSeqOf", "RSetOf"):
        A = ssz[t] + 32
        setb(t, "ber", K(A, 16), 0); setb(t, "uper", K(A, 8), 0); setb(t, "oer", K(A, 16), 0); setb(t, "xer", K(A, 64), 0)
    A = ssz["ROpt"] + 8      # + the OPTIONAL-presence bitmap MALLOC of SEQUENCE_decode_uper (2 bytes)
    PD = 50                  # SEQUENCE_decode_oer keeps an asn_bit_data_t copy of the preamble (48 + preamble octets + 1) per SEQUENCE
    setb("ROpt", "ber", K(A, 40), 0); setb("ROpt", "uper", K(A, 9), 0); setb("ROpt", "oer", K(ssz["ROpt"] + PD, 16), 0); setb("ROpt", "xer", K(A, 14 * 8), 0)
    A = ssz["RCh"]
    setb("RCh", "ber", K(A, 16), 0); setb("RCh", "uper", K(A, 1), 0); setb("RCh", "oer", K(A, 8), 0); setb("RCh", "xer", K(A, 24), 0)
    A = ssz["RChSeq"]
    setb("RChSeq", "ber", K(A, 32), 0); setb("RChSeq", "uper", K(A, 1), 0); setb("RChSeq", "oer", K(A + PD, 8), 0)
    A = ssz["RSet"]
    setb("RSet", "ber", K(A, 16), 0); setb("RSet", "xer", K(A, 24), 0)
    setb("RExt", "ber", 0, 0)                      # skipped extensions allocate nothing
    # collections of fixed-width elements: node = element + P
    ZW = 202
    for t, e in (("SoNull", 4), ("SqNull", 4), ("SqNullC", 4), ("SqEmpty", ssz_elem_empty_seq(ssz))):
        A = e + P
        setb(t, "ber", K(A, 16), 0); setb(t, "xer", K(A, 56), 0)
        setb(t, "uper", 0, ZW * A + 32); setb(t, "oer", 0, ZW * (A + (PD if t == "SqEmpty" else 0)) + 32)
    A = 4 + P
    setb("SqBool", "ber", K(A, 24), 0); setb("SqBool", "uper", K(A, 1), 0); setb("SqBool", "oer", K(A, 8), 0); setb("SqBool", "xer", K(A, 56), 0)
    setb("SqInt3", "uper", K(8 + P, 3), 0); setb("SqEnum8", "uper", K(8 + P, 3), 0)
    # strings: BER buffer doubles (2n+16) and every constructed level costs a 48-byte _stack_el per 2 octets;
    # UPER: one fragment (<= 64K characters of bpc bytes) may be allocated ahead of its data; OER: exact
    for t, bpc, u in (("Os", 1, 8), ("Bs", 1, 1), ("Ia5", 1, 7), ("Bmp", 2, 16)):
        setb(t, "ber", 26, 32)
        setb(t, "uper", K(bpc, u) + 1, 65536 * bpc + 1)
        setb(t, "oer", 1, 1)
        setb(t, "xer", 4, 64)
    setb("Ia5One", "uper", 2, 16384)          # zero-width characters: one unfragmented length (< 16K) at most (before the repair of F71: 64 KiB per octet)
    for t, ub, bpc in (("OsFix", 65535, 1), ("OsVar", 65535, 1), ("Ia5Fix", 60000, 1)):
        setb(t, "ber", 26, 32); setb(t, "uper", 2, ub * bpc + 1); setb(t, "oer", 1, 1)
    setb("BsFix", "uper", 1, (65535 + 7) // 8 + 1)
    # SEQUENCE OF OCTET STRING (SIZE(0..65535)): node = string structure + buffer (>= 16 in BER, len+1 else) + P
    A = 40 + 16 + P
    setb("SqOsVar", "ber", K(A, 16), 0)
    setb("SqOsVar", "uper", K(40 + 2 + P, 16) + 1, 65536)      # (before the repair of F70: 65576 bytes per empty element)
    for t in ("Oid", "Roid", "BigInt"):
        setb(t, "ber", 1, 17); setb(t, "oer", 1, 17)
    return B

def ssz_elem_empty_seq(ssz):
    return 24      # struct { asn_struct_ctx_t _asn_ctx; } of `SEQUENCE {}`

# ----------------------------------------------------------------------------------------------------- running

RES = re.compile(r"^(ok|more|fail) (\d+) peak_heap=(\d+) allocs=(\d+) maxreq=(\d+) failed=(\d+) live=(\d+)$")

def run_case(exe, workdir, idx, case):
    """one process, 8 MiB stack.  Returns dict(rc, consumed, peak, allocs, maxreq, failed, crash)"""
    hx = case.data.hex() or "-"
    arg = hx
    path = None
    if len(hx) > 3000:
        path = os.path.join(workdir, f"in{idx}.hex")
        with open(path, "w") as fh: fh.write(hx)
        arg = "@file:" + path
    line = f"@{case.type} decpeak {case.syn} {arg}" + (f" {case.maxstack}" if case.maxstack else "") + "\n"
    env = dict(os.environ, ASAN_OPTIONS="detect_leaks=0:abort_on_error=0:allocator_may_return_null=1:detect_stack_use_after_return=0",
               UBSAN_OPTIONS="print_stacktrace=0:halt_on_error=1")
    try:
        p = subprocess.run(["/bin/sh", "-c", f"ulimit -s {STACK_KB}; exec \"$0\"", exe], input=line, stdout=subprocess.PIPE,
                           stderr=subprocess.PIPE, text=True, env=env, timeout=300)
        rcode, out, err = p.returncode, p.stdout.strip(), p.stderr
    except subprocess.TimeoutExpired:
        rcode, out, err = -999, "", "timeout"
    finally:
        if path:
            try: os.unlink(path)
            except OSError: pass
    m = RES.match(out.split("\n")[0]) if out else None
    r = {"raw": out[:200], "exit": rcode, "crash": None}
    if m:
        r.update(rc=m.group(1), consumed=int(m.group(2)), peak=int(m.group(3)), allocs=int(m.group(4)), maxreq=int(m.group(5)),
                 failed=int(m.group(6)), live=int(m.group(7)))
    if rcode != 0 or not m:
        summ = "exit %d" % rcode
        for l in err.split("\n"):
            if "ERROR: AddressSanitizer" in l or "runtime error" in l or "Assertion" in l or "timeout" in l:
                summ = re.sub(r"0x[0-9a-f]+", "0x..", l.strip())[:160]; break
        r["crash"] = summ
    return r

def run_cases(exe, workdir, cases):
    with ThreadPoolExecutor(build.JOBS) as ex:
        return list(ex.map(lambda ic: run_case(exe, workdir, ic[0], ic[1]), enumerate(cases)))

def case_line(case):
    hx = case.data.hex() or "-"
    if len(hx) > 400: hx = hx[:200] + f"...({len(case.data)} octets)..." + hx[-100:]
    return f"@{case.type} decpeak {case.syn} {hx}" + (f" {case.maxstack}" if case.maxstack else "")

def is_stack_overflow(r):
    c = r.get("crash") or ""
    return "stack-overflow" in c or c.startswith("exit -11") or c.startswith("exit 139")

# ----------------------------------------------------------------------------------------------------- K leg

def model_lines(ctx, lines):
    rc, outs, err = ctx.run_lines(build.model_exe(), lines)
    if rc != 0 or len(outs) != len(lines):
        raise RuntimeError("model driver failed: rc=%s %s" % (rc, err[-300:]))
    return outs

def k_ledger(ctx, exe, workdir, ssz, cases):
    """K2: rc / consumed / allocs / peak of the modelled decoders, C vs Impl.StackGuard"""
    R = ctx.rng
    jobs = []      # (Case, model line)
    def rnd(n): return bytes(R.getrandbits(8) for _ in range(n))
    def hx(b): return b.hex() or "-"
    # inputs: the adversarial cases of the modelled (type, syntax) pairs that are small enough + random octets
    by = collections.defaultdict(list)
    for c in cases:
        if len(c.data) <= 40000 and c.maxstack is None: by[(c.type, c.syn)].append(c.data)
    nrand = 40 if ctx.quick else 600
    def inputs(t, syn, extra=()):
        ins = list(by.get((t, syn), [])) + list(extra)
        for _ in range(nrand): ins.append(rnd(R.randrange(0, 10)))
        return ins
    # ber_decode_primitive: OBJECT IDENTIFIER (universal 6), RELATIVE-OID (13), wide INTEGER (2)
    for t, num in (("Oid", 6), ("Roid", 13), ("BigInt", 2)):
        ex = [bytes([num]) + ber_len(k) + rnd(max(0, k - d)) for k in (0, 1, 5, 127, 128, 300) for d in (0, 1)]
        ex += [bytes([num, 0x80]), bytes([num | 0x20, 0x00]), bytes([0x1f, num])]
        if t == "BigInt": ex = [e for e in ex if len(e) < 2 or e[1] != 0 or e[0] != 2]   # INTEGER with 0 content octets: other code path, not modelled
        for b in inputs(t, "ber", ex):
            jobs.append((Case(t, "ber", "k", b, set(), None, 0, "k"), f"c15berprim 1 0 {num} {hx(b)}"))
    # OCTET_STRING_decode_oer
    for t, ct, unit in (("Os", "-", 1), ("Ia5", "-", 1), ("Bmp", "-", 2), ("OsFix", "65535", 1)):
        ex = [bytes([k]) + rnd(k - d) for k in (0, 1, 2, 17, 127) for d in (0, 1) if k - d >= 0] + [b"\x81\x80" + rnd(128), b"\x82\x01\x00" + rnd(255), b"\x80", b"\x89" + rnd(9)]
        for b in inputs(t, "oer", ex):
            jobs.append((Case(t, "oer", "k", b, set(), None, 0, "k"), f"c15osoer {ssz[t]} {ct} {unit} {hx(b)}"))
    # SET_OF_decode_uper / _oer with fixed-width elements
    for t, esz, w, rep0, eb in (("SoNull", 4, 0, 1, "-"), ("SqNull", 4, 0, 1, "-"), ("SqNullC", 4, 0, 1, "16"), ("SqBool", 4, 1, 0, "-"),
                                ("SqEmpty", 24, 0, 1, "-"), ("SqEnum8", 8, 3, 1, "-")):    # SqEnum8: 3-bit elements whose decoder reports rv.consumed = 0
        for b in inputs(t, "uper", [b"\x00", b"\x01", b"\x03\xa0", b"\x80\x05\xff"]):
            jobs.append((Case(t, "uper", "k", b, set(), None, 0, "k"), f"c15setofuper {ssz[t]} {esz} {w} {rep0} {eb} 0 {hx(b)}"))
    for t, esz, w, rep0 in (("SoNull", 4, 0, 1), ("SqNull", 4, 0, 1), ("SqBool", 4, 1, 0)):
        for b in inputs(t, "oer", [b"\x01\x00", b"\x01\x03\x00\xff\x00", b"\x02\x00\x02\xff", b"\x00"]):
            jobs.append((Case(t, "oer", "k", b, set(), None, 0, "k"), f"c15setofoer {ssz[t]} {esz} {w} {rep0} {hx(b)}"))
    # OCTET_STRING_decode_uper
    for t, bpc, u, eb, lb, ub in (("Os", 1, 8, "-", 0, 0), ("Ia5", 1, 7, "-", 0, 0), ("Bmp", 2, 16, "-", 0, 0), ("OsFix", 1, 8, "0", 65535, 65535),
                                  ("OsVar", 1, 8, "16", 0, 65535), ("Ia5One", 1, 0, "-", 0, 0)):
        ex = [bytes([k]) + rnd(k - d) for k in (0, 1, 2, 17, 127) for d in (0, 1) if k - d >= 0] + [b"\x80\x81" + rnd(129), b"\xc1" + rnd(16384) + b"\x00"]
        for b in inputs(t, "uper", ex):
            jobs.append((Case(t, "uper", "k", b, set(), None, 0, "k"), f"c15osuper {ssz[t]} {bpc} {u} {eb} {lb} {ub} {hx(b)}"))
    # constructed OCTET STRING (BER): heap-allocated nesting stack + buffer growth
    for d in (0, 1, 2, 3, 10, 100, 1000, R.randrange(4, 5000)):
        for ln in (0, 1, 15, 16, 17, 100, R.randrange(2, 3000)):
            seg = b"\x04" + ber_len(ln) + rnd(ln)
            data = (b"\x24\x80" * d + seg + b"\x00\x00" * d) if d else seg
            jobs.append((Case("Os", "ber", "k", data, set(), None, 0, "kpeak"), f"c15osber {ssz['Os']} {d} {ln}"))
    res = run_cases(exe, workdir, [j[0] for j in jobs])
    mouts = model_lines(ctx, [j[1] for j in jobs])
    dis = []
    for (case, ml), r, mo in zip(jobs, res, mouts):
        if r.get("crash"):
            dis.append((case, ml, "CRASH " + r["crash"], mo)); continue
        if case.tag == "kpeak":
            cc = f"peak={r['peak']}"; mm = mo
        else:
            cc = f"{r['rc']} {r['consumed']} allocs={r['allocs']} peak={r['peak']}"
            mm = re.sub(r" live=\d+.*$", "", mo)
        if cc != mm: dis.append((case, ml, cc, mo))
        ctx._distinct.add(("k2", case.type, case.syn, cc))
    st = ctx.cov["correspondence"].setdefault("ledger", {"lines": 0, "disagreements": 0, "c_crashes": 0})
    st["lines"] += len(jobs); st["disagreements"] += len(dis)
    ctx.cov["evaluations"] += len(jobs)
    for k in (0, len(jobs) // 2, len(jobs) - 1):
        ctx.cov["samples"].append({"op": case_line(jobs[k][0])[:200], "model_op": jobs[k][1][:200], "c": res[k].get("raw", "")[:120], "model": mouts[k][:120]})
    return dis

def k_nest(ctx, exe, workdir):
    """K1: the recursion model with constant frames.  Calibrate (c0, delta) of a (type, syntax) on four limits,
    then the model must predict verdict and reached depth for other limits and for depths below the threshold."""
    R = ctx.rng
    # (type, syntax, input of nesting d, allocations of the failing level, decoder invocations the input asks for)
    pairs = [("RSeqOf", "ber", lambda d: b"\x30\x80" * d, 1, lambda data: len(data) // 2),
             ("RSetOf", "ber", lambda d: b"\x31\x80" * d, 1, lambda data: len(data) // 2),
             ("RSeqOf", "uper", lambda d: b"\x01" * d, 0, lambda data: len(data) + 1),
             ("RSetOf", "uper", lambda d: b"\x01" * d, 0, lambda data: len(data) + 1),
             ("RSeqOf", "oer", lambda d: b"\x01\x01" * d, 0, lambda data: len(data) // 2 + 1),
             ("RCh", "uper", lambda d: bytes((d + 7) // 8), 0, lambda data: 8 * len(data) + 1),
             # the decoders repaired for F13: the check precedes the CALLOC of the structure (no allocation at the failing level)
             ("RCh", "oer", lambda d: b"\x80" * d, 0, lambda data: len(data) + 1),
             ("RSeqOf", "xer", lambda d: b"<RSeqOf>" * d, 0, lambda data: len(data) // 8),
             ("RCh", "xer", lambda d: b"<RCh>" + b"<a>" * (d - 1), 0, lambda data: (len(data) - 5) // 3 + 1)]
    D = 6000
    dis = []; n = 0; fits = {}
    for t, syn, gen, extra, inv in pairs:
        data = gen(D)
        def levels(ms_list):
            rs = run_cases(exe, workdir, [Case(t, syn, "cal", data, set(), ms, D, "k") for ms in ms_list])
            if any(r.get("crash") or r.get("rc") != "fail" for r in rs): return None
            return [r["allocs"] - extra for r in rs]          # levels whose check passed
        # model: level k (1-based) is entered with used = c0 + k*delta and passes iff used <= max, so the number of
        # passing levels jumps to k exactly at max = c0 + k*delta.  Locate two consecutive jumps exactly.
        coarse = levels([10000, 80000])
        if not coarse or coarse[1] <= coarse[0]:
            dis.append((t, syn, "calibration run did not fail cleanly", str(coarse))); continue
        d_est = 70000 // (coarse[1] - coarse[0]) + 1
        grid = list(range(20000, 20000 + 2 * d_est + 64, 8))
        lv = levels(grid)
        fit = None
        if lv:
            jumps = [i for i in range(1, len(grid)) if lv[i] > lv[i - 1]]
            exact = []
            for i in jumps[:2]:
                fine = list(range(grid[i - 1] + 1, grid[i] + 1))
                lf = levels(fine)
                if lf is None or lv[i] != lv[i - 1] + 1: exact = []; break
                exact.append((next(m for m, l in zip(fine, lf) if l == lv[i]), lv[i]))
            if len(exact) == 2:
                (m1, k1), (m2, k2) = exact
                delta = m2 - m1; c0 = m1 - k1 * delta
                if delta > 0 and c0 + delta >= 1 and k2 == k1 + 1 and all((m - c0) // delta == l for m, l in zip(grid, lv)): fit = (c0, delta)
        if not fit:
            dis.append((t, syn, "no constant frame size explains the calibration", f"levels at 10000/80000: {coarse}; grid from 20000 step 8: {str(lv)[:200]}")); continue
        c0, delta = fit; fits[f"{t}/{syn}"] = {"c0": c0, "delta": delta}
        # predictions: other limits (None = the default installed by the library), depths around and below the threshold
        tests = [(None, D)] + [(ms, D) for ms in (15000, 60000, R.randrange(5000, 200000), R.randrange(200000, 1500000))]
        for ms in (40000, R.randrange(20000, 90000)):
            th = (ms - c0) // delta
            tests += [(ms, dd) for dd in (1, R.randrange(2, 20), max(1, th - 12), th + 12)]
        cs = [Case(t, syn, "pred", gen(dd), set(), ms, dd, "k") for ms, dd in tests]
        rs = run_cases(exe, workdir, cs)
        ml = [f"c15nest 1 {ms or ctx.c15_default_max} {PHYS} {c0 + delta} {delta} {inv(c.data)}" for (ms, dd), c in zip(tests, cs)]
        mo = model_lines(ctx, ml)
        for (ms, dd), c, r, o in zip(tests, cs, rs, mo):
            n += 1
            m = ms or ctx.c15_default_max
            mm = re.match(r"(\w+) started=(\d+)", o)
            if r.get("crash"):
                dis.append((t, syn, f"max={m} depth={dd}", "C: CRASH " + r["crash"])); continue
            m_verdict = mm.group(1)
            m_pass = int(mm.group(2)) - (1 if m_verdict == "fail" else 0)
            c_verdict = "fail" if r["rc"] == "fail" else "ok"       # `more` = the input ended before the limit was reached
            c_pass = r["allocs"] - (extra if r["rc"] == "fail" else 0)
            if c_verdict != m_verdict or c_pass != m_pass:
                dis.append((t, syn, f"max={m} depth={dd} invocations={inv(c.data)} c0={c0} delta={delta}", f"C: {r.get('raw')} (levels {c_pass}) | model: {o} (levels {m_pass})"))
            ctx._distinct.add(("k1", t, syn, m, dd))
    st = ctx.cov["correspondence"].setdefault("nest", {"lines": 0, "disagreements": 0, "c_crashes": 0})
    st["lines"] += n; st["disagreements"] += len(dis); st["frame_fit"] = fits
    ctx.cov["evaluations"] += n
    return dis

# ----------------------------------------------------------------------------------------------------- main

def findings_for(ctx):
    ids = {f["id"] for f in ctx.findings}
    return list(ctx.findings) + [f for f in PROPOSED_FINDINGS if f["id"] not in ids]

def build_bundle():
    b = bundle.Bundle("c15", MODULE, TYPE_NAMES, driver_sources=DRIVER_SOURCES, link_flags=LINK_FLAGS)
    return b, b.build()

def replay(ctx, path):
    r = json.load(open(path))
    b, exe = build_bundle()
    try:
        for c in r.get("cases", [r]):
            if "input_hex" not in c: continue
            case = Case(c["type"], c["syntax"], "replay", bytes.fromhex(c["input_hex"]), set(), c.get("maxstack"), 0, "replay")
            res = run_case(exe, b.dir, 0, case)
            print("replay:", case_line(case)[:300], "=>", res.get("crash") or res.get("raw"))
    finally:
        b.cleanup()

EXT_REC_MODULE = ("XR DEFINITIONS AUTOMATIC TAGS ::= BEGIN RChE ::= CHOICE { leaf INTEGER (0..255), ..., deeper RChE } "
                  "RSqE ::= SEQUENCE { v INTEGER (0..255), ..., more RSqE OPTIONAL } END")

def _oer_len(n):
    if n < 128: return bytes([n])
    d = n.to_bytes((n.bit_length() + 7) // 8, "big")
    return bytes([0x80 | len(d)]) + d

def _nest_open(depth, leaf, head):
    """head(inner_length) -> header octets put in front of an inner encoding of that length; built outermost-first without
    quadratic copying"""
    sizes = [len(leaf)]
    for _ in range(depth): sizes.append(len(head(sizes[-1])) + sizes[-1])
    out = bytearray()
    for k in range(depth, 0, -1): out += head(sizes[k - 1])
    return bytes(out + leaf)

def directed_ext_recursion(ctx):
    """recursion that runs through an EXTENSION alternative / addition (an OER / UPER open type): nesting far beyond the default
    stack limit must end in RC_FAIL with the default limit, never in RC_OK or a crash (each input in its own process)"""
    names = ["RChE", "RSqE"]
    b = bundle.Bundle("XR", EXT_REC_MODULE, names)
    bad = []; n = 0
    try:
        exe = b.build()
    except Exception as e:
        ctx.module_not_built({"name": "XR-directed"}, e); b.cleanup(); return
    try:
        for depth in (3, 2000, 20000):      # (100000 levels cost > 10 s of CPU on a slow machine: the per-line guard then said HANG)
            cases = [("RChE", "oer", _nest_open(depth, b"\x80\x05", lambda L: b"\x81" + _oer_len(L))),
                     # RSqE: preamble 80 (extension bit), v, bitmap (1 addition: 02 07 80), addition as open type
                     ("RSqE", "oer", _nest_open(depth, b"\x00\x05", lambda L: b"\x80\x05\x02\x07\x80" + _oer_len(L)))]
            for tn, syn, data in cases:
                n += 1; ctx.cov["evaluations"] += 1
                r = subprocess.run(["bash", "-c", "ulimit -s 8192; exec \"$0\"", exe], input=f"@{tn} decq {syn} {data.hex()}\n",
                                   capture_output=True, text=True, timeout=600, env=dict(os.environ, VERIF_LINE_TIMEOUT="240"))
                o = (r.stdout.strip().split("\n") or [""])[0]
                rc = o.split(" ")[0] if o else ""
                want = "ok" if depth == 3 else "fail"
                if r.returncode != 0 or rc != want:
                    bad.append((tn, syn, depth, f"rc={r.returncode} out={o[:80]} err={r.stderr.strip()[-200:]}"))
                else: ctx.count_nontrivial(("ext-recursion", tn, syn, depth))
    finally:
        b.cleanup()
    ctx.cov["predicate"]["directed_ext_recursion"] = {"cases": n, "failures": len(bad)}
    for tn, syn, depth, why in bad[:3]:
        ctx.violation(f"C15 violated on C: {tn}/{syn} nesting {depth} through an extension (open type): expected RC_FAIL with the default stack limit, got {why}",
                      {"module": EXT_REC_MODULE, "type": tn, "syntax": syn, "depth": depth, "outcome": why})

def run(ctx):
    x, path = c15_translate.write()
    ctx.c15_default_max = x["defaultStackMax"] or 30000
    ctx.cov["translator"] = {"file": os.path.relpath(path, build.LEAN), "defaultStackMax": x["defaultStackMax"],
                             "zeroWidthLimitUper": x["zeroWidthLimitUper"], "zeroWidthLimitOer": x["zeroWidthLimitOer"],
                             "guarded": [n for n, g in x["guardedDecoders"] if g], "discarded_checks": x["discardedChecks"],
                             "decoders_listed": len(x["guardedDecoders"]), "length_alloc_sites": dict(x["lengthCheckedSites"])}
    ctx.lean()
    ctx.findings = findings_for(ctx)
    ctx.cov["rule"] = ("fixed module with recursive and collection types x adversarial inputs (nesting 10^2..10^5, maximal length prefixes, "
                       "zero-width elements with maximal counts, fragmented lengths), each decoded in its own process with an 8 MiB stack; "
                       "distinct = distinct (type, syntax, input class, outcome); non-trivial = the decoder reached the guarded/allocating code")
    directed_ext_recursion(ctx)
    b, exe = build_bundle()
    try:
        _run(ctx, b, exe)
    finally:
        b.cleanup()

def _run(ctx, b, exe):
    workdir = b.dir
    # structure sizes of the module's types (F of the bounds, parameters of the model ops)
    outs, _ = ctx.run_c_bisect(exe, [f"@{t} ssize" for t in TYPE_NAMES])
    ssz = {}
    for t, o in zip(TYPE_NAMES, outs):
        m = re.match(r"struct_size=(\d+)", o or "")
        ssz[t] = int(m.group(1)) if m else {"Oid": 16, "Roid": 16, "BigInt": 16}.get(t, 40)
    B = bounds(ssz)
    cases = deep_cases(ctx) + bomb_cases(ctx)
    res = run_cases(exe, workdir, cases)
    ctx.cov["evaluations"] += len(cases)
    fails = collections.OrderedDict()      # class -> (count, example)
    dist = collections.Counter()
    worst = {}
    for c, r in zip(cases, res):
        dist[f"{c.syn}:{c.tag}"] += 1
        n = len(c.data)
        why = None
        if r.get("crash"):
            why = ("stack-overflow" if is_stack_overflow(r) else "crash:" + r["crash"][:60])
        if why is None and not r.get("crash"):
            k, f = B.get((c.type, c.syn), (64, 65536 + 4096))
            lim = k * n + f
            ratio = max(r["peak"], r["maxreq"]) / lim
            key = f"{c.type}/{c.syn}"
            if ratio > worst.get(key, (0,))[0]: worst[key] = (round(ratio, 3), c.name, n, r["peak"], lim)
            if r["rc"] not in c.expect: why = f"rc={r['rc']} (expected {'/'.join(sorted(c.expect))})"
            elif r["peak"] > lim: why = f"peak-heap {r['peak']} > {k}*{n}+{f}"
            elif r["maxreq"] > lim: why = f"single request {r['maxreq']} > {k}*{n}+{f}"
            elif r["failed"]: why = "allocator refused a request"
            elif r["rc"] == "ok" and r["consumed"] > n: why = "consumed > size"
        if why:
            cls = (c.type, c.syn, c.tag, why.split(" ")[0] if why.startswith("peak") or why.startswith("single") else why)
            cnt, ex = fails.get(cls, (0, None))
            fails[cls] = (cnt + 1, ex or (c, r, why))
        else:
            ctx._distinct.add((c.type, c.syn, c.name.split("-")[0], c.tag, r.get("rc")))
    ctx.cov["predicate"]["bounded"] = {"cases": len(cases), "failure_classes": len(fails),
                                       "worst_peak_over_bound": dict(sorted(worst.items(), key=lambda kv: -kv[1][0])[:12])}
    ctx.cov["distribution"] = {"cases_by_syntax_and_class": dict(dist), "struct_sizes": ssz}
    for k in sorted({0, len(cases) // 3, len(cases) // 2, len(cases) - 1}):
        ctx.cov["samples"].append({"op": case_line(cases[k])[:240], "case": cases[k].name, "input_octets": len(cases[k].data),
                                   "c": (res[k].get("crash") or res[k].get("raw", ""))[:160]})
    nv = 0
    for cls, (cnt, (c, r, why)) in fails.items():
        ctx.log("FAIL", cnt, cls[0], cls[1], cls[2], why, "|", c.name, "=>", (r.get("crash") or r.get("raw", ""))[:120])
        if nv < 6:
            nv += 1
            ctx.violation(f"C15 violated on C: {c.type}/{c.syn} {c.name}: {why}",
                          {"module": MODULE, "type": c.type, "syntax": c.syn, "case": c.name, "input_octets": len(c.data),
                           "input_hex": c.data.hex() if len(c.data) <= 300000 else None,
                           "input_head_hex": c.data[:64].hex(), "maxstack": c.maxstack, "op": case_line(c)[:600],
                           "c_output": r.get("crash") or r.get("raw"), "failure": why, "count_in_class": cnt,
                           "replay": "./check C15 --replay <this file>"})
    # ---- K legs
    if getattr(ctx, "driver_ok", True):
        d1 = k_nest(ctx, exe, workdir)
        for t, syn, what, detail in d1[:5]:
            ctx.log("K1 DISAGREE", t, syn, what, "|", detail[:200])
        if d1: ctx.broken.append({"kind": "correspondence", "name": "nest", "first": [str(x)[:300] for x in d1[0]], "count": len(d1)})
        d2 = k_ledger(ctx, exe, workdir, ssz, cases)
        for case, ml, cc, mo in d2[:5]:
            ctx.log("K2 DISAGREE", case_line(case)[:160], "| model op:", ml[:120], "| C:", cc, "| model:", mo)
        if d2: ctx.broken.append({"kind": "correspondence", "name": "ledger", "first": {"op": case_line(d2[0][0])[:400], "model_op": d2[0][1][:300], "c": d2[0][2], "model": d2[0][3]}, "count": len(d2)})
    else:
        ctx.broken.append({"kind": "correspondence", "name": "c15", "msg": "Lean driver does not build"})
