"""C08 — constraint validation accepts exactly the values the specification allows.

Legs
  L  Lean: Props/C08.lean (range_code_iff, check_iff_satisfies_partial, counter-examples,
     walker_finds_first / set_walker_finds_first / walker_checks_every_member, errbuf_bounded, table theorems
     over the translator output).
     The translator (c08_tables.py) rewrites Generated/AlphabetTables.lean from the working tree first.
  K  C (`@T check <val>` on generated modules, real asn1c + skeletons) vs `Impl.check` (Lean driver op
     `c08`): accept / reject (a C stack overflow is reported as non-termination), the reported `td->name`, the message class; the errbuf
     sweep (`errsweep`) vs `Impl.ctfail`.
  P  C vs the oracle below, written from X.680 §41/§49-51 (NOT the Lean model): valid values accepted,
     every single planted violation rejected, several violations rejected; message non-empty,
     terminated, inside the buffer, names a type.  Deviations inside a known-finding region are
     matched narrowly; everything else is a VIOLATION with replay (module text, type, op line).
  The Lean Spec is additionally compared with the oracle on every case (`c08sat`), and no deviation
  may lie inside the proved domain (`c08dom` = in).
"""
import re, collections, json
from .. import build, core, genmod, bundle, sexp, gfind
from . import c08_tables

KINDS = ["BOOLEAN", "NULL", "INTEGER", "INTEGER", "ENUMERATED", "BIT STRING", "OCTET STRING"] + genmod.STRING_KINDS
DRIVER_SOURCES = ("gen_c08_driver.c", "ops_gen_core.c", "ops_gen_c08.c", "reflect.c")
LK = {"OCTET STRING": "octet", "BIT STRING": "bit", "IA5String": "ia5", "VisibleString": "visible",
      "PrintableString": "printable", "NumericString": "numeric", "UTF8String": "utf8", "BMPString": "bmp",
      "UniversalString": "universal"}
PRINTABLE = set(map(ord, "ABCDEFGHIJKLMNOPQRSTUVWXYZabcdefghijklmnopqrstuvwxyz0123456789 '()+,-./:=?"))
NUMERIC = set(map(ord, "0123456789 "))

# findings of this property that KNOWN_FINDINGS.json may not list yet (proposed entries; the file wins)
PROPOSED = [
 {"id": "F180", "property": "C08", "status": "known",
  "what": "what remains of F81: the generated checker of an INTEGER_t-backed INTEGER still converts the value into a 64-bit C variable before comparing "
          "(`long` through asn_INTEGER2long when the lower edge of the constraint is negative or MIN, `unsigned long` through asn_INTEGER2ulong otherwise): "
          "valid values outside that variable are rejected with 'value too large' (INTEGER (-1..18446744073709551615) rejects 2^63, INTEGER (0..2^70) rejects 2^64); "
          "a repair needs a comparison on the INTEGER_t octets (INTEGER_compare against constant INTEGER_t bounds), i.e. new generated code",
  "witness": {"module": "M DEFINITIONS AUTOMATIC TAGS ::= BEGIN Y ::= INTEGER (-1..18446744073709551615) END",
              "type": "Y", "op": "check (int 9223372036854775808)", "c_output": "fail", "expect": "^fail rc=-1"},
  "matcher": "C rejects (message 'value too large') a value satisfying the constraint of an INTEGER_t-backed INTEGER, the value lying outside the C variable "
             "(unsigned long when the lower edge is a value >= 0, else long)"},
 {"id": "F181", "property": "C08", "status": "known",
  "what": "what remains of F83: a FROM constraint on UTF8String that reaches beyond U+007F is not compiled into any test (the generated alphabet loop works octet by octet; "
          "asn1c_emit_constraint_tables only checks UTF-8 validity, or nothing when a SIZE constraint is present); a repair needs a code-point decoding loop in the generated checker",
  "witness": {"module": "M DEFINITIONS AUTOMATIC TAGS ::= BEGIN R ::= UTF8String (FROM(\"a\"..{0,0,0,255})) END",
              "type": "R", "op": "check (os 41)", "c_output": "ok", "expect": "^ok$"},
  "matcher": "C accepts a character outside the FROM of a UTF8String whose FROM reaches beyond U+007F"},
 {"id": "F182", "property": "C08", "status": "known",
  "what": "a value (or SIZE) bound of 2^64 or more in magnitude is printed into the generated comparison as a plain decimal constant, which the C compiler truncates "
          "(gcc: 'integer constant is too large for its type'): INTEGER (0..1180591620717411303424) is compiled into `value <= 0` in effect and rejects 1",
  "witness": {"module": "M DEFINITIONS AUTOMATIC TAGS ::= BEGIN Y ::= INTEGER (0..1180591620717411303424) END",
              "type": "Y", "op": "check (int 1)", "c_output": "fail", "expect": "^fail rc=-1"},
  "matcher": "witness only (the C08 generators write no bound beyond 64 bits; the Lean guard `boundsFit` keeps such types outside the proved domain)"},
 {"id": "F84", "property": "C08", "status": "known",
  "what": "UTF8String_length accepts RFC 2279-era sequences that are not UTF-8 today (ISO 10646 / RFC 3629): encoded surrogates, 5- and 6-octet forms, > U+10FFFF",
  "witness": {"module": "M DEFINITIONS AUTOMATIC TAGS ::= BEGIN U ::= UTF8String END",
              "type": "U", "op": "check (os eda080)", "c_output": "ok", "expect": "^ok$"},
  "matcher": "C accepts a UTF8String whose octets contain a surrogate (ED A0..BF), a lead octet F5..FD, or F4 90..BF"},
]

# ---------------------------------------------------------------------------------------------
# constraints as lists of ranges
def ranges(c):
    """None | [(lo|None, hi|None), ...] sorted, as written (the generators only write canonical unions)"""
    if c is None: return None
    if "alts" in c: return [tuple(a) for a in c["alts"]]
    return [(c["lo"], c["hi"])]

def in_ranges(rs, x):
    if rs is None: return True
    return any((lo is None or lo <= x) and (hi is None or x <= hi) for lo, hi in rs)

def alpha_ranges(t):
    a = t.get("alpha")
    if not a: return None
    rs = sorted((ord(x[0]), ord(x[1])) if isinstance(x, tuple) else (ord(x), ord(x)) for x in a)
    out = []
    for lo, hi in rs:
        if out and lo <= out[-1][1] + 1: out[-1] = (out[-1][0], max(out[-1][1], hi))
        else: out.append((lo, hi))
    return out

def overall(rs):
    lo = None if any(a is None for a, _ in rs) else min(a for a, _ in rs)
    hi = None if any(b is None for _, b in rs) else max(b for _, b in rs)
    return lo, hi

def int_repr(c):
    """C representation chosen by asn1c_type_fits_long (32-bit assumptions): long | ulong | wide"""
    rs = ranges(c)
    if rs is None: return "long"
    lo, hi = overall(rs)
    if lo is not None and 0 <= lo <= 2147483647 and hi is None: return "ulong"
    if lo is not None and hi is not None and lo >= 0 and 2147483647 < hi <= 4294967295: return "ulong"
    for e in (lo, hi):
        if e is not None and not (-(1 << 31) <= e <= (1 << 31) - 1): return "wide"
    return "long"

def representable(c, v):
    r = int_repr(c)
    if r == "ulong": return 0 <= v < (1 << 64)
    if r == "long": return -(1 << 63) <= v < (1 << 63)
    return True

# ---------------------------------------------------------------------------------------------
# ASN.1 text (genmod.type_text + unions)
def cons_text(c):
    def one(lo, hi):
        l = "MIN" if lo is None else str(lo); h = "MAX" if hi is None else str(hi)
        return l if (lo is not None and lo == hi) else f"{l}..{h}"
    return "(" + " | ".join(one(lo, hi) for lo, hi in ranges(c)) + ")"

def ch_text(k, ch):
    """one character of a permitted alphabet: a cstring where that is possible, else X.680 Tuple {column, row} (IA5-based
    kinds, code = 16 column + row) / Quadruple {group, plane, row, cell} (BMPString, UniversalString, UTF8String)"""
    c = ord(ch)
    if 0x20 <= c <= 0x7e and ch != '"': return '"%s"' % ch
    if k in ("BMPString", "UniversalString", "UTF8String"): return "{%d,%d,%d,%d}" % (c >> 24, (c >> 16) & 0xff, (c >> 8) & 0xff, c & 0xff)
    assert c < 128
    return "{%d,%d}" % (c >> 4, c & 15)

def ttext(t, ind=1):
    k = t["k"]
    pre = genmod.tag_text(t.get("tag"))
    pad = "  " * ind
    if k == "REF": return pre + t["name"]
    if k == "INTEGER": return pre + "INTEGER" + (" " + cons_text(t["cons"]) if t.get("cons") else "")
    if k == "ENUMERATED": return pre + "ENUMERATED { " + ", ".join(n for n, _ in t["items"]) + " }"
    if k in LK:
        cs = []
        if t.get("size"): cs.append("SIZE" + cons_text(t["size"]))
        if t.get("alpha"): cs.append("FROM(" + " | ".join(ch_text(k, a) if len(a) == 1 else ch_text(k, a[0]) + ".." + ch_text(k, a[1]) for a in t["alpha"]) + ")")
        return pre + k + ((" (" + " ^ ".join(cs) + ")") if cs else "")
    if k in ("SEQUENCE", "SET", "CHOICE"):
        items = []
        for c in t["comps"]:
            s = c["id"] + " " + ttext(c["type"], ind + 1)
            if c.get("opt") == "OPTIONAL": s += " OPTIONAL"
            elif isinstance(c.get("opt"), tuple): s += " DEFAULT " + c["opt"][1]
            items.append(s)
        return pre + k + " {\n" + ",\n".join(pad + "  " + x for x in items) + "\n" + pad + "}"
    if k in ("SEQUENCE OF", "SET OF"):
        sz = (" (SIZE" + cons_text(t["size"]) + ")") if t.get("size") else ""
        return pre + k.split()[0] + sz + " OF " + ttext(t["elem"], ind + 1)
    return pre + k

def mtext(m):
    td = {"EXPLICIT": "EXPLICIT TAGS ", "IMPLICIT": "IMPLICIT TAGS ", "AUTOMATIC": "AUTOMATIC TAGS ", None: ""}[m.get("tagdefault")]
    return "\n".join([f"{m['name']} DEFINITIONS {td}::= BEGIN"] + [f"  {n} ::= {ttext(t)}" for n, t in m["types"]] + ["END"]) + "\n"

# ---------------------------------------------------------------------------------------------
# type description for the Lean driver
def cons_sexp(rs):
    if rs is None: return "-"
    return "(c " + " ".join("(%s %s)" % ("min" if lo is None else lo, "max" if hi is None else hi) for lo, hi in rs) + ")"

def ty_sexp(t, env):
    k = t["k"]
    if k == "REF": return f"(named {t['name']} {ty_sexp(env[t['name']], env)})"
    if k == "BOOLEAN": return "(bool)"
    if k == "NULL": return "(null)"
    if k == "ENUMERATED": return "(enum)"
    if k == "INTEGER": return f"(int {cons_sexp(ranges(t.get('cons')))})"
    if k in LK: return f"(str {LK[k]} {cons_sexp(ranges(t.get('size')))} {cons_sexp(alpha_ranges(t))})"
    if k in ("SEQUENCE", "SET", "CHOICE"):
        ms = " ".join(f"(m {c['id']} {1 if c.get('opt') else 0} {ty_sexp(c['type'], env)})" for c in t["comps"])
        return "(" + {"SEQUENCE": "seq", "SET": "set", "CHOICE": "choice"}[k] + (" " + ms if ms else "") + ")"
    if k in ("SEQUENCE OF", "SET OF"):
        return f"(listof {'set' if k == 'SET OF' else 'seq'} {cons_sexp(ranges(t.get('size')))} {ty_sexp(t['elem'], env)})"
    raise ValueError(k)

# ---------------------------------------------------------------------------------------------
# values: python objects as in genmod.ValGen; string kinds may also be raw `bytes`
def str_octets(k, v):
    if isinstance(v, (bytes, bytearray)): return bytes(v)
    if k == "BMPString": return v.encode("utf-16-be")
    if k == "UniversalString": return v.encode("utf-32-be")
    if k == "UTF8String": return v.encode("utf-8", "surrogatepass")
    return v.encode("latin1")

def val_sexp(t, v, env):
    k = t["k"]
    if k == "REF": return val_sexp(env[t["name"]], v, env)
    if k == "BOOLEAN": return "(bool %s)" % ("t" if v else "f")
    if k == "NULL": return "(null)"
    if k == "INTEGER": return "(int %d)" % v
    if k == "ENUMERATED": return "(enum %d)" % v
    if k == "BIT STRING": return "(bs %s %d)" % (genmod.hx(v[0]), v[1])
    if k in LK: return "(os %s)" % genmod.hx(str_octets(k, v))
    if k in ("SEQUENCE", "SET"):
        parts = ["(%s %s)" % (c["id"], val_sexp(c["type"], v[c["id"]], env)) for c in t["comps"] if c["id"] in v]
        return "(" + " ".join(["seq" if k == "SEQUENCE" else "set"] + parts) + ")"
    if k == "CHOICE":
        c = next(c for c in t["comps"] if c["id"] == v[0])
        return "(choice %s %s)" % (v[0], val_sexp(c["type"], v[1], env))
    if k in ("SEQUENCE OF", "SET OF"):
        return "(" + " ".join(["list"] + [val_sexp(t["elem"], x, env) for x in v]) + ")"
    raise ValueError(k)

# ---------------------------------------------------------------------------------------------
# the oracle: X.680 §41 (character string types), §51.4 value range, §51.5 SIZE, §51.7 FROM
def str_chars(k, b):
    """characters (code points / cells / octets) of the value, None if not a whole number of well-formed characters"""
    if k == "UTF8String":
        try: return [ord(ch) for ch in b.decode("utf-8", "strict")]     # RFC 3629: shortest form, no surrogates, <= U+10FFFF
        except UnicodeDecodeError: return None
    if k == "BMPString":
        return None if len(b) % 2 else [int.from_bytes(b[i:i + 2], "big") for i in range(0, len(b), 2)]
    if k == "UniversalString":
        return None if len(b) % 4 else [int.from_bytes(b[i:i + 4], "big") for i in range(0, len(b), 4)]
    return list(b)

def builtin_ok(k, c):
    if k == "IA5String": return c <= 0x7f
    if k == "VisibleString": return 0x20 <= c <= 0x7e
    if k == "PrintableString": return c in PRINTABLE
    if k == "NumericString": return c in NUMERIC
    return True

def violations(t, v, env, path=()):
    """list of (path, what) — every constraint of the ASN.1 source that the value violates, at every depth"""
    k = t["k"]
    if k == "REF": return violations(env[t["name"]], v, env, path)
    out = []
    if k == "INTEGER":
        if not in_ranges(ranges(t.get("cons")), v): out.append((path, "value"))
    elif k == "BIT STRING":
        b, unused = v
        nbits = 8 * len(b) - unused if b else 0
        if not in_ranges(ranges(t.get("size")), nbits): out.append((path, "size"))
    elif k in LK:
        b = str_octets(k, v)
        cs = str_chars(k, b)
        if cs is None: out.append((path, "malformed"))
        else:
            if not in_ranges(ranges(t.get("size")), len(cs)): out.append((path, "size"))
            if not all(builtin_ok(k, c) for c in cs): out.append((path, "builtin-alphabet"))
            ar = alpha_ranges(t)
            if ar is not None and not all(in_ranges(ar, c) for c in cs): out.append((path, "from"))
    elif k in ("SEQUENCE", "SET"):
        for c in t["comps"]:
            if c["id"] in v: out += violations(c["type"], v[c["id"]], env, path + (c["id"],))
            elif not c.get("opt"): out.append((path + (c["id"],), "absent"))
    elif k == "CHOICE":
        c = next(c for c in t["comps"] if c["id"] == v[0])
        out += violations(c["type"], v[1], env, path + (v[0],))
    elif k in ("SEQUENCE OF", "SET OF"):
        if not in_ranges(ranges(t.get("size")), len(v)): out.append((path, "size"))
        for i, x in enumerate(v): out += violations(t["elem"], x, env, path + (i,))
    return out

# ---------------------------------------------------------------------------------------------
# planting violations: every constrained component at every position, every bound, both sides
def legal_char(t):
    k = t["k"]
    ar = alpha_ranges(t)
    if ar: return ar[0][0]
    return {"NumericString": 0x31, "PrintableString": 0x41}.get(k, 0x61)

def mk_chars(k, cs):
    if k == "BMPString": return b"".join(c.to_bytes(2, "big") for c in cs)
    if k == "UniversalString": return b"".join(c.to_bytes(4, "big") for c in cs)
    if k == "UTF8String": return "".join(map(chr, cs)).encode("utf-8", "surrogatepass")
    return bytes(cs)

def leaf_mutants(t, v, env, rng):
    """values of the leaf / list type t that violate exactly one constraint of t itself: [(what, value)]"""
    k = t["k"]
    out = []
    if k == "INTEGER":
        rs = ranges(t.get("cons"))
        if rs:
            for lo, hi in rs:
                for x, side in ((None if lo is None else lo - 1, "below"), (None if hi is None else hi + 1, "above")):
                    if x is not None and not in_ranges(rs, x) and representable(t["cons"], x): out.append(("value-" + side, x))
            # far away on both sides
            for x in (-(1 << 63), (1 << 63) - 1, (1 << 64) - 1):
                if not in_ranges(rs, x) and representable(t["cons"], x): out.append(("value-far", x))
    elif k == "BIT STRING":
        rs = ranges(t.get("size"))
        if rs:
            for lo, hi in rs:
                for n in ((lo or 0) - 1, None if hi is None else hi + 1):
                    if n is not None and 0 <= n <= 600 and not in_ranges(rs, n):
                        nb = (n + 7) // 8; unused = nb * 8 - n
                        b = bytearray(rng.getrandbits(8) for _ in range(nb))
                        if nb: b[-1] = (b[-1] & (0xff << unused) & 0xff) | (1 << unused) & 0xff
                        out.append(("size", (bytes(b), unused)))
    elif k in LK:
        b = str_octets(k, v)
        cs = str_chars(k, b) or []
        rs = ranges(t.get("size"))
        lc = legal_char(t)
        if rs:
            for lo, hi in rs:
                for n, side in (((lo or 0) - 1, "short"), (None if hi is None else hi + 1, "long")):
                    if n is not None and 0 <= n <= 600 and not in_ranges(rs, n):
                        out.append(("size-" + side, mk_chars(k, (cs + [lc] * n)[:n])))
        if cs:
            ar = alpha_ranges(t)
            bad = []
            if ar:      # outside FROM but inside the built-in alphabet
                cand = [c for c in list(range(0x20, 0x7f)) if not in_ranges(ar, c) and builtin_ok(k, c)]
                if cand: bad.append(("from", rng.choice(cand)))
                for lo, hi in ar:
                    for c in (lo - 1, hi + 1):
                        if c >= 0 and not in_ranges(ar, c) and builtin_ok(k, c) and (k != "UTF8String" or c < 0x80): bad.append(("from-edge", c))
            bi = {"PrintableString": [0x40, 0x2a, 0x5f, 0x00, 0x80, 0xff], "NumericString": [0x61, 0x2f, 0x3a, 0x2d, 0x00, 0xff],
                  "VisibleString": [0x1f, 0x7f, 0x0a, 0x80, 0xff], "IA5String": [0x80, 0xff]}.get(k, [])
            for c in bi: bad.append(("builtin-alphabet", c))
            for what, c in bad:
                for pos in sorted({0, len(cs) // 2, len(cs) - 1}):
                    cs2 = list(cs); cs2[pos] = c
                    out.append((f"{what}@{pos}", mk_chars(k, cs2)))
        if k == "UTF8String":
            for what, raw in (("utf8-illegal-start", b"\xff"), ("utf8-truncated", b"\xc3"), ("utf8-overlong", b"\xc0\xaf"),
                              ("utf8-not-continuation", b"\xe2\x28\xa1"), ("utf8-surrogate", b"\xed\xa0\x80"),
                              ("utf8-5-octets", b"\xf8\x88\x80\x80\x80"), ("utf8-above-10ffff", b"\xf4\x90\x80\x80"),
                              # overlong forms at the boundaries of every sequence length (minimal code points 0x80, 0x800, 0x10000)
                              ("utf8-overlong", b"\xc1\xbf"), ("utf8-overlong", b"\xe0\x80\x80"), ("utf8-overlong", b"\xe0\x82\x80"),
                              ("utf8-overlong", b"\xe0\x83\xa9"), ("utf8-overlong", b"\xe0\x9f\xbf"), ("utf8-overlong", b"\xf0\x80\x80\x80"),
                              ("utf8-overlong", b"\xf0\x82\x82\xac"), ("utf8-overlong", b"\xf0\x8f\xbf\xbf")):
                for pos in sorted({0, len(cs)}):
                    pre = mk_chars(k, cs[:pos]); post = mk_chars(k, cs[pos + 1:]) if pos < len(cs) else b""
                    out.append((what, pre + raw + post))
        if k == "BMPString": out.append(("odd-octets", b + b"\x00")); out.append(("odd-octets", b[:-1] if b else b"\x61"))
        if k == "UniversalString":
            for extra in (1, 2, 3): out.append(("octets-mod-4", b + b"\x00" * extra))
    elif k in ("SEQUENCE OF", "SET OF"):
        rs = ranges(t.get("size"))
        if rs:
            for lo, hi in rs:
                for n in ((lo or 0) - 1, None if hi is None else hi + 1):
                    if n is not None and 0 <= n <= 40 and not in_ranges(rs, n):
                        base = list(v) if v else []
                        if len(base) < n:
                            vg = VG(rng, env)
                            while len(base) < n: base.append(valid_value(t["elem"], env, rng, vg))
                        out.append(("count", base[:n]))
    return out

class VG(genmod.ValGen):
    """genmod.ValGen + union constraints"""
    def value(self, t, i=None, depth=0):
        c = t.get("cons") if t["k"] == "INTEGER" else None
        if c and "alts" in c:
            idx = i if i is not None else self.r.randrange(1 << 30)
            lo, hi = c["alts"][idx % len(c["alts"])]
            v = super().value({"k": "INTEGER", "cons": genmod.cons(lo, hi)}, idx // len(c["alts"]), depth)
            return v if representable(c, v) else (lo if lo is not None else hi)
        return super().value(t, i, depth)
    def length_for(self, c, i, small=False):
        if c is not None and "alts" in c:
            lo, hi = c["alts"][(i or 0) % len(c["alts"])]
            c = genmod.cons(lo or 0, hi)
        return super().length_for(c, i, small)

def valid_value(t, env, rng, vg, i=None):
    """a value without violations (genmod.ValGen, no out-of-root values since nothing is extensible)"""
    for _ in range(8):
        v = vg.value(t, i)
        if not violations(t, v, env): return v
        i = None
    return vg.value(t, 0)

def single_mutants(t, v, env, rng, path=(), cap=400):
    """[(path, what, mutated whole value rooted at t)]: exactly one constraint violated at one position"""
    k = t["k"]
    if k == "REF": return single_mutants(env[t["name"]], v, env, rng, path, cap)
    out = [(path, what, mv) for what, mv in leaf_mutants(t, v, env, rng)]
    if k in ("SEQUENCE", "SET"):
        for c in t["comps"]:
            if c["id"] in v:
                for p, what, mv in single_mutants(c["type"], v[c["id"]], env, rng, path + (c["id"],), cap):
                    if isinstance(c.get("opt"), tuple) and mv == c["opt"][2]: continue
                    nv = dict(v); nv[c["id"]] = mv; out.append((p, what, nv))
    elif k == "CHOICE":
        c = next(c for c in t["comps"] if c["id"] == v[0])
        for p, what, mv in single_mutants(c["type"], v[1], env, rng, path + (v[0],), cap):
            out.append((p, what, (v[0], mv)))
    elif k in ("SEQUENCE OF", "SET OF"):
        for i in sorted({0, len(v) // 2, len(v) - 1}) if v else []:
            for p, what, mv in single_mutants(t["elem"], v[i], env, rng, path + (i,), cap):
                nv = list(v); nv[i] = mv; out.append((p, what, nv))
    if len(out) > cap: out = [out[j] for j in sorted(rng.sample(range(len(out)), cap))]
    return out

def apply_at(t, v, env, path, leafval):
    """replace the component at `path` of v by leafval"""
    if not path: return leafval
    if t["k"] == "REF": return apply_at(env[t["name"]], v, env, path, leafval)
    k = t["k"]; h = path[0]
    if k in ("SEQUENCE", "SET"):
        c = next(c for c in t["comps"] if c["id"] == h)
        nv = dict(v); nv[h] = apply_at(c["type"], v[h], env, path[1:], leafval); return nv
    if k == "CHOICE":
        if v[0] != h: raise KeyError(h)
        c = next(c for c in t["comps"] if c["id"] == h)
        return (h, apply_at(c["type"], v[1], env, path[1:], leafval))
    nv = list(v); nv[h] = apply_at(t["elem"], v[h], env, path[1:], leafval); return nv

def sub_at(t, v, env, path):
    """(occurrence type — a REF stays a REF —, value) of the component at `path`"""
    if not path: return t, v
    if t["k"] == "REF": return sub_at(env[t["name"]], v, env, path)
    k = t["k"]; h = path[0]
    if k in ("SEQUENCE", "SET", "CHOICE"):
        c = next(c for c in t["comps"] if c["id"] == h)
        if k == "CHOICE" and v[0] != h: raise KeyError(h)
        return sub_at(c["type"], v[h] if k != "CHOICE" else v[1], env, path[1:])
    return sub_at(t["elem"], v[h], env, path[1:])

def inline_default(c, env):
    """asn1c (try_inline_default) stores a native BOOLEAN / INTEGER / ENUMERATED component with DEFAULT FALSE / 0 inline
    (not as a pointer): in the C structure it is always present, an absent one reads as 0"""
    opt = c.get("opt")
    if not isinstance(opt, tuple): return False
    t = c["type"]
    if t["k"] == "BOOLEAN": return opt[2] is False
    if t["k"] == "INTEGER": return opt[2] == 0 and int_repr(t.get("cons")) != "wide"
    if t["k"] == "ENUMERATED": return opt[2] == 0
    return False

def c_view(t, v, env):
    """the value as it sits in the C structure: inline DEFAULT-0 components are present"""
    k = t["k"]
    if k == "REF": return c_view(env[t["name"]], v, env)
    if k in ("SEQUENCE", "SET"):
        nv = {}
        for c in t["comps"]:
            if c["id"] in v: nv[c["id"]] = c_view(c["type"], v[c["id"]], env)
            elif inline_default(c, env): nv[c["id"]] = c["opt"][2]
        return nv
    if k == "CHOICE":
        c = next(c for c in t["comps"] if c["id"] == v[0])
        return (v[0], c_view(c["type"], v[1], env))
    if k in ("SEQUENCE OF", "SET OF"): return [c_view(t["elem"], x, env) for x in v]
    return v

# ---------------------------------------------------------------------------------------------
# known-finding regions (python side, narrow): does the finding explain that C missed / mis-rejected `path`?
def resolve(t, env):
    hops = 0
    while t["k"] == "REF": t = env[t["name"]]; hops += 1
    return t, hops

LAX_UTF8 = re.compile(rb"\xed[\xa0-\xbf]|[\xf5-\xfd]|\xf4[\x90-\xbf]")

def explain(ctx, T, t, v, env, c_accepts, viols, c_msg):
    """returns the id of the known finding that explains the deviation of C from the oracle, or None"""
    if c_accepts:
        ids = set()
        for path, what in viols:
            st, sv = sub_at(t, v, env, path) if what != "absent" else (None, None)
            fid = None
            if st is not None:
                rt, hops = resolve(st, env)
                k = rt["k"]
                if k == "UTF8String" and what == "from" and (alpha_ranges(rt) or [(0, 0)])[-1][1] >= 0x80: fid = "F181"
                elif k == "UTF8String" and what == "malformed" and LAX_UTF8.search(str_octets(k, sv)): fid = "F84"
            if fid is None: return None
            ids.add(fid)
        return sorted(ids)[0] if ids else None
    else:
        # C rejects a value the specification allows
        if "value too large" in c_msg:
            def wide_big(t, v):
                t, _ = resolve(t, env); k = t["k"]
                if k == "INTEGER":
                    lo = overall(ranges(t["cons"]))[0] if t.get("cons") else None
                    inside = (0 <= v < (1 << 64)) if (lo is not None and lo >= 0) else (-(1 << 63) <= v < (1 << 63))
                    return int_repr(t.get("cons")) == "wide" and not inside
                if k in ("SEQUENCE", "SET"): return any(wide_big(c["type"], v[c["id"]]) for c in t["comps"] if c["id"] in v)
                if k == "CHOICE": return wide_big(next(c for c in t["comps"] if c["id"] == v[0])["type"], v[1])
                if k in ("SEQUENCE OF", "SET OF"): return any(wide_big(t["elem"], x) for x in v)
                return False
            if wide_big(t, v): return "F180"
        return None

# ---------------------------------------------------------------------------------------------
# modules
def T(k, **kw): return dict(k=k, **kw)
def C(lo, hi): return genmod.cons(lo, hi, False)
def U(*alts): return {"alts": list(alts), "ext": False}
def M(id, ty, opt=None): return {"id": id, "type": ty, **({"opt": opt} if opt else {})}

def shapes_module():
    """every constraint shape the generated checker code distinguishes, incl. the known-finding witnesses' neighbours"""
    I = lambda c: T("INTEGER", cons=c)
    S = lambda k, size=None, alpha=None: T(k, size=size, alpha=alpha)
    ty = [
        ("I0", I(None)), ("I1", I(C(0, 7))), ("I2", I(C(-5, 5))), ("I3", I(C(5, 5))), ("I4", I(C(None, 5))), ("I5", I(C(-5, None))),
        ("I6", I(C(5, None))), ("I7", I(C(None, -1))), ("I8", I(C(0, 2147483647))), ("I9", I(C(0, 2147483648))),
        ("I10", I(C(1, 4294967295))), ("I11", I(C(0, 4294967294))), ("I12", I(C(-2147483648, 2147483647))),
        ("I13", I(C(-2147483649, 0))), ("I14", I(C(0, 4294967296))), ("I15", I(C(2147483648, None))),
        ("I16", I(C(-(1 << 63), (1 << 63) - 1))), ("I17", I(C(0, (1 << 64) - 1))), ("I18", I(U((0, 5), (10, 20), (100, 100)))),
        ("I19", I(U((None, -5), (0, 10)))), ("I20", I(U((0, 5), (10, None)))), ("I21", I(U((0, 5), (4294967295, 4294967295)))),
        ("I22", I(U((1, 1), (3, 3), (5, 7), (100, None)))), ("I23", I(C(2147483647, None))), ("I24", I(C(-1, 4294967295))),
        ("I25", I(U((-10, -5), (5, 10)))),
        # INTEGER_t-backed: read through asn_INTEGER2ulong when the lower edge is >= 0 (former F81 region), through asn_INTEGER2long otherwise (F180)
        ("I26", I(C(5000000000, None))), ("I27", I(C(-1, (1 << 64) - 1))), ("I28", I(U((0, 5), (1 << 63, (1 << 64) - 1)))),
        ("I30", I(U((3000000000, 3000000000), (1 << 63, None)))), ("I31", I(C(None, -5000000000))),
        ("F26", I(C(0, 4294967295))),
        ("OS1", S("OCTET STRING", C(1, None))), ("OS2", S("OCTET STRING", C(0, 5))), ("OS3", S("OCTET STRING", C(4, 4))),
        ("OS4", S("OCTET STRING", U((1, 1), (3, 4)))), ("OS5", S("OCTET STRING", U((0, 2), (5, 6)))), ("OS6", S("OCTET STRING")),
        ("BS1", S("BIT STRING", C(3, 9))), ("BS2", S("BIT STRING", C(8, 8))), ("BS3", S("BIT STRING", C(0, 0))), ("BS4", S("BIT STRING")),
        ("BS5", S("BIT STRING", C(1, None))),
        ("IA1", S("IA5String")), ("IA2", S("IA5String", C(1, 4))), ("IA3", S("IA5String", None, [("a", "z")])),
        ("IA4", S("IA5String", C(1, 3), [("a", "c"), "x"])), ("IA5", S("IA5String", C(0, None))), ("IA6", S("IA5String", U((1, 2), (5, 5)), [("a", "c"), ("x", "z")])),
        ("VS1", S("VisibleString")), ("VS2", S("VisibleString", C(0, 3))), ("VS3", S("VisibleString", None, ["A", "C", ("x", "z")])),
        ("PS1", S("PrintableString")), ("PS2", S("PrintableString", C(1, 2))), ("PS3", S("PrintableString", None, [("A", "Z")])),
        ("PS4", S("PrintableString", C(2, 2), [("A", "F"), ("0", "9")])),
        ("NS1", S("NumericString")), ("NS2", S("NumericString", C(3, 3))), ("NS3", S("NumericString", None, [("0", "3"), " "])),
        ("NS4", S("NumericString", None, [("0", "9")])),
        ("U81", S("UTF8String")), ("U82", S("UTF8String", C(2, 2))), ("U83", S("UTF8String", C(0, None))), ("U84", S("UTF8String", C(1, 3))),
        ("BM1", S("BMPString")), ("BM2", S("BMPString", C(2, 2))), ("BM3", S("BMPString", None, [("a", "z")])),
        ("BM4", S("BMPString", C(1, 2), [("a", "c"), ("x", "z")])),
        ("US1", S("UniversalString")), ("US2", S("UniversalString", C(1, 2))), ("US3", S("UniversalString", None, [("a", "z")])),
        ("US4", S("UniversalString", None, [("a", "c"), ("x", "z")])),
        ("L1", T("SEQUENCE OF", elem=I(C(0, 7)), size=None)), ("L2", T("SET OF", elem=T("REF", name="IA4"), size=None)),
        ("L3", T("SEQUENCE OF", elem=T("SEQUENCE", comps=[M("x", I(C(0, 3))), M("y", S("IA5String", C(1, 2)))]), size=None)),
        ("L4", T("SET OF", elem=T("CHOICE", comps=[M("x", I(C(0, 3))), M("y", T("BOOLEAN"))]), size=None)),
        ("LZ", T("SEQUENCE OF", elem=I(C(0, 7)), size=C(1, 2))),          # former F82 witness: SIZE of a named list type (now tested)
        ("LA", T("REF", name="LZ")),                                        # alias: size tested
        ("A1", T("REF", name="I1")), ("A2", T("REF", name="A1")), ("A3", T("REF", name="IA4")),
        ("Q1", T("SEQUENCE", comps=[M("a", I(C(0, 7))), M("b", I(C(1, 2)), "OPTIONAL"), M("c", S("IA5String", C(2, 2))),
                                     M("d", I(C(5, 6)), ("DEFAULT", "5", 5)), M("e", T("BOOLEAN"))])),
        ("Q2", T("SEQUENCE", comps=[M("a", I(C(0, 7))), M("i", T("SEQUENCE", comps=[M("x", I(C(0, 1))), M("y", I(C(0, 1)))])), M("r", I(C(5, 6)))])),
        ("Q3", T("SEQUENCE", comps=[M("m", T("SEQUENCE OF", elem=I(C(0, 7)), size=C(1, 2))), M("n", I(C(0, 7)))])),
        ("Q4", T("SEQUENCE", comps=[M("a", I(C(None, None))), M("b", S("OCTET STRING", C(0, None))), M("c", S("IA5String", C(0, None))),
                                     M("d", S("UTF8String", C(0, None))), M("e", S("NumericString", C(0, None))), M("z", I(C(0, 7)))])),
        ("Q5", T("SEQUENCE", comps=[M("w", I(C(5, None))), M("y", I(C(0, 3000000000))), M("z", I(C(0, 7)))])),
        ("Q6", T("SEQUENCE", comps=[M("a", I(C(0, 7))), M("l", T("SEQUENCE OF", elem=T("REF", name="Q2"), size=C(0, 2)), "OPTIONAL")])),
        ("Q7", T("SET", comps=[M("a", I(C(0, 7)))])),
        ("C1", T("CHOICE", comps=[M("a", I(C(0, 7))), M("b", T("BOOLEAN")), M("c", T("REF", name="L1")), M("d", T("SEQUENCE OF", elem=T("BOOLEAN"), size=C(1, 1))),
                                   M("e", T("REF", name="Q2"))])),
        ("C2", T("REF", name="C1")),
        # former F25 / F82 / F83 / F85 / F86 witnesses (fixed) and their neighbours; F181 region (W181)
        ("W25a", T("SEQUENCE", comps=[M("a", T("BOOLEAN")), M("b", I(C(0, 7)))])),
        ("W25b", T("SET", comps=[M("a", I(C(0, 7))), M("b", I(C(0, 7)))])),
        ("W25c", T("SEQUENCE", comps=[M("a", T("REF", name="I1")), M("b", I(C(0, 7))), M("c", S("PrintableString"))])),
        ("W82", T("SEQUENCE", comps=[M("n", I(C(0, 7))), M("m", T("REF", name="LZ"))])),
        ("W83a", S("UTF8String", None, [("a", "z")])), ("W83b", S("UTF8String", C(1, 3), [("a", "z")])),
        ("W83c", S("UTF8String", None, [("a", "c"), ("x", "z")])),
        ("W85a", T("SEQUENCE", comps=[M("a", I(U((None, 0), (5, None))))])),
        ("W85b", T("SEQUENCE", comps=[M("a", S("OCTET STRING", U((0, 2), (5, None))))])),
        ("W85c", T("SEQUENCE OF", elem=T("BOOLEAN"), size=U((0, 1), (3, None)))), ("W85d", S("BIT STRING", U((0, 2), (5, None)))),
        ("W85e", S("UTF8String", U((0, 1), (3, None)))), ("W85f", I(U((None, 0), (5, None)))), ("W85g", I(U((None, -3), (0, 0), (5, None)))),
        ("W85h", T("SEQUENCE", comps=[M("l", T("SET OF", elem=I(C(0, 7)), size=U((0, 0), (2, None)))), M("m", T("REF", name="W85c"))])),
        ("W83d", S("UTF8String", C(2, None), [("a", "z")])), ("W83e", T("SEQUENCE", comps=[M("u", S("UTF8String", None, [("0", "9")])), M("v", T("REF", name="W83a"))])),
        ("W86a", S("BMPString", C(1, 1))), ("W86b", T("SEQUENCE", comps=[M("b", S("BMPString", C(0, 3)))])),
    ]
    return {"name": "SHP", "tagdefault": "AUTOMATIC", "types": ty}

# F181 region: FROM on UTF8String beyond U+007F (asn1c's lexer loses track after a quadruple `{0,0,0,255}`: the type comes last, in a module of its own)
UTF8_WIDE_FROM = [("W181b", T("UTF8String", size=C(1, 4), alpha=[("a", "z")])), ("W181", T("UTF8String", size=None, alpha=[("a", "\u00ff")]))]

VACUOUS_TYPES = [    # former F48 region (a checker with nothing applicable called itself): now the checker of the underlying type
    ("SL1", T("INTEGER", cons=C(None, None))), ("SL2", T("OCTET STRING", size=C(0, None), alpha=None)),
    ("SL3", T("SEQUENCE", comps=[M("u", T("INTEGER", cons=C(0, None))), M("z", T("INTEGER", cons=C(0, 7)))])),
    ("SL4b", T("SET OF", elem=T("INTEGER", cons=C(0, 7)), size=C(0, None))), ("SL4", T("REF", name="SL4b")),
    ("SL5", T("INTEGER", cons=U((None, 0), (5, None)))),
    ("SL0", T("INTEGER", cons=C(0, None))), ("SL6", T("BIT STRING", size=C(0, None), alpha=None)),
    ("SL7", T("REF", name="SL0")), ("SL8", T("REF", name="SL7")),
    ("SL9", T("CHOICE", comps=[M("a", T("REF", name="SL0")), M("b", T("REF", name="SL6")), M("c", T("REF", name="SL4"))])),
    ("SL10", T("SEQUENCE OF", elem=T("REF", name="SL0"), size=None)),      # (an inline unsigned-long element does not compile: known C10 finding)
    ("SL11", T("SET", comps=[M("o", T("OCTET STRING", size=C(0, None), alpha=None)), M("u", T("INTEGER", cons=C(0, None)), "OPTIONAL"),
                              M("l", T("REF", name="SL4")), M("z", T("INTEGER", cons=C(0, 7)))])),
]

# ---------------------------------------------------------------------------------------------
# permitted alphabets made of disjoint pieces whose smallest / largest character codes sit on and around the multiples of 16
# (asn1c emits permitted_alphabet_table_N[] in rows of 16 cells up to the largest permitted code)
ALPHA_EDGES = [15, 16, 17, 31, 32, 47, 48, 63, 64, 79, 80, 95, 96, 111, 112, 126, 127]
# kinds whose edge characters need the Tuple / Quadruple notation come last and carry no SIZE: asn1c's lexer rejects every number
# that follows a Tuple / Quadruple in the same file (stale errno == ERANGE after _lex_atoi("1,0}"); a parser defect, not C08's)
ALPHA_KINDS = ["VisibleString", "PrintableString", "NumericString", "IA5String", "UTF8String", "BMPString", "UniversalString"]
ALPHA_SIZED = ("VisibleString", "PrintableString", "NumericString")

def kind_codes(k):
    """character codes of the kind below 256 (X.680 41)"""
    if k in ("UTF8String", "BMPString", "UniversalString"): return list(range(256))
    return [c for c in range(128) if builtin_ok(k, c)]

def piece_codes(k):
    """codes used for the non-edge pieces: without the quotation mark and the apostrophe (asn1c's lexer trips over a cstring "'")"""
    return [c for c in kind_codes(k) if c not in (0x22, 0x27)]

def alphabet_boundary_module(rng, quick):
    """-> (module, [(type, python value, case kind)]): top-level types and members (SEQUENCE / SEQUENCE OF / CHOICE) of every string
    kind; the explicit values hold the smallest and the largest permitted character and the boundary characters of every piece
    (valid), and the codes just outside every piece (one violation each)."""
    types = []; plan = []           # plan: (type name, kind, alpha, path-maker)
    def pieces_for(k, a, b, i):
        """disjoint, non-adjacent pieces with smallest code a and largest code b"""
        ok = set(piece_codes(k))
        ps = []
        lo_piece = (a, a + 1) if i % 2 and a + 1 in ok and a + 3 < b else (a, a)
        hi_piece = (b - 1, b) if i % 3 == 1 and b - 1 in ok and b - 3 > lo_piece[1] else (b, b)
        ps.append(lo_piece)
        mids = [c for c in range(lo_piece[1] + 2, hi_piece[0] - 1) if c in ok]
        if mids and i % 4 != 3:
            m = mids[(7 * i) % len(mids)]
            ps.append((m, m + 1) if i % 2 == 0 and m + 1 in ok and m + 2 < hi_piece[0] else (m, m))
        ps.append(hi_piece)
        return ps
    def alpha_of(ps): return [chr(lo) if lo == hi else (chr(lo), chr(hi)) for lo, hi in ps]
    per_kind = {}
    for k in ALPHA_KINDS:
        ok = kind_codes(k)
        edges = [e for e in ALPHA_EDGES if e in ok]
        if k in ("BMPString", "UniversalString"): edges += [128, 143, 144, 159, 160, 239, 240, 255]
        if k == "IA5String": edges = [0, 1] + edges
        if k == "NumericString": edges = [32, 48, 57]
        if quick and k in ("UTF8String", "UniversalString"): edges = [e for e in edges if e % 16 in (0, 15) or e in (17, 127, 255)]
        lst = []
        for i, b in enumerate(edges):
            lower = [c for c in piece_codes(k) if c <= b - 2]
            if not lower: continue
            lowedges = [e for e in edges if e <= b - 2]
            a = lowedges[(5 * i + 3) % len(lowedges)] if lowedges and i % 5 != 4 else lower[(11 * i) % len(lower)]
            lst.append(pieces_for(k, a, b, i))
        if k in ("BMPString", "UniversalString"):
            lst.append([(32, 32), (250, 255)])
            lst.append([(65, 66), (256, 256)])                      # beyond the table: the generated loop
            lst.append([(65, 66), (0x2028, 0x2029), (0xfffd, 0xfffd)])
        if k == "UTF8String":
            lst.append([(1, 1), (16, 16)])
        per_kind[k] = lst
    short = {"IA5String": "Ia", "VisibleString": "Vs", "PrintableString": "Ps", "NumericString": "Ns", "UTF8String": "U8", "BMPString": "Bm", "UniversalString": "Un"}
    values = []
    def edge_values(k, ps):
        """[(case kind, octets)]"""
        allc = set()
        for lo, hi in ps: allc.update(range(lo, hi + 1))
        bnd = []
        for lo, hi in ps: bnd += [lo] if lo == hi else [lo, hi]
        out = [("alphabet-edge-valid", mk_chars(k, [ps[-1][1]])), ("alphabet-edge-valid", mk_chars(k, [ps[0][0]])),
               ("alphabet-edge-valid", mk_chars(k, [ps[0][0], ps[-1][1]])), ("alphabet-edge-valid", mk_chars(k, bnd)),
               ("alphabet-edge-valid", mk_chars(k, list(reversed(bnd)) + [ps[-1][1]] * 3))]
        okc = set(kind_codes(k))
        for lo, hi in ps:
            for c in (lo - 1, hi + 1, lo - 16, hi + 16, hi + 256, lo + 256):
                if c >= 0 and c not in allc and (c in okc or (255 < c <= 0xffff and not 0xd800 <= c <= 0xdfff and k in ("UTF8String", "BMPString", "UniversalString"))):
                    out.append(("single:from-edge", mk_chars(k, [ps[0][0], c, ps[-1][1]])))
        return out
    for k in ALPHA_KINDS:
        members = []
        for j, ps in enumerate(per_kind[k]):
            n = f"{short[k]}{j}"
            t = T(k, size=(C(1, 8) if j % 3 == 2 and k in ALPHA_SIZED else None), alpha=alpha_of(ps))
            types.append((n, t))
            for kind, v in edge_values(k, ps): values.append((n, v, kind))
            members.append((f"m{j}", ps, t))
        # the same alphabets as inline members of a SEQUENCE (their own tables), element of a SEQUENCE OF, alternative of a CHOICE
        sn = f"{short[k]}Seq"
        types.append((sn, T("SEQUENCE", comps=[M(mid, dict(mt), "OPTIONAL") for mid, _, mt in members])))
        allmax = {mid: mk_chars(k, [ps[0][0], ps[-1][1]]) for mid, ps, _ in members}
        values.append((sn, allmax, "alphabet-edge-valid"))
        for mid, ps, _ in members:
            for kind, v in edge_values(k, ps)[:1] + [x for x in edge_values(k, ps) if x[0].startswith("single")][:2]:
                values.append((sn, {mid: v}, kind))
                if kind.startswith("single"): values.append((sn, dict(allmax, **{mid: v}), kind))
        mult = [(mid, ps, mt) for mid, ps, mt in members if ps[-1][1] % 16 == 0] or members
        mid, ps, mt = mult[len(mult) // 2]
        ln = f"{short[k]}Lst"; cn = f"{short[k]}Cho"
        types.append((ln, T("SEQUENCE OF", elem=dict(mt), size=None)))
        types.append((cn, T("CHOICE", comps=[M("x", dict(mult[0][2])), M("y", T("REF", name=f"{short[k]}{len(members) - 1}")), M("z", T("BOOLEAN"))])))
        ev = edge_values(k, ps)
        values.append((ln, [v for kd, v in ev if kd.endswith("valid")], "alphabet-edge-valid"))
        for kd, v in [x for x in ev if x[0].startswith("single")][:3]: values.append((ln, [ev[0][1], v, ev[1][1]], kd))
        for kd, v in edge_values(k, mult[0][1])[:2] + [x for x in edge_values(k, mult[0][1]) if x[0].startswith("single")][:2]: values.append((cn, ("x", v), kd))
        for kd, v in edge_values(k, members[-1][1])[:2] + [x for x in edge_values(k, members[-1][1]) if x[0].startswith("single")][:2]: values.append((cn, ("y", v), kd))
    return {"name": "ALB", "tagdefault": "AUTOMATIC", "types": types}, values

def alphabet_boundary_cases(ctx, m, values):
    env = dict(m["types"])
    cases = [(n, c_view(env[n], v, env), kind, ((),)) for n, v, kind in values]
    # a few generator-made valid values and planted violations per type as well (sizes, built-in alphabets)
    extra = make_cases(ctx, m, 2, 4, 0)
    return cases + [c for c in extra if c[2] != "valid" or ctx.rng.random() < 0.5]

def gen_modules(ctx, n, ntypes):
    out = []
    for i in range(n):
        td = ["AUTOMATIC", "IMPLICIT", "EXPLICIT", None][i % 4]
        # (0..2^64-1) in an INTEGER_t is generated here: the checker reads it through asn_INTEGER2ulong since the repair of F81
        g = genmod.Gen(ctx.rng, avoid=genmod.Avoid(unsigned_ge_2_63=False), tagdefault=td, kinds=KINDS, allow_ext=False, max_depth=3)
        out.append(g.gen_module(f"G{i}", ntypes))
    return out

# ---------------------------------------------------------------------------------------------
def parse_c(o):
    """C `check` output -> (verdict, td-name, message class, message, flags)"""
    if o is None: return ("crash", "", "", "", {})
    if o == "ok": return ("ok", "", "", "", {})
    if o.startswith("CRASH"):
        return ("selfloop" if "stack-overflow" in o else "crash", "", "", o, {})
    m = re.match(r"fail rc=(-?\d+) errlen=(\d+) terminated=(\d) nooverrun=(\d) msg=(\S+)$", o)
    if not m: return ("unparsable", "", "", o, {})
    msg = bytes.fromhex(m.group(5)).decode("latin1") if m.group(5) != "-" else ""
    name = msg.split(":")[0] if ":" in msg else ""
    cls = ("toolarge" if "value too large" in msg else "utf8" if "UTF-8" in msg else "constraint" if "constraint failed" in msg
           else "alphabet" if ("alphabet" in msg or "out of range" in msg) else "badsize" if "invalid size" in msg
           else "padding" if "invalid padding" in msg else "absent" if "absent" in msg else "nochoice" if "no CHOICE element" in msg
           else "notgiven" if "not given" in msg else "other")
    return ("fail", name, cls, msg, {"rc": int(m.group(1)), "errlen": int(m.group(2)), "terminated": m.group(3) == "1", "nooverrun": m.group(4) == "1"})

def names_of(m):
    s = {"INTEGER", "BOOLEAN", "NULL", "ENUMERATED", "OCTET STRING", "BIT STRING", "SEQUENCE", "SET", "CHOICE", "SEQUENCE OF", "SET OF"} | set(genmod.STRING_KINDS)
    def walk(t):
        if t["k"] in ("SEQUENCE", "SET", "CHOICE"):
            for c in t["comps"]: s.add(c["id"]); walk(c["type"])
        elif t["k"] in ("SEQUENCE OF", "SET OF"): walk(t["elem"])
    for n, t in m["types"]: s.add(n); walk(t)
    return s

def findings(ctx):
    have = {f["id"] for f in ctx.findings}
    for f in PROPOSED:
        if f["id"] not in have: ctx.findings.append(f)

def replay_fixed_witnesses(ctx):
    """regression: the witness of every *fixed* finding of this property must no longer reproduce on the working tree"""
    n = 0
    for f in ctx.findings:
        w = f.get("witness", {})
        if f.get("status") != "fixed" or f.get("property") != ctx.prop or "module" not in w or "op" not in w or not w.get("expect"): continue
        names = re.findall(r"(\w+)\s*::=", w["module"].split("BEGIN", 1)[1])
        b = bundle.Bundle("x" + f["id"], w["module"], names, driver_sources=DRIVER_SOURCES)
        try:
            exe = b.build()
            line = f"@{w.get('type', names[0])} {w['op']}"
            outs, _ = ctx.run_c_bisect(exe, [line])
            o = outs[0] or "CRASH"
            n += 1; ctx.cov["evaluations"] += 1
            if re.search(w["expect"], o):
                ctx.violation(f"C08: fixed finding {f['id']} reproduces again on its witness: {line[:200]} -> {o[:120]} ({f['what'][:160]})",
                              {"module": w["module"], "type": w.get("type", names[0]), "op": w["op"], "c_output": o, "finding": f["id"]})
        except (bundle.Asn1cFailed, build.BuildError) as e:
            ctx.broken.append({"kind": "harness", "msg": f"witness module of fixed finding {f['id']} does not build: {str(e)[-200:]}"})
        finally:
            b.cleanup()
    ctx.cov["fixed_witnesses_replayed"] = n

def run_module(ctx, m, text, cases, stats, quick_sweeps):
    """cases: [(type name, value, kind, planted paths)] -> runs C + Lean, K and P legs"""
    env = dict(m["types"])
    b = bundle.Bundle(m["name"], text, [n for n, _ in m["types"]], driver_sources=DRIVER_SOURCES)
    try:
        exe = b.build()
    except bundle.Asn1cFailed as e:
        ctx.log("asn1c rejected module", m["name"], e.out.strip().split("\n")[0][:160]); stats["asn1c_rejected"] += 1
        b.cleanup(); return
    except build.BuildError as e:
        ctx.log("C build failed for module", m["name"], str(e)[-300:]); stats["cc_failed"] += 1
        b.cleanup(); return
    stats["modules"] += 1
    tys = {n: ty_sexp(t, env) for n, t in m["types"]}
    vsx = [val_sexp(env[n], v, env) for n, v, _, _ in cases]
    mlines = []
    for (n, v, kind, planted), sx in zip(cases, vsx):
        mlines += [f"c08 {n} {tys[n]} | {sx}", f"c08sat {tys[n]} | {sx}", f"c08dom {n} {tys[n]} | {sx}"]
    rc, mouts, merr = ctx.run_lines(build.model_exe(), mlines)
    if rc != 0 or len(mouts) != len(mlines): raise RuntimeError("model driver failed: " + merr[-300:])
    mver = mouts[0::3]; msat = mouts[1::3]; mdom = mouts[2::3]
    clines, idx = [], []
    for i, ((n, v, kind, planted), sx) in enumerate(zip(cases, vsx)):
        clines.append(f"@{n} check {sx}"); idx.append(i)
    couts, crashes = ctx.run_c_bisect(exe, clines)
    known_names = names_of(m)
    st = ctx.cov["correspondence"].setdefault("check", {"lines": 0, "disagreements": 0, "c_crashes": 0})
    for line, o, i in zip(clines, couts, idx):
        n, v, kind, planted = cases[i]
        t = env[n]
        cv, cname, ccls, cmsg, fl = parse_c(o)
        st["lines"] += 1; ctx.cov["evaluations"] += 1
        stats["cases"][kind] += 1
        stats["c_" + cv] += 1
        # ---- K: model vs C
        mt = mver[i].split(" ", 2)
        mv_ = mt[0]
        kbad = None
        if cv == "crash" or cv == "unparsable": kbad = "C " + cv
        elif mv_ != cv: kbad = f"verdict {cv} vs model {mv_}"
        elif cv == "fail":
            if mt[2] != cname: kbad = f"reported name '{cname}' vs model '{mt[2]}'"
            elif mt[1] != ccls: kbad = f"message class {ccls} vs model {mt[1]}"
        if kbad:
            st["disagreements"] += 1
            if len(ctx.broken) < 40:
                ctx.broken.append({"kind": "correspondence", "name": "check", "module": text, "type": n, "op": line[len(n) + 2:], "c": str(o)[:300], "model": mver[i], "why": kbad})
            if stats["k_logged"] < 8:
                stats["k_logged"] += 1
                ctx.log("K disagreement:", kbad, "|", m["name"], line[:200], "| type", " ".join(ttext(t).split())[:200])
        # ---- P: C vs the X.680 oracle
        viols = violations(t, v, env)
        want_ok = not viols
        if (msat[i] == "sat") != want_ok:
            stats["spec_vs_oracle"] += 1
            if len(ctx.broken) < 40:
                ctx.broken.append({"kind": "spec-vs-oracle", "module": text, "type": n, "value": vsx[i][:300], "lean_spec": msat[i], "oracle_violations": [str(x) for x in viols][:5]})
        if cv in ("ok", "fail", "selfloop"):
            stats["P_cases"] += 1
            pbad = None
            if cv == "selfloop": pbad = "asn_check_constraints does not terminate (stack overflow)"
            elif (cv == "ok") != want_ok:
                pbad = ("accepts a value violating " + ", ".join(f"{'/'.join(map(str, p)) or '<top>'}:{w}" for p, w in viols[:4])) if cv == "ok" \
                    else f"rejects a valid value ({cmsg[:80]})"
            elif cv == "fail":
                if fl["rc"] != -1: pbad = f"return code {fl['rc']} instead of -1"
                elif not cmsg: pbad = "empty error message"
                elif not fl["terminated"] or not fl["nooverrun"] or fl["errlen"] >= 128: pbad = "error message not terminated inside the buffer"
                elif cname not in known_names: pbad = f"message names no type or member ('{cmsg[:60]}')"
            if pbad:
                fid = None
                if cv != "selfloop" and (cv == "ok") != want_ok:
                    fid = explain(ctx, n, t, v, env, cv == "ok", viols, cmsg)
                if fid and mdom[i] == "in":
                    pbad += " [inside the proved domain: the theorem or the correspondence is wrong]"; fid = None
                f = ctx.match_finding(lambda f: f["id"] == fid) if fid else None
                if f: stats["known"][fid] += 1
                else:
                    stats["P_fail"] += 1
                    if stats["violations"] < 5:
                        stats["violations"] += 1
                        ctx.violation(f"C08: asn_check_constraints {pbad}; type {n}, {kind}: {line[:240]} -> {str(o)[:120]}",
                                      {"module": text, "type": n, "op": line[len(n) + 2:], "c_output": str(o), "model": mver[i],
                                       "oracle_violations": [f"{'/'.join(map(str, p))}:{w}" for p, w in viols], "case_kind": kind})
            else:
                ctx.count_nontrivial((m["name"], n, vsx[i][:120]))
                if mdom[i] == "in": stats["in_domain"] += 1
        if want_ok: stats["valid"] += 1
        else: stats["invalid"] += 1
        if len(ctx.cov["samples"]) < 10 and (i % 97 == 0 or (kind.startswith("single") and stats["cases"][kind] == 1)):
            ctx.cov["samples"].append({"module": m["name"], "type": " ".join(ttext(t).split())[:200], "kind": kind, "op": line[:300],
                                       "c": str(o)[:200], "model": mver[i], "spec": msat[i], "oracle": "valid" if want_ok else [f"{'/'.join(map(str, p))}:{w}" for p, w in viols][:4],
                                       "in_proved_domain": mdom[i]})
    # ---- errbuf sweep on a few rejected values of this module
    rej = [i for i, o in zip(idx, couts) if o and o.startswith("fail")]
    ctx.rng.shuffle(rej)
    sw = rej[:quick_sweeps]
    if sw:
        slines = [f"@{cases[i][0]} errsweep 40 {vsx[i]}" for i in sw]
        souts, _ = ctx.run_c_bisect(exe, slines)
        ml = []; meta = []
        for l, o in zip(slines, souts):
            mm = re.match(r"sweep full=(\S+) null=(-?\d+) (.*)$", o or "")
            if not mm:
                stats["sweep_bad"] += 1
                ctx.violation(f"C08: errbuf sweep failed: {l[:200]} -> {str(o)[:160]}", {"module": text, "type": l.split()[0][1:], "op": l.split(" ", 1)[1], "c_output": str(o)})
                continue
            full = mm.group(1)
            for tok in mm.group(3).split():
                nn, rc_, el, w = tok.split(":", 3)
                ml.append(f"c08errbuf {nn} {full}"); meta.append((l, full, int(mm.group(2)), int(nn), int(rc_), int(el), w))
        if ml:
            rc, mo, _ = ctx.run_lines(build.model_exe(), ml)
            sst = ctx.cov["correspondence"].setdefault("errbuf", {"lines": 0, "disagreements": 0, "c_crashes": 0})
            for (l, full, nullrc, nn, rc_, el, w), mline in zip(meta, mo):
                sst["lines"] += 1; ctx.cov["evaluations"] += 1; stats["sweep_points"] += 1
                msg = bytes.fromhex(full)
                # P: bounded, terminated, prefix of the message, rc -1 also with a NULL buffer
                exp_el = 0 if nn == 0 else min(nn - 1, len(msg))
                exp_w = "-" if nn == 0 else (msg[:exp_el] + b"\0").hex()
                if w.startswith("!") or rc_ != -1 or nullrc != -1 or el != exp_el or w != exp_w:
                    stats["sweep_bad"] += 1
                    if stats["violations"] < 5:
                        stats["violations"] += 1
                        ctx.violation(f"C08: error buffer contract broken at errlen={nn}: rc={rc_} *errlen={el} written={w[:60]} (expected {exp_w[:60]}, *errlen={exp_el}); {l[:160]}",
                                      {"module": text, "type": l.split()[0][1:], "op": l.split(" ", 1)[1], "errlen": nn, "c_written": w, "expected": exp_w})
                # K: Impl.ctfail
                if mline != f"{w} {el}":
                    sst["disagreements"] += 1
                    if len(ctx.broken) < 40:
                        ctx.broken.append({"kind": "correspondence", "name": "errbuf", "module": text, "op": l, "errlen": nn, "c": f"{w} {el}", "model": mline})
    b.cleanup()

def make_cases(ctx, m, nvalid, cap_per_type, multi):
    env = dict(m["types"])
    vg = VG(ctx.rng, env)
    cases = []
    for n, t in m["types"]:
        vals = []
        seen = set()
        for i in range(nvalid * 3):
            v = vg.value(t, i)
            if violations(t, v, env): continue
            key = repr(v)
            if key in seen: continue
            seen.add(key); vals.append(v)
            if len(vals) >= nvalid: break
        for v in vals: cases.append((n, v, "valid", ()))
        muts = []
        for bi, v in enumerate(vals[:3]):
            muts += [(p, what + "#%d" % bi, mv) for p, what, mv in single_mutants(t, v, env, ctx.rng)]
        # keep only mutants that violate exactly one constraint at one position (the oracle decides)
        singles = []
        for p, what, mv in muts:
            vs = violations(t, mv, env)
            if len(vs) == 1: singles.append((p, what, mv))
            elif len(vs) > 1 and len(singles) % 7 == 0: cases.append((n, mv, "several", tuple(x[0] for x in vs)))
        if len(singles) > cap_per_type:
            # every position stays represented: sample per (path)
            bypath = collections.defaultdict(list)
            for s in singles: bypath[s[0]].append(s)
            keep = []
            per = max(2, cap_per_type // max(1, len(bypath)))
            for p, lst in bypath.items():
                ctx.rng.shuffle(lst); keep += lst[:per]
            singles = keep[:cap_per_type * 2]
        for p, what, mv in singles: cases.append((n, mv, "single:" + what.split("@")[0].split("#")[0], (p,)))
        # several violations at distinct positions
        for _ in range(multi):
            if len(singles) < 2 or not vals: break
            a, b2 = ctx.rng.sample(singles, 2)
            if a[0] == b2[0] or a[0][:len(b2[0])] == b2[0] or b2[0][:len(a[0])] == a[0]: continue
            if a[1].split("#")[-1] != b2[1].split("#")[-1]: continue      # mutants of the same base value only
            try:
                st, sv = sub_at(t, b2[2], env, b2[0])
                mv = apply_at(t, a[2], env, b2[0], sv)
            except Exception:
                continue
            try: vs = violations(t, mv, env)
            except Exception: continue
            if len(vs) >= 2: cases.append((n, mv, "several", tuple(x[0] for x in vs)))
    if m["name"] == "SHP":
        # the 8-bit alphabets exhaustively: every single-octet string, skeleton checkers and generated tables / loops
        pick = {"IA1", "VS1", "PS1", "NS1", "PS2", "NS3", "IA3", "VS3"}
        for n, t in m["types"]:
            if t["k"] in ("IA5String", "VisibleString", "PrintableString", "NumericString") and in_ranges(ranges(t.get("size")), 1) \
               and (n in pick or not ctx.quick):
                for c in range(256): cases.append((n, bytes([c]), "alphabet-exhaustive", ((),)))
    return [(n, c_view(env[n], v, env), kind, pl) for n, v, kind, pl in cases]

def run(ctx):
    findings(ctx)
    tabs = c08_tables.write()
    ctx.cov["alphabet_tables"] = {"checked": "every one of the 256 octets, by decide +kernel in Props/C08.lean", "extracted": {k: (v if not isinstance(v, list) or len(v) < 20 else f"{len(v)} entries") for k, v in tabs.items()}}
    ctx.lean()
    quick = ctx.quick
    stats = collections.Counter()
    stats["cases"] = collections.Counter(); stats["known"] = collections.Counter()
    # known-finding witnesses on the real code
    gfind.replay_witnesses(ctx, driver_sources=DRIVER_SOURCES)
    replay_fixed_witnesses(ctx)
    shp = shapes_module()
    mods = [(shp, mtext(shp))]
    for m in gen_modules(ctx, 8 if quick else 40, 9 if quick else 12):
        mods.append((m, genmod.module_text(m)))
    for m, text in mods:
        is_shp = m is shp
        cases = make_cases(ctx, m, 6 if is_shp else (4 if quick else 10), 40 if is_shp else (14 if quick else 40), 2 if quick else 6)
        run_module(ctx, m, text, cases, stats, 6 if is_shp else (2 if quick else 6))
    # permitted-alphabet tables: smallest / largest characters on and around the multiples of 16, every string kind, top level and members
    alb, albvals = alphabet_boundary_module(ctx.rng, quick)
    nmod = stats["modules"]
    run_module(ctx, alb, mtext(alb), alphabet_boundary_cases(ctx, alb, albvals), stats, 2)
    if stats["modules"] == nmod:
        ctx.broken.append({"kind": "harness", "msg": "the permitted-alphabet boundary module ALB does not build (see the log)"})
    # former F48 region: types whose checker has nothing applicable (valid values, planted violations of the other components)
    sl = {"name": "SLP", "tagdefault": "AUTOMATIC", "types": VACUOUS_TYPES}
    run_module(ctx, sl, mtext(sl), make_cases(ctx, sl, 4, 20, 2), stats, 2)
    uw = {"name": "UWF", "tagdefault": "AUTOMATIC", "types": UTF8_WIDE_FROM}
    run_module(ctx, uw, mtext(uw), make_cases(ctx, uw, 6, 20, 2), stats, 2)
    ctx.cov["predicate"]["check"] = {"modules": stats["modules"], "cases": stats["P_cases"], "valid_values": stats["valid"], "violating_values": stats["invalid"],
                                     "case_kinds": dict(stats["cases"]), "failures_outside_known_regions": stats["P_fail"], "known_region_hits": dict(stats["known"]),
                                     "inside_proved_domain_and_correct": stats["in_domain"], "spec_vs_oracle_disagreements": stats["spec_vs_oracle"],
                                     "c_verdicts": {k[2:]: v for k, v in stats.items() if isinstance(k, str) and k.startswith("c_")},
                                     "asn1c_rejected_modules": stats["asn1c_rejected"]}
    ctx.cov["predicate"]["errbuf"] = {"sweep_points": stats["sweep_points"], "failures": stats["sweep_bad"]}
    ctx.cov["distribution"]["case_kinds"] = dict(stats["cases"])
    ctx.cov["programs"] = stats["modules"]
    ctx.cov["disagreements_checked"] = ctx.cov["correspondence"].get("check", {}).get("disagreements", 0) + ctx.cov["correspondence"].get("errbuf", {}).get("disagreements", 0)
    ctx.cov["rule"] = ("generated modules (non-extensible constraints) x valid values, single planted violations at every constrained position / bound / side, several violations; "
                       "non-trivial = C's verdict equals the X.680 oracle and the message contract holds")
    ctx.log(f"modules={stats['modules']} cases={stats['P_cases']} valid={stats['valid']} violating={stats['invalid']} in-domain-correct={stats['in_domain']} "
            f"known={dict(stats['known'])} P-failures={stats['P_fail']} K-disagreements={ctx.cov['correspondence'].get('check', {}).get('disagreements')} "
            f"sweep={stats['sweep_points']}/{stats['sweep_bad']} spec-vs-oracle={stats['spec_vs_oracle']}")
    if stats["modules"] < 2:
        ctx.broken.append({"kind": "harness", "msg": "fewer than 2 modules could be built"})

def replay(ctx, path):
    r = json.load(open(path))
    findings(ctx)
    c08_tables.write()
    ctx.lean()
    items = [r] if "module" in r else [b for b in r.get("broken", []) if "module" in b and "op" in b]
    for it in items[:5]:
        names = re.findall(r"^\s*(\w+) ::=", it["module"], re.M) or re.findall(r"(\w+)\s*::=", it["module"].split("BEGIN", 1)[1])
        b = bundle.Bundle("replay", it["module"], names, driver_sources=DRIVER_SOURCES)
        exe = b.build()
        line = f"@{it['type']} {it['op']}"
        outs, _ = ctx.run_c_bisect(exe, [line])
        print("replay:", line[:300], "=>", str(outs[0])[:600])
        if it.get("model"): print("replay: model said", it["model"])
        b.cleanup()
