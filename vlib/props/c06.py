"""C06 — canonical encodings depend only on the abstract value, not its representation."""
import collections, re, itertools
from .. import build, core, genmod, bundle, gfind
from . import c01

CANON = ("der", "cxer", "uper", "oer")

def pad_int_octets(v, rng):
    n = max(1, (v.bit_length() + 8) // 8)
    base = v.to_bytes(n, "big", signed=True)
    return (b"\xff" if v < 0 else b"\x00") * rng.choice([1, 2, 3]) + base

def transform(t, v, env, rng, kinds, wide):
    """returns (sexp of an equivalent representation, set of transformation kinds applied) — recursive"""
    k = t["k"]
    if k == "REF": return transform(env[t["name"]], v, env, rng, kinds, wide)
    if k == "INTEGER" and wide and rng.random() < 0.7:
        kinds.add("int-pad"); return "(int-octets %s)" % pad_int_octets(v, rng).hex()
    if k == "BIT STRING":
        bs, unused = v
        if bs and unused and rng.random() < 0.8:
            kinds.add("bit-noise")
            noisy = bs[:-1] + bytes([bs[-1] | rng.randrange(1, 1 << unused)])
            return "(bs %s %d)" % (noisy.hex(), unused)
        return genmod.val_sexp(t, v, env)
    if k in ("SEQUENCE", "SET"):
        parts = []
        for c in t["comps"]:
            opt = c.get("opt")
            if c["id"] in v:
                parts.append("(%s %s)" % (c["id"], transform(c["type"], v[c["id"]], env, rng, kinds, wide)))
            elif isinstance(opt, tuple) and rng.random() < 0.8:
                kinds.add("default-explicit")
                parts.append("(%s %s)" % (c["id"], genmod.val_sexp(c["type"], opt[2], env)))
        return "(" + " ".join(["seq" if k == "SEQUENCE" else "set"] + parts) + ")"
    if k == "CHOICE":
        alt, x = v
        c = next(c for c in t["comps"] if c["id"] == alt)
        return "(choice %s %s)" % (alt, transform(c["type"], x, env, rng, kinds, wide))
    if k in ("SEQUENCE OF", "SET OF"):
        items = [transform(t["elem"], x, env, rng, kinds, wide) for x in v]
        if k == "SET OF" and len(items) > 1:
            p = items[:]; rng.shuffle(p)
            if p != items: kinds.add("setof-perm"); items = p
        return "(" + " ".join(["list"] + items) + ")"
    return genmod.val_sexp(t, v, env)

# the noise transformation must also meet values whose last octet has no significant bit set
EXTRA_VALUES = {("CAN", "BsZ"): [(b"\x00", 4), (b"\x12\x34\x00", 1), (b"\x80\x00", 6), (b"\x00", 7), (b"\xff\x00", 1), (b"\x00\x00", 3)]}

def run(ctx):
    ctx.lean()
    gfind.replay_witnesses(ctx)
    gfind.replay_fixed_witnesses(ctx)      # former witnesses of repaired findings must not reproduce (F65: order of an extensible SET)
    nb = 6 if ctx.quick else 24
    nvals = 10 if ctx.quick else 16
    mods = c01.gen_bundles(ctx, nb)
    # one purpose-built module so that every transformation kind is exercised on every run
    fixed = {"name": "CAN", "tagdefault": "AUTOMATIC", "types": [
        ("SoI", {"k": "SET OF", "elem": {"k": "INTEGER", "cons": None}, "size": None}),
        ("SoS", {"k": "SET OF", "elem": {"k": "OCTET STRING", "size": None}, "size": None}),
        ("SqD", {"k": "SEQUENCE", "comps": [
            {"id": "a", "type": {"k": "INTEGER", "cons": None}, "opt": ("DEFAULT", "5", 5)},
            {"id": "b", "type": {"k": "BOOLEAN"}, "opt": ("DEFAULT", "TRUE", True)},
            {"id": "c", "type": {"k": "BIT STRING", "size": None}},
            {"id": "d", "type": {"k": "SET OF", "elem": {"k": "REF", "name": "SoI"}, "size": None}}]}),
        ("BigI", {"k": "INTEGER", "cons": genmod.cons(-(1 << 62), (1 << 62))}),
        ("BsZ", {"k": "BIT STRING", "size": None}),      # + explicit values whose used bits of the last octet are all 0 (EXTRA_VALUES)
        # DEFAULT-valued extension additions (F16, repaired); a zero / FALSE default of a native type is stored inline
        ("SqE", {"k": "SEQUENCE", "ext": 1, "comps": [
            {"id": "a", "type": {"k": "INTEGER", "cons": genmod.cons(0, 255)}},
            {"id": "b", "type": {"k": "INTEGER", "cons": genmod.cons(0, 255)}, "opt": ("DEFAULT", "5", 5)},
            {"id": "c", "type": {"k": "BOOLEAN"}, "opt": "OPTIONAL"},
            {"id": "d", "type": {"k": "INTEGER", "cons": genmod.cons(0, 65535)}, "opt": ("DEFAULT", "300", 300)}]}),
        # the same with zero / FALSE defaults, which a native build stores inline (the member is then always "present":
        # kept apart from SqE, where presence of an addition is what distinguishes the two representations)
        ("SqEz", {"k": "SEQUENCE", "ext": 1, "comps": [
            {"id": "a", "type": {"k": "INTEGER", "cons": genmod.cons(0, 255)}},
            {"id": "b", "type": {"k": "INTEGER", "cons": genmod.cons(0, 255)}, "opt": ("DEFAULT", "5", 5)},
            {"id": "z", "type": {"k": "INTEGER", "cons": genmod.cons(0, 255)}, "opt": ("DEFAULT", "0", 0)},
            {"id": "f", "type": {"k": "BOOLEAN"}, "opt": ("DEFAULT", "FALSE", False)}]}),
        # SET with DEFAULT components (F56, repaired: SET_encode_xer wrote a stored default, skipped an absent one)
        ("StD", {"k": "SET", "comps": [
            {"id": "a", "type": {"k": "INTEGER", "cons": None}, "opt": ("DEFAULT", "5", 5)},
            {"id": "z", "type": {"k": "INTEGER", "cons": genmod.cons(0, 255)}, "opt": ("DEFAULT", "0", 0)},
            {"id": "b", "type": {"k": "BOOLEAN"}, "opt": ("DEFAULT", "TRUE", True)},
            {"id": "m", "type": {"k": "BOOLEAN"}}]})]}
    stats = collections.Counter(); fails = []
    for mi, m in enumerate([fixed] + mods):
        wide = (mi % 2 == 0)
        txt = genmod.module_text(m); env = dict(m["types"])
        b = bundle.Bundle(m["name"], txt, [n for n, _ in m["types"]],
                          opts=("-no-gen-example", "-fcompound-names") + (("-fwide-types",) if wide else ()))
        try: exe = b.build()
        except Exception as e:
            stats["build_failed"] += 1; ctx.module_not_built(m, e); b.cleanup(); continue
        vg = genmod.ValGen(ctx.rng, env)
        lines, meta = [], []
        for n, t in m["types"]:
            feats = gfind.features(t, env)
            for v in EXTRA_VALUES.get((m["name"], n), []) + vg.values(t, nvals):
                base = genmod.val_sexp(t, v, env)
                for rep in range(3):
                    kinds = set()
                    alt = transform(t, v, env, ctx.rng, kinds, wide)
                    if not kinds or alt == base: continue
                    for syn in CANON:
                        if c01.skip_region(syn, feats, collections.Counter()): continue
                        # F16 (default-explicit under uper), F17 (bit-noise), F18 (int-pad), F55 (setof-perm under oer) and
                        # F56 (default-explicit under cxer) are repaired: every kind is checked under every canonical syntax
                        lines.append(f"@{n} enc {syn} {base}"); meta.append((n, syn, "base", frozenset(kinds)))
                        lines.append(f"@{n} enc {syn} {alt}"); meta.append((n, syn, "alt", frozenset(kinds)))
        outs, _ = ctx.run_c_parallel(exe, lines)
        i = 0
        while i < len(lines):
            n, syn, role, kinds = meta[i]
            if role == "cmp":
                stats["cases"] += 1
                if str(outs[i]) != "0": fails.append((txt, n, lines[i], str(outs[i]), "compare_struct != 0 for two representations of one value", "cmp", kinds))
                i += 1; continue
            a, bb = str(outs[i]), str(outs[i + 1])
            stats["cases"] += 1
            for kk in kinds: stats["kind:" + kk] += 1
            if bb.startswith("load-error"): stats["not_applicable"] += 1
            elif not a.startswith("ok ") or a != bb:
                fails.append((txt, n, lines[i + 1], f"base={a[:120]} alt={bb[:120]}", f"{syn} output differs between two representations of one value", syn, kinds))
            else: ctx.count_nontrivial((syn, n, hash(lines[i + 1])))
            i += 2
        b.cleanup()
    ctx.cov["evaluations"] += stats["cases"]
    ctx.cov["distribution"] = dict(stats)
    ctx.cov["predicate"]["canonical"] = {"cases": stats["cases"], "failures": len(fails)}
    ctx.cov["rule"] = ("pairs (value, equivalent representation): SET OF permutation, INTEGER sign-extension padding (wide types), "
                       "DEFAULT materialised, BIT STRING unused-bit noise; DER/CANONICAL-XER/UPER/OER bytes must be identical and compare_struct 0")
    sig = collections.Counter(); first = {}
    for f in fails:
        key = (f[5], tuple(sorted(f[6])), f[4][:40]); sig[key] += 1; first.setdefault(key, f)
    for key, cnt in sig.most_common(10):
        ctx.log("  class", cnt, key, "| e.g.", first[key][2][:120], "=>", first[key][3][:120])
    for key, cnt in list(sig.most_common())[:5]:
        txt, n, l, o, why, syn, kinds = first[key]
        ctx.violation(f"C06: {why} ({sorted(kinds)}) for type {n}: {l[:140]}", {"module": txt, "type": n, "op": l, "c_output": o, "why": why, "count_in_class": cnt})
    ctx.log("C06:", dict(stats), "failures", len(fails))

def replay(ctx, path):
    c01.replay(ctx, path)
