"""C02 — encoders emit the byte-exact standard wire format (DER, UPER, OER).

P/K: the bytes produced by the C encoders are compared with the Lean reference encoders
(`L2.encDER` …: written from X.690/X.691/X.696 on the generator's type AST, tags resolved by
`L2.Resolve` per X.680 §31) and the C decoders with the reference decoders."""
import collections
from .. import build, core, genmod, bundle, gfind, l2k
from . import c01, l1per, c02_oer, c02_uper

def der_skip(syn, t, env, tagdefault):
    feats = gfind.features(t, env, tagdefault=tagdefault)
    if "explicit_tag_own_descr" in feats: return "F49"
    return None

def run(ctx):
    ctx.lean()
    gfind.replay_witnesses(ctx)
    nb = 6 if ctx.quick else 40
    nvals = 8 if ctx.quick else 25
    mods = c01.gen_bundles(ctx, nb)
    bm, bvals = genmod.boundary_module(ctx.rng, ctx.quick)
    cases = [(bm, bvals)]
    for m in mods:
        env = dict(m["types"])
        vg = genmod.ValGen(ctx.rng, env)
        cases.append((m, {n: vg.values(t, nvals) for n, t in m["types"]}))
    skipped = collections.Counter()
    def mk_skip(m):
        def sk(syn, t, env):
            fid = der_skip(syn, t, env, m.get("tagdefault"))
            if fid: skipped[fid] += 1
            return fid is not None
        return sk
    allst = collections.Counter(); alldis = []
    for m, vals in cases:
        st, dis = l2k.k_leg(ctx, "der:" + m["name"], [(m, vals)], [("der", "ber", "der", "ber")], skip=mk_skip(m))
        allst.update(st); alldis += dis
    ctx.cov["predicate"]["der_bytes_eq_reference"] = dict(allst)
    ctx.cov["predicate"]["skipped_known_regions"] = dict(skipped)
    ctx.cov["rule"] = ("generated modules + boundary module x boundary-first values: C DER bytes == reference encoder bytes, "
                       "C BER decode == reference decode; distinct = distinct (syntax, type, value)")
    # broken correspondences were queued by k_leg; since the model *is* the reference encoder, a
    # disagreement is at the same time a failing input of the property
    ctx.broken = [b for b in ctx.broken if b.get("kind") != "correspondence"]
    for d in alldis[:5]:
        ctx.violation(f"C02: C {d['syntax']} {d['stage']} differs from the reference for type {d['type']}: {d['op'][:160]} C={d['c'][:100]} ref={d['model'][:100]}",
                      {"module": d["module"], "type": d["type"], "op": d["op"], "c_output": d["c"], "reference": d["model"], "syntax": d["syntax"]})
    ctx.log("C02 DER:", dict(allst), "skipped", dict(skipped))
    # UPER: reference codec (L2.Uper, written from X.691, proved to round-trip) vs C
    c02_uper.run_uper(ctx)
    # OER: reference codec (L2.Oer, written from X.696, proved to round-trip) vs C
    c02_oer.run_oer(ctx)
    # L1 PER/OER primitives: C functions vs Impl models vs X.691/X.696 oracle
    l1per.run(ctx)

def replay(ctx, path):
    c01.replay(ctx, path)
