"""C02 — encoders emit the byte-exact standard wire format (DER, UPER, OER).

P/K: the bytes produced by the C encoders are compared with the Lean reference encoders
(`L2.encDER` …: written from X.690/X.691/X.696 on the generator's type AST, tags resolved by
`L2.Resolve` per X.680 §31) and the C decoders with the reference decoders."""
import collections
from .. import build, core, genmod, bundle, gfind, l2k
from . import c01, l1per, c02_oer, c02_uper

def der_skip(syn, t, env, tagdefault):
    feats = gfind.features(t, env, tagdefault=tagdefault)
    if "explicit_tag_own_descr" in feats: return "F49"
    return None

def unsigned_long_module(rng):
    """directed (DER leg only): the types asn1c stores in an `unsigned long` -- INTEGER (lb..MAX), lb >= 0 -- over the whole
    range 0 .. 2^64-1.  The random generator stays below 2^63; the region was the one of finding F20 (NativeInteger_encode_der
    wrote values >= 2^63 as negative INTEGERs), repaired together with F3."""
    T = lambda k, **kw: dict(k=k, **kw)
    U = lambda lo: T("INTEGER", cons=genmod.cons(lo, None))
    types = [("DU", U(0)), ("DU5", U(5)),
             ("DUS", T("SEQUENCE", comps=[{"id": "u", "type": U(0)}, {"id": "v", "type": U(1), "opt": "OPTIONAL"}, {"id": "b", "type": T("BOOLEAN")}])),
             ("DUC", T("CHOICE", comps=[{"id": "i", "type": T("INTEGER", cons=None)}, {"id": "u", "type": U(0)}]))]
    big = [(1 << 63) - 1, 1 << 63, (1 << 63) + 1, (1 << 64) - 256, (1 << 64) - 2, (1 << 64) - 1, rng.randrange(1 << 63, 1 << 64), rng.randrange(1 << 63, 1 << 64)]
    vals = {"DU": [0, 127, 128] + big, "DU5": [5, 255, 256] + big,
            "DUS": [{"u": v, "b": bool(i % 2)} for i, v in enumerate(big)] + [{"u": big[1], "v": big[-3], "b": True}, {"u": 0, "v": 1 << 63, "b": False}],
            "DUC": [("u", v) for v in big] + [("i", -(1 << 63)), ("i", (1 << 63) - 1)]}
    return {"name": "DUL", "tagdefault": "AUTOMATIC", "types": types}, vals

def run(ctx):
    ctx.lean()
    gfind.replay_witnesses(ctx)
    nb = 6 if ctx.quick else 40
    nvals = 8 if ctx.quick else 25
    mods = c01.gen_bundles(ctx, nb)
    bm, bvals = genmod.boundary_module(ctx.rng, ctx.quick)
    cases = [(bm, bvals), unsigned_long_module(ctx.rng)]
    for m in mods:
        env = dict(m["types"])
        vg = genmod.ValGen(ctx.rng, env)
        cases.append((m, {n: vg.values(t, nvals) for n, t in m["types"]}))
    skipped = collections.Counter()
    def mk_skip(m):
        def sk(syn, t, env):
            fid = der_skip(syn, t, env, m.get("tagdefault"))
            if fid: skipped[fid] += 1
            return fid is not None
        return sk
    allst = collections.Counter(); alldis = []
    for m, vals in cases:
        st, dis = l2k.k_leg(ctx, "der:" + m["name"], [(m, vals)], [("der", "ber", "der", "ber")], skip=mk_skip(m))
        allst.update(st); alldis += dis
    ctx.cov["predicate"]["der_bytes_eq_reference"] = dict(allst)
    ctx.cov["predicate"]["skipped_known_regions"] = dict(skipped)
    ctx.cov["rule"] = ("generated modules + boundary module x boundary-first values: C DER bytes == reference encoder bytes, "
                       "C BER decode == reference decode; distinct = distinct (syntax, type, value)")
    # broken correspondences were queued by k_leg; since the model *is* the reference encoder, a
    # disagreement is at the same time a failing input of the property
    ctx.broken = [b for b in ctx.broken if b.get("kind") != "correspondence"]
    for d in alldis[:5]:
        ctx.violation(f"C02: C {d['syntax']} {d['stage']} differs from the reference for type {d['type']}: {d['op'][:160]} C={d['c'][:100]} ref={d['model'][:100]}",
                      {"module": d["module"], "type": d["type"], "op": d["op"], "c_output": d["c"], "reference": d["model"], "syntax": d["syntax"]})
    ctx.log("C02 DER:", dict(allst), "skipped", dict(skipped))
    # UPER: reference codec (L2.Uper, written from X.691, proved to round-trip) vs C
    c02_uper.run_uper(ctx)
    # OER: reference codec (L2.Oer, written from X.696, proved to round-trip) vs C
    c02_oer.run_oer(ctx)
    # L1 PER/OER primitives: C functions vs Impl models vs X.691/X.696 oracle
    l1per.run(ctx)

def replay(ctx, path):
    c01.replay(ctx, path)
