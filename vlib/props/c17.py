"""C17 — OBJECT IDENTIFIER and time helper APIs round-trip and match X.690.

L: theorems of Asn1cModel.Props.C17 (lean/props/C17.json).
K: harness/oidtime_driver (real functions, ASan+UBSan) vs the compiled Lean model, same op lines;
   the time ops are re-run under several TZ settings (the model receives tm_gmtoff as reported by libc).
P: the property evaluated on C's outputs with oracles written here from X.690 8.19 / the calendar
   (python ints, datetime, a Hinnant-style civil calendar for year 0) - the Lean model is not consulted.
"""
import datetime, json, os, re
from .. import build, core

U32 = (1 << 32) - 1

# F6 (get_single_arc wrapped sub-identifiers >= 2^32 modulo 2^32) and F60 (time_t -1 reported as an error) are
# repaired: no matcher, no skip region - a sub-identifier >= 2^32 must be answered with ERANGE and the instant -1
# must convert like any other instant.

# ---------------------------------------------------------------- oracles (independent of the Lean model)

def hx(bs): return bytes(bs).hex() if bs else "-"
def unhx(s): return b"" if s == "-" else bytes.fromhex(s)

def b128(n):
    """X.690 8.19.2: base-128, big-endian, bit 8 set on all but the last octet, fewest octets."""
    out = [n & 0x7f]
    n >>= 7
    while n:
        out.append(0x80 | (n & 0x7f)); n >>= 7
    return bytes(reversed(out))

def oid_valid(arcs):
    """X.690 8.19.4 + 32-bit first sub-identifier: a0 in 0..2, a1 <= 39 for a0 in {0,1}, 40*a0+a1 < 2^32."""
    if len(arcs) < 2: return False
    a0, a1 = arcs[0], arcs[1]
    if a0 > 2: return False
    if a0 < 2 and a1 > 39: return False
    return 40 * a0 + a1 <= U32

def oid_octets(arcs):
    return b128(40 * arcs[0] + arcs[1]) + b"".join(b128(a) for a in arcs[2:])

def subids(bs):
    """split an octet string into sub-identifier values (any size); None if it ends inside one"""
    vals, cur, mid = [], 0, False
    for b in bs:
        cur = (cur << 7) | (b & 0x7f); mid = True
        if not b & 0x80:
            vals.append(cur); cur = 0; mid = False
    return None if mid else vals

OID_TEXT = re.compile(rb"[\t\n\r ]*([0-9]+(?:\.[0-9]+)*)[\t\n\r ]*\Z")

def days_from_civil(y, m, d):
    """proleptic Gregorian, days since 1970-01-01 (H. Hinnant's algorithm; only used as an oracle)"""
    y -= m <= 2
    era = y // 400
    yoe = y - era * 400
    doy = (153 * (m + (-3 if m > 2 else 9)) + 2) // 5 + d - 1
    doe = yoe * 365 + yoe // 4 - yoe // 100 + doy
    return era * 146097 + doe - 719468

def civil_from_days(z):
    z += 719468
    era = z // 146097
    doe = z - era * 146097
    yoe = (doe - doe // 1460 + doe // 36524 - doe // 146096) // 365
    y = yoe + era * 400
    doy = doe - (365 * yoe + yoe // 4 - yoe // 100)
    mp = (5 * doy + 2) // 153
    d = doy - (153 * mp + 2) // 5 + 1
    m = mp + 3 if mp < 10 else mp - 9
    return (y + (m <= 2), m, d)

EPOCH = datetime.datetime(1970, 1, 1)

def civil(t):
    """(Y, M, D, h, m, s) of the instant t in UTC: datetime where it can, Hinnant elsewhere"""
    try:
        dt = EPOCH + datetime.timedelta(seconds=t)
        return (dt.year, dt.month, dt.day, dt.hour, dt.minute, dt.second)
    except OverflowError:
        y, m, d = civil_from_days(t // 86400)
        r = t % 86400
        return (y, m, d, r // 3600, r // 60 % 60, r % 60)

def gt_text(t):
    c = civil(t)
    if not 0 <= c[0] <= 9999: return None
    return "%04d%02d%02d%02d%02d%02d" % c

def frac_text(fv, fd):
    """canonical fraction for fv / 10^fd (0 < fv < 10^fd), at most 9 digits, no trailing zeros"""
    if fv <= 0 or fd <= 0: return ""
    if fd > 9:
        fv //= 10 ** (fd - 9); fd = 9
    s = ("%0*d" % (fd, fv)).rstrip("0")
    return "." + s if s else ""

def t_year_start(y): return days_from_civil(y, 1, 1) * 86400

def selftest():
    import calendar
    assert days_from_civil(1970, 1, 1) == 0 and civil_from_days(0) == (1970, 1, 1)
    assert days_from_civil(0, 1, 1) == -719528 and civil_from_days(-719528) == (0, 1, 1)
    for y in (1, 4, 100, 400, 1600, 1900, 1970, 2000, 2024, 2100, 9999):
        for m, d in ((1, 1), (2, 28), (3, 1), (12, 31)):
            t = calendar.timegm((y, m, d, 1, 2, 3))
            assert days_from_civil(y, m, d) * 86400 + 3723 == t
            assert civil(t) == (y, m, d, 1, 2, 3)
            assert civil_from_days(t // 86400) == (y, m, d)

# ---------------------------------------------------------------- generators

ARC_B = sorted({0, 1, 2, 39, 40, 41, 79, 80, 81, 127, 128, 129, 255, 256,
                (1 << 14) - 1, 1 << 14, (1 << 14) + 1, (1 << 21) - 1, 1 << 21, (1 << 21) + 1,
                (1 << 28) - 1, 1 << 28, (1 << 28) + 1, (1 << 31) - 1, 1 << 31,
                U32 - 81, U32 - 80, U32 - 79, U32 - 40, U32 - 39, U32 - 1, U32})

def gen_arc_vectors(ctx):
    vs = []
    # first pair: full product of interesting a0 with every boundary a1
    for a0 in (0, 1, 2, 3, 4, 39, 40, 128, U32):
        for a1 in ARC_B:
            vs.append([a0, a1]); vs.append([a0, a1, 5])
    # every position of every length takes every boundary value
    for L in range(2, 9):
        for i in range(L):
            for b in ARC_B:
                v = [2, 999] + [3] * (L - 2)
                v[i] = b
                vs.append(v)
                w = [1, 2] + [U32] * (L - 2)
                w[i] = b
                vs.append(w)
    # length-3/4 products over a smaller boundary set
    small = [0, 1, 127, 128, (1 << 14) - 1, 1 << 14, (1 << 21), (1 << 28) - 1, 1 << 28, U32]
    for a in small:
        for b in small:
            vs.append([0, 39, a, b]); vs.append([2, U32 - 80, a, b])
    vs += [[], [0], [1], [2], [3], [U32]]
    n = 1500 if ctx.quick else 60000
    for _ in range(n):
        L = ctx.rng.choice([2, 2, 3, 4, 5, 6, 7, 8, 8, 12, 20])
        a0 = ctx.rng.choice([0, 1, 2, 2, 2, ctx.rng.randrange(0, 5)])
        a1 = ctx.rng.randrange(0, 40) if a0 < 2 and ctx.rng.random() < 0.8 else rnd_arc(ctx)
        if a0 == 2 and ctx.rng.random() < 0.8: a1 = min(a1, U32 - 80)
        vs.append([a0, a1] + [rnd_arc(ctx) for _ in range(L - 2)])
    return vs

def rnd_arc(ctx):
    r = ctx.rng.random()
    if r < 0.3: return ctx.rng.choice(ARC_B)
    return ctx.rng.getrandbits(ctx.rng.choice([1, 6, 7, 8, 14, 15, 21, 22, 28, 29, 31, 32]))

def nonminimal(n, pad):
    return b"\x80" * pad + b128(n)

def gen_octets(ctx):
    out = [b""]
    out += [bytes([a]) for a in range(256)]
    alpha = [0x00, 0x01, 0x7f, 0x80, 0x81, 0xff]
    import itertools
    for k in (2, 3, 4):
        for t in itertools.product(alpha, repeat=k): out.append(bytes(t))
    big = [U32, U32 + 1, U32 + 2, (1 << 32) - 128, (1 << 32) + 127, (1 << 32) + 128, (1 << 32) + 10, (1 << 33), (1 << 35) - 1, 1 << 35, (1 << 35) + 7,
           (1 << 39) + 1, (1 << 42) - 1, (1 << 63), (1 << 64) + 3, (1 << 70) + 5]
    for v in ARC_B + big:
        for pad in (0, 1, 2, 3):
            e = nonminimal(v, pad)
            out.append(e); out.append(b"\x2a" + e); out.append(e + b"\x05"); out.append(b"\x81\x00" + e + e)
            out.append(e[:-1])                                  # truncated
            out.append(e[:-1] + bytes([e[-1] | 0x80]))            # never terminated
    n = 1500 if ctx.quick else 60000
    for _ in range(n):
        parts = []
        for _ in range(ctx.rng.randrange(1, 6)):
            r = ctx.rng.random()
            if r < 0.5: parts.append(b128(rnd_arc(ctx)))
            elif r < 0.7: parts.append(nonminimal(rnd_arc(ctx), ctx.rng.randrange(1, 4)))
            elif r < 0.85: parts.append(b128(ctx.rng.getrandbits(ctx.rng.choice([33, 35, 36, 40, 64]))))
            else: parts.append(bytes(ctx.rng.getrandbits(8) for _ in range(ctx.rng.randrange(1, 5))))
        out.append(b"".join(parts))
    return out

def gen_texts(ctx, vectors):
    ts = set()
    for v in vectors[::3]:
        if not v: continue
        s = ".".join(str(a) for a in v)
        ts.add(s)
    base = ["1.2.840.113549", "0.0", "2.999", "1", "4294967295", "4294967296", "4294967295.4294967295",
            "1.4294967296", "18446744073709551615", "18446744073709551616", "1.18446744073709551616",
            "99999999999999999999999999", "01.002.0003", "00", "1.00000000000000000000000000005"]
    deco = ["", " ", "\t", "\n", "\r", "  \t\r\n"]
    for s in base:
        for a in deco:
            for b in deco: ts.add(a + s + b)
    bad = ["", " ", "\t\n", ".", "..", ".1", "1.", "1..2", "1. 2", "1 .2", "1 2", "1.2 .3", "1.2. 3", " .1", "1.2.", "1.2..",
           "+1", "-1", "1.+2", "1.-2", "1.2x", "x", "1x", "1.x", "1,2", "1.2\x00", "\x001.2", "1.2\x0b", "1.2\x0c3", "1.2 3",
           "1.2 x", "1. ", "1.\t2", "{1 2}", "1.2\xa0"]
    ts.update(bad)
    n = 1500 if ctx.quick else 50000
    chars = "0123456789" * 3 + "...  \t\n\r" + "x+-,\x00"
    for _ in range(n):
        if ctx.rng.random() < 0.5:
            L = ctx.rng.randrange(1, 14)
            s = ".".join(str(rnd_arc(ctx) if ctx.rng.random() < 0.9 else ctx.rng.getrandbits(ctx.rng.choice([33, 64, 65, 80])))
                         for _ in range(L))
            if ctx.rng.random() < 0.3: s = ctx.rng.choice(deco) + s + ctx.rng.choice(deco)
            if ctx.rng.random() < 0.15:
                i = ctx.rng.randrange(0, len(s) + 1)
                s = s[:i] + ctx.rng.choice(chars) + s[i:]
        else:
            s = "".join(ctx.rng.choice(chars) for _ in range(ctx.rng.randrange(0, 12)))
        ts.add(s)
    return sorted(ts)

TZS_ALL = ["UTC", "Asia/Kolkata", "Australia/Lord_Howe", "America/St_Johns", "Europe/London", "Pacific/Kiritimati"]
TZS_POSIX = ["UTC0", "IST-5:30", "LHST-10:30LHDT-11,M10.1.0,M4.1.0", "NST3:30NDT,M3.2.0,M11.1.0",
             "GMT0BST,M3.5.0/1,M10.5.0", "<+14>-14"]
# fixed-offset zones (POSIX strings, no zoneinfo needed): the local-time forms are compared here
TZS_FIXED = [("UTC0", 0), ("<+0530>-5:30", 19800), ("<-0330>3:30", -12600), ("<+14>-14", 50400)]

def gen_times(ctx, dense):
    ts = set()
    step = 1 if dense else 1
    for y in range(0, 10000, step):
        t = t_year_start(y)
        ts.update((t - 1, t, t + 1) if (dense or y % 5 == 0) else (t - 1, t))
    ts.update((t_year_start(10000), t_year_start(10000) - 1, t_year_start(0) - 1, t_year_start(-1), t_year_start(-999) - 1,
               t_year_start(-1000), t_year_start(10001), t_year_start(20000)))
    # leap days and month ends
    ly = [0, 4, 96, 100, 400, 1600, 1700, 1896, 1900, 1904, 1968, 1972, 1996, 2000, 2004, 2023, 2024, 2096, 2100, 2400, 9996]
    if not ctx.quick: ly = sorted(set(ly) | set(range(1888, 2112)))
    for y in ly:
        for m in range(1, 13):
            t = days_from_civil(y, m, 1) * 86400
            ts.update((t - 1, t, t + 1, t - 86400, t - 86401, t + 86399))
        for (m, d) in ((2, 28), (2, 29), (3, 1)):
            t = days_from_civil(y, m, d) * 86400
            ts.update((t - 1, t, t + 1, t + 43200))
    # UTCTime window edges, time_t = -1, 32-bit edges
    for y in (1950, 1959, 1960, 1969, 1970, 1999, 2000, 2049, 2050, 2059, 2060):
        t = t_year_start(y); ts.update((t - 1, t, t + 1))
    ts.update((-2, -1, 0, 1, 59, 60, 61, 3599, 3600, 86399, 86400, (1 << 31) - 1, 1 << 31, -(1 << 31), -(1 << 31) - 1, (1 << 32)))
    n = 1500 if ctx.quick else 80000
    lo, hi = t_year_start(0), t_year_start(10000)
    for _ in range(n):
        r = ctx.rng.random()
        if r < 0.5: ts.add(ctx.rng.randrange(lo, hi))
        elif r < 0.8: ts.add(ctx.rng.randrange(t_year_start(1900), t_year_start(2100)))
        else: ts.add(ctx.rng.randrange(-(1 << 31), 1 << 32))
    return sorted(ts)

def gen_fracs(ctx, n):
    fr = [(0, 0), (0, 3), (5, 0), (1, 1), (9, 1), (5, 3), (500, 3), (123, 3), (123, 2), (1000, 3), (999999999, 9), (1, 9),
          (100000000, 9), (123456789, 9), (1234567890, 10), (1234567890, 12), (2147483647, 10), (2147483647, 9), (2147483647, 30),
          (7, 10), (7, 11), (-5, 3), (5, -3), (120, 3), (1200, 4), (10, 1), (1, 12)]
    for _ in range(n):
        fd = ctx.rng.randrange(0, 10)
        r = ctx.rng.random()
        if fd == 0: fv = ctx.rng.randrange(0, 10)
        elif r < 0.6: fv = ctx.rng.randrange(0, 10 ** fd)
        elif r < 0.8: fv = ctx.rng.randrange(1, 10) * 10 ** ctx.rng.randrange(0, fd)
        else: fv = ctx.rng.randrange(0, 1 << 31)
        fr.append((fv, fd))
    return fr

def gen_gt_texts(ctx):
    """foreign GeneralizedTime texts (zone given explicitly, so independent of TZ)"""
    out = set()
    base = "20240229123456"
    zones = ["Z", "+0000", "-0000", "+0530", "-0330", "+1400", "-1200", "+05", "-03", "+9959", "-9999", "+0", "+053", "+05301",
             "Zjunk", "Z ", "z", "+", "-", "+05:30", "+5a", "+053a", "", " "]
    for z in zones:
        for core_ in (base, base[:12], base[:10], base + ".5", base + ",25", base + ".", base + ".123456789", base + ".1234567890123",
                      base + ".000", base + ".2147483647", base + ".214748364", base + ".2147483640", base[:12] + ".5", base[:10] + ".5",
                      base[:13], base[:11]):
            out.add(core_ + z)
    for s in ("19691231235959Z", "19700101000000Z", "196912312359590Z", "19691231235958Z", "19700101005959+0100", "19691231225959-0100",
              "19691231235959.5Z", "00000101000000Z", "00000101000000+0001", "99991231235959Z", "99991231235960Z", "99991231235959-2359",
              "20240230000000Z", "20230229000000Z", "20240431000000Z", "20240400000000Z", "20240001000000Z", "20241301000000Z",
              "20240132000000Z", "20240101240000Z", "20240101236000Z", "20240101239900Z", "20240101235960Z", "20240101235961Z",
              "20240101235999Z", "2024010123", "202401012", "20240101", "", "2", "2024010123Z", "202401012300Z", "2024010123+01",
              "2024-01-01T00:00:00Z", "20240101 00000Z", "２０２４", "20240101000000z", "20240101000000.Z", "20240101000000..5Z",
              "20240101000000.5.5Z", "20240101000000,5Z", "20240101000000.5", "20240101000000.5+01", "x0240101000000Z", "2024010100000xZ"):
        out.add(s)
    n = 800 if ctx.quick else 30000
    for _ in range(n):
        y = ctx.rng.choice([ctx.rng.randrange(0, 10000), ctx.rng.randrange(1950, 2070)])
        s = "%04d%02d%02d%02d" % (y, ctx.rng.randrange(0, 14), ctx.rng.randrange(0, 33), ctx.rng.randrange(0, 25))
        r = ctx.rng.random()
        if r > 0.1: s += "%02d" % ctx.rng.randrange(0, 100)
        if r > 0.2: s += "%02d" % ctx.rng.randrange(0, 62)
        if r > 0.6: s += ctx.rng.choice(".,") + "".join(ctx.rng.choice("0123456789") for _ in range(ctx.rng.randrange(0, 13)))
        s += ctx.rng.choice(["Z", "Z", "+%02d%02d" % (ctx.rng.randrange(0, 24), ctx.rng.randrange(0, 60)),
                             "-%02d%02d" % (ctx.rng.randrange(0, 15), ctx.rng.choice([0, 30, 45])), "+%02d" % ctx.rng.randrange(0, 15)])
        if ctx.rng.random() < 0.1:
            i = ctx.rng.randrange(0, len(s)); s = s[:i] + ctx.rng.choice("x .Z+-:") + s[i + 1:]
        out.add(s)
    return sorted(out)

GT_RE = re.compile(r"(\d{4})(\d\d)(\d\d)(\d\d)(?:(\d\d)(?:(\d\d)(?:[.,](\d*))?)?)?(Z|[+-]\d\d(?:\d\d)?)\Z")

def gt_oracle(text):
    """X.680 GeneralizedTime restricted to whole seconds + optional fraction of a second, explicit zone,
    calendar-valid fields: returns (t, fraction as a string of digits) or None when the text is not of that form
    (the oracle then makes no claim)."""
    m = GT_RE.match(text)
    if not m: return None
    Y, M, D, h = (int(m.group(i)) for i in range(1, 5))
    mi = int(m.group(5) or 0); s = int(m.group(6) or 0)
    if not (1 <= M <= 12 and 1 <= D <= 31 and h <= 23 and mi <= 59 and s <= 59): return None
    mdays = [31, 29 if (Y % 4 == 0 and (Y % 100 != 0 or Y % 400 == 0)) else 28, 31, 30, 31, 30, 31, 31, 30, 31, 30, 31]
    if D > mdays[M - 1]: return None
    z = m.group(8)
    off = 0
    if z != "Z":
        oh = int(z[1:3]); om = int(z[3:5] or 0)
        if oh > 23 or om > 59: return None
        off = (1 if z[0] == "+" else -1) * (oh * 3600 + om * 60)
    t = days_from_civil(Y, M, D) * 86400 + h * 3600 + mi * 60 + s - off
    return t, (m.group(7) or "")

# ---------------------------------------------------------------- the check

def drivers():
    lib = build.build_skel("asan")
    return build.build_prog("oidtime_driver", ["oidtime_driver.c", "ops_oid.c", "ops_time.c"], libs=[lib])

def tz_list():
    if all(os.path.exists("/usr/share/zoneinfo/" + z) for z in TZS_ALL[1:]):
        return TZS_ALL
    return TZS_POSIX

def run(ctx):
    selftest()
    drv = drivers()
    ctx.lean()
    ctx.cov["rule"] = ("boundary-exhaustive + random operations on the real OID / time helper functions, time ops under "
                       "several TZ settings; distinct = distinct (operation, C output) pairs; every case reaches the function body")
    pfail = []          # (line, c_out, why, finding-id-or-None)
    run_oid(ctx, drv, pfail)
    run_time(ctx, drv, pfail)
    unexplained = []
    for l, c, why, fid in pfail:
        f = ctx.match_finding(lambda f, fid=fid: fid is not None and f["id"] == fid) if fid else None
        if not f: unexplained.append((l, c, why))
    for l, c, why in unexplained[:5]:
        ctx.violation(f"C17 predicate fails on C: {l} -> {c}: {why}",
                      {"op": l, "c_output": c, "why": why, "driver": "oidtime_driver"})
    ctx.cov["predicate"]["unexplained_failures"] = len(unexplained)

def note_dis(ctx, name, dis):
    tz = name[name.index("[") + 1:-1] if "[" in name else None
    for i, l, c, m in dis[:30]:
        ctx.broken.append({"kind": "correspondence", "name": name, "op": l + (" TZ=" + tz if tz else ""), "c": c, "model": m})
    if dis:
        ctx.log(f"{name} correspondence: {len(dis)} disagreements, first: {dis[0][1:]}")

def run_oid(ctx, drv, pfail):
    vectors = gen_arc_vectors(ctx)
    lines = []
    for v in vectors:
        lines.append("oid_set " + " ".join(map(str, v)))
    for v in vectors[::4]:
        lines.append("roid_set " + " ".join(map(str, v)))
    for a in ARC_B:
        for bl in (0, 1, 2, 3, 4, 5, 6): lines.append(f"oid_set1 {a} {bl}")
    octs = gen_octets(ctx)
    for b in octs:
        lines.append(f"oid_get1 {hx(b)}")
        lines.append(f"oid_get {hx(b)} {ctx.rng.choice([0, 1, 2, 3, 8, 16])}")
        lines.append(f"roid_get {hx(b)} {ctx.rng.choice([0, 1, 2, 16])}")
    texts = gen_texts(ctx, vectors)
    for s in texts:
        lines.append(f"oid_parse {hx(s.encode('latin1'))} {ctx.rng.choice([0, 1, 2, 10, 10, 16, 32])}")
    dis, couts, mouts = ctx.correspond("oid", drv, lines)
    note_dis(ctx, "oid", dis)
    ctx.cov["distribution"]["oid_ops"] = len(lines)

    # ---- P leg
    second, second_src = [], []
    nP = 0
    for l, c in zip(lines, couts):
        t = l.split(); op = t[0]
        if c is None or c.startswith("CRASH"):
            pfail.append((l, c, "crash", None)); continue
        if op == "oid_set":
            nP += 1
            arcs = [int(x) for x in t[1:]]
            if oid_valid(arcs):
                exp = "ok " + hx(oid_octets(arcs))
                if c != exp: pfail.append((l, c, f"X.690 8.19 octets expected: {exp}", None)); continue
                second.append(f"oid_get {c[3:]} {len(arcs)}"); second_src.append((l, arcs))
                if len(arcs) > 2:
                    second.append(f"oid_get {c[3:]} {len(arcs) - 1}"); second_src.append((l, arcs))
            else:
                if c.startswith("ok"): pfail.append((l, c, "arc vector without a valid first pair must be rejected", None))
        elif op == "roid_set":
            nP += 1
            arcs = [int(x) for x in t[1:]]
            exp = "ok " + hx(b"".join(b128(a) for a in arcs))
            if c != exp: pfail.append((l, c, f"expected {exp}", None)); continue
            second.append(f"roid_get {c[3:]} {len(arcs)}"); second_src.append((l, arcs))
        elif op == "oid_set1":
            nP += 1
            e = b128(int(t[1]))
            exp = "ok " + hx(e) if len(e) <= int(t[2]) else "fail"
            if c != exp: pfail.append((l, c, f"expected {exp}", None))
        elif op in ("oid_get1", "oid_get", "roid_get"):
            nP += 1
            bs = unhx(t[1]); vals = subids(bs)
            if op == "oid_get1":
                # first complete sub-identifier
                first, n = None, 0
                cur = 0
                for i, b in enumerate(bs):
                    cur = (cur << 7) | (b & 0x7f)
                    if not b & 0x80: first, n = cur, i + 1; break
                if not bs: exp = "none"
                elif first is None: exp = "!ok"         # the buffer ends inside a sub-identifier: EINVAL (or ERANGE)
                elif first <= U32: exp = f"ok {first} {n}"
                else: exp = "erange"                    # a complete sub-identifier that does not fit asn_oid_arc_t
                if exp == "!ok":
                    if c not in ("einval", "erange"):
                        pfail.append((l, c, "no complete sub-identifier, yet no EINVAL/ERANGE", None))
                elif c != exp: pfail.append((l, c, f"expected {exp}", None))
            else:
                slots = int(t[2])
                if vals is None or (op == "oid_get" and not vals):
                    if c.startswith("ok"): pfail.append((l, c, "malformed OID contents accepted", None))
                elif any(v > U32 for v in vals):
                    if c != "erange": pfail.append((l, c, "a sub-identifier >= 2^32 must be answered with ERANGE", None))
                else:
                    if op == "oid_get":
                        v0 = vals[0]
                        arcs = ([2, v0 - 80] if v0 >= 80 else [1, v0 - 40] if v0 >= 40 else [0, v0]) + vals[1:]
                    else: arcs = vals
                    exp = f"ok {len(arcs)}" + "".join(f" {a}" for a in arcs[:slots])
                    if c != exp: pfail.append((l, c, f"expected {exp}", None))
        elif op == "oid_parse":
            nP += 1
            txt = unhx(t[1]); slots = int(t[2])
            m = OID_TEXT.match(txt)
            if m and all(int(x) <= U32 for x in m.group(1).split(b".")):
                arcs = [int(x) for x in m.group(1).split(b".")]
                exp = f"ok {len(arcs)} {len(txt)}" + "".join(f" {a}" for a in arcs[:slots])
                if c != exp: pfail.append((l, c, f"dotted text must parse: {exp}", None))
            elif re.fullmatch(rb"[\t\n\r ]*", txt):
                if c != f"ok 0 {len(txt)}": pfail.append((l, c, "blank text: 0 arcs expected", None))
            else:
                if c.startswith("ok"): pfail.append((l, c, "text is not a dotted arc list (or an arc >= 2^32), yet accepted", None))
    if second:
        c2, _ = ctx.run_c_bisect(drv, second)
        rc, m2, _ = ctx.run_lines(build.model_exe(), second)
        ctx.cov["evaluations"] += len(second)
        nd = 0
        for (l, arcs), l2, c, m in zip(second_src, second, c2, m2):
            slots = int(l2.split()[2])
            exp = f"ok {len(arcs)}" + "".join(f" {a}" for a in arcs[:slots])
            if c != exp: pfail.append((l + " ; " + l2, c, f"round trip must return {exp}", None))
            if c != m:
                nd += 1
                if nd <= 10: ctx.broken.append({"kind": "correspondence", "name": "oid-roundtrip", "op": l2, "c": c, "model": m})
        st = ctx.cov["correspondence"].setdefault("oid-roundtrip", {"lines": 0, "disagreements": 0, "c_crashes": 0})
        st["lines"] += len(second); st["disagreements"] += nd
    ctx.cov["predicate"]["oid"] = {"cases": nP + len(second), "failures": sum(1 for p in pfail)}

def query_offsets(ctx, drv, tz, times):
    outs, _ = ctx.run_c_bisect(drv, [f"tzoff {t}" for t in times], env={"TZ": tz})
    res = {}
    for t, o in zip(times, outs):
        try: res[t] = int(o)
        except (TypeError, ValueError): pass
    return res

def run_time(ctx, drv, pfail):
    tzs = tz_list()
    ctx.cov["distribution"]["tz"] = tzs + [z for z, _ in TZS_FIXED]
    times = gen_times(ctx, dense=not ctx.quick)
    fracs = gen_fracs(ctx, 300 if ctx.quick else 5000)
    gtexts = gen_gt_texts(ctx)
    nP0 = len(pfail); nP = 0
    gm_text = {}        # (t, fv, fd) -> set of C texts across TZ (force_gmt = 1 must not depend on TZ)
    ut_text = {}
    for zi, tz in enumerate(tzs):
        # quick tier: every time under UTC and one rotating zone, every 4th under the others
        if ctx.quick and zi != 0 and zi != 1 + ctx.seed % (len(tzs) - 1):
            tsel = times[zi::4]
        else:
            tsel = times
        # an hourly scan of two years finds the zone's DST transitions
        scan = []
        for y in (2000, 2024):
            t0 = t_year_start(y)
            scan += list(range(t0, t0 + 366 * 86400, 3600 if not ctx.quick else 3 * 3600))
        offs = query_offsets(ctx, drv, tz, sorted(set(tsel) | set(scan)))
        trans = [scan[i] for i in range(1, len(scan)) if scan[i] in offs and scan[i - 1] in offs and offs[scan[i]] != offs[scan[i - 1]]]
        extra = set()
        for t in trans: extra.update((t - 10800, t - 3600, t - 1, t, t + 1, t + 1800, t + 3600))
        offs.update(query_offsets(ctx, drv, tz, sorted(extra - set(offs))))
        tlist = sorted(set(tsel) | extra)
        ctx.cov["distribution"].setdefault("tz_offsets_seen", {})[tz] = len({offs[t] for t in tlist if t in offs})
        lines = []
        for i, t in enumerate(tlist):
            if t not in offs: continue
            o = offs[t]
            lines.append(f"t2GT {t} {o} 0 0 1")
            lines.append(f"t2UT {t} {o} 1")
            fv, fd = fracs[(i * 7 + zi) % len(fracs)]
            lines.append(f"t2GT {t} {o} {fv} {fd} 1")
            if i % 3 == 0:
                lines.append(f"t2GT {t} {o} {fv} {fd} 0")
                lines.append(f"t2UT {t} {o} 0")
        if zi == 0:
            for fv, fd in fracs:
                for t in (0, 1700000000, -1, t_year_start(9999)):
                    lines.append(f"t2GT {t} {offs.get(t, 0)} {fv} {fd} 1")
        # texts made of digits / fraction marks only may end in the local-time branch (mktime): those are
        # compared under the fixed-offset zones below, where the model knows the zone offset
        zoned = [s for s in gtexts if not re.fullmatch(r"[0-9.,]*", s)]
        for s in zoned[zi::len(tzs)] if ctx.quick else zoned:
            h = hx(s.encode("utf8"))
            lines.append(f"GT2t {h} 1 0")
            if len(s) >= 2: lines.append(f"UT2t {hx(s[2:].encode('utf8'))} 1 0")
            lines.append(f"GT2t_prec {h} {ctx.rng.choice([0, 1, 2, 3, 6, 9, 12, 15, -1])} 0")
        dis, couts, mouts = ctx.correspond("time[" + tz + "]", drv, lines, env={"TZ": tz})
        note_dis(ctx, "time[" + tz + "]", dis)

        # ---- P leg on this zone's outputs
        second, second_src = [], []
        for l, c in zip(lines, couts):
            t_ = l.split(); op = t_[0]
            if c is None or c.startswith("CRASH"):
                pfail.append((l + " TZ=" + tz, c, "crash", None)); continue
            if op == "t2GT":
                nP += 1
                t, o, fv, fd, force = (int(x) for x in t_[1:])
                base = gt_text(t)
                if force == 1:
                    gm_text.setdefault((t, fv, fd), set()).add(c)
                    if base is None:
                        continue        # outside 0000..9999: no canonical text exists; K only
                    if 0 < fv < 10 ** fd or fv <= 0 or fd <= 0:
                        exp = "ok " + hx((base + frac_text(fv, fd) + "Z").encode())
                        if c != exp:
                            pfail.append((l + " TZ=" + tz, c, f"canonical GeneralizedTime expected: {base + frac_text(fv, fd)}Z", None)); continue
                    if c.startswith("ok "):
                        second.append(f"GT2t {c[3:]} 1 0"); second_src.append((l + " TZ=" + tz, t, fv, fd, "GT"))
                else:
                    if base is None or gt_text(t + o) is None: continue
                    if o % 60 == 0 and not (-3600 < o < 0) and c.startswith("ok "):
                        sgn = "+" if o >= 0 else "-"
                        exp_local = gt_text(t + o) + (frac_text(fv, fd) if (0 < fv < 10 ** fd) else "") + "%s%02d%02d" % (sgn, abs(o) // 3600, abs(o) % 3600 // 60)
                        if 0 < fv < 10 ** fd or fv <= 0 or fd <= 0:
                            if unhx(c[3:]).decode() != exp_local:
                                pfail.append((l + " TZ=" + tz, c, f"local form expected: {exp_local}", None)); continue
                        second.append(f"GT2t {c[3:]} 1 0"); second_src.append((l + " TZ=" + tz, t, fv, fd, "GT"))
            elif op == "t2UT":
                nP += 1
                t, o, force = (int(x) for x in t_[1:])
                base = gt_text(t)
                if force == 1:
                    ut_text.setdefault(t, set()).add(c)
                    if base is None: continue
                    exp = "ok " + hx((base[2:] + "Z").encode())
                    if c != exp: pfail.append((l + " TZ=" + tz, c, f"canonical UTCTime expected: {base[2:]}Z", None)); continue
                    second.append(f"UT2t {c[3:]} 1 0"); second_src.append((l + " TZ=" + tz, t, 0, 0, "UT"))
            elif op in ("GT2t", "UT2t"):
                nP += 1
                s = unhx(t_[1]).decode("utf8", "replace")
                full = s if op == "GT2t" else (("19" if s[:1] > "5" else "20") + s)
                if op == "UT2t" and not (11 <= len(unhx(t_[1])) <= 21): continue
                orc = gt_oracle(full)
                if orc is None: continue
                t, fr = orc
                if not c.startswith("ok "):
                    pfail.append((l + " TZ=" + tz, c, f"valid time text must convert (to {t})", None)); continue
                got = int(c.split()[1])
                if got != t: pfail.append((l + " TZ=" + tz, c, f"expected time {t}", None)); continue
                if op == "GT2t":
                    gfv, gfd = int(c.split()[2]), int(c.split()[3])
                    # the reported fraction must equal the text's fraction (up to the int precision the API has)
                    if len(fr) <= 9 and (gfd != len(fr) or gfv != int(fr or 0)):
                        pfail.append((l + " TZ=" + tz, c, f"fraction .{fr} expected as ({int(fr or 0)}, {len(fr)})", None)); continue
                    tmf = [int(x) for x in c.split("|")[1].split()]
                    if tuple(tmf[:6]) != civil(t) or tmf[6] != 0:
                        pfail.append((l + " TZ=" + tz, c, f"as_gmt struct tm must be {civil(t)}", None))
        if second:
            c2, _ = ctx.run_c_bisect(drv, second, env={"TZ": tz})
            rc, m2, _ = ctx.run_lines(build.model_exe(), second)
            ctx.cov["evaluations"] += len(second)
            nd = 0
            for (l, t, fv, fd, kind), l2, c, m in zip(second_src, second, c2, m2):
                nP += 1
                if c != m:
                    nd += 1
                    if nd <= 10: ctx.broken.append({"kind": "correspondence", "name": "time-roundtrip", "op": l2 + " TZ=" + tz, "c": c, "model": m})
                y = civil(t)[0]
                if kind == "UT" and not (1960 <= y <= 2059):
                    # outside the two-digit-year window the value must come back shifted by whole centuries into 1960..2059
                    c_ = civil(t); yy = c_[0] % 100; y2 = 1900 + yy if yy >= 60 else 2000 + yy
                    if (c_[1], c_[2]) == (2, 29) and not (y2 % 4 == 0 and (y2 % 100 != 0 or y2 % 400 == 0)):
                        continue       # Feb 29 of a year whose image in the window is not a leap year
                    t2 = days_from_civil(y2, c_[1], c_[2]) * 86400 + c_[3] * 3600 + c_[4] * 60 + c_[5]
                    if not (c or "").startswith(f"ok {t2} "): pfail.append((l + " ; " + l2, c, f"window image {t2} expected", None))
                    continue
                if c is None or not c.startswith(f"ok {t} "):
                    pfail.append((l + " ; " + l2, c, f"round trip must return {t}", None)); continue
                if kind == "GT" and (0 < fv < 10 ** fd):
                    gfv, gfd = int(c.split()[2]), int(c.split()[3])
                    efd = min(fd, 9); efv = fv // 10 ** (fd - efd)
                    # value equality of the fractions:  gfv / 10^gfd == efv / 10^efd
                    if gfv * 10 ** efd != efv * 10 ** gfd:
                        pfail.append((l + " ; " + l2, c, f"fraction must come back as {efv}/10^{efd}", None))
            st = ctx.cov["correspondence"].setdefault("time-roundtrip", {"lines": 0, "disagreements": 0, "c_crashes": 0})
            st["lines"] += len(second); st["disagreements"] += nd

    # force_gmt = 1 must not depend on TZ
    for key, s in list(gm_text.items()) + list(ut_text.items()):
        nP += 1
        if len(s) > 1:
            pfail.append((f"t2GT/t2UT {key} force_gmt=1 under {tzs}", sorted(s), "forced-GMT text depends on TZ", None))

    # local-time forms (no zone in the text, as_gmt = 0): fixed-offset zones, the model gets the offset
    for tz, off in TZS_FIXED:
        lines = []
        loc = ["2024022912", "202402291234", "20240229123456", "20240229123456.789", "19700101000000", "19691231235959", "19700101053000",
               "19691231203000", "19700101135959", "19700101140000", "00000101000000", "99991231235959", "20240229123456,5", "2024022912345"]
        for s in loc:
            for g in (0, 1):
                lines.append(f"GT2t {hx(s.encode())} {g} {off}")
            lines.append(f"UT2t {hx(s[2:].encode())} 0 {off}")
            lines.append(f"UT2t {hx(s[2:].encode())} 1 {off}")
        for s in gtexts[::5 if ctx.quick else 1]:
            lines.append(f"GT2t {hx(s.encode('utf8'))} 0 {off}")
        n = 300 if ctx.quick else 10000
        for _ in range(n):
            t = ctx.rng.randrange(t_year_start(1), t_year_start(9999))
            s = gt_text(t)
            cut = ctx.rng.choice([10, 12, 14, 14, 14])
            s = s[:cut] + (ctx.rng.choice(["", ".5", ",123"]) if cut == 14 else "")
            lines.append(f"GT2t {hx(s.encode())} {ctx.rng.choice([0, 1])} {off}")
        dis, couts, mouts = ctx.correspond("time-local[" + tz + "]", drv, lines, env={"TZ": tz})
        note_dis(ctx, "time-local[" + tz + "]", dis)
        for l, c in zip(lines, couts):
            t_ = l.split()
            if c is None or c.startswith("CRASH"): pfail.append((l + " TZ=" + tz, c, "crash", None)); continue
            if t_[0] != "GT2t": continue
            s = unhx(t_[1]).decode("utf8", "replace")
            orc = gt_oracle(s + "Z")            # local text read as if UTC, then shifted by the zone offset
            if orc is None or not re.fullmatch(r"[0-9.,]*", s): continue
            nP += 1
            t = orc[0] - off
            if not c.startswith(f"ok {t} "):
                pfail.append((l + " TZ=" + tz, c, f"local time text in zone {off:+d}s must give {t}", None))
    ctx.cov["distribution"]["time_points"] = len(times)
    ctx.cov["predicate"]["time"] = {"cases": nP, "failures": len(pfail) - nP0}

def replay(ctx, path):
    r = json.load(open(path))
    drv = drivers()
    ctx.lean()
    ops = [r["op"]] if "op" in r else [b["op"] for b in r.get("broken", []) if "op" in b]
    for o in ops:
        parts, tz = [], None
        for part in o.split(" ; "):
            if " TZ=" in part: part, tz = part.rsplit(" TZ=", 1)
            parts.append(part)
        tz = tz or r.get("tz")
        for part in parts:
            c, _ = ctx.run_c_bisect(drv, [part], env={"TZ": tz} if tz else None)
            rc, m, _ = ctx.run_lines(build.model_exe(), [part])
            print("replay:", part, "| TZ:", tz, "| C:", c[0], "| model:", m[0])
