"""C09 — PER/OER-visible constraints are the set-theoretic effective constraint.

L: Lean theorems of lean/props/C09.json (Impl.CRange / Impl.CTables vs Spec.Constraint).
K: the real `asn1c` (built from the working tree) run as `-E -F -print-constraints` and `-P -R` on
   generated modules with many `T<n> ::= INTEGER (<cons>)` / `S<n> ::= OCTET STRING (SIZE(<cons>))` …
   types; the printed ranges and the emitted asn_per_constraints_t / asn_oer_constraints_t
   initialisers are compared with the Lean driver ops `accepts`, `crange`, `pertable`, `oertable`
   evaluated on the asn1p_constraint_t tree the parser + pull-up build for the same text.
P: an independent python oracle (c09_gen.py: X.680 set semantics by membership over sample points,
   X.691 9.3/10.3 visibility, X.696 8.2, layouts of X.691 10.5/10.9 and X.696 10.2) decides the
   expected printed root, extensibility and tables; plus "same set => same tables" on groups of
   syntactically different types with equal visible root and extensibility.  Extension additions are
   expected in the "Practical constraints" line only (the range of the generated validity checker).
"""
import json, os, re, shutil, subprocess, tempfile
from concurrent.futures import ThreadPoolExecutor
from .. import build, core, bundle
from . import c09_gen as G

UNIVERSE = list(range(-2, 6))
BIG = [2**31 - 1, 2**31, 2**32 - 1, 2**32, 2**63 - 1, 2**63, 2**64 - 2,
       -2**31, -2**31 - 1, -2**63, -2**63 - 1, 255, 256, 65535, 65536, 127, 128, -128, -129, 32767, 32768, -32768, -32769]
BIG_EDGE = BIG + [2**64 - 1, 2**64]
SIZE_BIG = [255, 256, 65535, 65536, 65537, 16383, 16384, 2**31 - 1, 2**32]

TYPES = {   # ty token -> (ASN.1 text, kind)
    "INTEGER": ("INTEGER", "int"),
    "OCTET": ("OCTET STRING", "size"),
    "BITSTR": ("BIT STRING", "size"),
    "UTF8": ("UTF8String", "size"),
    "SEQOF": ("SEQUENCE", "size"),
    "SETOF": ("SET", "size"),
}

# ------------------------------------------------------------------------------ generators

def atoms(vals, lo_ok=True):
    """every single value and every range lo..hi (lo <= hi) over vals, with MIN/MAX edges"""
    out = [('v', v) for v in vals]
    for i, a in enumerate(vals):
        for b in vals[i:]:
            if a != b or True: out.append(('r', a, b))
    if lo_ok:
        out += [('r', 'MIN', b) for b in vals]
    out += [('r', a, 'MAX') for a in vals]
    if lo_ok: out.append(('r', 'MIN', 'MAX'))
    return out

def wrap_for(e, ctx):
    """parenthesise an operand where the grammar needs it"""
    k = e[0]
    if ctx == 'u' and k == 'u': return ('p', e)
    if ctx == 'i' and k in ('u', 'i'): return ('p', e)
    if ctx == 'x' and k in ('u', 'i', 'x'): return ('p', e)
    return e

def mk_u(ops, rng=None):
    out = []
    for o in ops:
        if o[0] == 'u' and rng is not None and rng.random() < 0.5: out.extend(o[1])     # a | b | c
        else: out.append(wrap_for(o, 'u'))
    return ('u', out)

def mk_i(ops, rng=None):
    out = []
    for o in ops:
        if o[0] == 'i' and rng is not None and rng.random() < 0.5: out.extend(o[1])
        else: out.append(wrap_for(o, 'i'))
    return ('i', out)

def mk_x(a, b): return ('x', wrap_for(a, 'x'), wrap_for(b, 'x'))

def rand_atom(rng, vals, lo_ok, big=None):
    pool = vals
    def pick():
        if big and rng.random() < 0.6:
            b = rng.choice(big) + rng.choice([-1, 0, 0, 1])
            if lo_ok or b >= 0: return b
        return rng.choice(pool)
    t = rng.random()
    if t < 0.25: return ('v', pick())
    a, b = pick(), pick()
    if a > b: a, b = b, a
    t = rng.random()
    if t < 0.12 and lo_ok: a = 'MIN'
    elif t < 0.27: b = 'MAX'
    elif t < 0.30 and lo_ok: a, b = 'MIN', 'MAX'
    return ('r', a, b)

def rand_e(rng, vals, depth, lo_ok=True, big=None, p_x=0.12):
    if depth == 0 or rng.random() < 0.25:
        return rand_atom(rng, vals, lo_ok, big)
    t = rng.random()
    w = 2 if rng.random() < 0.75 else 3
    if t < 0.45:
        return mk_u([rand_e(rng, vals, depth - 1, lo_ok, big, p_x) for _ in range(w)], rng)
    if t < 0.80:
        return mk_i([rand_e(rng, vals, depth - 1, lo_ok, big, p_x) for _ in range(w)], rng)
    if t < 0.80 + p_x:
        return mk_x(rand_e(rng, vals, depth - 1, lo_ok, big, p_x), rand_e(rng, vals, depth - 1, lo_ok, big, p_x))
    return ('p', rand_e(rng, vals, depth - 1, lo_ok, big, p_x))

def spec(e, ext=False, adds=None): return ('spec', e, ext, adds)

def vals_within(kind, levels, cur, default):
    """values of `default` that lie in the root set of the chain built so far (to keep most serial
    constraints legal: X.680 wants the values of a serially applied constraint inside the parent)"""
    flat = [s for lv in levels for s in lv] + list(cur)
    if not flat: return default
    ev = G.evaluate(kind, [flat])
    v = [x for x in default if x in ev.root.mem]
    return v if v else default

def sizeify(rng, s):
    """turn a spec over naturals into a spec of an OCTET STRING-like type: where does SIZE go?"""
    e, ext, adds = s[1], s[2], s[3]
    t = rng.random() if rng else 0.0
    if t < 0.6 or e[0] not in ('u', 'i', 'x'):
        if ext and t >= 0.3:      # (SIZE(e), ..., SIZE(adds))
            return spec(('size', spec(e)), True, None if adds is None else ('size', spec(adds)))
        return spec(('size', spec(e, ext, adds)))                  # (SIZE(e, ..., adds))
    # distribute over the top operator: SIZE(a) | SIZE(b)
    if e[0] == 'x':
        d = ('x', ('size', spec(e[1])), ('size', spec(e[2])))
    else:
        d = (e[0], [('size', spec(o)) for o in e[1]])
    return spec(d, ext, None if adds is None else ('size', spec(adds)))

class Case:
    __slots__ = ("name", "ty", "kind", "levels", "text", "ct", "cons", "ev", "tag", "c", "m")
    def __init__(self, ty, levels, tag):
        self.ty, self.levels, self.tag = ty, levels, tag
        self.kind = TYPES[ty][1]
        self.c = {}; self.m = {}

def gen_cases(ctx):
    rng = ctx.rng
    cases = []
    def add(ty, levels, tag):
        cases.append(Case(ty, levels, tag))
    A = atoms(UNIVERSE)
    AN = atoms([0, 1, 2, 3, 4, 5], lo_ok=True)
    quick = ctx.quick

    # 0. corpus: the known-finding witnesses and the shapes of the repository tests
    add("INTEGER", [[spec(('r', 1, 5), True, ('r', 7, 9))]], "corpus")
    add("OCTET", [[spec(('size', spec(mk_u([('r', 1, 4), ('v', 6)]), True, ('v', 10))))]], "corpus")
    add("INTEGER", [[spec(('r', 1, 5))], [spec(('r', 1, 5), True), spec(('r', 2, 3))]], "corpus")
    add("INTEGER", [[spec(mk_u([mk_i([('r', 1, 5), ('r', 7, 9)]), ('v', 12)]))]], "corpus")
    add("INTEGER", [[spec(('r', 0, 2**64))]], "corpus")
    add("INTEGER", [[spec(('r', 1, 10), True), spec(('r', 2, 5))]], "corpus")
    add("INTEGER", [[spec(('r', 1, 10)), spec(('r', 2, 5), True)]], "corpus")
    add("INTEGER", [[spec(('r', 'MIN', 5), True)]], "corpus")                                   # F94
    add("INTEGER", [[spec(('p', mk_u([('r', 2, 2**63 - 1), ('v', 2**63 + 1)])))]], "corpus")     # F95
    for ty in TYPES: add(ty, [[]], "corpus")

    # 1. every atom, alone / extensible
    for a in A:
        add("INTEGER", [[spec(a)]], "atom")
    for a in (A if not quick else rng.sample(A, 25)):
        add("INTEGER", [[spec(a, True)]], "atom-ext")
    for a in AN:
        add("OCTET", [[sizeify(None, spec(a))]], "atom")

    # 2. exhaustive depth 1 / width 2 over the universe: a|b, a^b, a EXCEPT b, (a)(b), (a, ..., b)
    pairs = [(a, b) for a in A for b in A]
    ops = [("u", lambda a, b: [[spec(mk_u([a, b]))]]),
           ("i", lambda a, b: [[spec(mk_i([a, b]))]]),
           ("x", lambda a, b: [[spec(mk_x(a, b))]]),
           ("serial", lambda a, b: [[spec(a), spec(b)]]),
           ("ref", lambda a, b: [[spec(a)], [spec(b)]]),
           ("adds", lambda a, b: [[spec(a, True, b)]])]
    n_pairs = 1000 if quick else len(pairs)
    def legal(a, b):
        ev = G.evaluate("int", [[spec(a), spec(b)]]); return not ev.illegal
    legal_pairs = None
    for tag, f in ops:
        sel = pairs if not quick else rng.sample(pairs, n_pairs)
        if quick and tag in ("serial", "ref"):
            if legal_pairs is None: legal_pairs = [pr for pr in pairs if legal(*pr)]
            sel = rng.sample(legal_pairs, min(len(legal_pairs), n_pairs - 40)) + rng.sample(pairs, 40)
        if not quick and tag == "ref": sel = rng.sample(pairs, len(pairs) // 3)
        if tag == "adds": sel = rng.sample(pairs, 120 if quick else 1500)
        for a, b in sel:
            add("INTEGER", f(a, b), "d1-" + tag)
    pairsN = [(a, b) for a in AN for b in AN]
    for tag, f in ops:
        for a, b in rng.sample(pairsN, (40 if quick else 300) if tag == "adds" else (200 if quick else len(pairsN))):
            lv = f(a, b)
            ty = rng.choice(["OCTET", "OCTET", "BITSTR", "UTF8"])
            add(ty, [[sizeify(rng, s) for s in l] for l in lv], "d1-size-" + tag)

    def mostly_sane(kind, mk):
        """redraw (most) trees that denote the empty set (X.680 forbids them; nothing to check there);
        trees with an empty operand, extension additions, several own markers … are kept"""
        for _ in range(6):
            lv = mk()
            ev = G.evaluate(kind, lv)
            if not ev.vis.empty() or rng.random() < 0.12: return lv
        return lv
    scale = 1 if quick else 25
    # 3. random deeper trees (depth 2-3, width 2-3), chains of specs and references
    n = 5200 * scale
    def mk_int():
        nlev = rng.choice([1, 1, 1, 2, 2, 3])
        levels = []
        for li in range(nlev):
            ns = rng.choice([1, 1, 1, 2]) if li == 0 else rng.choice([1, 1, 1, 2])
            lv = []
            for si in range(ns):
                vals = vals_within("int", levels, lv, UNIVERSE) if rng.random() < 0.85 else UNIVERSE
                e = rand_e(rng, vals, rng.choice([1, 2, 2, 3]))
                t = rng.random()
                if t < 0.12: lv.append(spec(e, True))
                elif t < 0.15: lv.append(spec(e, True, rand_e(rng, UNIVERSE, 1)))
                else: lv.append(spec(e))
            levels.append(lv)
        return levels
    for _ in range(n):
        add("INTEGER", mostly_sane("int", mk_int), "rand")
    n = 1800 * scale
    def mk_size(ty):
        nlev = rng.choice([1, 1, 2])
        levels = []
        for li in range(nlev):
            ns = 1 if (ty in ("SEQOF", "SETOF") and li == 0) else rng.choice([1, 1, 2])
            lv = []
            for si in range(ns):
                vals = vals_within("size", levels, lv, [0, 1, 2, 3, 4, 5, 6, 7]) if rng.random() < 0.85 else [0, 1, 2, 3, 4, 5, 6, 7]
                e = rand_e(rng, vals, rng.choice([0, 1, 2]), lo_ok=True)
                t = rng.random()
                s = spec(e, True) if t < 0.15 else spec(e, True, rand_e(rng, [0, 1, 2, 3, 4, 5, 6, 7], 0)) if t < 0.19 else spec(e)
                lv.append(sizeify(rng, s))
            levels.append(lv)
        return levels
    for _ in range(n):
        ty = rng.choice(["OCTET", "OCTET", "BITSTR", "SEQOF", "SETOF", "UTF8"])
        add(ty, mostly_sane("size", lambda: mk_size(ty)), "rand-size")

    # 4. 64-bit boundary values
    n = 2000 * scale
    def mk_big():
        nlev = rng.choice([1, 1, 2])
        levels = []
        for li in range(nlev):
            lv = []
            for si in range(rng.choice([1, 1, 2])):
                e = rand_e(rng, UNIVERSE, rng.choice([0, 0, 1, 2]), big=BIG)
                lv.append(spec(e, rng.random() < 0.1))
            levels.append(lv)
        return levels
    for _ in range(n):
        add("INTEGER", mostly_sane("int", mk_big), "big")
    for _ in range(600 * scale):
        e = rand_e(rng, [0, 1, 2, 3], rng.choice([0, 0, 1]), lo_ok=True, big=SIZE_BIG)
        add(rng.choice(["OCTET", "BITSTR", "SEQOF"]), [[sizeify(rng, spec(e, rng.random() < 0.1))]], "big-size")
    for v in BIG_EDGE:
        for d in (-1, 0, 1):
            add("INTEGER", [[spec(('r', 0, v + d))]] if v + d >= 0 else [[spec(('r', v + d, 0))]], "big-edge")
            add("INTEGER", [[spec(('r', -(v + d) - 1 if v + d >= 0 else v + d, abs(v + d)))]], "big-edge")
    for v in SIZE_BIG:
        for d in (-1, 0, 1):
            add("OCTET", [[sizeify(None, spec(('r', 0, v + d)))]], "big-edge")
            add("OCTET", [[sizeify(None, spec(('v', v + d)))]], "big-edge")
            add("OCTET", [[sizeify(None, spec(('r', 1, v + d)))]], "big-edge")
    return cases

# ------------------------------------------------------------------------------ asn1c side

def seqof_ok(c):
    """SEQUENCE/SET OF take exactly one constraint between the keyword and OF"""
    return len(c.levels[0]) <= 1

def type_text(c, name, li):
    base = TYPES[c.ty][0] if li == 0 else "%s%s" % (name, "abcdefgh"[li - 1])
    lv = c.levels[li]
    last = li == len(c.levels) - 1
    me = name if last else "%s%s" % (name, "abcdefgh"[li])
    if li == 0 and c.ty in ("SEQOF", "SETOF"):
        cons = (" " + G.render_level(lv)) if lv else ""
        return "%s ::= %s%s OF BOOLEAN" % (me, base, cons)
    return "%s ::= %s %s" % (me, base, G.render_level(lv))

def module_text(cases):
    out = ["C09M DEFINITIONS ::= BEGIN"]
    for c in cases:
        for li in range(len(c.levels)):
            out.append(type_text(c, c.name, li))
    out.append("END")
    return "\n".join(out) + "\n"

ENV = dict(os.environ, ASAN_OPTIONS="detect_leaks=0:abort_on_error=0")

def run_asn1c(asn1c, args, path):
    p = subprocess.run([asn1c] + args + [path], stdout=subprocess.PIPE, stderr=subprocess.PIPE, text=True,
                       env=ENV, timeout=900, errors="replace")
    return p.returncode, p.stdout, p.stderr

RE_HDR = re.compile(r"^([A-Za-z]\w*) ::= ")
RE_LINE = re.compile(r"^-- (Practical|OER-visible|PER-visible) constraints \(([^)]*)\): ?(.*)$")
RE_VAL = re.compile(r"^\((?!SIZE\(|FROM\()[^()]*\)(?::Empty!)?")
RE_SIZE = re.compile(r"\(SIZE\([^()]*\)\)(?::Empty!)?")
RE_REJ = re.compile(r'FATAL: This error happened for "(\w+)"')

def parse_print(out):
    """name -> {'prac': (value, size), 'oer': …, 'per': …}"""
    res = {}; cur = None
    key = {"Practical": "prac", "OER-visible": "oer", "PER-visible": "per"}
    for line in out.split("\n"):
        m = RE_HDR.match(line)
        if m:
            cur = m.group(1); res[cur] = {}; continue
        m = RE_LINE.match(line)
        if m and cur is not None:
            rest = m.group(3)
            v = RE_VAL.match(rest); s = RE_SIZE.search(rest)
            res[cur][key[m.group(1)]] = (v.group(0) if v else "-", s.group(0) if s else "-")
    return res

RE_CMT = re.compile(r"/\*.*?\*/", re.S)
RE_OER = re.compile(r"asn_OER_type_(\w+)_constr_(\d+) CC_NOTUSED = \{\s*\{\s*(\d+)\s*,\s*(\d+)\s*\}\s*,\s*(-?\d+)\s*\}")
RE_PER = re.compile(r"asn_PER_type_(\w+)_constr_(\d+) CC_NOTUSED = \{\s*\{([^{}]*)\}\s*,\s*\{([^{}]*)\}")

def norm_perc(t):
    f = [x.strip() for x in t.split(",")]
    if len(f) != 5: return "?" + t
    f[0] = f[0].replace(" ", "")
    f[3] = f[3].replace("(-2147483647L - 1)", "-2147483648")
    f[4] = f[4].replace("(-2147483647L - 1)", "-2147483648")
    return " ".join(f)

def parse_tables(out):
    out = RE_CMT.sub("", out)
    per, oer = {}, {}
    for m in RE_OER.finditer(out):
        oer.setdefault(m.group(1), "%s %s %s" % (m.group(3), m.group(4), m.group(5)))
    for m in RE_PER.finditer(out):
        per.setdefault(m.group(1), (norm_perc(m.group(3)), norm_perc(m.group(4))))
    return per, oer

def run_chunk(asn1c, tmp, idx, cases, stats):
    """Runs one module through asn1c; rejected types (semantic error) are removed and the module
    is re-run; a crashing module is bisected.  Fills c.c for every case."""
    def attempt(cs, depth=0):
        if not cs: return
        path = os.path.join(tmp, "m%d_%d_%d.asn1" % (idx, depth, id(cs) % 100000))
        with open(path, "w") as fh: fh.write(module_text(cs))
        rc, out, err = run_asn1c(asn1c, ["-E", "-F", "-print-constraints"], path)
        stats["asn1c_runs"] += 1
        if rc == 65 or (rc != 0 and RE_REJ.search(err)):
            bad = set(RE_REJ.findall(err))
            if "ASN.1 grammar parse error" in err or not bad:
                # should not happen: our renderer only writes grammatical text
                if len(cs) == 1:
                    cs[0].c = {"status": "parse-error", "stderr": err[-400:]}; os.unlink(path); return
                os.unlink(path); attempt(cs[:len(cs) // 2], depth + 1); attempt(cs[len(cs) // 2:], depth + 1); return
            keep = []
            for c in cs:
                names = {c.name} | {c.name + "abcdefgh"[i] for i in range(len(c.levels) - 1)}
                if c.name in bad: c.c = {"status": "eperm"}
                elif names & bad: c.c = {"status": "parent-rejected"}   # only an intermediate type of the chain is refused
                else: keep.append(c)
            os.unlink(path)
            attempt(keep, depth + 1); return
        if rc != 0:
            os.unlink(path)
            if len(cs) == 1:
                summ = "rc=%d" % rc
                for l in err.split("\n"):
                    if "Assertion" in l or "AddressSanitizer" in l or "runtime error" in l: summ = l.strip()[:200]; break
                cs[0].c = {"status": "crash", "what": summ}; return
            attempt(cs[:len(cs) // 2], depth + 1); attempt(cs[len(cs) // 2:], depth + 1); return
        pr = parse_print(out)
        rc2, out2, err2 = run_asn1c(asn1c, ["-P", "-R", "-S", os.path.join(build.REPO, "skeletons")], path)
        stats["asn1c_runs"] += 1
        os.unlink(path)
        if rc2 != 0:
            if len(cs) == 1:
                cs[0].c = {"status": "crash", "what": "-P rc=%d %s" % (rc2, err2[-200:])}; return
            attempt(cs[:len(cs) // 2], depth + 1); attempt(cs[len(cs) // 2:], depth + 1); return
        per, oer = parse_tables(out2)
        for c in cs:
            d = {"status": "ok"}
            p = pr.get(c.name, {})
            i = 0 if c.kind == "int" else 1
            for k in ("prac", "oer", "per"):
                d[k] = p.get(k, ("?", "?"))[i]
                d[k + "_other"] = p.get(k, ("?", "?"))[1 - i]
            pt = per.get(c.name); ot = oer.get(c.name)
            d["pertab_int"], d["pertab_size"] = pt if pt else ("none", "none")
            d["oertab"] = ot if ot else "none"
            c.c = d
    attempt(cases)

# ------------------------------------------------------------------------------ model side

def model_lines(c):
    ct = c.ct
    k = c.kind
    extra = [("toct", "toct " + c.cons)] if c.cons else []
    return extra + [("accepts", "accepts %s %s" % (c.ty, ct)),
            ("prac", "crange prac %s %s %s" % (k, c.ty, ct)),
            ("oer", "crange oer %s %s %s" % (k, c.ty, ct)),
            ("per", "crange per %s %s %s" % (k, c.ty, ct)),
            ("pertab_int", "pertable int %s %s" % (c.ty, ct)),
            ("pertab_size", "pertable size %s %s" % (c.ty, ct)),
            ("oertab", "oertable %s %s" % (c.ty, ct))]

def c_expected(c, key):
    """what the C side says for the model's line `key`"""
    st = c.c.get("status")
    if key == "toct":
        return c.ct          # python's parser/pull-up mimic, itself tied to asn1c by the other lines
    if st == "parent-rejected": return None
    if key == "accepts":
        return "ok" if st == "ok" else st if st == "eperm" else "abort" if st == "crash" else st
    if st != "ok": return None
    v = c.c.get(key)
    if v == "none" and c.ct == "null": return None     # no combined constraints: no table is emitted at all
    return v

# ------------------------------------------------------------------------------ P leg

def p_check(c):
    """property predicate on asn1c's own output; returns list of (what, expected, got)"""
    ev = c.ev
    d = c.c
    fails = []
    kind = c.kind
    if ev.vis.empty() or ev.oer_vis.empty(): return fails
    if c.ct == "null":       # no table emitted = the built-in default of the base type
        d = dict(d)
        d["pertab_int"], d["pertab_size"], d["oertab"] = tables_of(c)
    ext = ev.ext
    # 1. printed root (PER-visible / practical) = the visible root set, extensibility
    exp_vis = G.show_runs(ev.vis.runs(), kind, ext)
    utf8 = c.ty == "UTF8"
    if not utf8:
        if d["per"] != exp_vis: fails.append(("per-visible root", exp_vis, d["per"]))
    exp_prac = G.show_runs(ev.prac.runs(), kind, ext)      # = exp_vis unless there are extension additions
    if d["prac"] != exp_prac: fails.append(("practical root", exp_prac, d["prac"]))
    # 2. OER-visible
    exp_oer = G.show_runs(ev.oer_vis.runs(), kind, False)
    if not (utf8 and kind == "size"):
        if d["oer"] != exp_oer: fails.append(("oer-visible", exp_oer, d["oer"]))
    # 3. tables
    lb, ub = ev.vis.lb(), ev.vis.ub()
    lay = G.per_layout(kind, lb, ub, ext)
    got = d["pertab_" + kind].split()
    if utf8:
        lay = ("APC_UNCONSTRAINED", -1, -1, 0, 0)        # X.691 9.3.6: not a known-multiplier string
    exp = [lay[0], str(lay[1]), None if lay[2] is None else str(lay[2]), str(lay[3]), str(lay[4])]
    for i, (e, g) in enumerate(zip(exp, got)):
        if e is not None and e != g:
            fails.append(("per table " + kind, " ".join("*" if x is None else x for x in exp), d["pertab_" + kind])); break
    other = "size" if kind == "int" else "int"
    if d["pertab_" + other] != "APC_UNCONSTRAINED -1 -1 0 0":
        fails.append(("per table " + other, "APC_UNCONSTRAINED -1 -1 0 0", d["pertab_" + other]))
    olb, oub = ev.oer_vis.lb(), ev.oer_vis.ub()
    if kind == "int":
        w, p = G.oer_value_layout(olb, oub); sz = -1
    else:
        w, p = 0, 0
        sz = G.oer_size_layout(olb, oub)
        if utf8: sz = -1                                   # X.696 8.2.2: SIZE on non-KM strings not visible
    exp = "%d %d %d" % (w, p, sz)
    if d["oertab"] != exp: fails.append(("oer table", exp, d["oertab"]))
    return fails

def tables_of(c):
    t = (c.c["pertab_int"], c.c["pertab_size"], c.c["oertab"])
    if c.ct == "null" and t == ("none", "none", "none"):
        # no combined constraints: nothing is emitted and the skeleton's default applies
        # (INTEGER: no constraint; OCTET STRING & co: asn_DEF_OCTET_STRING_constraints = SIZE(0..MAX))
        return ("APC_UNCONSTRAINED -1 -1 0 0",
                "APC_UNCONSTRAINED -1 -1 0 0" if c.kind == "int" or c.ty == "UTF8" else "APC_SEMI_CONSTRAINED -1 -1 0 0", "0 0 -1")
    return t

def classify(c, fails):
    """known-finding region of a failing case, or None"""
    ev = c.ev
    if ev.has_additions: return "F11"
    if ev.degenerate: return "F92"
    if ev.ext and ev.vis.lb() is None and all(f[0].startswith("per table") for f in fails): return "F94"
    if ev.multi_own_ext: return "F91"
    big = G.sample_points(c.levels)
    lits = set(); 
    for lv in c.levels:
        for sp in lv: G.literals_spec(sp, lits)
    if ((2**63 - 1) in lits and max(lits) > 2**63 - 1) or (-2**63 in lits and min(lits) < -2**63): return "F95"
    if any(f[0] == "oer table" for f in fails) and len(fails) == 1 and max(big) > 2**64: return "F93"
    return None

# ------------------------------------------------------------------------------ run

def load_private_findings(ctx):
    p = os.environ.get("VERIF_KNOWN_FINDINGS")
    if p and os.path.exists(p):
        ctx.findings = [f for f in json.load(open(p))["findings"] if f.get("property") == ctx.prop]

def run(ctx):
    load_private_findings(ctx)
    asn1c = build.build_asn1c()
    ctx.lean()
    ctx.cov["rule"] = ("constraint expression trees over {MIN,-2..5,MAX} (every atom; every a|b, a^b, a EXCEPT b, (a)(b), "
                       "T2::=T1(b), (a,...,b) pair - a seeded subset in the quick tier), random trees of depth <= 3 / width <= 3, "
                       "chains of serial constraints and type references, SIZE constraints on OCTET/BIT STRING/UTF8String/"
                       "SEQUENCE OF/SET OF, 64-bit boundary values; distinct = distinct (type text); non-trivial = asn1c "
                       "accepted the type, no sub-expression is empty, and the constraint is not a bare atom")
    cases = gen_cases(ctx)
    cases = [c for c in cases if c.ty not in ("SEQOF", "SETOF") or seqof_ok(c)]
    seen = set(); uniq = []
    for c in cases:
        key = (c.ty, repr(c.levels))
        if key in seen: continue
        seen.add(key); uniq.append(c)
    cases = uniq
    for i, c in enumerate(cases):
        c.name = ("T%d" if c.kind == "int" else "S%d") % i
        c.text = " ; ".join(type_text(c, c.name, li) for li in range(len(c.levels)))
        c.ct = G.sexp(G.combined(c.levels))
        c.cons = G.cons_chain(c.levels) if c.levels and c.levels[0] else None
        c.ev = G.evaluate(c.kind, c.levels)
    ctx.log("generated %d types" % len(cases))

    # ---- C side
    stats = {"asn1c_runs": 0}
    tmp = tempfile.mkdtemp(prefix="c09-", dir=os.path.join(build.VERIF, ".cache"))
    try:
        chunk = 150
        chunks = [cases[i:i + chunk] for i in range(0, len(cases), chunk)]
        with ThreadPoolExecutor(build.JOBS) as ex:
            list(ex.map(lambda t: run_chunk(asn1c, tmp, t[0], t[1], stats), enumerate(chunks)))
    finally:
        shutil.rmtree(tmp, ignore_errors=True)
    nst = {}
    for c in cases: nst[c.c.get("status")] = nst.get(c.c.get("status"), 0) + 1
    ctx.log("asn1c: %s in %d runs" % (nst, stats["asn1c_runs"]))

    # ---- model side + K
    lines = []; owner = []
    for c in cases:
        for key, l in model_lines(c):
            lines.append(l); owner.append((c, key))
    rc, mouts, merr = ctx.run_lines(build.model_exe(), lines)
    if rc != 0 or len(mouts) != len(lines):
        raise RuntimeError("model driver failed: rc=%s %s" % (rc, merr[-500:]))
    dis = []; compared = 0
    for (c, key), l, m in zip(owner, lines, mouts):
        c.m[key] = m
        e = c_expected(c, key)
        if e is None: continue
        compared += 1
        if e != m: dis.append((c, key, l, e, m))
    st = ctx.cov["correspondence"].setdefault("asn1c-crange", {"lines": 0, "disagreements": 0, "c_crashes": 0})
    st["lines"] += compared; st["disagreements"] += len(dis); st["c_crashes"] += nst.get("crash", 0)
    ctx.cov["evaluations"] += compared
    ctx.cov["programs"] = stats["asn1c_runs"]
    ctx.cov["disagreements_checked"] = compared
    for c in cases:
        if c.c.get("status") == "ok" and not c.ev.degenerate and not (len(c.levels) == 1 and len(c.levels[0]) <= 1 and (not c.levels[0] or c.levels[0][0][1][0] in ('v', 'r'))):
            ctx.count_nontrivial(c.text.split("::=", 1)[1])
    for j in sorted(set([0, len(cases) // 3, len(cases) // 2, len(cases) - 1])):
        c = cases[j]
        ctx.cov["samples"].append({"type": c.text, "ct": c.ct, "asn1c": {k: v for k, v in c.c.items() if not k.endswith("_other")}, "model": c.m})
    for c, key, l, e, m in dis[:40]:
        ctx.broken.append({"kind": "correspondence", "name": "asn1c-crange", "type": c.text, "op": l, "c": e, "model": m})
    if os.environ.get("C09_DEBUG"):
        for c, key, l, e, m in dis[:60]: print("KDIS", c.text, "|", l, "| C:", e, "| M:", m)
    if dis:
        c, key, l, e, m = dis[0]
        ctx.log("K: %d disagreements; first: %s | %s | C: %s | model: %s" % (len(dis), c.text, l, e, m))
    ctx.cov["distribution"] = {"types": len(cases), "asn1c_status": nst,
                               "by_tag": {t: sum(1 for c in cases if c.tag == t) for t in sorted(set(c.tag for c in cases))},
                               "by_type": {t: sum(1 for c in cases if c.ty == t) for t in TYPES},
                               # the regions of the repaired findings F11, F92, F91, F94 (accepted types only)
                               "regions": {"extension_additions": sum(1 for c in cases if c.c.get("status") == "ok" and c.ev.has_additions),
                                           "empty_operand_nonempty_whole": sum(1 for c in cases if c.c.get("status") == "ok" and c.ev.degenerate and not c.ev.vis.empty()),
                                           "own_nonlast_marker": sum(1 for c in cases if c.c.get("status") == "ok" and c.ev.multi_own_ext),
                                           "extensible_no_lower_bound": sum(1 for c in cases if c.c.get("status") == "ok" and c.ev.ext and not c.ev.vis.empty() and c.ev.vis.lb() is None)}}

    # ---- P leg
    pf = []; np_ = 0; skipped = {"degenerate": 0, "nested-ext": 0, "rejected": 0}   # degenerate = the type denotes the empty set
    for c in cases:
        if c.c.get("status") != "ok":
            skipped["rejected"] += 1; continue
        if c.ev.vis.empty() or c.ev.oer_vis.empty():
            skipped["degenerate"] += 1; continue
        if c.ev.nested_ext:
            skipped["nested-ext"] += 1; continue
        np_ += 1
        f = p_check(c)
        if f: pf.append((c, f))
    # same set => same tables
    groups = {}
    for c in cases:
        if c.c.get("status") != "ok" or c.ev.degenerate or c.ev.nested_ext or c.ty == "UTF8": continue
        key = (c.kind, c.ev.vis.lo, tuple(c.ev.vis.runs()), c.ev.vis.hi, c.ev.ext, c.ev.oer_vis.lo, tuple(c.ev.oer_vis.runs()), c.ev.oer_vis.hi)
        groups.setdefault(key, []).append(c)
    npairs = 0; same_fail = []
    for key, g in groups.items():
        if len(g) < 2: continue
        ref = g[0]
        for c in g[1:]:
            npairs += 1
            a = tables_of(ref); b = tables_of(c)
            if a != b: same_fail.append((ref, c, a, b))
    ctx.cov["predicate"] = {"cases": np_, "failures": len(pf), "skipped": skipped,
                            "same_set_groups": sum(1 for g in groups.values() if len(g) > 1),
                            "same_set_pairs": npairs, "same_set_failures": len(same_fail)}
    ctx.cov["evaluations"] += np_ + npairs
    unexplained = []
    region = {}
    for c, f in pf:
        fid = classify(c, f)
        hit = ctx.match_finding(lambda k: k["id"] == fid) if fid else None
        if hit: region[fid] = region.get(fid, 0) + 1
        else: unexplained.append((c, f, fid))
    ctx.cov["predicate"]["known_finding_hits"] = region
    if os.environ.get("C09_DEBUG"):
        for c, f, fid in unexplained[:80]: print("PFAIL", c.tag, c.text, "|", f[0], "| n=%d" % len(f))
    for c, f, fid in unexplained[:5]:
        ctx.violation("C09 predicate fails on asn1c: %s: %s expected %s got %s" % (c.text, f[0][0], f[0][1], f[0][2]),
                      {"type": c.text, "module": module_text([c]), "failures": f, "asn1c": c.c, "model": c.m,
                       "region": fid, "how": "asn1c -E -F -print-constraints m.asn1 ; asn1c -P -R m.asn1"})
    if os.environ.get("C09_DEBUG"):
        for ref, c, a, b in same_fail[:40]: print("SAMEFAIL", ref.text, "|", c.text, "|", a, "|", b)
    for ref, c, a, b in same_fail[:3]:
        ctx.violation("C09 same set, different tables: %s vs %s: %s / %s" % (ref.text, c.text, a, b),
                      {"type_a": ref.text, "type_b": c.text, "tables_a": a, "tables_b": b})
    ctx.log("P: %d cases, %d failing (%s known), %d unexplained; same-set pairs %d, failures %d" %
            (np_, len(pf), region, len(unexplained), npairs, len(same_fail)))
    encoding_leg(ctx, groups)

# ------------------------------------------------------------------------------ E leg (optional clause)

def root_values(c):
    """values in the root (boundary first) and, for extensible types, next to it"""
    ev = c.ev
    runs = ev.root.runs()
    vals = []
    for lo, hi in runs:
        for x in (lo, hi):
            if x is not None: vals.append((x, True))
        if lo is not None and hi is not None and hi - lo > 2: vals.append((lo + 1, True))
        if lo is None and hi is not None: vals += [(hi - 3, True), (hi - 200, True)]
        if hi is None and lo is not None: vals += [(lo + 3, True), (lo + 200, True)]
    if not runs or (runs[0][0] is None and runs[0][1] is None): vals += [(0, True), (-129, True), (70000, True)]
    if ev.ext:
        for lo, hi in runs:
            if lo is not None and (lo - 1) not in ev.root.mem: vals.append((lo - 1, False))
            if hi is not None and (hi + 1) not in ev.root.mem: vals.append((hi + 1, False))
    out = []; seen = set()
    for v, inr in vals:
        if v in seen or abs(v) > 2**31 - 2: continue
        if c.kind == "size" and (v < 0 or v > 40): continue
        seen.add(v); out.append((v, inr))
    return out[:14]

def encoding_leg(ctx, groups):
    """'two definitions whose constraints denote the same root set and extensibility encode every
    value identically': compile some same-set groups and compare UPER and OER octets."""
    rng = ctx.rng
    cand = [g for g in groups.values() if len(g) > 1 and g[0].ty in ("INTEGER", "OCTET") and g[0].tag not in ("big", "big-edge", "big-size")
            and not g[0].ev.has_except and all(not m.ev.has_except and m.ty == g[0].ty for m in g)]
    rng.shuffle(cand)
    cand = cand[:50 if ctx.quick else 400]
    members = []
    for g in cand:
        ms = [g[0], g[-1]] + ([g[len(g) // 2]] if len(g) > 2 else [])
        members.append(ms)
    if not members:
        return
    flat = [m for ms in members for m in ms]
    names = []
    text = ["C09E DEFINITIONS ::= BEGIN"]
    for m in flat:
        for li in range(len(m.levels)): text.append(type_text(m, m.name, li))
        names.append(m.name)
    text.append("END")
    b = bundle.Bundle("c09e", "\n".join(text) + "\n", names)
    try:
        exe = b.build()
        lines = []; owner = []
        for gi, ms in enumerate(members):
            vals = root_values(ms[0])
            # a value outside the root is a value of the type (of some version of it) only inside the parent
            # the last constraint is applied to — in every member of the group
            # (and with extension additions in the group the C representation may differ: `unsigned long` for
            # (0..2, ..., 3..MAX), `long` for (0..2, ...) - asn1c_type_fits_long looks at the additions too -, so a
            # value outside the root cannot be handed to both alike)
            hasadd = any(m.ev.has_additions for m in ms)
            vals = [(v, inr) for v, inr in vals if inr or (not hasadd and all(m.ev.last_parent.has(v) for m in ms))]
            for v, inr in vals:
                sx = "(int %d)" % v if ms[0].kind == "int" else "(os %s)" % ("ab" * v if v else "-")
                for syn in ("uper", "oer"):
                    for m in ms:
                        lines.append("@%s enc %s %s" % (m.name, syn, sx)); owner.append((gi, v, syn, m, inr))
        outs, crashes = ctx.run_c_bisect(exe, lines)
    finally:
        b.cleanup()
    table = {}
    for (gi, v, syn, m, inr), o in zip(owner, outs):
        o = o if str(o).startswith("ok ") else "fail"       # errno text / sanitizer reports of the harness are not compared
        table.setdefault((gi, v, syn), []).append((m, o, inr))
    diff = []; nok = 0; nfail = 0
    for (gi, v, syn), lst in table.items():
        o0 = lst[0][1]
        if any(o != o0 for _, o, _ in lst[1:]): diff.append((v, syn, lst))
        if lst[0][2]:
            if str(o0).startswith("ok"): nok += 1
            else: nfail += 1
    ctx.cov["evaluations"] += len(lines)
    ctx.cov["predicate"]["encoding"] = {"groups": len(members), "types": len(flat), "encodings": len(lines),
                                        "compared": len(table), "different": len(diff), "in_root_ok": nok,
                                        "in_root_encode_failed": nfail, "c_crashes": crashes}
    for v, syn, lst in diff[:3]:
        ctx.violation("C09 same root set and extensibility, different %s encoding of %d: %s" %
                      (syn, v, " / ".join("%s -> %s" % (m.text, o) for m, o, _ in lst)),
                      {"value": v, "syntax": syn, "types": [m.text for m, _, _ in lst], "outputs": [o for _, o, _ in lst],
                       "module": module_text([m for m, _, _ in lst])})
    ctx.log("E: %d groups, %d encodings, %d compared, %d different (in-root ok %d, encode failed %d)" %
            (len(members), len(lines), len(table), len(diff), nok, nfail))

def replay(ctx, path):
    r = json.load(open(path))
    asn1c = build.build_asn1c()
    mods = [r["module"]] if "module" in r else []
    for m in mods:
        tmp = tempfile.mkdtemp(prefix="c09r-", dir=os.path.join(build.VERIF, ".cache"))
        try:
            p = os.path.join(tmp, "m.asn1"); open(p, "w").write(m)
            rc, out, err = run_asn1c(asn1c, ["-E", "-F", "-print-constraints"], p)
            print("replay: asn1c rc=%d\n%s%s" % (rc, out, err))
        finally:
            shutil.rmtree(tmp, ignore_errors=True)
    ops = [b["op"] for b in r.get("broken", []) if "op" in b]
    if ops:
        rc, m, _ = ctx.run_lines(build.model_exe(), ops)
        for o, b in zip(ops, m): print("replay:", o, "| model:", b)
