"""C02 (UPER part) — the bytes produced by asn1c's unaligned PER encoder are exactly the bytes X.691 prescribes.

Oracle: the Lean reference codec `L2.encUPER` / `L2.decUPER` (lean/Asn1cModel/L2/{PerTypes,Uper}.lean), written
from ITU-T X.691 on the generator's type AST (PER-visible constraints, enumeration indexes, canonical CHOICE
order from the tags resolved by `L2.Resolve`).  K leg = `l2k.k_leg`: C `enc uper` bytes == reference bytes and
C `dec uper` == reference decode, over generated modules, the boundary module and a fixed module of
CHOICE-order / ENUMERATED / INTEGER / SIZE / extension boundary shapes.  A disagreement is a failing input of C02.

F112 (SIZE(lb..MAX,...)) and F114 (largest character value = 2^b) are repaired: their former regions are compared like
any other type, their former witnesses are the first values of FSoM0 / FAl9 of the fixed module.
F111 (T ::= GeneralizedTime / UTCTime, B ::= A with A an unconstrained known-multiplier string: 8-bit characters), F38 / F123
(B ::= A with A a CHOICE / an ENUMERATED) and F46 (named plain NumericString) are repaired: `genmod.alias_module` has these
shapes as top-level types, members, alternatives and elements (the former F111 witness is the first value of its type Gt).
Regions of confirmed deviations of asn1c from X.691 are skipped narrowly: by type feature (`type_region`) or,
where the deviation depends on the value, by (type, value) (`value_region`); their witnesses are in
PROPOSED_FINDINGS (to be merged into KNOWN_FINDINGS.json, then replayed by gfind.replay_witnesses)."""
import collections
from .. import build, core, genmod, bundle, gfind, l2k
from . import c01

KM7 = ("IA5String", "VisibleString", "PrintableString", "NumericString")       # < 8 bits per character
KM_KINDS = KM7 + ("BMPString", "UniversalString")
TIME_KINDS = ("GeneralizedTime", "UTCTime")
CLASS_ORD = {"univ": 0, "app": 1, "ctx": 2, "priv": 3}

# ------------------------------------------------------------------------------------------------ tags (python side)
def _auto(t, tagdefault):
    """X.680 §25.8 / §29.5: AUTOMATIC tagging applies when no component carries a written tag"""
    return tagdefault == "AUTOMATIC" and not any(c["type"].get("tag") for c in t["comps"])

def order_key(t, env, tagdefault, depth=0):
    """(class, number) the alternative is ordered by (X.680 §8.6): outermost tag, or the smallest tag of the
    extension root of an untagged CHOICE"""
    if t.get("tag"): return (CLASS_ORD[t["tag"][0]], t["tag"][1])
    k = t["k"]
    if k == "REF": return order_key(env[t["name"]], env, tagdefault, depth + 1) if depth < 16 else (9, 0)
    if k == "CHOICE":
        n = t["ext"] if t.get("ext") is not None else len(t["comps"])
        if _auto(t, tagdefault): return (2, 0)
        return min(order_key(c["type"], env, tagdefault, depth + 1) for c in t["comps"][:n])
    return (0, genmod.UNIV_TAG[k])

def canonical_order(t, env, tagdefault):
    """declaration indexes of the root alternatives in canonical order"""
    n = t["ext"] if t.get("ext") is not None else len(t["comps"])
    if _auto(t, tagdefault): return list(range(n))
    keys = [order_key(c["type"], env, tagdefault) for c in t["comps"][:n]]
    return sorted(range(n), key=lambda i: (keys[i], i))

# ------------------------------------------------------------------------------------------------ skip regions
def _types_below(t, env, seen=None):
    seen = seen if seen is not None else set()
    yield t
    k = t["k"]
    if k == "REF":
        if t["name"] in seen: return
        seen.add(t["name"])
        yield from _types_below(env[t["name"]], env, seen)
    elif k in ("SEQUENCE", "SET", "CHOICE"):
        for c in t["comps"]: yield from _types_below(c["type"], env, seen)
    elif k in ("SEQUENCE OF", "SET OF"):
        yield from _types_below(t["elem"], env, seen)

def _ext_alts_unordered(x, env, tagdefault):
    """X.680 (ChoiceType): the tags of the extension addition alternatives must be in canonical order; asn1c accepts
    modules that violate this and sorts the additions, so the index of an addition is not defined by X.691"""
    if x.get("ext") is None or _auto(x, tagdefault): return False
    keys = [order_key(c["type"], env, tagdefault) for c in x["comps"][x["ext"]:]]
    return keys != sorted(keys)

def type_region(t, env, tagdefault=None):
    """finding id of a type-level deviation region the type touches, or None"""
    # F111 (T ::= GeneralizedTime / UTCTime, B ::= A with A an unconstrained known-multiplier string) is repaired:
    # such type assignments carry the PER constraints of the type they reference and are compared like any other type
    for x in _types_below(t, env):
        k = x["k"]
        if k == "CHOICE" and _ext_alts_unordered(x, env, tagdefault): return "illegal-module:ext-alternatives-not-in-tag-order"
        if k == "ENUMERATED" and x.get("ext"):
            rv, xv = genmod.enum_values(x)
            if min(xv) < max(rv): return "F190"        # an addition below a root value: root / addition told apart by map position
        # SIZE(lb..MAX,...) (former F112 region), permitted alphabets whose largest character value is exactly 2^b (former F114
        # region) and INTEGER (MIN..ub,...) (former F94 region) are compared like any other type
    return None

def value_region(t, v, env, tagdefault=None):
    """finding id of a value-dependent deviation region hit by value v of type t, or None"""
    k = t["k"]
    if k == "REF": return value_region(env[t["name"]], v, env, tagdefault)
    if k == "INTEGER":
        c = t.get("cons")
        # (MIN..ub, ...): the table has the extension bit (F94 repaired) but no upper bound to test against
        if c and c["ext"] and c["lo"] is None and c["hi"] is not None and v > c["hi"]: return "F96"
        return None
    if k in KM7:
        sz = t.get("size")
        if sz and sz["ext"] and not genmod.in_cons(sz, len(v)): return "F113"     # 8-bit characters outside the root
        return None
    if k == "BIT STRING":
        b, unused = v
        if b and not (b[-1] >> unused) & 1: return "F19"       # trailing zero bit
        sz = t.get("size")
        if sz and not b and (sz["lo"] or 0) > 0: return "F19"
        return None
    if k in ("SEQUENCE", "SET"):
        for c in t["comps"]:
            if c["id"] in v:
                r = value_region(c["type"], v[c["id"]], env, tagdefault)
                if r: return r
        return None
    if k == "CHOICE":
        alt, x = v
        i = next(i for i, c in enumerate(t["comps"]) if c["id"] == alt)
        n = t["ext"] if t.get("ext") is not None else len(t["comps"])
        if i < n:
            order = canonical_order(t, env, tagdefault)
            if order[order[i]] != i: return "F28"      # to_canonical / from_canonical tables swapped
        return value_region(t["comps"][i]["type"], x, env, tagdefault)
    if k in ("SEQUENCE OF", "SET OF"):
        for x in v:
            r = value_region(t["elem"], x, env, tagdefault)
            if r: return r
        return None
    return None

def type_skip(syn, t, env, tagdefault, skipped):
    feats = gfind.features(t, env, tagdefault=tagdefault)
    if c01.skip_region("uper", feats, skipped): return True
    if "inline_printable" in feats and False: return True
    fid = type_region(t, env, tagdefault)
    if fid: skipped[fid] += 1
    return fid is not None

def filter_values(m, vals, skipped):
    """drop the values that fall into a value-dependent known region"""
    env = dict(m["types"]); td = m.get("tagdefault")
    out = {}
    for n, t in m["types"]:
        keep = []
        for v in vals.get(n, []):
            fid = value_region(t, v, env, td)
            if fid: skipped[fid] += 1
            else: keep.append(v)
        out[n] = keep
    return out

# ------------------------------------------------------------------------------------------------ fixed module
def T(k, **kw): return dict(k=k, **kw)
cons = genmod.cons
def _N(tag=None): return T("NULL", **({"tag": tag} if tag else {}))
def _B(tag=None): return T("BOOLEAN", **({"tag": tag} if tag else {}))
def _ch(alts, ext=None):
    t = T("CHOICE", comps=[{"id": i, "type": ty} for i, ty in alts])
    if ext is not None: t["ext"] = ext
    return t
def _sq(comps, ext=None):
    cs = []
    for c in comps:
        d = {"id": c[0], "type": c[1]}
        if len(c) > 2 and c[2] is not None: d["opt"] = c[2]
        cs.append(d)
    t = T("SEQUENCE", comps=cs)
    if ext is not None: t["ext"] = ext
    return t

def fixed_module(rng, quick=True):
    """shapes the random generator does not (or rarely) produce: canonical CHOICE order with mixed tag
    classes and untagged inner CHOICEs, ENUMERATED index order, range / size width boundaries, extension additions"""
    types, vals = [], {}
    def add(n, t, vs): types.append((n, t)); vals[n] = vs
    A, C, P = "app", "ctx", "priv"
    # --- canonical order (X.680 8.6): class first, then number; untagged CHOICE = smallest root tag
    add("FInner", _ch([("a", _B((A, 5, ""))), ("b", _B((C, 0, "")))]), [("a", True), ("b", False)])
    add("FOuter", _ch([("y", _B((A, 7, ""))), ("inner", T("REF", name="FInner")), ("z", _B((C, 1, "")))]),
        [("y", True), ("inner", ("a", True)), ("inner", ("b", True)), ("z", False)])
    add("FInner2", _ch([("r", _N((A, 9, ""))), ("p", _N((C, 3, ""))), ("q", _N((P, 0, "")))]), [("r", None), ("p", None), ("q", None)])
    add("FOuter2", _ch([("k", _N((A, 10, ""))), ("i", T("REF", name="FInner2")), ("l", _N((A, 8, "")))]),
        [("k", None), ("i", ("r", None)), ("i", ("q", None)), ("l", None)])
    add("FInner3", _ch([("s", T("IA5String")), ("n", T("INTEGER", cons=None)), ("b", _B())]), [("s", "ab"), ("n", -5), ("b", True)])
    add("FOuter3", _ch([("o", T("OCTET STRING")), ("i", T("REF", name="FInner3")), ("r", T("REAL"))]),
        [("o", b"a"), ("i", ("b", True)), ("i", ("n", 5)), ("r", 0x3ff0000000000000)])
    add("FInner4", _ch([("a", _N((C, 5, ""))), ("b", _N((C, 0, "")))], ext=1), [("a", None), ("b", None)])
    add("FOuter4", _ch([("x", _N((C, 3, ""))), ("i", T("REF", name="FInner4")), ("y", _N((C, 7, "")))]),
        [("x", None), ("i", ("a", None)), ("i", ("b", None)), ("y", None)])
    add("FInner5", _ch([("u", _N((P, 2, ""))), ("v", T("REF", name="FInner"))]), [("u", None), ("v", ("b", True))])
    add("FOuter5", _ch([("m", _N((A, 6, ""))), ("i", T("REF", name="FInner5")), ("n", _N((A, 4, ""))), ("w", _N((C, 9, "")))]),
        [("m", None), ("i", ("u", None)), ("i", ("v", ("a", False))), ("n", None), ("w", None)])
    add("FMixed", _ch([("a", _N((P, 1, ""))), ("b", _B((A, 2, ""))), ("c", T("INTEGER", cons=cons(0, 7), tag=(C, 0, ""))), ("d", _N())]),
        [("a", None), ("b", True), ("c", 5), ("d", None)])
    add("FSwap2", _ch([("a", _N((C, 1, ""))), ("b", _N((C, 0, "")))]), [("a", None), ("b", None)])
    add("FSwap4", _ch([("a", _N((C, 9, ""))), ("b", _N((A, 9, ""))), ("c", _N((P, 0, ""))), ("d", _N((C, 8, "")))]),
        [("a", None), ("b", None), ("c", None), ("d", None)])       # order b,d,a,c = [1,3,0,2]: not an involution (F28)
    add("FRot3", _ch([("a", _N((C, 2, ""))), ("b", _N((C, 0, ""))), ("c", _N((C, 1, "")))]), [("a", None), ("b", None), ("c", None)])
    add("FChExt", _ch([("a", _N((C, 1, ""))), ("b", _B((C, 0, ""))), ("c", T("INTEGER", cons=cons(0, 255), tag=(C, 2, ""))),
                       ("d", T("OCTET STRING", tag=(C, 3, ""))), ("e", _N((C, 4, "")))], ext=2),
        [("a", None), ("b", True), ("c", 200), ("d", b"xyz"), ("d", b""), ("e", None)])
    for n_alts in (1, 2, 3, 4, 5, 8, 9):
        add(f"FChN{n_alts}", _ch([(f"a{i}", _N((C, i, ""))) for i in range(n_alts)]), [(f"a{i}", None) for i in range(n_alts)])
    # --- ENUMERATED: index = rank of the value (X.691 14.1), width boundaries, additions
    def en(items, ext=None):
        t = T("ENUMERATED", items=items)
        if ext is not None: t["ext"] = ext
        return t
    add("FEnU", en([("c", 5), ("a", -1), ("b", 3)]), [5, -1, 3])
    add("FEnE", en([("c", 7), ("a", 2)], ext=[("x", 9), ("y", 12), ("z", 300)]), [7, 2, 9, 12, 300])
    add("FEnE0", en([("a", None), ("b", None), ("c", None)], ext=[]), [0, 1, 2])
    for n in (1, 2, 3, 4, 5, 8, 9, 16, 17, 128, 129):
        add(f"FEn{n}", en([(f"i{n}x{j}", None) for j in range(n)]), sorted({0, 1 % n, n // 2, n - 2 if n > 1 else 0, n - 1}))
    # --- INTEGER: range width boundaries (range_bits)
    for i, (lo, hi, ext) in enumerate([(1, 2, False), (1, 3, False), (1, 4, False), (1, 5, False), (0, 15, False), (0, 16, False), (-1, 0, False),
                                        (0, 31, True), (0, 32, True), (-3, 4, True), (10, 10, True), (0, (1 << 32) - 1, True), (0, 1 << 32, False),
                                        (0, (1 << 62), False), (1, (1 << 31), False), (0, None, True), (None, 5, False),
                                        (5, None, False), (-5, None, False), (1, None, True), (-129, None, True),   # semi-constrained, lb != 0 (F42 / F110 repaired)
                                        (None, 5, True), (None, -1, True)]):    # no lower bound, extensible: the extension bit (F94 repaired; above ub: F96)
        c = cons(lo, hi, ext)
        vs = sorted(v for v in genmod.int_boundaries(c) if genmod.in_cons(c, v) or ext)
        if lo is not None and lo >= 0: vs = [v for v in vs if v >= 0]
        add(f"FInt{i}", T("INTEGER", cons=c), vs[:40])
    # --- SIZE: length width boundaries, fixed sizes around 16 bits / 2 octets, 64K
    def rb(n): return bytes(rng.getrandbits(8) for _ in range(n))
    def bits(n):
        nb = (n + 7) // 8; u = nb * 8 - n
        b = bytearray(rb(nb))
        if nb: b[-1] = (b[-1] & ((0xff << u) & 0xff)) | (1 << u)
        return (bytes(b), u)
    for i, (lo, hi, ext) in enumerate([(0, 0, False), (1, 1, False), (2, 2, False), (3, 3, False), (0, 1, False), (0, 2, False), (1, 4, False), (1, 5, False),
                                        (0, 255, False), (0, 256, False), (3, 3, True), (0, 3, True), (2, 5, True), (0, 65535, False), (0, 65536, False), (1, 65535, False)]):
        c = cons(lo, hi, ext)
        ls = sorted({lo, hi if hi < 400 else lo + 130, min(lo + 1, hi), max(min(hi, 300) - 1, lo)} | ({hi + 1, max(lo - 1, 0)} if ext else set()))
        add(f"FOs{i}", T("OCTET STRING", size=c), [rb(n) for n in ls])
        add(f"FIa{i}", T("IA5String", size=c), ["".join(chr(rng.randrange(0x20, 0x7f)) for _ in range(n)) for n in ls if genmod.in_cons(c, n)])
        add(f"FSo{i}", T("SEQUENCE OF", elem=T("BOOLEAN"), size=c), [[bool(rng.getrandbits(1)) for _ in range(n)] for n in ls])
        add(f"FSt{i}", T("SET OF", elem=T("INTEGER", cons=cons(0, 255)), size=c), [[rng.randrange(256) for _ in range(n)] for n in ls])
    for i, (lo, hi, ext) in enumerate([(0, 0, False), (1, 1, False), (15, 15, False), (16, 16, False), (17, 17, False), (24, 24, False), (0, 16, False), (0, 17, False),
                                        (8, 8, True), (1, 16, True), (0, 65535, False), (0, 65536, False)]):
        c = cons(lo, hi, ext)
        ls = sorted({lo, hi if hi < 400 else lo + 130, min(lo + 1, hi), max(min(hi, 300) - 1, lo)})
        add(f"FBs{i}", T("BIT STRING", size=c), [bits(n) for n in ls if n > 0 or lo == 0])
    # SIZE(lb..MAX,...): a semi-constrained root, every count >= lb is in the root (extension bit 0), a count below
    # lb is not (bit 1); the count itself is an unconstrained length either way (former F112 region, witness first)
    for i, (lo, ext) in enumerate([(2, True), (0, True), (1, True), (130, True), (2, False)]):
        c = cons(lo, None, ext)
        ls = sorted({lo, lo + 1, lo + 5, 127, 128, 300} | ({max(lo - 1, 0), 0} if ext else set()))
        inr = [n for n in ls if n >= lo]
        add(f"FSoM{i}", T("SEQUENCE OF", elem=T("BOOLEAN"), size=c), [[True] * n for n in ([2] if i == 0 else [])] + [[bool(rng.getrandbits(1)) for _ in range(n)] for n in ls])
        add(f"FStM{i}", T("SET OF", elem=T("INTEGER", cons=cons(0, 255)), size=c), [[rng.randrange(256) for _ in range(n)] for n in ls])
        add(f"FOsM{i}", T("OCTET STRING", size=c), [rb(n) for n in ls])
        add(f"FIaM{i}", T("IA5String", size=c), ["".join(chr(rng.randrange(0x20, 0x7f)) for _ in range(n)) for n in inr])      # below lb: F113
        add(f"FBmM{i}", T("BMPString", size=c), ["".join(rng.choice("aé€") for _ in range(n)) for n in ls[:4]])
        add(f"FBsM{i}", T("BIT STRING", size=c), [bits(n) for n in inr if n > 0 or lo == 0])
    add("FOsH", T("OCTET STRING", size=cons(2, 70000, True)), [rb(n) for n in (1, 2, 3, 300)])        # ub >= 64K: no constrained length, but a root
    add("FSoH", T("SEQUENCE OF", elem=T("BOOLEAN"), size=cons(2, 70000, True)), [[True] * n for n in (1, 2, 3, 300)])
    add("FNum", T("NumericString", size=cons(0, 5)), ["", "0", " 9", "12345"])
    add("FPrt", T("SEQUENCE", comps=[{"id": "p", "type": T("PrintableString", tag=(C, 0, ""))}]), [{"p": ""}, {"p": "Az 09'()+,-./:=?"}])
    add("FAl1", T("IA5String", alpha=[("A", "Z")]), ["", "AZ", "HELLO"])
    add("FAl2", T("VisibleString", alpha=[("a", "f"), ("0", "9")], size=cons(1, 4)), ["a", "f09a"])
    add("FAl3", T("PrintableString", alpha=["A", "B", "C"], size=cons(2, 2)), ["AB", "CC"])
    add("FAl4", T("IA5String", alpha=[(" ", "?")]), ["", " ?", "0:5"])         # N = 32, b = 5, ub = 63 > 31: by index
    add("FAl5", T("IA5String", alpha=[("\x00", "\x07"), "\x0f"]), ["", "\x00\x07\x0f"])   # N = 9, b = 4, ub = 15 <= 15: by value
    # N = 1, b = 0: zero-width characters, the encoding is the length determinant alone (former F71 region)
    add("FAl6", T("IA5String", alpha=["a"]), ["", "a", "aaaaa", "a" * 130])
    add("FAl7", T("PrintableString", alpha=["Z"], size=cons(0, 5)), ["", "Z", "ZZZZZ"])
    add("FAl8", T("SEQUENCE OF", elem=T("IA5String", alpha=["q"], size=cons(2, 2))), [[], ["qq", "qq", "qq"]])
    # largest character value exactly 2^b: 2^b > 2^b - 1, so the characters go by index (X.691 30.5.4; former F114 region, witness first)
    add("FAl9", T("IA5String", alpha=[(" ", "@")]), [" @", "", "@", "@@ 0?"])                     # N = 33, b = 6, ub = 64
    add("FAl10", T("IA5String", alpha=[("\x01", "\x10")]), ["", "\x01\x10", "\x10\x0f\x02"])         # N = 16, b = 4, ub = 16
    add("FAl11", T("VisibleString", alpha=[(" ", "9"), "@"], size=cons(0, 6)), ["", "@", " 9@", "@@@@@@"])   # N = 27, b = 5, ub = 64: by index anyway
    add("FAl12", T("IA5String", alpha=[("\x10", "9"), "@"]), ["", "@", "\x109@", "@0@"])         # N = 43, b = 6, ub = 64 = 2^6, mapped through the generated tables
    add("FAl13", T("IA5String", alpha=[("\x00", "\x03"), "\x08"], size=cons(1, 3)), ["\x08", "\x00\x08\x03"])   # N = 5, b = 3, ub = 8
    add("FAl14", T("BMPString", alpha=[("\x01", "\x10")]), ["", "\x01\x10"])                   # 16-bit characters, N = 16, b = 4, ub = 16
    add("FBmp", T("BMPString", size=cons(0, 3)), ["", "a", "aé€"])
    add("FUni", T("UniversalString", size=cons(1, 2)), ["a", "a\U0010ffff"])
    add("FU8", T("UTF8String", size=cons(1, 2)), ["a", "é€"])            # SIZE not PER-visible
    # --- SEQUENCE: preamble, DEFAULT, extension additions (bitmap + open types)
    I8 = lambda tag: T("INTEGER", cons=cons(0, 255), tag=tag)
    add("FSeq1", _sq([("a", I8((C, 0, ""))), ("b", _B((C, 1, "")), "OPTIONAL"), ("c", I8((C, 2, "")), ("DEFAULT", "7", 7)), ("d", _N((C, 3, "")), "OPTIONAL")]),
        [{"a": 1}, {"a": 1, "b": True}, {"a": 255, "c": 8}, {"a": 0, "b": False, "c": 0, "d": None}])
    add("FSeqE0", _sq([("a", I8((C, 0, "")))], ext=1), [{"a": 5}])
    add("FSeqEmptyE", _sq([], ext=0), [{}])          # SEQUENCE { ... }: the extension bit alone (F120 repaired)
    add("FSeqE1", _sq([("a", I8((C, 0, ""))), ("x", _B((C, 1, "")), "OPTIONAL")], ext=1), [{"a": 5}, {"a": 5, "x": True}])
    add("FSeqE3", _sq([("a", _B((C, 0, "")), "OPTIONAL"), ("x", _N((C, 1, "")), "OPTIONAL"), ("y", T("OCTET STRING", tag=(C, 2, "")), "OPTIONAL"),
                       ("z", _sq([("p", I8((C, 0, ""))), ("q", _B((C, 1, "")), "OPTIONAL")]) | {"tag": (C, 3, "")}, "OPTIONAL")], ext=1),
        [{}, {"a": True}, {"x": None}, {"y": b""}, {"y": rb(130)}, {"z": {"p": 9}}, {"a": False, "x": None, "y": b"ab", "z": {"p": 1, "q": True}}, {"x": None, "z": {"p": 0}}])
    add("FSeqE2m", _sq([("a", I8((C, 0, ""))), ("x", I8((C, 1, ""))), ("y", T("REF", name="FOuter", tag=(C, 2, "EXPLICIT")), "OPTIONAL")], ext=1),
        [{"a": 1, "x": 2}, {"a": 1, "x": 2, "y": ("inner", ("b", True))}])
    return {"name": "UPF", "tagdefault": "IMPLICIT", "types": types}, vals


def _w(fid, what, module, type_, op, expect, matcher, x691):
    return {"id": fid, "property": "C02", "properties": ["C02"], "status": "known", "what": what,
            "witness": {"module": module, "type": type_, "op": op, "expect": expect, "x691": x691},
            "matcher": matcher, "lean_reference": "Asn1c.Props.C02Uper.ref_%s_witness" % fid if fid in ("F111", "F113", "F28") else None}

PROPOSED_FINDINGS = [
    _w("F96", "UPER: an extensible INTEGER constraint without lower bound, INTEGER (MIN..ub, ...), is emitted as "
              "{ APC_UNCONSTRAINED | APC_EXTENSIBLE, -1, -1, 0, 0 } (the extension bit of X.691 13.1 is there since the repair of F94) but "
              "asn_per_constraint_t cannot say 'upper bound only', so INTEGER_encode_uper never finds a value outside the root: a value "
              "above ub is written with extension bit 0 instead of 1 (the rest - the unconstrained whole number - is the same; the decoder "
              "accepts both)",
       "M DEFINITIONS ::= BEGIN T ::= INTEGER (MIN..5, ...) END", "T", "enc uper (int 7)", r"^ok 008380$",
       "syntax == uper and an INTEGER value above the upper bound of an extensible constraint without lower bound", "ok 808380"),
    _w("F113", "UPER: a known-multiplier character string whose extensible SIZE is exceeded is written with 8/16/32-bit characters "
               "(canonical_unit_bits) instead of the character width of the unconstrained type (IA5String/VisibleString/PrintableString 7 bits, "
               "NumericString 4 bits): X.691 30.4 'as if there was no effective size constraint ... permitted alphabet = all characters of the "
               "unconstrained type'; the decoder expects the same, so standard encodings are not understood (81 e1 c5 8c => RC_WMORE)",
       "M DEFINITIONS ::= BEGIN T ::= IA5String (SIZE(1..2,...)) END", "T", "enc uper (os 616263)", r"^ok 81b0b13180$",
       "syntax == uper and a value of IA5String/VisibleString/PrintableString/NumericString with extensible SIZE whose length is outside the root", "ok 81e1c58c"),
    _w("F28", "UPER CHOICE: the generated to_canonical / from_canonical tables are used swapped (the encoder indexes from_canonical with the "
              "presence index): CHOICE { a [2] NULL, b [0] NULL, c [1] NULL } encodes a, b, c as 1, 2, 0 instead of the canonical indexes 2, 0, 1 "
              "(X.691 23.2, X.680 8.6); invisible when the permutation is an involution; encoder and decoder agree with each other",
       "M DEFINITIONS ::= BEGIN T ::= CHOICE { a [2] NULL, b [0] NULL, c [1] NULL } END", "T", "enc uper (choice a (null))", r"^ok 40$",
       "syntax == uper and a CHOICE value selecting root alternative i with order[order[i]] != i (order = canonical order of the root alternatives)", "ok 80"),
    _w("F19", "UPER: BIT_STRING_encode_uper strips the trailing zero bits of EVERY BIT STRING value (BIT_STRING__compactify), also of types without "
              "named bits: '10'B of BIT STRING => 01 80 (one bit) instead of 02 80; X.691 16.2/16.3 allow that only for types with a named bit list; "
              "the value does not round-trip",
       "M DEFINITIONS ::= BEGIN T ::= BIT STRING END", "T", "enc uper (bs 80 6)", r"^ok 0180$",
       "syntax == uper and a BIT STRING value whose last bit is 0", "ok 0280"),
    _w("F15", "ENUMERATED { a(1), b }: asn1f_fix_enum numbers b = 2 (max so far + 1) where X.680 20.3 assigns 0 (smallest unused), so the PER "
              "enumeration indexes differ: value 1 is index 0 instead of 1 (and the value 0 does not exist)",
       "M DEFINITIONS ::= BEGIN T ::= ENUMERATED { a(1), b } END", "T", "enc uper (enum 1)", r"^ok 00$",
       "an ENUMERATED mixing numbered and un-numbered items where max+1 numbering differs from X.680 20.3", "ok 80"),
    _w("F190", "UPER (and APER): NativeEnumerated_encode_uper / _decode_uper tell root items from extension additions by the POSITION in the "
               "value2enum map, which is sorted by value over root and additions together (position >= specs->extension - 1 means addition): "
               "correct only if every addition is larger than every root value.  ENUMERATED { a, z(25), ..., d(1) } encodes the root item z(25) "
               "as the first addition (80) and the addition d(1) as root index 1 (40); X.680 20.4/20.6 only require additions to increase among "
               "themselves (the repository's own tests-asn1c-compiler/03-enum-OK.asn1 has `beta(12) -- May be less than the max value in the "
               "root`)",
       "M DEFINITIONS ::= BEGIN T ::= ENUMERATED { a, z(25), ..., d(1) } END", "T", "enc uper (enum 25)", r"^ok 80$",
       "syntax == uper and the type contains an extensible ENUMERATED with an addition whose value is smaller than some root value", "ok 40"),
]

def replay_proposed(ctx):
    """one bundle with the witness types of all proposed findings: each must still show the deviation"""
    import re
    known = {f["id"] for f in ctx.findings}
    types, lines, ids = [], [], []
    for i, f in enumerate(PROPOSED_FINDINGS):
        w = f["witness"]
        body = w["module"].split("BEGIN", 1)[1].rsplit("END", 1)[0].strip()
        body = re.sub(r"\bT\b(?=\s*::=)", f"W{i}", body, count=1)
        types.append((f"W{i}", body)); lines.append(f"@W{i} {w['op']}"); ids.append(f)
    txt = "UPW DEFINITIONS ::= BEGIN\n" + "\n".join("  " + b for _, b in types) + "\nEND\n"
    b = bundle.Bundle("UPW", txt, [n for n, _ in types])
    res = {}
    try:
        exe = b.build()
        outs, _ = ctx.run_c_bisect(exe, lines)
        for f, o in zip(ids, outs):
            still = bool(re.search(f["witness"]["expect"], str(o)))
            res[f["id"]] = still
            if still and f["id"] in known: ctx.known(next(x for x in ctx.findings if x["id"] == f["id"]))
            elif not still: ctx.log(f"note: proposed finding {f['id']} no longer reproduces on its witness ({str(o)[:80]})")
    except Exception as e:
        ctx.log("proposed-finding witnesses could not be built:", str(e)[:200])
    finally:
        b.cleanup()
    ctx.cov["predicate"]["uper_deviation_witnesses"] = res
    return res

def _set_to_sequence(t):
    """asn1c has no PER codec for SET (F32): the UPER leg runs the generated modules with every SET turned into a
    SEQUENCE (same components, same value representation) instead of skipping every type that contains a SET"""
    t = dict(t)
    if t["k"] == "SET": t["k"] = "SEQUENCE"
    if "comps" in t: t["comps"] = [dict(c, type=_set_to_sequence(c["type"])) for c in t["comps"]]
    if "elem" in t: t["elem"] = _set_to_sequence(t["elem"])
    return t

# ------------------------------------------------------------------------------------------------ run
def run_uper(ctx, nb=None, nvals=None):
    nb = nb if nb is not None else (6 if ctx.quick else 40)
    nvals = nvals if nvals is not None else (8 if ctx.quick else 25)
    mods = [dict(m, types=[(n, _set_to_sequence(t)) for n, t in m["types"]]) for m in c01.gen_bundles(ctx, nb)]
    bm, bvals = genmod.boundary_module(ctx.rng, ctx.quick)
    fm, fvals = fixed_module(ctx.rng, ctx.quick)
    xm, xvals = genmod.ext64_module(ctx.rng)       # extension indexes / bitmap lengths from 64 on (F29 / F64 repaired)
    cases = [(fm, fvals), (bm, bvals), (xm, xvals)]
    cases += [genmod.alias_module(td) for td in (None, "AUTOMATIC")]    # references to CHOICE / ENUMERATED / string / time types (F38 / F123 / F111 / F46 repaired)
    for m in mods:
        env = dict(m["types"])
        vg = genmod.ValGen(ctx.rng, env)
        cases.append((m, {n: vg.values(t, nvals) for n, t in m["types"]}))
    skipped = collections.Counter()
    allst = collections.Counter(); alldis = []
    replay_proposed(ctx)
    for m, vals in cases:
        vals = filter_values(m, vals, skipped)
        sk = lambda syn, t, env, m=m: type_skip(syn, t, env, m.get("tagdefault"), skipped)
        st, dis = l2k.k_leg(ctx, "uper:" + m["name"], [(m, vals)], [("uper", "uper", "uper", "uper")], skip=sk)
        allst.update(st); alldis += dis
    ctx.cov["predicate"]["uper_bytes_eq_reference"] = dict(allst)
    ctx.cov["predicate"]["uper_skipped_known_regions"] = dict(skipped)
    ctx.broken = [b for b in ctx.broken if not (b.get("kind") == "correspondence" and str(b.get("name", "")).startswith("uper:"))]
    for d in alldis[:5]:
        ctx.violation(f"C02: C uper {d['stage']} differs from the X.691 reference for type {d['type']}: {d['op'][:160]} C={d['c'][:100]} ref={d['model'][:100]}",
                      {"module": d["module"], "type": d["type"], "op": d["op"], "c_output": d["c"], "reference": d["model"], "syntax": "uper"})
    ctx.log("C02 UPER:", dict(allst), "skipped", dict(skipped))
    return allst, alldis
