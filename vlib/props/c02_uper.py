"""C02 (UPER part) — the bytes produced by asn1c's unaligned PER encoder are exactly the bytes X.691 prescribes.

Oracle: the Lean reference codec `L2.encUPER` / `L2.decUPER` (lean/Asn1cModel/L2/{PerTypes,Uper}.lean), written
from ITU-T X.691 on the generator's type AST (PER-visible constraints, enumeration indexes, canonical CHOICE
order from the tags resolved by `L2.Resolve`).  K leg = `l2k.k_leg`: C `enc uper` bytes == reference bytes and
C `dec uper` == reference decode, over generated modules, the boundary module and a fixed module of
CHOICE-order / ENUMERATED / INTEGER / SIZE boundary shapes.  A disagreement is a failing input of C02.

Regions of confirmed deviations of asn1c from X.691 are skipped narrowly (`uper_skip`), by type feature."""
import collections, copy
from .. import build, core, genmod, bundle, gfind, l2k
from . import c01

# ------------------------------------------------------------------------------------------------ skip regions
def _walk(t, env, seen=None, top=True):
    """yields (type dict, is_top_level) for t and everything below it (references followed once)"""
    seen = seen or set()
    yield t, top
    k = t["k"]
    if k == "REF":
        if t["name"] in seen: return
        yield from _walk(env[t["name"]], env, seen | {t["name"]}, top)
    elif k in ("SEQUENCE", "SET", "CHOICE"):
        for c in t["comps"]: yield from _walk(c["type"], env, seen, False)
    elif k in ("SEQUENCE OF", "SET OF"):
        yield from _walk(t["elem"], env, seen, False)

def uper_features(t, env, tagdefault=None):
    """features of further confirmed deviations (beyond gfind.features / c01.skip_region)"""
    out = set()
    for x, top in _walk(t, env):
        k = x["k"]
        if k == "INTEGER":
            c = x.get("cons")
            if c and c["ext"] and c["lo"] is None: out.add("int_ext_no_lb")            # F94
        if k in KM_KINDS and x.get("size") and x["size"]["ext"]: out.add("km_ext_size")  # F110
    return out

KM_KINDS = ("IA5String", "VisibleString", "PrintableString", "NumericString", "BMPString", "UniversalString")

def uper_skip(syn, t, env, tagdefault, skipped):
    feats = gfind.features(t, env, tagdefault=tagdefault)
    if c01.skip_region("uper", feats, skipped): return True
    fid = None
    uf = uper_features(t, env, tagdefault)
    if fid: skipped[fid] += 1
    return fid is not None

# ------------------------------------------------------------------------------------------------ fixed module
def T(k, **kw): return dict(k=k, **kw)
def cons(lo, hi, ext=False): return genmod.cons(lo, hi, ext)

def fixed_module(rng, quick=True):
    """shapes the random generator does not (or rarely) produce"""
    types, vals = [], {}
    return {"name": "UPF", "tagdefault": "IMPLICIT", "types": types}, vals

# ------------------------------------------------------------------------------------------------ run
def run_uper(ctx, nb=None, nvals=None):
    nb = nb if nb is not None else (6 if ctx.quick else 40)
    nvals = nvals if nvals is not None else (8 if ctx.quick else 25)
    mods = c01.gen_bundles(ctx, nb)
    bm, bvals = genmod.boundary_module(ctx.rng, ctx.quick)
    cases = [(bm, bvals)]
    fm, fvals = fixed_module(ctx.rng, ctx.quick)
    if fm["types"]: cases.append((fm, fvals))
    for m in mods:
        env = dict(m["types"])
        vg = genmod.ValGen(ctx.rng, env)
        cases.append((m, {n: vg.values(t, nvals) for n, t in m["types"]}))
    skipped = collections.Counter()
    allst = collections.Counter(); alldis = []
    for m, vals in cases:
        sk = lambda syn, t, env, m=m: uper_skip(syn, t, env, m.get("tagdefault"), skipped)
        st, dis = l2k.k_leg(ctx, "uper:" + m["name"], [(m, vals)], [("uper", "uper", "uper", "uper")], skip=sk)
        allst.update(st); alldis += dis
    ctx.cov["predicate"]["uper_bytes_eq_reference"] = dict(allst)
    ctx.cov["predicate"]["uper_skipped_known_regions"] = dict(skipped)
    ctx.broken = [b for b in ctx.broken if not (b.get("kind") == "correspondence" and str(b.get("name", "")).startswith("uper:"))]
    for d in alldis[:5]:
        ctx.violation(f"C02: C uper {d['stage']} differs from the X.691 reference for type {d['type']}: {d['op'][:160]} C={d['c'][:100]} ref={d['model'][:100]}",
                      {"module": d["module"], "type": d["type"], "op": d["op"], "c_output": d["c"], "reference": d["model"], "syntax": "uper"})
    ctx.log("C02 UPER:", dict(allst), "skipped", dict(skipped))
    return allst, alldis
