"""C11 — ambiguous or inconsistent specifications are rejected, unambiguous ones accepted.

Legs
  L  Lean: Props/C11.lean theorems (lean/props/C11.json) build + axiom audit.
  K  real asn1c (ASan build of /repo's working tree) on every generated module text:
     exit class (accept / reject) == `fix` op of the Lean driver (Impl.Fixer.fixerVerdict);
     for accepted modules additionally the fixed tree printed by `asn1c -E -F` (member tags
     after IMPLICIT/EXPLICIT/AUTOMATIC resolution, enumeration values) == `fixdump` op.
  P  the property itself on asn1c's behaviour, with an independent brute-force python
     implementation of the X.680 rules as oracle (class `Oracle`, not derived from the Lean
     Spec): fault-free generated modules are accepted (exit 0); every single-fault injection
     (tag collision at a pair of positions — same tag, same built-in type, through a nested
     untagged CHOICE, through reference chains in both role orders —, duplicate identifier, duplicate
     enumeration name / value, dangling reference) is rejected iff the oracle says the
     module is inconsistent: exit != 0, diagnostic on stderr, nothing written into the
     output directory.  asn1c dying by signal / ASan report is a failure.

Module AST (python mirror of lean/Asn1cModel/Spec/ModuleAst.lean)
  module = (dflt, [(name, ty)])           dflt in 'E','I','A'
  ty     = ('prim', tag, 'bool'|'int'|'null'|'oct')
         | ('enum', tag, [(name, val|None)], hasExt, [(name, val|None)])
         | ('constr', tag, 'seq'|'set'|'cho', [comp], hasExt, [comp])   comp = (name, ty, 'm'|'o'|'d')
         | ('sof', tag, ty)
         | ('ref', tag, name)
  tag    = None | (cls, num, mode)        cls in 'U','A','C','P'   mode in 'd','i','e'
"""
import os, re, shutil, subprocess, json, itertools
from concurrent.futures import ThreadPoolExecutor
from .. import build, core

# ---------------------------------------------------------------------------------- printing

CLS_ASN = {'U': 'UNIVERSAL ', 'A': 'APPLICATION ', 'C': '', 'P': 'PRIVATE '}
MODE_ASN = {'d': '', 'i': 'IMPLICIT ', 'e': 'EXPLICIT '}
PRIM_ASN = {'bool': 'BOOLEAN', 'int': 'INTEGER', 'null': 'NULL', 'oct': 'OCTET STRING'}
KIND_ASN = {'seq': 'SEQUENCE', 'set': 'SET', 'cho': 'CHOICE'}


def tag_sexp(tag):
    return '-' if tag is None else '%s%d%s' % tag


def ty_sexp(ty, out):
    k = ty[0]
    out.append(tag_sexp(ty[1]))
    if k == 'prim':
        out.append(ty[2])
    elif k == 'enum':
        out += ['enum', '(']
        for n, v in ty[2]:
            out += [n, '-' if v is None else str(v)]
        out.append(')')
        if ty[3]:
            out += ['x', '(']
            for n, v in ty[4]:
                out += [n, '-' if v is None else str(v)]
            out.append(')')
        else:
            out.append('-')
    elif k == 'constr':
        out += [ty[2], '(']
        for n, t, o in ty[3]:
            out.append(n); ty_sexp(t, out); out.append(o)
        out.append(')')
        if ty[4]:
            out += ['x', '(']
            for n, t, o in ty[5]:
                out.append(n); ty_sexp(t, out); out.append(o)
            out.append(')')
        else:
            out.append('-')
    elif k == 'sof':
        out.append('sof'); ty_sexp(ty[2], out)
    elif k == 'ref':
        out += ['ref', ty[2]]
    else:
        raise ValueError(k)


def module_sexp(M):
    out = [M[0], '(']
    for n, t in M[1]:
        out.append(n); ty_sexp(t, out)
    out.append(')')
    return ' '.join(out)


def tag_asn(tag):
    if tag is None:
        return ''
    return '[%s%d] %s' % (CLS_ASN[tag[0]], tag[1], MODE_ASN[tag[2]])


def item_asn(it):
    return it[0] if it[1] is None else '%s(%d)' % it


def comp_asn(c, ind):
    n, t, o = c
    s = '%s %s' % (n, ty_asn(t, ind))
    if o == 'o':
        s += ' OPTIONAL'
    elif o == 'd':
        # generator uses DEFAULT only on BOOLEAN / INTEGER
        s += ' DEFAULT TRUE' if t[2] == 'bool' else ' DEFAULT 0'
    return s


def ty_asn(ty, ind=1):
    k = ty[0]
    p = tag_asn(ty[1])
    if k == 'prim':
        return p + PRIM_ASN[ty[2]]
    if k == 'enum':
        parts = [item_asn(i) for i in ty[2]]
        if ty[3]:
            parts.append('...')
            parts += [item_asn(i) for i in ty[4]]
        return p + 'ENUMERATED { ' + ', '.join(parts) + ' }'
    if k == 'constr':
        pad = '    ' * ind
        parts = [comp_asn(c, ind + 1) for c in ty[3]]
        if ty[4]:
            parts.append('...')
            parts += [comp_asn(c, ind + 1) for c in ty[5]]
        return p + KIND_ASN[ty[2]] + ' {\n' + ',\n'.join(pad + x for x in parts) + '\n' + '    ' * (ind - 1) + '}'
    if k == 'sof':
        return p + 'SEQUENCE OF ' + ty_asn(ty[2], ind)
    if k == 'ref':
        return p + ty[2]
    raise ValueError(k)


def module_asn(M, name='M'):
    hdr = {'E': 'EXPLICIT TAGS', 'I': 'IMPLICIT TAGS', 'A': 'AUTOMATIC TAGS'}[M[0]]
    body = '\n\n'.join('%s ::= %s' % (n, ty_asn(t)) for n, t in M[1])
    return '%s DEFINITIONS %s ::=\nBEGIN\n\n%s\n\nEND\n' % (name, hdr, body)


# ---------------------------------------------------------------------------------- tree helpers

def walk(ty, path=()):
    """pre-order (path, node) of every type expression"""
    yield path, ty
    if ty[0] == 'constr':
        for i, c in enumerate(ty[3]):
            yield from walk(c[1], path + (('r', i),))
        for i, c in enumerate(ty[5]):
            yield from walk(c[1], path + (('a', i),))
    elif ty[0] == 'sof':
        yield from walk(ty[2], path + (('e', 0),))


def replace_at(ty, path, fn):
    """functional update of the node at `path` by fn(node)"""
    if not path:
        return fn(ty)
    (w, i), rest = path[0], path[1:]
    if w == 'e':
        return ('sof', ty[1], replace_at(ty[2], rest, fn))
    lst = list(ty[3] if w == 'r' else ty[5])
    n, t, o = lst[i]
    lst[i] = (n, replace_at(t, rest, fn), o)
    if w == 'r':
        return ('constr', ty[1], ty[2], lst, ty[4], list(ty[5]))
    return ('constr', ty[1], ty[2], list(ty[3]), ty[4], lst)


def with_tag(ty, tag):
    return (ty[0], tag) + tuple(ty[2:])


def all_nodes(M):
    for ti, (n, t) in enumerate(M[1]):
        for path, node in walk(t):
            yield ti, path, node


def mod_replace(M, ti, path, fn):
    types = list(M[1])
    types[ti] = (types[ti][0], replace_at(types[ti][1], path, fn))
    return (M[0], types)


# ---------------------------------------------------------------------------------- oracle

UNIV = {'bool': 1, 'int': 2, 'oct': 4, 'null': 5}
EXT = 'EXT'      # X.680 52.7.1: conceptual element at an extension insertion point


class Oracle:
    """Brute-force reading of X.680: tags (8, Table 1), tagged types (31.2), automatic tagging
    (25.3, 25.8, 27.2, 29.2), distinct tags (25.6, 27.3, 29.3, 52.7), ENUMERATED (20),
    references (every typereference is assigned).  Independent of the Lean Spec."""

    def __init__(self, M):
        self.dflt = M[0]
        self.types = M[1]
        self.defs = {}
        for n, t in M[1]:
            self.defs.setdefault(n, t)

    # -- tagging environment
    def members(self, node):
        """[(tagset, optional?, what)] of a SEQUENCE/SET/CHOICE, marker included"""
        root, has, adds = node[3], node[4], node[5]
        auto = self.dflt == 'A' and all(c[1][1] is None for c in root)
        out = []
        k = 0
        for c in root:
            out.append((self.member_tags(c[1], k if auto else None), c[2] != 'm', c[0]))
            k += 1
        if has:
            out.append(({EXT}, False, '...'))
        for c in adds:
            out.append((self.member_tags(c[1], k if auto else None), c[2] != 'm', c[0]))
            k += 1
        return out

    def member_tags(self, ty, autonum):
        if autonum is not None:
            return {('C', autonum)}
        return self.tags(ty, ())

    def tags(self, ty, seen):
        if ty[1] is not None:
            return {(ty[1][0], ty[1][1])}
        k = ty[0]
        if k == 'prim':
            return {('U', UNIV[ty[2]])}
        if k == 'enum':
            return {('U', 10)}
        if k == 'sof':
            return {('U', 16)}
        if k == 'constr':
            if ty[2] == 'seq':
                return {('U', 16)}
            if ty[2] == 'set':
                return {('U', 17)}
            if id(ty) in seen:
                return set()
            s = set()
            for ts, _, _ in self.members_seen(ty, seen + (id(ty),)):
                s |= ts
            return s
        if k == 'ref':
            if ty[2] not in self.defs or ty[2] in seen:
                return set()
            return self.tags(self.defs[ty[2]], seen + (ty[2],))
        raise ValueError(k)

    def members_seen(self, node, seen):
        root, has, adds = node[3], node[4], node[5]
        auto = self.dflt == 'A' and all(c[1][1] is None for c in root)
        out = []
        k = 0
        for c in root:
            out.append(({('C', k)} if auto else self.tags(c[1], seen), c[2] != 'm', c[0])); k += 1
        if has:
            out.append(({EXT}, False, '...'))
        for c in adds:
            out.append(({('C', k)} if auto else self.tags(c[1], seen), c[2] != 'm', c[0])); k += 1
        return out

    def untagged_choice(self, ty, seen=()):
        """the type, stripped of nothing, is an untagged CHOICE type (through references)"""
        if ty[1] is not None:
            return False
        if ty[0] == 'constr':
            return ty[2] == 'cho'
        if ty[0] == 'ref':
            if ty[2] not in self.defs or ty[2] in seen:
                return False
            return self.untagged_choice(self.defs[ty[2]], seen + (ty[2],))
        return False

    # -- rules
    def clashes(self, node, strict=False):
        """pairs (i, j) of member positions violating the distinctness rule of the node"""
        ms = self.members(node)
        if strict and node[2] == 'seq':
            ms = [m for m in ms if m[2] != '...']
        bad = []
        n = len(ms)
        for i in range(n):
            for j in range(i + 1, n):
                if node[2] == 'seq':
                    # i..j-1 all OPTIONAL/DEFAULT: j is in the run started at i or is the
                    # component following it
                    if not all(ms[l][1] for l in range(i, j)):
                        continue
                if ms[i][0] & ms[j][0]:
                    bad.append((ms[i][2], ms[j][2]))
        return bad

    @staticmethod
    def enum_values(root, adds):
        """X.680 20.3 / 20.6 numbering"""
        used = {v for _, v in root if v is not None}
        vals = []
        cur = 0
        for _, v in root:
            if v is None:
                while cur in used:
                    cur += 1
                v = cur
                cur += 1
            vals.append(v)
        rootset = set(vals)
        avals = []
        for _, v in adds:
            if v is None:
                v = (max(avals) + 1) if avals else 0
                while v in rootset:
                    v += 1
            avals.append(v)
        return vals, avals

    def enum_issues(self, node):
        root, adds = node[2], node[4]
        out = []
        names = [n for n, _ in root + adds]
        if len(set(names)) != len(names):
            out.append('enum-name')
        rv, av = self.enum_values(root, adds)
        if len(set(rv + av)) != len(rv + av):
            out.append('enum-value')
        if any(av[i] >= av[j] for i in range(len(av)) for j in range(i + 1, len(av))):
            out.append('enum-order')
        return out

    def verdict(self):
        """('accept' | 'reject' | None, reasons).  None = outside what the property text
        decides (readings of X.680 differ) — such modules are only used for the K leg."""
        reasons = []
        grey = []
        names = [n for n, _ in self.types]
        if len(set(names)) != len(names):
            reasons.append('other:dup-type')
        for n, t in self.types:
            if t[1] is not None and t[1][2] == 'i' and self.untagged_choice(with_tag(t, None)):
                reasons.append('other:implicit-choice')
        for _, path, node in all_nodes((self.dflt, self.types)):
            k = node[0]
            if k == 'ref':
                if node[2] not in self.defs:
                    reasons.append('unknown-type')
            elif k == 'enum':
                reasons += self.enum_issues(node)
            elif k == 'sof':
                t = node[2]        # the element type: its tag is resolved like a component's (F122 repaired)
                if t[1] is not None and t[1][2] == 'i' and self.untagged_choice(with_tag(t, None)):
                    reasons.append('other:implicit-choice')
            elif k == 'constr':
                ids = [c[0] for c in node[3] + node[5]]
                if len(set(ids)) != len(ids):
                    reasons.append('dup-identifier')
                a = self.clashes(node)
                b = self.clashes(node, strict=True)
                if a:
                    reasons.append('tag-clash')
                elif b:
                    grey.append('seq-run-across-marker')
                for c in node[3] + node[5]:
                    t = c[1]
                    if t[1] is not None and t[1][2] == 'i' and self.untagged_choice(with_tag(t, None)):
                        reasons.append('other:implicit-choice')
                if self.dflt == 'A' and all(c[1][1] is None for c in node[3]) and \
                        any(c[1][1] is not None for c in node[5]):
                    reasons.append('other:ext-tagged')
        if reasons:
            return 'reject', sorted(set(reasons))
        if grey:
            return None, sorted(set(grey))
        return 'accept', []


def asn1c_enum_values(root, adds):
    """numbering of asn1f_fix_enum (max so far + 1) — used by the *generator* only, to stay out
    of the region of the numbering finding (F15 family), never by the oracle"""
    vals = []
    mx = -1
    for _, v in root + adds:
        if v is None:
            v = mx + 1
        mx = max(mx, v)
        vals.append(v)
    return vals[:len(root)], vals[len(root):]


def looks_through_cycle(M):
    """True if some untagged CHOICE / reference chain reaches itself without crossing a tag or a
    type with a universal tag (the generator never produces this; asn1c rejects it: former finding F63)"""
    defs = {}
    for n, t in M[1]:
        defs.setdefault(n, t)

    def go(ty, seen):
        if ty[1] is not None:
            return False
        if ty[0] == 'ref':
            if ty[2] not in defs:
                return False
            if ty[2] in seen:
                return True
            return go(defs[ty[2]], seen | {ty[2]})
        if ty[0] == 'constr' and ty[2] == 'cho':
            if id(ty) in seen:
                return True
            auto = M[0] == 'A' and all(c[1][1] is None for c in ty[3])
            if auto:
                return False
            return any(go(c[1], seen | {id(ty)}) for c in ty[3] + ty[5])
        return False
    return any(go(node, frozenset()) for _, _, node in all_nodes(M))


# ---------------------------------------------------------------------------------- generator

IDENTS = ['a', 'b', 'c', 'd', 'e', 'f', 'g', 'h']


class Gen:
    def __init__(self, rng):
        self.rng = rng
        self.nid = 0
        self.sof_inline = False      # asn1c names every inline SEQUENCE OF element type "Member" (exit 70 on two)

    def idents(self, k):
        # module-wide unique: asn1c names the C type of an inline SEQUENCE/SET/CHOICE/ENUMERATED after
        # the member identifier and refuses (exit 70, "Use -fcompound-names") when two coincide
        out = []
        for _ in range(k):
            out.append('%s%d' % (self.rng.choice('abcdefgh'), self.nid)); self.nid += 1
        return out

    def tag(self, p):
        r = self.rng
        if r.random() >= p:
            return None
        cls = r.choice('CCCCCAPU') if r.random() < 0.9 else 'U'
        num = r.choice([0, 1, 2, 3, 4, 5, 30, 31, 100]) if cls != 'U' else r.choice([1, 2, 4, 5, 10, 16, 17, 22])
        return (cls, num, r.choice('ddddeei'))

    def enum(self, tag):
        r = self.rng
        for _ in range(50):
            nroot = r.randint(1, 4)
            has = r.random() < 0.4
            nadd = r.randint(0, 2) if has else 0
            names = r.sample(['red', 'green', 'blue', 'x1', 'y2', 'z-3', 'up', 'down'], nroot + nadd)
            style = r.choice(['auto', 'auto', 'explicit', 'mixed'])
            items = []
            if style == 'auto':
                items = [(n, None) for n in names]
            elif style == 'explicit':
                vs = r.sample(range(0, 12), nroot)
                avs = sorted(r.sample(range(12, 24), nadd))
                items = list(zip(names, vs + avs))
            else:
                items = [(n, (r.randint(0, 9) if r.random() < 0.5 else None)) for n in names]
            root, adds = items[:nroot], items[nroot:]
            node = ('enum', tag, root, has, adds)
            # must be valid per X.680 and in the region where the code's numbering agrees
            if Oracle.enum_values(root, adds) != asn1c_enum_values(root, adds):
                continue
            if Oracle(('E', [])).enum_issues(node):
                continue
            return node
        return ('enum', tag, [('solo', None)], False, [])

    def ty(self, idx, plan, depth, ptag, backref_ok):
        """a type expression for type assignment number idx"""
        r = self.rng
        tag = self.tag(ptag)
        kinds = ['prim'] * 4 + ['ref'] * 3 + ['enum']
        if depth < 2:
            kinds += ['seq', 'set', 'cho', 'cho', 'sof']
        k = r.choice(kinds)
        if k == 'ref':
            cands = list(range(idx))
            if backref_ok:
                cands += [j for j in range(idx, len(plan)) if plan[j] in ('seq', 'set', 'sof')] * 1
            if not cands:
                k = 'prim'
            else:
                return ('ref', tag, 'T%d' % r.choice(cands))
        if k == 'prim':
            return ('prim', tag, r.choice(['bool', 'int', 'int', 'null', 'oct']))
        if k == 'enum':
            return self.enum(tag)
        if k == 'sof':
            return ('sof', tag, self.elem(idx, plan, depth, ptag))
        return self.constr(idx, plan, depth, ptag, tag, k)

    def elem(self, idx, plan, depth, ptag):
        for _ in range(20):
            e = self.ty(idx, plan, depth + 1, ptag * 0.5, True)
            if e[0] in ('prim', 'ref'):
                return e
            if not self.sof_inline and e[0] != 'sof' and not any(n[0] == 'sof' for _, n in walk(e)):
                self.sof_inline = True
                return e
        return ('prim', None, 'int')

    def constr(self, idx, plan, depth, ptag, tag, k):
        r = self.rng
        nroot = r.randint(1, 4)
        has = r.random() < 0.35
        nadd = r.randint(0, 2) if has else 0
        names = self.idents(nroot + nadd)
        # per node: either nobody tagged (automatic tagging can kick in), or most are
        pm = r.choice([0.0, 0.0, 0.5, 1.0]) if ptag > 0 else 0.0
        comps = []
        for i, n in enumerate(names):
            if k == 'cho':
                o = 'm'
            else:
                o = r.choice('mmoood') if k == 'seq' else r.choice('mmod')
            t = self.ty(idx, plan, depth + 1, pm, o != 'm' or k == 'cho')
            if o == 'd' and not (t[0] == 'prim' and t[2] in ('bool', 'int')):
                o = 'o'
            comps.append((n, t, o))
        return ('constr', tag, k, comps[:nroot], has, comps[nroot:])

    def module(self):
        r = self.rng
        dflt = r.choice('EIAAA')
        n = r.randint(2, 6)
        plan = [r.choice(['prim', 'enum', 'seq', 'seq', 'set', 'cho', 'cho', 'sof', 'alias']) for _ in range(n)]
        types = []
        for i in range(n):
            p = plan[i]
            ptag = r.choice([0.0, 0.3, 0.6])
            toptag = self.tag(0.2)
            if p == 'prim':
                t = ('prim', toptag, r.choice(['bool', 'int', 'null', 'oct']))
            elif p == 'enum':
                t = self.enum(toptag)
            elif p == 'alias':
                t = ('ref', toptag, 'T%d' % r.randrange(i)) if i else ('prim', toptag, 'int')
            elif p == 'sof':
                t = ('sof', toptag, self.elem(i, plan, 0, ptag))
            else:
                t = self.constr(i, plan, 0, ptag, toptag, p)
            types.append(('T%d' % i, t))
        return (dflt, types)


def fix_modes(M):
    """IMPLICIT is never written on an untagged CHOICE type (X.680 31.2.7 c): switch to EXPLICIT"""
    orc = Oracle(M)
    changed = True
    for ti, path, node in list(all_nodes(M)):
        if node[1] is not None and node[1][2] == 'i' and orc.untagged_choice(with_tag(node, None)):
            M = mod_replace(M, ti, path, lambda t: with_tag(t, (t[1][0], t[1][1], 'e')))
    return M


def retag_node(rng, node):
    """give every member of the SEQUENCE/SET/CHOICE its own context tag"""
    def f(cs, base):
        return [(n, with_tag(t, ('C', base + i, rng.choice('dde'))), o) for i, (n, t, o) in enumerate(cs)]
    return ('constr', node[1], node[2], f(node[3], 0), node[4], f(node[5], len(node[3])))


def repair(rng, M):
    """make a generated module fault-free: nodes with a clash (or outside what the property
    decides) get manual context tags on every member"""
    for _ in range(12):
        M = fix_modes(M)
        orc = Oracle(M)
        v, why = orc.verdict()
        if v == 'accept' and not looks_through_cycle(M):
            return M
        done = False
        for ti, path, node in list(all_nodes(M)):
            if node[0] != 'constr':
                continue
            bad = orc.clashes(node) or orc.clashes(node, strict=True)
            ext = M[0] == 'A' and all(c[1][1] is None for c in node[3]) and any(c[1][1] is not None for c in node[5])
            if bad or ext:
                M = mod_replace(M, ti, path, lambda t: retag_node(rng, t))
                done = True
                break
        if not done:
            return None
    return None


def gen_fault_free(rng):
    g = Gen(rng)
    while True:
        M = repair(rng, g.module())
        if M is not None:
            return M


# ---------------------------------------------------------------------------------- faults

def same_tag_types(rng, M, tagset_src):
    """a few different type expressions whose outermost tag equals that of `tagset_src`"""
    return []


def inject_faults(rng, M, limit):
    """single-fault mutants of a fault-free module: list of (kind, description, module)"""
    orc = Oracle(M)
    out = []
    fresh = ['X%d' % i for i in range(1, 9)]

    # --- tag collisions at each pair of member positions
    for ti, path, node in all_nodes(M):
        if node[0] != 'constr':
            continue
        mem = [('r', i) for i in range(len(node[3]))] + [('a', i) for i in range(len(node[5]))]

        def get(nd, w):
            return (nd[3] if w[0] == 'r' else nd[5])[w[1]]

        def put(nd, w, comp):
            r_, a_ = list(nd[3]), list(nd[5])
            (r_ if w[0] == 'r' else a_)[w[1]] = comp
            return ('constr', nd[1], nd[2], r_, nd[4], a_)

        for x, y in itertools.combinations(mem, 2):
            cx, cy = get(node, x), get(node, y)
            variants = []
            # (a) the same manual tag on both
            g = (rng.choice('CCAP'), rng.choice([0, 1, 7, 31, 99]))
            variants.append(('same-tag', lambda nd, g=g: put(put(nd, x, (cx[0], with_tag(cx[1], g + ('d',)), cx[2])),
                                                               y, (cy[0], with_tag(cy[1], g + ('e',)), cy[2])), []))
            # (b) the same untagged built-in type on both
            p = rng.choice(['int', 'bool', 'null', 'oct'])
            def opt_ok(o, t):
                return o if (o != 'd' or t[2] in ('bool', 'int')) else 'o'
            variants.append(('same-builtin', lambda nd, p=p: put(put(nd, x, (cx[0], ('prim', None, p), opt_ok(cx[2], ('prim', None, p)))),
                                                                 y, (cy[0], ('prim', None, p), opt_ok(cy[2], ('prim', None, p)))), []))
            # (c) dst becomes an untagged CHOICE (inline) one of whose alternatives has src's tag
            def via_choice(nd, src, dst):
                cs, cd = get(nd, src), get(nd, dst)
                gs = cs[1][1]
                if gs is None and cs[1][0] == 'ref':
                    alt = cs[1]                       # the same reference: same outer tags
                elif gs is None:
                    alt = cs[1] if cs[1][0] == 'prim' else ('prim', None, 'null')
                    nd = put(nd, src, (cs[0], alt, opt_ok(cs[2], alt)))
                else:
                    alt = ('prim', (gs[0], gs[1], 'd'), 'null')
                cho = ('constr', None, 'cho', [('pz', ('prim', ('P', 1000, 'd'), 'bool'), 'm'), ('qz', alt, 'm')], False, [])
                od = 'o' if cd[2] == 'd' else cd[2]
                return nd, cho, od
            def v_inline(nd, src=x, dst=y):
                nd, cho, od = via_choice(nd, src, dst)
                return put(nd, dst, (get(nd, dst)[0], cho, od))
            variants.append(('via-inline-choice', v_inline, []))
            # (c') … the colliding alternative is an extension addition of the untagged CHOICE (after its `...`)
            def v_inline_ext(nd, src=x, dst=y):
                nd, cho, od = via_choice(nd, src, dst)
                cho = ('constr', None, 'cho', [cho[3][0]], True, [cho[3][1]])
                return put(nd, dst, (get(nd, dst)[0], cho, od))
            if rng.random() < 0.5:
                variants.append(('via-inline-choice-ext', v_inline_ext, []))
            if rng.random() < 0.3:
                variants.append(('via-inline-choice', lambda nd: v_inline(nd, y, x), []))
            # (d) … through a reference chain X1 -> X2 -> CHOICE, in both role orders (an untagged type reference
            # *followed* by a reference to an untagged CHOICE was the region of the former finding F61)
            for kind, (src, dst) in (('via-ref-chain', (x, y)), ('via-ref-chain-rev', (y, x))):
                def v_ref(nd, src=src, dst=dst):
                    nd, cho, od = via_choice(nd, src, dst)
                    return put(nd, dst, (get(nd, dst)[0], ('ref', None, fresh[0]), od))
                def v_ref_extra(nd, src=src, dst=dst):
                    _, cho, _ = via_choice(nd, src, dst)
                    return [(fresh[0], ('ref', None, fresh[1])), (fresh[1], cho)]
                variants.append((kind, v_ref, v_ref_extra))
            for kind, fn, extra in variants:
                try:
                    M2 = mod_replace(M, ti, path, fn)
                    if extra:
                        M2 = (M2[0], list(M2[1]) + extra(node))
                except Exception:
                    continue
                out.append(('tag:' + kind, '%s %s/%s' % (M[1][ti][0], x, y), M2))

    # --- duplicated identifier
    for ti, path, node in all_nodes(M):
        if node[0] == 'constr':
            cs = node[3] + node[5]
            for i, j in itertools.combinations(range(len(cs)), 2):
                def f(nd, i=i, j=j):
                    cs2 = list(nd[3] + nd[5])
                    cs2[j] = (cs2[i][0],) + tuple(cs2[j][1:])
                    return ('constr', nd[1], nd[2], cs2[:len(nd[3])], nd[4], cs2[len(nd[3]):])
                out.append(('dup-identifier', '%s %d/%d' % (M[1][ti][0], i, j), mod_replace(M, ti, path, f)))
        if node[0] == 'enum':
            its = node[2] + node[4]
            rv, av = Oracle.enum_values(node[2], node[4])
            vals = rv + av
            for i, j in itertools.combinations(range(len(its)), 2):
                def fn(nd, i=i, j=j):
                    its2 = list(nd[2] + nd[4])
                    its2[j] = (its2[i][0], its2[j][1])
                    return ('enum', nd[1], its2[:len(nd[2])], nd[3], its2[len(nd[2]):])
                out.append(('dup-enum-name', '%s %d/%d' % (M[1][ti][0], i, j), mod_replace(M, ti, path, fn)))
                def fv(nd, i=i, j=j):
                    its2 = [(n, v) for (n, _), v in zip(nd[2] + nd[4], vals)]     # all explicit
                    its2[j] = (its2[j][0], vals[i])
                    return ('enum', nd[1], its2[:len(nd[2])], nd[3], its2[len(nd[2]):])
                out.append(('dup-enum-value', '%s %d/%d' % (M[1][ti][0], i, j), mod_replace(M, ti, path, fv)))
        if node[0] == 'ref':
            out.append(('dangling-ref', '%s %s' % (M[1][ti][0], node[2]),
                        mod_replace(M, ti, path, lambda t: ('ref', t[1], 'Undefined9'))))

    # --- dangling by deleting a referenced assignment
    used = {node[2] for _, _, node in all_nodes(M) if node[0] == 'ref'}
    for n in sorted(used):
        M2 = (M[0], [(a, t) for a, t in M[1] if a != n])
        if len(M2[1]) >= 1 and len(M2[1]) < len(M[1]):
            out.append(('dangling-deleted', n, M2))

    # IMPLICIT written on an untagged CHOICE is not a fault of the catalogue: normalise
    out = [(k, d, fix_modes(m)) for k, d, m in out]

    # --- rejection reasons outside the catalogue (correspondence only, not judged by the P leg)
    cands = [(ti, path) for ti, path, node in all_nodes(M)
             if node[1] is not None and orc.untagged_choice(with_tag(node, None))]     # components, top-level types, SEQUENCE OF elements
    rng.shuffle(cands)
    for ti, path in cands[:2]:
        out.append(('other:implicit-choice', M[1][ti][0],
                    mod_replace(M, ti, path, lambda t: with_tag(t, (t[1][0], t[1][1], 'i')))))
    if len(M[1]) >= 2 and rng.random() < 0.5:
        # which of two equally named assignments a reference resolves to depends on the internals of
        # asn1c's hash table (tiny mode: first, bucket mode: most recently used), so only a type
        # without references inside takes the duplicated name: no resolution can create a cycle
        leaf = [j for j, (_, t) in enumerate(M[1]) if not any(n[0] == 'ref' for _, n in walk(t))]
        if leaf:
            j = rng.choice(leaf)
            i = rng.choice([k for k in range(len(M[1])) if k != j])
            types = list(M[1]); types[j] = (types[i][0], types[j][1])
            out.append(('other:dup-type', types[i][0], (M[0], types)))
    if len(out) > limit:
        # keep every fault kind represented
        rng.shuffle(out)
        by = {}
        for f in out:
            by.setdefault(f[0], []).append(f)
        sel = []
        while len(sel) < limit and any(by.values()):
            for k in sorted(by):
                if by[k] and len(sel) < limit:
                    sel.append(by[k].pop())
        out = sel
    return out


# ---------------------------------------------------------------------------------- running asn1c

TAG_RE = re.compile(r'\[(?:(UNIVERSAL|APPLICATION|PRIVATE) )?(\d+)\](?: (IMPLICIT|EXPLICIT))?|([A-Za-z][\w-]*)\((\d+)\)')


def canon_dump_c(text):
    """tags and enumeration values in textual order, from `asn1c -E -F` output"""
    toks = []
    body = text.split('BEGIN', 1)[-1]
    for m in TAG_RE.finditer(body):
        if m.group(2) is not None:
            toks.append('[%s%s]%s' % ((m.group(1) + ' ') if m.group(1) else '', m.group(2),
                                      {'IMPLICIT': 'I', 'EXPLICIT': 'E', None: ''}[m.group(3)]))
        else:
            toks.append('%s=%s' % (m.group(4), m.group(5)))
    return ' '.join(toks) if toks else '-'


class Runner:
    def __init__(self, exe, tmp):
        self.exe, self.tmp = exe, tmp
        self.env = dict(os.environ)
        # the compiler never frees its tree: leak reports are not part of this property
        self.env['ASAN_OPTIONS'] = 'detect_leaks=0:abort_on_error=0'
        self.n = 0

    def run(self, job):
        idx, text = job
        d = os.path.join(self.tmp, 'm%d' % idx)
        out = os.path.join(d, 'out')
        os.makedirs(out)
        src = os.path.join(d, 'm.asn1')
        with open(src, 'w') as fh:
            fh.write(text)
        p = subprocess.run([self.exe, '-S', os.path.join(build.REPO, 'skeletons'), '-D', out, '-no-gen-example', src],
                           stdout=subprocess.PIPE, stderr=subprocess.PIPE, text=True, env=self.env, timeout=120,
                           errors='replace')
        nfiles = sum(len(fs) for _, _, fs in os.walk(out))
        res = {'rc': p.returncode, 'stderr': p.stderr[-1500:], 'stderr_nonempty': bool(p.stderr.strip()),
               'files': nfiles,
               'crash': p.returncode < 0 or 'AddressSanitizer' in p.stderr or 'runtime error' in p.stderr}
        res['verdict'] = 'crash' if res['crash'] else ('accept' if p.returncode == 0 else 'reject')
        if res['verdict'] == 'accept':
            q = subprocess.run([self.exe, '-E', '-F', src], stdout=subprocess.PIPE, stderr=subprocess.PIPE, text=True,
                               env=self.env, timeout=120, errors='replace')
            res['dump'] = canon_dump_c(q.stdout) if q.returncode == 0 else 'EF-failed rc=%d' % q.returncode
        shutil.rmtree(d, ignore_errors=True)
        return res

    def run_all(self, texts):
        with ThreadPoolExecutor(build.JOBS) as ex:
            return list(ex.map(self.run, list(enumerate(texts))))


# ---------------------------------------------------------------------------------- witnesses

def P(k):
    return ('prim', None, k)


def _big_enum(n, dup=None):
    """ENUMERATED with n explicitly numbered items i(i); dup = (i, j): item j repeats the value of item i"""
    items = [('i%d' % k, k) for k in range(n)]
    if dup: items[dup[1]] = ('i%d' % dup[1], dup[0])
    return ('enum', None, items, False, [])


WITNESSES = [
    # id, description, module, what the property demands
    ('enum-numbering-rejects-valid',
     'ENUMERATED {a, b(0)}: X.680 20.3 gives a=1, b=0 (distinct); asn1f_fix_enum numbers a=0 and reports a collision',
     ('E', [('T0', ('enum', None, [('a', None), ('b', 0)], False, []))]), 'accept'),
    ('enum-numbering-accepts-duplicate',
     'ENUMERATED {a(1), b, ..., c(0)}: X.680 20.3 gives b=0, so c(0) repeats a value; asn1f_fix_enum numbers b=2 and accepts',
     ('E', [('T0', ('enum', None, [('a', 1), ('b', None)], True, [('c', 0)]))]), 'reject'),
]

# former witness of the repaired finding F63 (a type defined through itself without an intervening tag: asn1c died by stack
# overflow in _asn1f_compare_tags, now a FATAL diagnostic) and its neighbourhood: ordinary cases, nothing is suppressed.
# The model runs out of fuel on them (`loop`), which its verdict reports as reject: K demands that asn1c rejects too.
def _cho(*alts): return ('constr', None, 'cho', [(n, t, 'm') for n, t in alts], False, [])
FORMER_WITNESSES = [
    ('recursive-untagged-choice-crash', 'T0 ::= CHOICE { a T0, b INTEGER }: alternative a has every tag of T0, including that of b',
     ('E', [('T0', _cho(('a', ('ref', None, 'T0')), ('b', P('int'))))]), 'reject'),
    ('recursive-untagged-choice-implicit', 'the same in an IMPLICIT TAGS module',
     ('I', [('T0', _cho(('a', ('ref', None, 'T0')), ('b', P('int'))))]), 'reject'),
    ('recursive-untagged-choice-mutual', 'T0 ::= CHOICE { a T1, b INTEGER }, T1 ::= CHOICE { c T0, d NULL }',
     ('E', [('T0', _cho(('a', ('ref', None, 'T1')), ('b', P('int')))), ('T1', _cho(('c', ('ref', None, 'T0')), ('d', P('null'))))]), 'reject'),
    ('recursive-untagged-choice-second', 'T0 ::= CHOICE { b INTEGER, a T0 }',
     ('E', [('T0', _cho(('b', P('int')), ('a', ('ref', None, 'T0'))))]), 'reject'),
    ('recursive-untagged-choice-as-member', 'T1 ::= SET { x T0, y BOOLEAN } with the self-containing T0',
     ('E', [('T0', _cho(('a', ('ref', None, 'T0')), ('b', P('int')))),
            ('T1', ('constr', None, 'set', [('x', ('ref', None, 'T0'), 'm'), ('y', P('bool'), 'm')], False, []))]), 'reject'),
]

# former witness of the repaired finding F61 (_asn1f_compare_tags marked the members it compared with TM_RECURSION, and
# asn1f_fetch_tags_impl refuses to follow a marked reference: a clash behind a later reference to an untagged CHOICE was missed)
# with its neighbourhood, incl. (legally) recursive modules
_T2 = _cho(('p', P('int')), ('q', P('null')))
_REC = _cho(('l', ('prim', ('C', 0, 'd'), 'int')), ('n', ('ref', ('C', 1, 'e'), 'R')))     # R ::= CHOICE { l [0] INTEGER, n [1] EXPLICIT R }
FORMER_WITNESSES += [
    ('typeref-then-choice-ref-missed', 'T1 ::= CHOICE { x T0, y T2 } with T0 ::= INTEGER, T2 ::= CHOICE { p INTEGER, q NULL }: x and y.p are both INTEGER',
     ('E', [('T0', P('int')), ('T1', _cho(('x', ('ref', None, 'T0')), ('y', ('ref', None, 'T2')))), ('T2', _T2)]), 'reject'),
    ('choice-ref-then-typeref-found', 'the same pair in the other order',
     ('E', [('T0', P('int')), ('T1', _cho(('y', ('ref', None, 'T2')), ('x', ('ref', None, 'T0')))), ('T2', _T2)]), 'reject'),
    ('typeref-then-choice-ref-disjoint', 'T1 ::= CHOICE { x T0, y T2 } with T0 ::= BOOLEAN: no common tag',
     ('E', [('T0', P('bool')), ('T1', _cho(('x', ('ref', None, 'T0')), ('y', ('ref', None, 'T2')))), ('T2', _T2)]), 'accept'),
    ('typeref-then-choice-ref-set', 'SET { x T0, m BOOLEAN, y T3 }, T3 ::= T2 (chain), T0 ::= NULL: x and y.q are both NULL',
     ('E', [('T0', P('null')), ('T1', ('constr', None, 'set', [('x', ('ref', None, 'T0'), 'm'), ('m', P('bool'), 'm'), ('y', ('ref', None, 'T3'), 'm')], False, [])),
            ('T2', _T2), ('T3', ('ref', None, 'T2'))]), 'reject'),
    ('typeref-then-choice-ref-seq-run', 'SEQUENCE { x T0 OPTIONAL, y T2 }: x and y.p are both INTEGER',
     ('E', [('T0', P('int')), ('T1', ('constr', None, 'seq', [('x', ('ref', None, 'T0'), 'o'), ('y', ('ref', None, 'T2'), 'm')], False, [])), ('T2', _T2)]), 'reject'),
    ('typeref-then-choice-ref-implicit', 'the first witness in an IMPLICIT TAGS module',
     ('I', [('T0', P('int')), ('T1', _cho(('x', ('ref', None, 'T0')), ('y', ('ref', None, 'T2')))), ('T2', _T2)]), 'reject'),
    ('inline-choice-with-recursive-ref-then-same-ref', 'T1 ::= SET { a CHOICE { r R }, b R } with the (legally) recursive R ::= CHOICE { l [0] INTEGER, n [1] EXPLICIT R }',
     ('E', [('R', _REC), ('T1', ('constr', None, 'set', [('a', _cho(('r', ('ref', None, 'R'))), 'm'), ('b', ('ref', None, 'R'), 'm')], False, []))]), 'reject'),
    ('recursive-ref-then-inline-choice', 'T1 ::= SET { b R, a CHOICE { r R } }',
     ('E', [('R', _REC), ('T1', ('constr', None, 'set', [('b', ('ref', None, 'R'), 'm'), ('a', _cho(('r', ('ref', None, 'R'))), 'm')], False, []))]), 'reject'),
    ('recursive-choice-consistent', 'T1 ::= SET { a CHOICE { r R }, b BOOLEAN }: the recursion of R crosses a tag, nothing clashes',
     ('E', [('R', _REC), ('T1', ('constr', None, 'set', [('a', _cho(('r', ('ref', None, 'R'))), 'm'), ('b', P('bool'), 'm')], False, []))]), 'accept'),
    ('typeref-vs-recursive-choice-ref', 'T1 ::= CHOICE { x T0, y R } with T0 ::= [0] BOOLEAN: x and y.l are both [0]',
     ('E', [('R', _REC), ('T0', ('prim', ('C', 0, 'd'), 'bool')), ('T1', _cho(('x', ('ref', None, 'T0')), ('y', ('ref', None, 'R'))))]), 'reject'),
]

# deviations from the standard that do not contradict the property text (documented, K only)
QUIRKS = [
    ('seq-run-across-marker',
     ('E', [('T0', ('constr', None, 'seq', [('a', P('int'), 'o')], True, [('b', P('int'), 'm')]))])),
]


# ---------------------------------------------------------------------------------- the check

def run(ctx, only_modules=None):
    exe = build.build_asn1c()
    ctx.lean()
    ctx.cov['rule'] = ('random fault-free modules over the C11 type algebra (EXPLICIT/IMPLICIT/AUTOMATIC) and their '
                       'single-fault mutants (tag collision at member pairs via same tag / same built-in / nested untagged '
                       'CHOICE / reference chain in both role orders, duplicate identifier, duplicate enumeration name / value, dangling '
                       'reference); distinct = distinct module texts; non-trivial = asn1c reached the semantic checker '
                       '(no syntax error) and the oracle decided the expected verdict')
    rng = ctx.rng
    nbase = int(os.environ.get('VERIF_C11_NBASE', 300 if ctx.quick else 2000))
    per = 14 if ctx.quick else 30
    cases = []     # dict(kind, desc, M)
    if only_modules is not None:
        cases = only_modules
    else:
        seen = set()
        for _ in range(nbase):
            M = gen_fault_free(rng)
            s = module_sexp(M)
            if s in seen:
                continue
            seen.add(s)
            cases.append({'kind': 'fault-free', 'desc': '', 'M': M})
            for k, d, M2 in inject_faults(rng, M, per):
                s2 = module_sexp(M2)
                if s2 in seen:
                    continue
                seen.add(s2)
                cases.append({'kind': k, 'desc': d, 'M': M2})
    for wid, desc, M, want in WITNESSES:
        cases.append({'kind': 'witness:' + wid, 'desc': desc, 'M': M, 'want': want})
    for qid, M in QUIRKS:
        cases.append({'kind': 'quirk:' + qid, 'desc': '', 'M': M})
    for wid, desc, M, want in FORMER_WITNESSES:
        cases.append({'kind': 'former:' + wid, 'desc': desc, 'M': M, 'want': want})

    for c in cases:
        c['sexp'] = module_sexp(c['M'])
        c['text'] = module_asn(c['M'])
        c['oracle'], c['why'] = Oracle(c['M']).verdict()
        c['cyclic'] = looks_through_cycle(c['M'])
    ctx.log('%d module texts (%d fault-free)' % (len(cases), sum(c['kind'] == 'fault-free' for c in cases)))

    tmp = os.path.join(build.CACHE, 'tmp-%d' % os.getpid())
    shutil.rmtree(tmp, ignore_errors=True)
    os.makedirs(tmp)
    try:
        results = Runner(exe, tmp).run_all([c['text'] for c in cases])
    finally:
        shutil.rmtree(tmp, ignore_errors=True)
    ctx.log('asn1c runs done')

    # ---- model
    lines = ['fix ' + c['sexp'] for c in cases] + ['fixdump ' + c['sexp'] for c in cases]
    model_ok = getattr(ctx, 'driver_ok', True)
    if model_ok:
        rc, mout, merr = ctx.run_lines(build.model_exe(), lines)
        if rc != 0 or len(mout) != len(lines):
            raise RuntimeError('model driver failed rc=%s %s' % (rc, merr[-500:]))
    else:
        ctx.broken.append({'kind': 'correspondence', 'name': 'fixer', 'msg': 'Lean driver does not build'})
        mout = ['?'] * len(lines)
    n = len(cases)
    for i, c in enumerate(cases):
        c['res'] = results[i]
        c['model'] = mout[i]
        c['model_dump'] = mout[n + i]

    # ---- K leg
    kstat = {'lines': 0, 'disagreements': 0, 'c_crashes': 0, 'dump_compared': 0, 'dump_disagreements': 0,
             'model_loop': 0, 'in_dom': 0, 'wf': 0, 'fault_free_in_dom_and_wf': 0, 'fault_free': 0}
    kdis = []
    for c in cases:
        r = c['res']
        kstat['lines'] += 1
        mv = c['model'].split()[0] if c['model'] else '?'
        if ' dom=1' in c['model']:
            kstat['in_dom'] += 1
        if ' wf=1' in c['model']:
            kstat['wf'] += 1
        if c['kind'] == 'fault-free':
            kstat['fault_free'] += 1
            if ' dom=1' in c['model'] and ' wf=1' in c['model']:
                kstat['fault_free_in_dom_and_wf'] += 1
        if r['crash']:
            kstat['c_crashes'] += 1
        if mv == 'loop':
            # look-through cycle: the model runs out of fuel and reports reject; asn1c's depth guard in
            # _asn1f_compare_tags (or an earlier check) must reject as well, by exit and not by signal
            kstat['model_loop'] += 1
            if model_ok and (r['crash'] or r['verdict'] != 'reject'):
                kstat['disagreements'] += 1
                kdis.append((c, 'look-through cycle: asn1c=%s%s model=loop (reject)' % (r['verdict'], ' (died)' if r['crash'] else '')))
            continue
        if not model_ok:
            continue
        if mv != r['verdict']:
            kstat['disagreements'] += 1
            kdis.append((c, 'verdict: asn1c=%s model=%s' % (r['verdict'], c['model'])))
            continue
        if r['verdict'] == 'accept':
            kstat['dump_compared'] += 1
            if r.get('dump') != c['model_dump']:
                kstat['dump_disagreements'] += 1
                kdis.append((c, 'fixed tree: asn1c -E -F = %s ; model = %s' % (r.get('dump'), c['model_dump'])))
    ctx.cov['correspondence']['fixer'] = kstat
    ctx.cov['evaluations'] += len(cases)
    ctx.cov['programs'] = len(cases)
    ctx.cov['disagreements_checked'] = kstat['lines'] + kstat['dump_compared']

    # ---- P leg
    pstat = {'cases': 0, 'failures': 0, 'grey': 0, 'by_kind': {}, 'expected_reject': 0, 'expected_accept': 0,
             'proposed_findings': []}
    pfail = []
    for c in cases:
        r = c['res']
        kind = c['kind'].split(':')[0] if c['kind'].startswith('tag:') else c['kind']
        st = pstat['by_kind'].setdefault(c['kind'] if not c['kind'].startswith('witness') else 'witness',
                                         {'n': 0, 'accept': 0, 'reject': 0, 'grey': 0})
        st['n'] += 1
        want = c.get('want', c['oracle'])
        if c['kind'].startswith('quirk') or c['kind'].startswith('other:') or want is None:
            pstat['grey'] += 1; st['grey'] += 1
            continue
        st[want] += 1
        pstat['cases'] += 1
        pstat['expected_' + want] += 1
        why = None
        if r['crash']:
            why = 'asn1c died (signal / sanitizer report) rc=%s' % r['rc']
        elif want == 'accept' and r['verdict'] != 'accept':
            why = 'consistent module rejected (rc=%s)' % r['rc']
        elif want == 'reject':
            if r['verdict'] != 'reject':
                why = 'inconsistent module (%s) accepted' % ','.join(c['why'])
            elif not r['stderr_nonempty']:
                why = 'rejected without a diagnostic'
            elif r['files']:
                why = 'rejected but %d files were written' % r['files']
        if why:
            pstat['failures'] += 1
            pfail.append((c, why))
        if c['kind'] == 'fault-free' or c['oracle'] is not None:
            ctx.count_nontrivial(c['sexp'])
    ctx.cov['predicate']['fixer'] = pstat

    # classification of P failures
    for c, why in pfail:
        if c['kind'].startswith('witness:'):
            wid = c['kind'].split(':', 1)[1]
            f = ctx.match_finding(lambda f: wid in finding_ids(f))
            if not f:
                # a documented defect whose KNOWN_FINDINGS entry has not been committed yet
                pstat['proposed_findings'].append({'id': wid, 'why': why})
                ctx.log('PROPOSED-FINDING (no KNOWN_FINDINGS entry yet): %s: %s' % (wid, why))
            continue
        f = None
        if is_enum_numbering_case(c['M']):
            f = ctx.match_finding(lambda f: any(i.startswith('enum-numbering') for i in finding_ids(f)))
        if f:
            continue
        ctx.violation('C11 predicate fails on asn1c: %s [%s %s]' % (why, c['kind'], c['desc']),
                      {'module': c['text'], 'sexp': c['sexp'], 'kind': c['kind'], 'desc': c['desc'],
                       'oracle': c['oracle'], 'oracle_reasons': c['why'], 'asn1c': c['res'], 'model': c['model'],
                       'why': why})
        if len(ctx.violations) >= 5:
            break
    # witnesses that no longer fail: note it (a fix landed)
    for c in cases:
        if c['kind'].startswith('witness:') and not any(c is x for x, _ in pfail):
            ctx.log('witness %s now satisfies the property (asn1c: %s)' % (c['kind'], c['res']['verdict']))

    for c, what in kdis[:30]:
        ctx.broken.append({'kind': 'correspondence', 'name': 'fixer', 'what': what, 'module': c['text'],
                           'sexp': c['sexp'], 'case': c['kind'] + ' ' + c['desc'],
                           'asn1c_stderr': c['res']['stderr'][-400:]})
    if kdis:
        ctx.log('fixer correspondence: %d disagreements, first: %s\n%s' % (len(kdis), kdis[0][1], kdis[0][0]['text']))

    # distribution + samples
    dist = {'module_default': {}, 'asn1c_verdict': {}, 'oracle': {}, 'model_reasons': {}}
    for c in cases:
        dist['module_default'][c['M'][0]] = dist['module_default'].get(c['M'][0], 0) + 1
        dist['asn1c_verdict'][c['res']['verdict']] = dist['asn1c_verdict'].get(c['res']['verdict'], 0) + 1
        dist['oracle'][str(c['oracle'])] = dist['oracle'].get(str(c['oracle']), 0) + 1
        for t in c['model'].split()[1:]:
            if '=' not in t:
                dist['model_reasons'][t] = dist['model_reasons'].get(t, 0) + 1
    ctx.cov['distribution'].update(dist)
    for j in sorted(set([0, len(cases) // 3, len(cases) // 2, len(cases) - 1])):
        c = cases[j]
        ctx.cov['samples'].append({'kind': c['kind'], 'module': c['text'], 'op': 'fix ' + c['sexp'][:300],
                                   'c': '%s rc=%s files=%s' % (c['res']['verdict'], c['res']['rc'], c['res']['files']),
                                   'model': c['model'], 'oracle': c['oracle']})
    ctx.assumptions += [
        'asn1c is run with ASAN_OPTIONS=detect_leaks=0 (the compiler never frees its tree; leaks are not part of C11)',
        'oracle = vlib/props/c11.py class Oracle (reading of X.680 8, 20, 25.6, 27.3, 29.3, 31.2, 52.7)',
        'modules where readings of X.680 and the property text differ (optional root run before the marker vs extension '
        'additions) are used for the correspondence only',
    ]
    ctx.log('K: %s' % kstat)
    ctx.log('P: cases=%d failures=%d grey=%d' % (pstat['cases'], pstat['failures'], pstat['grey']))


# large enumerations: the table of used values in asn1f_fix_enum grows in steps of 50 entries; a repeated value must be found
# wherever its first occurrence sits (at, before and after every growth step)
FORMER_WITNESSES += [('big-enum-%d-dup-%d-%d' % (n, i, j), 'ENUMERATED with %d items, item %d repeats the value of item %d' % (n, j, i),
                      ('E', [('T0', _big_enum(n, (i, j)))]), 'reject')
                     for n, i, j in [(60, 49, 59), (60, 50, 59), (60, 51, 59), (60, 0, 59), (120, 50, 119), (120, 99, 119), (120, 100, 119),
                                     (120, 101, 119), (120, 102, 119), (160, 150, 159), (160, 151, 159), (160, 152, 159)]]
FORMER_WITNESSES += [('big-enum-%d-distinct' % n, 'ENUMERATED with %d distinct items' % n, ('E', [('T0', _big_enum(n))]), 'accept') for n in (60, 120, 160)]


def finding_ids(f):
    w = f.get('witness', {})
    return set([w['id']] if 'id' in w else []) | set(w.get('ids', []))


def is_enum_numbering_case(M):
    for _, _, node in all_nodes(M):
        if node[0] == 'enum' and Oracle.enum_values(node[2], node[4]) != asn1c_enum_values(node[2], node[4]):
            return True
    return False


def replay(ctx, path):
    r = json.load(open(path))
    exe = build.build_asn1c()
    ctx.lean()
    tmp = os.path.join(build.CACHE, 'tmp-%d' % os.getpid())
    os.makedirs(tmp, exist_ok=True)
    try:
        items = [r] if 'module' in r else [b for b in r.get('broken', []) if 'module' in b]
        res = Runner(exe, tmp).run_all([it['module'] for it in items])
        lines = ['fix ' + it['sexp'] for it in items]
        rc, m, _ = ctx.run_lines(build.model_exe(), lines)
        for it, a, b in zip(items, res, m):
            print('replay:\n' + it['module'])
            print('asn1c:', a['verdict'], 'rc=%s files=%s' % (a['rc'], a['files']), '| model:', b)
            print(a['stderr'][-600:])
    finally:
        shutil.rmtree(tmp, ignore_errors=True)
