"""C14 — structure lifecycle is leak-free and double-free-free after any outcome.

P leg: histories of {decode, decode prefix, decode rest, decode garbage, reset, free, encode, print, check}
on ONE structure pointer of generated modules, executed by harness/ops_gen_c14.c under the allocation ledger
of harness/alloc_wrap.c (ld --wrap), fault-free and with the k-th allocation of a designated step failing.
K leg: the ownership tree dumped from the C structure after every step, the live block set and the
allocator events are fed to the Lean model (Driver/Ops/Lifecycle.lean): closed-world invariant `Exact`,
the FREEMEM sequence predicted by `freeStruct`, the ledger."""
import re, collections, itertools, json
from concurrent.futures import ThreadPoolExecutor
from .. import build, core, genmod, bundle, gfind
from . import c01

WRAP = ["-Wl,--wrap=malloc", "-Wl,--wrap=calloc", "-Wl,--wrap=realloc", "-Wl,--wrap=free", "-rdynamic", "-ldl"]
DRV = ("gen_c14_driver.c", "ops_gen_core.c", "ops_gen_c14.c", "reflect.c", "alloc_wrap.c")
DEC_SYN = ("ber", "uper", "oer", "xer")
ENC_OF = {"ber": "der", "uper": "uper", "oer": "oer", "xer": "xer"}
ENC_SYN = ("der", "uper", "oer", "xer", "cxer")
ALPHABET = "DPRGZFEpc"
RUN_ENV = {"UBSAN_OPTIONS": "print_stacktrace=0:halt_on_error=1"}

SETOF_MODULE = ("W DEFINITIONS AUTOMATIC TAGS ::= BEGIN T ::= SEQUENCE { a INTEGER, c SET OF INTEGER (0..300), "
                "s UTF8String } END")
SETOF_BER = "300e800105a10602012c020103820161"      # a=5, c={300,3}, s="a"

PROPOSED_FINDINGS = [
 {"id": "F21", "property": "C14", "status": "known",
  "what": "SET_OF_encode_xer (CANONICAL-XER) leaks its scratch buffers whenever it fails: `if(tmper.encoded == -1) return tmper;` "
          "and `cb_failed: ASN__ENCODE_FAILED;` leave the function without passing through `cleanup`, so the `encs` array and "
          "the per-element buffers collected so far stay allocated for good (failure = an allocation failure in "
          "SET_OF_encode_xer_callback, or an element that cannot be encoded, e.g. an OBJECT IDENTIFIER with an overflowing arc)",
  "witness": {"module": SETOF_MODULE, "type": "T", "op": f"hist 4 dec:ber:{SETOF_BER};!enc:cxer", "expect": r"enc fail .* live=[1-9]"},
  "matcher": "an `enc:cxer` step that returns failure on a type containing SET OF; ledger live > 0 after the final free",
  "lean_counterexample": "Asn1c.Props.C14.f21_witness_trace_leaks"},
 {"id": "F7", "property": "C14", "status": "known",
  "what": "SET_OF_encode_der (constr_SET_OF.c:481) and SET_OF_encode_uper (:1080) dereference the NULL returned by "
          "SET_OF__encode_sorted when it fails - an allocation inside it fails, or an element cannot be encoded (same site as F7/C07): crash instead of a clean -1",
  "witness": {"module": SETOF_MODULE, "type": "T", "op": f"hist 3 dec:ber:{SETOF_BER};!enc:der", "expect": r"CRASH .*constr_SET_OF\.c:\d+:\d+: runtime error: member access within null pointer"},
  "matcher": "a history with an `enc:der` / `enc:uper` step on a type containing SET OF (allocation failure inside the encoder, or an element "
             "that cannot be encoded, e.g. violating its PER constraint after a BER/OER decode); crash located in constr_SET_OF.c, `struct _el_buffer` NULL"},
 {"id": "F141", "property": "C14", "status": "known",
  "what": "CHOICE_decode_ber never returns on `00 xx` (xx != 00) where the end-of-contents octets of an indefinite-length "
          "tagged CHOICE are expected: the `while(ctx->left < 0)` loop of phase 3 neither advances nor returns when the "
          "first octet is 0 and the second is not (comment says UNREACHABLE) => infinite loop on a 12-octet input "
          "(belongs to C04 'decoding terminates'; seen here because histories decode bit-flipped garbage)",
  "witness": {"module": "W3 DEFINITIONS ::= BEGIN T ::= SEQUENCE { c [0] CHOICE { a NULL, b BOOLEAN } } END", "type": "T",
              "op": "hist -1 dec:ber:3080a080050000ff00000000", "expect": r"HANG step=0 at=\S*CHOICE_decode_ber"},
  "matcher": "a BER decode step that does not return within 2 s, innermost library frames ber_fetch_tag<CHOICE_decode_ber or CHOICE_decode_ber"},
]

# crash signatures of findings that belong to other properties but are met by histories (garbage that decodes to RC_OK is
# printed / checked / re-encoded): (regex on the sanitizer report, finding id in KNOWN_FINDINGS.json)
FOREIGN_PATTERNS = [
    (r"left shift of \d+ by 24 places cannot be represented in type 'int'", "F50"),    # C04: UniversalString (buf[0] << 24), skeleton and generated checker
    (r"OCTET_STRING\.c:\d+:\d+: runtime error: shift exponent \d+ is too large", "F52"),  # C04: BIT STRING unused-bits octet > 7
    (r"stack-overflow .*\bin \w+_constraint\b", "F48"),                                 # C08: generated X_constraint tail-calls itself
]

# ---------------------------------------------------------------- fixed lifecycle module
LC_TEXT = """LC DEFINITIONS ::= BEGIN
Os ::= OCTET STRING
Bs ::= BIT STRING
Str ::= UTF8String
Rec ::= SEQUENCE { v INTEGER, name IA5String OPTIONAL, kids SEQUENCE OF Rec OPTIONAL }
Inner ::= SEQUENCE { inner Ch }
Ch ::= CHOICE { a [0] INTEGER, b [1] Inner, c [2] OCTET STRING, d [3] SEQUENCE OF Ch, e [4] INTEGER (0..100000000000) }
Ext ::= SEQUENCE { a INTEGER (0..255), b OCTET STRING (SIZE(2)) OPTIONAL, ..., c BOOLEAN OPTIONAL, d [7] SEQUENCE OF INTEGER OPTIONAL }
Big ::= SEQUENCE { i INTEGER, r REAL, o OBJECT IDENTIFIER, e ENUMERATED {x,y,z}, s SEQUENCE OF Os, t UTCTime OPTIONAL, w [1] SET OF Str }
St ::= SET { a [0] INTEGER, b [1] UTF8String OPTIONAL, c [2] Rec OPTIONAL }
END"""
LC_TYPES = ["Os", "Bs", "Str", "Rec", "Inner", "Ch", "Ext", "Big", "St"]
LC_VALUES = {
    "Os": ["(os 0102030405060708090a)", "(os -)"],
    "Bs": ["(bs a5c0 6)"],
    "Str": ["(os 68656c6c6f20776f726c64)"],
    "Rec": ["(seq (v (int 1)) (name (os 726f6f74)) (kids (list (seq (v (int 2)) (kids (list (seq (v (int 3)) (name (os 6c656166)))))) (seq (v (int -70000))))))"],
    "Ch": ["(choice b (seq (inner (choice d (list (choice a (int 5)) (choice c (os 0a0b0c)) (choice b (seq (inner (choice e (int 99999999999)))))))))))",
           "(choice c (os 00112233445566778899))"],
    "Ext": ["(seq (a (int 7)) (b (os 0102)) (c (bool t)) (d (list (int 1) (int 70000))))", "(seq (a (int 255)))"],
    "Big": ["(seq (i (int 123456789012)) (r (real 400921fb54442d18)) (o (oid 2a864886f70d)) (e (enum 2)) (s (list (os 0102) (os -) (os 030405))) (t (os 3234303232393132303030305a)) (w (list (os 6161) (os 62))))"],
    "St": ["(set (a (int 5)) (b (os c3a9)) (c (seq (v (int 9)))))"],
}

def tlv_parse(b, pos=0):
    """one TLV at pos: (tag bytes, constructed?, content start, content length, end) or None"""
    try:
        p = pos
        t0 = b[p]; p += 1
        if t0 & 0x1f == 0x1f:
            while b[p] & 0x80: p += 1
            p += 1
        tag = b[pos:p]
        l0 = b[p]; p += 1
        if l0 < 0x80: ln = l0
        elif l0 == 0x80: return None
        else:
            n = l0 & 0x7f
            ln = int.from_bytes(b[p:p + n], "big"); p += n
        if p + ln > len(b): return None
        return tag, bool(t0 & 0x20), p, ln, p + ln
    except IndexError:
        return None

def der_len(n):
    if n < 128: return bytes([n])
    k = (n.bit_length() + 7) // 8
    return bytes([0x80 | k]) + n.to_bytes(k, "big")

STRING_UNIV = {0x04, 0x0c, 0x12, 0x13, 0x16, 0x1a}

def ber_variant(b, depth=0):
    """A valid BER re-encoding of DER bytes: constructed types in indefinite form, universal string TLVs as
    nested constructed strings (exercises the OCTET STRING `_stack` chain).  None if it cannot be parsed."""
    out = bytearray(); pos = 0
    while pos < len(b):
        r = tlv_parse(b, pos)
        if r is None: return None
        tag, cons, cs, ln, end = r
        body = b[cs:end]
        if cons:
            inner = ber_variant(body, depth + 1)
            if inner is None: return None
            out += tag + b"\x80" + inner + b"\x00\x00"
        elif len(tag) == 1 and tag[0] in STRING_UNIV and ln >= 2:
            h = ln // 2
            seg1 = b"\x04" + der_len(h) + body[:h]
            rest = body[h:]
            q = len(rest) // 2
            seg2 = b"\x24\x80" + b"\x04" + der_len(q) + rest[:q] + b"\x24\x80" + b"\x04" + der_len(len(rest) - q) + rest[q:] + b"\x00\x00" + b"\x00\x00"
            out += bytes([tag[0] | 0x20]) + b"\x80" + seg1 + seg2 + b"\x00\x00"
        else:
            out += b[pos:end]
        pos = end
    return bytes(out)

# ---------------------------------------------------------------- histories
def garbage_of(rng, hexv):
    b = bytearray(bytes.fromhex(hexv))
    if not b: return "ff"
    mode = rng.randrange(4)
    if mode == 0 or len(b) < 3:
        i = rng.randrange(len(b)); b[i] ^= 1 << rng.randrange(8)
    elif mode == 1:
        i = rng.randrange(len(b)); b[i] = rng.choice([0x00, 0xff, 0x80, 0x7f, 0x3c, 0x3e])
    elif mode == 2:
        i = rng.randrange(1, len(b)); b = b[:i] + bytes(rng.getrandbits(8) for _ in range(rng.choice([1, 3, 8])))
    else:
        i = rng.randrange(len(b)); j = rng.randrange(len(b)); b[i], b[j] = b[j], b[i]; b[i] ^= 0x40
    return bytes(b).hex()

def make_steps(rng, word, syn, hexv, enc_syns, cut=None):
    n = len(hexv) // 2
    out = []
    for ch in word:
        if ch == "D": out.append(f"dec:{syn}:{hexv}")
        elif ch == "P":
            c = cut if cut is not None else (rng.randrange(1, n) if n > 1 else 0)
            out.append(f"decp:{syn}:{hexv}:{c}")
        elif ch == "R": out.append("decr")
        elif ch == "G": out.append(f"dec:{syn}:{garbage_of(rng, hexv)}")
        elif ch == "Z": out.append("reset")
        elif ch == "F": out.append("free")
        elif ch == "E": out.append("enc:" + rng.choice(enc_syns))
        elif ch == "p": out.append("print")
        elif ch == "c": out.append("check")
    return out

STEP_RE = re.compile(r"^(\w+) (\S+) (\S+) a=(\d+)(?: T=(\S+) L=(\S+) E=(\S+))?(?: live=(\d+) bytes=(\d+) doublefree=(\d+) foreign=(\d+) failed=(\d+) zeroed=(\d) unknown=(\d+))?$")

def parse_hist(o):
    """-> list of step dicts, or None"""
    if o is None or o.startswith("CRASH") or " | " not in o and not o.startswith("end"): return None
    steps = []
    for part in o.split(" | "):
        m = STEP_RE.match(part.strip())
        if not m: return None
        d = {"name": m.group(1), "rc": m.group(2), "consumed": m.group(3), "a": int(m.group(4)),
             "T": m.group(5), "L": m.group(6), "E": m.group(7)}
        if m.group(8) is not None:
            d.update(live=int(m.group(8)), bytes=int(m.group(9)), doublefree=int(m.group(10)), foreign=int(m.group(11)),
                     failed=int(m.group(12)), zeroed=int(m.group(13)), unknown=int(m.group(14)))
        steps.append(d)
    if not steps or "live" not in steps[-1]: return None
    return steps

OK_RC = {"dec": {"ok", "more", "fail", "skip"}, "decp": {"ok", "more", "fail", "skip"}, "decr": {"ok", "more", "fail", "skip"},
         "reset": {"z1", "z0", "skip"}, "free": {"done"}, "end": {"done"}, "enc": {"ok", "fail", "skip"}, "encb": {"ok", "fail", "skip"},
         "print": {"ok", "fail", "skip"}, "printf": {"ok", "fail", "skip"}, "check": {"ok", "fail", "skip"}}

def judge(o):
    """property predicate on one hist output line: None if fine, else a short reason"""
    if o is None: return "no-output"
    if o.startswith("CRASH"): return "crash"
    if "HANG step=" in o: return "hang:" + o.split("at=")[-1][:80]
    if o.startswith("HANG"): return "hang:line-timeout"
    st = parse_hist(o)
    if st is None: return "unparsable"
    for s in st:
        if s["rc"] not in OK_RC.get(s["name"], set()): return f"rc:{s['name']}={s['rc']}"
        if "OVERCONSUMED" in s["consumed"]: return "overconsumed"
        if s["rc"] == "z0": return "not-zeroed"
    e = st[-1]
    if e["live"] != 0: return "leak"
    if e["doublefree"] != 0: return "doublefree"
    if e["foreign"] != 0: return "foreign-free"
    if e["unknown"] != 0: return "dangling-pointer-in-structure"
    if e["zeroed"] != 1: return "not-zeroed"
    return None

def choose_ks(n, cap):
    if n <= cap: return list(range(1, n + 1))
    ks = set(range(1, 6)) | set(range(n - 4, n + 1))
    m = cap - len(ks)
    for i in range(m): ks.add(1 + (i * (n - 1)) // max(1, m - 1))
    return sorted(ks)

def crash_sig(o):
    m = re.search(r"([\w./-]+\.[ch]):(\d+):\d+: runtime error: (.{0,60})", o or "")
    if m: return f"{m.group(1).split('/')[-1]}:{m.group(3)[:50]}"
    m = re.search(r"AddressSanitizer: ([\w-]+)", o or "")
    if m: return "asan:" + m.group(1)
    return (o or "")[:60]

# ---------------------------------------------------------------- running
def run_chunk(ctx, exe, lines, timeout):
    """run_c_bisect with hang isolation: a chunk that exceeds the timeout is split until the hanging line is alone"""
    import subprocess
    try:
        return ctx.run_c_bisect(exe, lines, env=RUN_ENV, timeout=timeout)
    except subprocess.TimeoutExpired:
        if len(lines) == 1: return ["CRASH timeout: no answer within %ds (hang)" % timeout], 1
        mid = len(lines) // 2
        a, ca = run_chunk(ctx, exe, lines[:mid], timeout)
        b, cb = run_chunk(ctx, exe, lines[mid:], timeout)
        return a + b, ca + cb

def run_parallel(ctx, exe, lines, workers=4, chunk=400, timeout=40):
    if not lines: return [], 0
    chunks = [lines[i:i + chunk] for i in range(0, len(lines), chunk)]
    outs = []; crashes = 0
    with ThreadPoolExecutor(workers) as ex:
        for o, c in ex.map(lambda ch: run_chunk(ctx, exe, ch, timeout), chunks):
            outs += o; crashes += c
    return outs, crashes

class Klegs:
    """collects the Lean-side questions derived from C's tree dumps and compares the answers"""
    def __init__(self):
        self.q = {}          # lean line -> (expected, source C line)
    def add(self, lean_line, expected, src):
        self.q.setdefault(lean_line, (expected, src))
    def from_hist(self, line, steps):
        prev = "Z"; evs = []
        for s in steps:
            if s["T"] is None: return
            self.add(f"lc_inv {s['T']} {s['L']}", "ok", line)
            if s["name"] in ("reset", "free", "end") and s["rc"] != "skip":
                fr = [e[1:] for e in s["E"].split(",") if e[0] in "fF"] if s["E"] != "-" else []
                other = [e for e in s["E"].split(",") if e[0] not in "fF"] if s["E"] != "-" else []
                exp = (",".join(fr) if fr else "-") + " " + s["T"]
                if not other:
                    self.add(f"lc_free {'r' if s['name'] == 'reset' else 'e'} {prev}", exp, line)
                else:
                    self.add(f"lc_free {'r' if s['name'] == 'reset' else 'e'} {prev}", "NO-ALLOCATION-DURING-FREE " + exp, line)
            if s["E"] != "-": evs.append(s["E"])
            prev = s["T"]
        e = steps[-1]
        self.add("lc_ledger " + (",".join(evs) if evs else "-"),
                 f"live={e['live']} bytes={e['bytes']} viol={e['doublefree'] + e['foreign']}", line)
    def run(self, ctx):
        if not self.q: return []
        lines = list(self.q)
        rc, outs, err = ctx.run_lines(build.model_exe(), lines)
        if rc != 0 or len(outs) != len(lines):
            raise RuntimeError("model driver failed: rc=%s %s" % (rc, err[-300:]))
        dis = []
        for l, o in zip(lines, outs):
            exp, src = self.q[l]
            if o != exp: dis.append((l, exp, o, src))
        return dis

def is_setof_type(t, env):
    return genmod.contains_kind(t, env, ("SET OF",))

def gen_modules(ctx):
    n = 5 if ctx.quick else 16
    mods = []
    for i in range(n):
        td = [None, "AUTOMATIC", "IMPLICIT", "EXPLICIT"][i % 4]
        g = genmod.Gen(ctx.rng, tagdefault=td, allow_recursion=(i % 2 == 0), max_depth=3)
        mods.append(g.gen_module(f"L{i}", 7 if ctx.quick else 10))
    return mods

def replay_witnesses(ctx):
    local = {f["id"]: f for f in PROPOSED_FINDINGS}
    for f in ctx.findings:
        w = local.get(f["id"], f).get("witness", {})       # the ledger-driver witness of this file where there is one
        if f.get("status") != "known" or "module" not in w: continue
        names = re.findall(r"(\w+)\s*::=", w["module"].split("BEGIN", 1)[1])
        b = bundle.Bundle("w" + f["id"], w["module"], names, driver_sources=DRV, link_flags=WRAP)
        try:
            exe = b.build()
            outs, _ = ctx.run_c_bisect(exe, [f"@{w['type']} {w['op']}"], env=RUN_ENV)
            o = outs[0] or ""
            if re.search(w["expect"], o): ctx.known(f)
            else: ctx.log(f"note: finding {f['id']} no longer reproduces on its witness ({o[-160:]})")
        finally:
            b.cleanup()

def replay(ctx, path):
    r = json.load(open(path))
    names = re.findall(r"^\s*(\w[\w-]*)\s*::=", r["module"], re.M)
    b = bundle.Bundle("replay", r["module"], names, driver_sources=DRV, link_flags=WRAP)
    exe = b.build()
    outs, _ = ctx.run_c_bisect(exe, [r["op"]], env=RUN_ENV)
    print("replay:", r["op"][:300], "=>", str(outs[0])[:1500])
    print("verdict:", judge(outs[0]) if " hist " in r["op"] else outs[0][:40])
    b.cleanup()

# ---------------------------------------------------------------- the check
SETOF2_MODULE = ("W2 DEFINITIONS AUTOMATIC TAGS ::= BEGIN T ::= SEQUENCE { a INTEGER, c SET OF INTEGER (0..300), s UTF8String } "
                 "U ::= SET OF SEQUENCE { x UTF8String, y INTEGER } END")
SETOF2_CASES = [("T", SETOF_BER), ("U", "311c300c800568656c6c6f8103010001300c8005776f726c64810300ffff")]

def directed_setof_encode_failures(ctx):
    """every allocation of every encoder of a SET OF value fails in turn (exhaustively, not sampled): the call must fail or succeed
    cleanly and the final free must leave nothing live (the sorting encoders - DER, canonical UPER / OER / XER - keep per-element
    scratch buffers; the repaired findings F7, F21, F23 and their neighbours live here)"""
    b = bundle.Bundle("W2", SETOF2_MODULE, ["T", "U"], driver_sources=DRV, link_flags=WRAP)
    try:
        exe = b.build()
    except Exception as e:
        ctx.module_not_built({"name": "W2-directed"}, e); b.cleanup(); return
    bad = []; n = 0
    try:
        lines = []
        for tn, ber in SETOF2_CASES:
            for syn in ENC_SYN:
                base = f"@{tn} hist 0 dec:ber:{ber};enc:{syn}"
                o = run_parallel(ctx, exe, [base])[0][0]
                st = parse_hist(o) if o else None
                na = st[1]["a"] if st and len(st) > 1 else 0
                for k in range(1, min(na, 200) + 1):
                    lines.append(f"@{tn} hist {k} dec:ber:{ber};!enc:{syn}")
        outs, _ = run_parallel(ctx, exe, lines)
        for l, o in zip(lines, outs):
            n += 1; ctx.cov["evaluations"] += 1
            why = judge(o)
            if why: bad.append((l, o, why))
            else: ctx.count_nontrivial(("setof-encfail", l))
    finally:
        b.cleanup()
    ctx.cov["predicate"]["directed_setof_encode_failures"] = {"cases": n, "failures": len(bad)}
    for l, o, why in bad[:3]:
        ctx.violation(f"C14 lifecycle predicate fails on C ({why}) under an allocation failure inside a SET OF encoder: {l[:200]} -> {str(o)[:300]}",
                      {"module": SETOF2_MODULE, "type": l.split()[0][1:], "op": l, "c_output": str(o)[:3000], "failure": why})

def run(ctx):
    have = {f["id"] for f in ctx.findings}
    for f in PROPOSED_FINDINGS:
        if f["id"] not in have:
            ctx.findings.append(f)
            ctx.assumptions.append(f"finding {f['id']} (property C14) is not in KNOWN_FINDINGS.json yet; using the proposed entry embedded in vlib/props/c14.py")
    ctx.assumptions += [
        "API-conforming histories only: a decode is issued into a NULL / freshly RESET structure, or continues after RC_WMORE of a restartable syntax (BER, XER, OER); encode/print/check are issued only while the structure holds a completely decoded value (last decode RC_OK, no RESET since); the harness reports other such steps as `skip` (what encoders do with half-built structures belongs to C04/C07)",
        "allocation sites and their order are observed through the malloc/calloc/realloc/free ledger (ld --wrap), not verified; ASan/UBSan/LSan observe memory errors on the sampled histories only",
        "K leg: the ownership tree is read from the C structure by harness/ops_gen_c14.c (descriptor walk, private copy of OCTET_STRING.c's struct _stack layout)"]
    ctx.lean()
    replay_witnesses(ctx)
    directed_setof_encode_failures(ctx)
    # sanitizer findings owned by other properties: a crash whose report matches the narrow pattern of such an entry
    # (and only while the entry is listed in KNOWN_FINDINGS.json) is reported under that entry, not as a C14 violation
    foreign = [f for f in core.load_findings() if f.get("status") == "known" and f["id"] in {fid for _, fid in FOREIGN_PATTERNS}]
    rng = ctx.rng
    quick = ctx.quick
    fails = collections.Counter(); samples = {}; known_hits = collections.Counter()
    skipped = collections.Counter(); dist = collections.Counter()
    kl = Klegs()
    total = 0; built = 0; nfail_runs = 0; ninjected = 0
    ev_samples = []
    lc = {"name": "LC", "text": LC_TEXT, "types": None}
    mods = [lc] + gen_modules(ctx)
    full_budget = 4 if quick else 10            # (type, value, syntax) combinations enumerated exhaustively
    maxlen_full = 3 if quick else 4
    kcap = 40 if quick else 400
    for m in mods:
        if m is lc:
            txt = LC_TEXT; tnames = LC_TYPES; env = None
        else:
            txt = genmod.module_text(m); env = dict(m["types"]); tnames = [n for n, _ in m["types"]]
        b = bundle.Bundle(m["name"], txt, tnames, driver_sources=DRV, link_flags=WRAP)
        try:
            exe = b.build()
        except bundle.Asn1cFailed as e:
            ctx.log("asn1c rejected generated module:", e.out.strip().split("\n")[0][:160]); b.cleanup(); continue
        except build.BuildError as e:
            ctx.log("module does not build:", str(e)[:200]); b.cleanup(); continue
        built += 1
        # ---- values and their encodings
        cases = []          # (type name, value sexp, feats, has_setof)
        if m is lc:
            for tn in LC_TYPES:
                for sx in LC_VALUES.get(tn, []):
                    cases.append((tn, sx, set(), tn in ("Big",)))
        else:
            vg = genmod.ValGen(rng, env)
            for tn, t in m["types"]:
                vs = vg.values(t, 4 if quick else 8)
                pick = [vs[0]] + ([vs[-1]] if len(vs) > 1 else [])
                if not quick and len(vs) > 3: pick.append(vs[len(vs) // 2])
                for v in pick:
                    sx = genmod.val_sexp(t, v, env)
                    if len(sx) > 3000: continue
                    cases.append((tn, sx, gfind.features(t, env), is_setof_type(t, env)))
        enc_lines = []; enc_meta = []
        for ci, (tn, sx, feats, so) in enumerate(cases):
            for syn in DEC_SYN:
                es = ENC_OF[syn]
                if c01.skip_region(es, feats, skipped): continue
                enc_lines.append(f"@{tn} enc {es} {sx}"); enc_meta.append((ci, syn))
        eouts, _ = ctx.run_c_bisect(exe, enc_lines, env=RUN_ENV)
        encs = collections.defaultdict(dict)
        for (ci, syn), o in zip(enc_meta, eouts):
            if o and o.startswith("ok ") and o.split()[1] != "-" and len(o) < 6000:
                encs[ci][syn] = o.split()[1]
        # ---- histories
        hist = []           # dicts: tn, syn, steps(list), full(bool), so
        nfull = 0
        for ci, (tn, sx, feats, so) in enumerate(cases):
            ok_enc = [s for s in ENC_SYN if not c01.skip_region(s, feats, collections.Counter())] or ["der"]
            for syn, hx in encs[ci].items():
                variants = [hx]
                if syn == "ber":
                    bv = ber_variant(bytes.fromhex(hx))
                    if bv and bv.hex() != hx: variants.append(bv.hex())
                for vi, hv in enumerate(variants):
                    n = len(hv) // 2
                    words = []
                    full = nfull < full_budget and (m is lc or rng.random() < 0.3) and n <= 80 and vi == len(variants) - 1
                    if full:
                        nfull += 1
                        for L in range(1, maxlen_full + 1):
                            words += ["".join(w) for w in itertools.product(ALPHABET, repeat=L)]
                    else:
                        words += ["DZD", "DEpcF", "GZD", "PZDE", "DEEEEE"]
                    for _ in range(4 if quick else 12):
                        words.append("".join(rng.choice(ALPHABET) for _ in range(rng.choice([4, 5, 6] if quick else [4, 5, 6, 8]))))
                    for w in words:
                        hist.append({"tn": tn, "syn": syn, "steps": make_steps(rng, w, syn, hv, ok_enc), "full": full, "so": so, "word": w})
                    # decode of every-so-often truncated prefix, then the rest
                    ncuts = min(n - 1, 12 if quick else 64) if n > 1 else 0
                    for j in range(ncuts):
                        cut = 1 + (j * (n - 1)) // max(1, ncuts)
                        w = "PR" + rng.choice(["", "E", "ZD", "p"])
                        hist.append({"tn": tn, "syn": syn, "steps": make_steps(rng, w, syn, hv, ok_enc, cut=cut), "full": False, "so": so, "word": w})
        # ---- phase 1: fault-free, with trees
        l1 = [f"@{h['tn']} hist -1t " + ";".join(h["steps"]) for h in hist]
        o1, _ = run_parallel(ctx, exe, l1)
        def known_of(line, o, why, h):
            """the known finding (id) whose narrow matcher this failing line satisfies, or None"""
            if why == "crash":
                if crash_sig(o).startswith("constr_SET_OF.c:member access within null pointer") and h.get("so") \
                   and re.search(r"enc:(der|uper)", line): return "F7"
                for pat, fid in FOREIGN_PATTERNS:      # findings owned by C04 / C08 met on the way (see FOREIGN_PATTERNS)
                    if re.search(pat, o) and any(f["id"] == fid for f in foreign): return fid
                return None
            if why.startswith("hang:"):
                if re.match(r"hang:(ber_fetch_tag<)?CHOICE_decode_ber<", why) and ":ber:" in line: return "F141"
                return None
            if why == "leak" and h.get("so"):
                st = parse_hist(o); specs = line.split(" ", 3)[3].split(";")
                if st and any(x["name"] == "enc" and x["rc"] == "fail" and sp.lstrip("!") == "enc:cxer" for x, sp in zip(st, specs)):
                    return "F21"
            return None
        def record(line, o, why, h):
            """returns True when the failure is a known finding (the line is then kept away from the K leg as well)"""
            fid = known_of(line, o, why, h)
            if fid:
                known_hits[fid] += 1
                return True
            kind = why if why != "crash" else "crash:" + crash_sig(o)
            fails[kind] += 1
            samples.setdefault(kind, {"module": txt, "type": h["tn"], "op": line, "c_output": (o or "")[:1500], "failure": kind})
            return False
        fvr = []
        for h, line, o in zip(hist, l1, o1):
            total += 1
            why = judge(o)
            if why:
                kn = record(line, o, why, h); h["base"] = None
                st = parse_hist(o)
                if st and not kn: kl.from_hist(line, st)        # the model is asked as well: which leg sees it is reported
                continue
            st = parse_hist(o)
            h["base"] = st
            kl.from_hist(line, st)
            sig = (h["tn"], h["syn"], h["word"], tuple((s["rc"], s["a"] > 0) for s in st))
            if any(s["a"] > 0 for s in st): ctx.count_nontrivial(sig)
            for s in st: dist[f"{s['name']}:{s['rc']}"] += 1
            if len(ev_samples) < 4 and len(line) < 500: ev_samples.append({"op": line, "c": o[:600]})
        # ---- phase 2: the k-th allocation of a designated step fails
        l2 = []; m2 = []
        for h in hist:
            st = h.get("base")
            if not st: continue
            if not h["full"] and len(h["word"]) > 3 and rng.random() < (0.5 if quick else 0.0): continue
            if h["full"] and len(h["word"]) == 3 and quick and rng.random() < 0.8: continue
            budget = kcap
            for i, s in enumerate(st[:-1]):
                if s["a"] == 0: continue
                stepname = h["steps"][i]
                ks = choose_ks(s["a"], max(6, budget // max(1, sum(1 for x in st[:-1] if x["a"] > 0))))
                for k in ks:
                    steps = list(h["steps"]); steps[i] = "!" + steps[i]
                    withtree = rng.random() < 0.15
                    l2.append(f"@{h['tn']} hist {k}{'t' if withtree else ''} " + ";".join(steps)); m2.append(h)
        o2, cr2 = run_parallel(ctx, exe, l2)
        for h, line, o in zip(m2, l2, o2):
            total += 1; nfail_runs += 1
            why = judge(o)
            if why:
                kn = record(line, o, why, h)
                st = parse_hist(o)
                if st and st[0]["T"] is not None and not kn: kl.from_hist(line, st)
                continue
            st = parse_hist(o)
            if st[-1]["failed"]: ninjected += 1
            armed = next((s for s, raw in zip(st, line.split(" ", 3)[3].split(";")) if raw.startswith("!")), None)
            if armed: dist[f"under-failure:{armed['name']}:{armed['rc']}"] += 1
            if st[0]["T"] is not None: kl.from_hist(line, st)
            if st[-1]["failed"]:
                ctx.count_nontrivial((h["tn"], h["syn"], h["word"], "fail", line.split()[2], tuple(s["rc"] for s in st)))
        # ---- fresh vs reset
        l3 = []; m3 = []
        for ci, (tn, sx, feats, so) in enumerate(cases):
            for syn, hx in encs[ci].items():
                n = len(hx) // 2
                firsts = [garbage_of(rng, hx) for _ in range(2 if quick else 6)]
                if n > 1: firsts += [hx[:2 * (1 + (j * (n - 1)) // 4)] for j in range(4)]
                firsts.append(hx)
                for f1 in firsts:
                    l3.append(f"@{tn} fresh_vs_reset {syn} {hx} {f1}"); m3.append({"tn": tn, "syn": syn})
        o3, _ = run_parallel(ctx, exe, l3)
        for h, line, o in zip(m3, l3, o3):
            total += 1
            why = None
            if o is None or o.startswith("CRASH"): why = "crash"
            elif "HANG step=" in o: why = "hang:" + o.split("at=")[-1][:80]
            elif o.startswith("HANG"): why = "hang:line-timeout"
            elif not o.startswith("same "): why = "reset-differs-from-fresh"
            elif " zeroed=1 " not in o + " ": why = "not-zeroed"
            elif not o.endswith("live=0 doublefree=0"): why = "leak"
            if why: record(line, o, why if why == "crash" or why.startswith("hang:") else "fvr:" + why, h)
            else: ctx.count_nontrivial(("fvr", h["tn"], h["syn"], o.split()[1]))
        ctx.log(f"module {m['name']}: {len(cases)} values, {len(hist)} histories, {len(l2)} allocation-failure runs ({cr2} crashes), {len(l3)} fresh-vs-reset")
        b.cleanup()
    # ---- K leg
    dis = kl.run(ctx)
    ctx.cov["correspondence"]["lifecycle"] = {"lines": len(kl.q), "disagreements": len(dis),
                                              "what": "lc_inv (closed-world ownership invariant on C's structure dump), lc_free (FREEMEM order and resulting structure), lc_ledger"}
    ctx.cov["disagreements_checked"] = len(kl.q)
    ctx.cov["samples"] += ev_samples
    for l, exp, got, src in dis[:5]:
        ctx.log("K DISAGREE", l[:200], "| expected from C's run:", exp[:200], "| model:", got[:200])
    if dis:
        ctx.broken.append({"kind": "correspondence", "name": "lifecycle", "first": {"lean_op": dis[0][0][:2000], "c_expected": dis[0][1][:2000],
                           "model": dis[0][2][:2000], "c_line": dis[0][3][:2000]}, "count": len(dis)})
    # ---- classification
    ctx.cov["evaluations"] += total + len(kl.q)
    ctx.cov["programs"] = built
    ctx.cov["predicate"]["lifecycle"] = {"modules_built": built, "histories_and_runs": total, "allocation_failure_runs": nfail_runs,
                                         "failures_injected": ninjected, "failure_classes": dict(fails), "skipped_known_regions": dict(skipped)}
    ctx.cov["distribution"] = dict(dist)
    ctx.cov["rule"] = ("generated modules + a fixed lifecycle module x values x {BER (DER and constructed/indefinite variant), UPER, OER, XER}: "
                       "histories over {D decode, P prefix, R rest, G garbage, Z reset, F free, E encode, p print, c check} "
                       "(all words up to the tier's length for a few (type,value,syntax), fixed + random longer words and prefix/rest at "
                       "evenly spaced cuts for the others), each run fault-free and with the k-th allocation of each allocating step failing; "
                       "non-trivial = the run allocated, and for failure runs the failure was actually injected; distinct by (type, syntax, word, outcomes)")
    for fid, n in sorted(known_hits.items()):
        fd = next((x for x in ctx.findings + foreign if x["id"] == fid), None)
        if fd: ctx.known(fd)
        ctx.log(f"known finding {fid}: {n} runs matched")
    ctx.cov["predicate"]["lifecycle"]["known_finding_runs"] = dict(known_hits)
    nviol = 0
    for kind, n in fails.most_common(20):
        s = samples[kind]
        ctx.log("FAIL", n, kind, "|", s["type"], s["op"][:160], "=>", s["c_output"][-200:])
        if nviol < 5:
            nviol += 1
            ctx.violation(f"C14 lifecycle predicate fails on C ({kind}) for type {s['type']}: {s['op'][:200]} -> {s['c_output'][-160:]}",
                          dict(s, count_in_class=n))
