"""C13 — code-generation options never change the wire format.

L: Props/C13.lean (native vs wide INTEGER/ENUMERATED codec paths, ATF_POINTER, names).
K: harness/c13_driver (real NativeInteger/INTEGER/NativeEnumerated/ENUMERATED codecs) vs Impl/Native.lean.
P: the same generated module built under several option sets; the same value lines go to every
   build (reflection loader); encodings must be byte-identical, every build must decode every
   encoding to the same result, descriptor dumps may differ only where the options allow.
"""
import os, re, collections, itertools, json
from concurrent.futures import ThreadPoolExecutor
from .. import build, core, genmod, bundle, sexp, gfind, c10_compile
from . import c01, c16

SYNTAXES = ("der", "uper", "oer", "xer", "cxer")
BASE = ("-no-gen-example", "-fcompound-names")
WIDE, INDIRECT, NOCONS, NODEPS, QUOTED = "-fwide-types", "-findirect-choice", "-fno-constraints", "-fno-include-deps", "-fincludes-quoted"
NOPER, NOOER = "-no-gen-PER", "-no-gen-OER"
REPR6 = [WIDE, INDIRECT, NOCONS, NODEPS, QUOTED, NOPER]      # the six toggles enumerated exhaustively in the thorough tier

DRIVER = ("gen_c13_driver.c", "ops_gen_core.c", "ops_gen_c13.c", "reflect.c")

# ---------------------------------------------------------------------------------- option sets
def option_sets(ctx, thorough_all=False):
    """list of tuples of extra options (BASE is always added, except for the 'no-compound' variant)"""
    if thorough_all:
        sets = []
        for r in range(len(REPR6) + 1):
            for c in itertools.combinations(REPR6, r):
                sets.append(tuple(c))
        sets.append((NOOER,)); sets.append((WIDE, INDIRECT, NOOER))
        return sets
    sets = [(), (WIDE,), (INDIRECT,), (NOCONS,), (NODEPS,), (QUOTED,), (NOPER,), (NOOER,)]
    pool = [WIDE, INDIRECT, NOCONS, NODEPS, QUOTED, NOPER, NOOER]
    sets.append((WIDE, INDIRECT))
    for _ in range(2):
        k = ctx.rng.randrange(2, 6)
        s = tuple(o for o in pool if o in set(ctx.rng.sample(pool, k)))
        if s not in sets: sets.append(s)
    return sets

def syn_ok(opts, syn):
    if syn == "uper" and NOPER in opts: return False
    if syn == "oer" and NOOER in opts: return False
    return True

# ---------------------------------------------------------------------------------- former region of finding F75 (repaired; used for the coverage statistics)
def alpha_disjoint(t, env, seen=()):
    """does t contain a string type whose permitted alphabet is a union of >= 2 disjoint ranges?  (asn1c then needs
    the value2code/code2value maps; -fno-constraints used to drop them with the constraint-checking code: former finding F75)"""
    k = t["k"]
    if k == "REF":
        return False if t["name"] in seen else alpha_disjoint(env[t["name"]], env, seen + (t["name"],))
    if k in ("SEQUENCE", "SET", "CHOICE"): return any(alpha_disjoint(c["type"], env, seen) for c in t["comps"])
    if k in ("SEQUENCE OF", "SET OF"): return alpha_disjoint(t["elem"], env, seen)
    chars = set()
    if t.get("alpha"):
        for a in t["alpha"]:
            if isinstance(a, tuple): chars.update(range(ord(a[0]), ord(a[1]) + 1))
            else: chars.add(ord(a))
    elif k == "NumericString" and t.get("size"):
        chars = set(map(ord, " 0123456789"))      # the implicit alphabet of a NumericString that gets its own PER constraint
    return sum(1 for c in chars if c - 1 not in chars) >= 2

def ext_unsigned_integer(t, env, seen=()):
    """does t contain an INTEGER (lb..MAX, ...), lb >= 0, i.e. an EXTENSIBLE unsigned range?  Natively an unsigned long with
    field_unsigned; under -fwide-types an INTEGER_t WITHOUT field_unsigned (asn1c_type_fits_long gives up on an extensible range
    under -fwide-types, and an extension value may be negative), so values >= 2^63 still go through asn_INTEGER2long /
    asn_INTEGER2imax there: the remainder of F172 / F173 (repaired for the non-extensible range), proposed findings F174 / F175"""
    k = t["k"]
    if k == "REF":
        return False if t["name"] in seen else ext_unsigned_integer(env[t["name"]], env, seen + (t["name"],))
    if k in ("SEQUENCE", "SET", "CHOICE"): return any(ext_unsigned_integer(c["type"], env, seen) for c in t["comps"])
    if k in ("SEQUENCE OF", "SET OF"): return ext_unsigned_integer(t["elem"], env, seen)
    c = t.get("cons") if k == "INTEGER" else None
    return bool(c and c["ext"] and c["lo"] is not None and c["lo"] >= 0 and c["hi"] is None)

def explicit_ulong_member(t, env, tagdefault, seen=()):
    """does t contain a member `[n] EXPLICIT INTEGER (lb..MAX)` (lb >= 0)?  Natively an unsigned long with its own
    descriptor whose tags[] already contain [n] while the member table says tag_mode=+1: the tag is written twice;
    with -fwide-types the shared INTEGER descriptor is used and the tag is written once (F77)."""
    k = t["k"]
    if k == "REF":
        return False if t["name"] in seen else explicit_ulong_member(env[t["name"]], env, tagdefault, seen + (t["name"],))
    if k in ("SEQUENCE", "SET", "CHOICE"):
        for c in t["comps"]:
            ct = c["type"]
            tg = ct.get("tag")
            if ct["k"] == "INTEGER" and tg and ct.get("cons") and ct["cons"]["lo"] is not None and ct["cons"]["lo"] >= 0 and ct["cons"]["hi"] is None:
                mode = tg[2] or ("IMPLICIT" if tagdefault in ("IMPLICIT", "AUTOMATIC") else "EXPLICIT")
                if mode == "EXPLICIT": return True
            if explicit_ulong_member(ct, env, tagdefault, seen): return True
        return False
    if k in ("SEQUENCE OF", "SET OF"): return explicit_ulong_member(t["elem"], env, tagdefault, seen)
    return False

def known_region(st, env, tn, syn, opts):
    # (former region F77 — `[n] EXPLICIT INTEGER (lb..MAX)` tagged twice natively, once under -fwide-types — is repaired
    #  together with F49 and compared like everything else; so is former region F76 — BASIC-XER of a SET with a DEFAULT 0
    #  INTEGER/ENUMERATED member, inline natively and a NULL pointer under -fwide-types: SET_encode_xer now writes the default
    #  value of an absent member like SEQUENCE_encode_xer)
    return False

_INT_ATOM = re.compile(r"\(int (\d{19,})\)")
def holds_ge_2_63(sx):
    """does the value hold an INTEGER >= 2^63?  (a native `unsigned long` can, e.g. INTEGER (0..MAX))"""
    return any(int(x) >= (1 << 63) for x in _INT_ATOM.findall(sx))

def known_value_region(st, env, tn, syn, opts, sx):
    """F172 / F173 are repaired for INTEGER (lb..MAX): its -fwide-types descriptor has field_unsigned like the native one.  What is
    left is the EXTENSIBLE unsigned range (see ext_unsigned_integer) holding 2^63 or more under -fwide-types"""
    if WIDE in opts and holds_ge_2_63(sx) and ext_unsigned_integer(env[tn], env):
        if syn == "uper": st.skipped["F174"] += 1; return True
        if syn in ("xer", "cxer"): st.skipped["F175"] += 1; return True
    return False

# ---------------------------------------------------------------------------------- module transforms
def has_constraint(t):
    return bool(t.get("cons") or t.get("size") or t.get("alpha"))

def hoist_member_constraints(m):
    """Every constrained type below the top level becomes a named top-level type (so that no
    *member* carries a constraint: the only shape with which -fno-constraints compiled before finding F74 was repaired; kept
    as a module variant)."""
    new_types = []
    n = [0]
    def walk(t, top):
        k = t["k"]
        t = dict(t)
        if k in ("SEQUENCE", "SET", "CHOICE"):
            t["comps"] = [dict(c, type=walk(c["type"], False)) for c in t["comps"]]
        elif k in ("SEQUENCE OF", "SET OF"):
            t["elem"] = walk(t["elem"], False)
        if not top and k != "REF" and has_constraint(t):
            n[0] += 1
            name = f"K{n[0]}"
            tag = t.pop("tag", None)
            new_types.append((name, t))
            r = {"k": "REF", "name": name}
            if tag: r["tag"] = tag
            return r
        return t
    out = []
    for name, t in m["types"]:
        t2 = walk(t, True)
        out.extend(new_types); new_types.clear()
        out.append((name, t2))
    return dict(m, types=out)

# ---------------------------------------------------------------------------------- descriptor canonicaliser
KIND_CANON = {"nint": "int", "nenum": "enum", "nreal": "real"}
LEAF_KINDS = ("int", "enum", "real")

class Erase:
    """which *allowed* differences to erase before comparing two descriptor dumps"""
    def __init__(self, opts):
        self.wide = WIDE in opts          # native/wide kinds, field_unsigned-only specifics, own vs shared leaf descriptors
        self.indirect = INDIRECT in opts  # ATF_POINTER of CHOICE members
        self.noper = NOPER in opts        # PER constraint records, CHOICE canonical-order tables
        self.nooer = NOOER in opts        # OER constraint records
        self.nocons = NOCONS in opts      # (value2code/code2value presence is judged on the encodings: former finding F75)

def _field(sx, name):
    return next((e for e in sx if isinstance(e, list) and e and e[0] == name), None)

def _unsigned_only_spec_erasable(spec, per, er):
    """a specifics record that says nothing but field_unsigned.  Natively every INTEGER kept in an unsigned long has one; under
    -fwide-types the INTEGER_t of a non-extensible (lb..MAX) range has it too since the repair of F172 / F173 (and (0..4294967295)
    always had), so it is compared; what may still differ is the EXTENSIBLE range (proposed F174 / F175: the -fwide-types
    descriptor has no specifics) - and a build without PER tables does not tell whether the range is extensible"""
    flat = [x for x in spec[1:] if not isinstance(x, list)]
    maps = [x for x in spec[1:] if isinstance(x, list)]
    if not (all(not mm for mm in maps) and "strict=0" in flat and "ext=0" in flat): return False
    if "unsigned=0" in flat or er.noper: return True
    if per is None or len(per) < 2 or not isinstance(per[1], list): return True
    try: return bool(int(per[1][0]) & 4)       # APC_EXTENSIBLE
    except ValueError: return True

def _canon_ec(e, er):
    """(per ...) / (oer ...) record -> canonical, or None when erased"""
    if e[0] == "per":
        if er.noper: return None
        if er.nocons: return [x for x in e if not (isinstance(x, str) and x.startswith("maps="))]
    if e[0] == "oer" and er.nooer: return None
    return e

def canon_descr(sx, er, parent_kind=None):
    if not isinstance(sx, list) or not sx: return sx
    head = sx[0]
    if head == "type":
        # (type NAME xml=X KIND (tags) (alltags) (per) (oer) [(spec)] (members))
        kind = sx[3]
        ckind = KIND_CANON.get(kind, kind) if er.wide else kind
        out = ["type", sx[1], sx[2], ckind]
        for e in sx[4:]:
            if isinstance(e, list) and e:
                if e[0] in ("per", "oer"):
                    e = _canon_ec(e, er)
                    if e is None: continue
                elif e[0] == "spec":
                    if er.wide and ckind == "int" and _unsigned_only_spec_erasable(e, _field(sx, "per"), er): continue
                    e = [x for x in e if not (isinstance(x, list) and x and ((x[0] == "canon" and er.noper) or (x[0] == "omsinfo" and er.noper and er.nooer)))]
                elif e[0] == "members":
                    e = ["members"] + [canon_descr(mm, er, kind) for mm in e[1:]]
            out.append(e)
        return out
    if head == "m":
        # (m NAME flags= opt= tag= mode= default= (per) (oer) (type|ref))
        ty = sx[-1]
        tkind = ty[3] if isinstance(ty, list) and ty and ty[0] == "type" else None
        ckind = KIND_CANON.get(tkind, tkind)
        out = []
        leaf = er.wide and ckind in LEAF_KINDS
        for e in sx[:-1]:
            if isinstance(e, str) and e.startswith("flags=") and ((er.indirect and parent_kind == "choice") or leaf):
                # ATF_POINTER: CHOICE members under -findirect-choice; DEFAULT-valued native INTEGER/ENUMERATED members are
                # inline while their wide counterparts are pointers
                e = "flags=%d" % (int(e[6:]) & ~1)
            if isinstance(e, str) and leaf and (e.startswith("tag=") or e.startswith("mode=")): continue
            if isinstance(e, list) and e and e[0] in ("per", "oer"):
                if leaf:
                    if len(e) == 2 and e[1] == "-": e = _field(ty, e[0]) or e       # effective constraint: the member's, else the type's
                e = _canon_ec(e, er)
                if e is None: continue
            out.append(e)
        if leaf:
            # a leaf INTEGER/ENUMERATED/REAL member may use the shared descriptor or an own one carrying the tag:
            # compare the effective tag chain, kind and enumeration map
            tag = next(e for e in sx if isinstance(e, str) and e.startswith("tag="))[4:]
            mode = int(next(e for e in sx if isinstance(e, str) and e.startswith("mode="))[5:])
            ttags = _field(ty, "tags")[1]
            eff = list(ttags) if mode == 0 else [tag] + list(ttags[1:] if mode == -1 else ttags)
            spec = _field(ty, "spec")
            if spec is not None and ckind == "int":
                mper = _field(sx, "per")
                if mper is None or (len(mper) == 2 and mper[1] == "-"): mper = _field(ty, "per")
                if _unsigned_only_spec_erasable(spec, mper, er): spec = None
            out.append(["leaf", ckind, ["efftags"] + eff, spec])
        else:
            out.append(canon_descr(ty, er))
        return out
    return sx

def descr_diff(a, b, path=""):
    """first difference between two canonical descriptor trees, as a short string"""
    if a == b: return None
    if isinstance(a, list) and isinstance(b, list):
        here = path
        if a and isinstance(a[0], str) and a[0] in ("type", "m") and len(a) > 1 and isinstance(a[1], str): here = path + "/" + a[1]
        if len(a) != len(b):
            return f"{here}: {len(a)} vs {len(b)} fields ({_short(a)} | {_short(b)})"
        for x, y in zip(a, b):
            d = descr_diff(x, y, here)
            if d: return d
    return f"{path}: {_short(a)} vs {_short(b)}"

def _short(x):
    if x is None: return "-"
    s = x if isinstance(x, str) else "(" + " ".join(_short(y) if not isinstance(y, list) else "(..)" for y in x[:6]) + ")"
    return s[:80]

# ---------------------------------------------------------------------------------- building
def build_many(jobs, workers=8):
    """jobs: list of (name, text, type_names, opts).  Returns list of (bundle, exe | exception)."""
    build.build_asn1c(); build.build_skel("asan")
    def one(j):
        name, text, names, opts = j
        b = bundle.Bundle(name, text, names, opts=list(opts), driver_sources=DRIVER)
        try:
            return b, b.build()
        except (bundle.Asn1cFailed, build.BuildError) as e:
            return b, e
    with ThreadPoolExecutor(workers) as ex:
        return list(ex.map(one, jobs))

def full_opts(extra, compound=True):
    return tuple(["-no-gen-example"] + (["-fcompound-names"] if compound else []) + list(extra))

# ---------------------------------------------------------------------------------- P leg on one module
class PState:
    def __init__(self):
        self.fails = collections.Counter()
        self.samples = {}
        self.skipped = collections.Counter()
        self.stats = collections.Counter()

    def fail(self, key, sample):
        self.fails[key] += 1
        self.samples.setdefault(key, sample)

def optname(o): return " ".join(o) if o else "(default)"

def run_module(ctx, st, m, bvals, sets, nvals, try_nocompound=True):
    txt = genmod.module_text(m)
    env = dict(m["types"])
    env["__tagdefault__"] = m.get("tagdefault")
    names = [n for n, _ in m["types"]]
    jobs = [(f"{m['name']}o{i}", txt, names, full_opts(s)) for i, s in enumerate(sets)]
    if try_nocompound: jobs.append((f"{m['name']}nc", txt, names, full_opts((), compound=False)))
    res = build_many(jobs)
    eff_sets = list(sets) + ([("<no -fcompound-names>",)] if try_nocompound else [])
    try:
        base_b, base_exe = res[0]
        if isinstance(base_exe, Exception):
            st.stats["modules_not_building_with_default_options"] += 1
            ctx.log("module does not build with the default options (outside C13's quantifier):", str(getattr(base_exe, "out", base_exe)).strip().split("\n")[0][:160])
            return
        # ---- builds that failed
        for i, ((b, exe), s) in enumerate(zip(res, eff_sets)):
            if i == 0 or not isinstance(exe, Exception): continue
            msg = getattr(exe, "out", None) or str(exe)
            if s == ("<no -fcompound-names>",):
                st.stats["no_compound_names_rejected"] += 1       # name clashes are expected without the option
                continue
            first = [l for l in msg.strip().split("\n") if "error" in l or "rror:" in l][:1] or msg.strip().split("\n")[:1]
            st.fail(("build", optname(s), "does not build"), {"module": txt, "options_a": list(full_opts(())), "options_b": list(full_opts(s)),
                                                                "failure": "the module builds with options_a but not with options_b", "output_b": msg[-1500:], "first_error": first[0][:300]})
        live = [(i, res[i][1], eff_sets[i]) for i in range(len(res)) if not isinstance(res[i][1], Exception)]
        st.stats["builds"] += len(live)
        st.stats["modules"] += 1
        # ---- lines
        vg = genmod.ValGen(ctx.rng, env)
        lines = []; meta = []
        for n, t in m["types"]:
            lines.append(f"@{n} xdescr"); meta.append(("descr", n, None, None))
            lines.append(f"@{n} descr"); meta.append(("cdescr", n, None, None))      # for the compiler-model leg
            feats = gfind.features(t, env)
            ok_syn = [syn for syn in SYNTAXES if not c01.skip_region(syn, feats, st.skipped)]
            vals = bvals[n] if bvals is not None else vg.values(t, nvals)
            for v in vals:
                sx = genmod.val_sexp(t, v, env)
                if len(sx) > 20000: continue
                lines.append(f"@{n} echo {sx}"); meta.append(("echo", n, None, sx))
                for syn in ok_syn:
                    lines.append(f"@{n} enc {syn} {sx}"); meta.append(("enc", n, syn, sx))
        def run_all(ls):
            def one(x): return ctx.run_c_bisect(x[1], ls)[0]
            with ThreadPoolExecutor(8) as ex: return list(ex.map(one, live))
        outs = run_all(lines)
        ctx.cov["evaluations"] += len(lines) * len(live)
        ref = outs[0]
        # values some representation cannot hold are outside the quantifier
        unrep = set()
        for k, (i, exe, s) in enumerate(live):
            for j, me in enumerate(meta):
                if me[0] == "echo" and not (outs[k][j] and genmod.same_value(env[me[1]], outs[k][j], me[3], env)):
                    unrep.add((me[1], me[3]))
                    st.stats["values_not_representable"] += 1
        declines = {}     # (type, syn, hex) -> original sexp
        for k, (i, exe, s) in enumerate(live):
            A = eff_sets[0]; B = s
            nocomp = B == ("<no -fcompound-names>",)
            Bo = () if nocomp else B
            for j, me in enumerate(meta):
                kind, tn, syn, sx = me
                o, r = outs[k][j], ref[j]
                if kind == "descr":
                    if k == 0 or known_region(st, env, tn, "descr", Bo): continue
                    try:
                        er = Erase(Bo)
                        ca = canon_descr(sexp.parse(r), er)
                        cb = canon_descr(sexp.parse(o), er)
                        d = descr_diff(ca, cb)
                    except Exception as e:
                        d = "unparsable descriptor dump: " + str(e)[:80]
                    st.stats["descr_compared"] += 1
                    if d:
                        st.fail(("descr", optname(B), re.sub(r"/\w+", "", d)[:50]), {"module": txt, "type": tn, "op": lines[j], "options_a": list(full_opts(A)), "options_b": list(full_opts(Bo, not nocomp)),
                                                                "output_a": r, "output_b": o, "failure": "descriptor differs in a field the options must not change: " + d[:300]})
                    continue
                if kind != "enc" or (tn, sx) in unrep or not syn_ok(Bo, syn): continue
                if known_region(st, env, tn, syn, Bo) or known_value_region(st, env, tn, syn, Bo, sx): continue
                if o and o.startswith("ok "): declines.setdefault((tn, syn, o[3:]), sx)
                if k == 0: continue
                st.stats["enc_compared"] += 1
                if NOCONS in Bo and syn in ("uper", "oer"):
                    st.stats["enc_compared_noconstr_per_oer"] += 1      # former regions of F74 (member constraint records) / F75 (PER character maps)
                    if syn == "uper" and alpha_disjoint(env[tn], env): st.stats["enc_compared_noconstr_uper_disjoint_alphabet"] += 1
                if o != r:
                    crash = (o or "").startswith("CRASH") or (r or "").startswith("CRASH")
                    why = "crash" if crash else ("bytes differ" if (o or "").startswith("ok") and (r or "").startswith("ok") else "one side fails to encode")
                    st.fail(("enc", optname(B), syn + ": " + why), {"module": txt, "type": tn, "op": lines[j], "options_a": list(full_opts(A)), "options_b": list(full_opts(Bo, not nocomp)),
                                                                   "output_a": str(r), "output_b": str(o), "failure": why, "syntax": syn})
                else:
                    if (o or "").startswith("ok "): ctx.count_nontrivial(("enc", m["name"], tn, syn, sx[:60], optname(B)))
        # ---- the compiler model (Impl/CompileDescr.lean, told which of -fwide-types / -findirect-choice / -no-gen-PER /
        #      -no-gen-OER are on) vs the descriptor tables of every option set, field by field
        try:
            items = []
            for k, (i, exe, s) in enumerate(live):
                nocomp = s == ("<no -fcompound-names>",)
                dumps = {me[1]: outs[k][j] for j, me in enumerate(meta) if me[0] == "cdescr" and (outs[k][j] or "").startswith("(type ")}
                items.append((m, full_opts(() if nocomp else s, not nocomp), dumps))
            c10_compile.run_compile(ctx, items)
        except ValueError as e:
            ctx.log("compiler-model leg skipped for module", m["name"], ":", str(e)[:120])
        # ---- cross decoding: every build decodes every distinct encoding produced by any build
        dl = sorted(declines)
        dlines = [f"@{tn} xdec {syn} {hx}" for tn, syn, hx in dl]
        douts = run_all(dlines) if dlines else [[] for _ in live]
        ctx.cov["evaluations"] += len(dlines) * len(live)
        dref = douts[0]
        for k, (i, exe, s) in enumerate(live):
            nocomp = s == ("<no -fcompound-names>",)
            Bo = () if nocomp else s
            for j, (tn, syn, hx) in enumerate(dl):
                if not syn_ok(Bo, syn) or known_region(st, env, tn, syn, Bo): continue
                o, r = douts[k][j], dref[j]
                sx = declines[(tn, syn, hx)]
                if known_value_region(st, env, tn, syn, Bo, sx): continue      # the decimal text of 2^63.. does not decode without field_unsigned either
                good = _dec_good(env[tn], o, hx, syn, sx, env)
                if k == 0:
                    st.stats["dec_self_ok" if good else "dec_self_not_ok(C01 territory)"] += 1
                    continue
                st.stats["dec_cross"] += 1
                same = _dec_same(env[tn], o, r, env)
                if not same:
                    st.fail(("dec", optname(s), syn + ": cross-decoding differs"), {"module": txt, "type": tn, "op": dlines[j], "options_a": list(full_opts(eff_sets[0])), "options_b": list(full_opts(Bo, not nocomp)),
                                                                                      "output_a": str(r), "output_b": str(o), "value": sx, "syntax": syn,
                                                                                      "failure": "build B decodes the bytes differently from build A"})
                elif good:
                    ctx.count_nontrivial(("dec", m["name"], tn, syn, hx[:40], optname(s)))
        if len(ctx.cov["samples"]) < 14 and len(live) > 1:
            for j, me in enumerate(meta):
                if me[0] == "enc" and (ref[j] or "").startswith("ok "):
                    ctx.cov["samples"].append({"module": m["name"], "op": lines[j][:200], "options": [optname(s) for _, _, s in live][:12],
                                               "outputs": sorted({str(outs[k][j])[:120] for k in range(len(live))})})
                    break
    finally:
        for b, _ in res: b.cleanup()

def _dec_parse(o):
    if not o: return None
    t = o.split(" ", 2)
    if len(t) < 3: return None
    return t[0], t[1], t[2]

def _dec_same(t, a, b, env):
    pa, pb = _dec_parse(a), _dec_parse(b)
    if pa is None or pb is None: return a == b
    if pa[0] != pb[0] or pa[1] != pb[1]: return False
    if pa[2] == pb[2]: return True
    return genmod.same_value(t, pa[2], pb[2], env)

def _dec_good(t, o, hx, syn, sx, env):
    p = _dec_parse(o)
    if not p or p[0] != "ok": return False
    n = len(hx) // 2 if hx != "-" else 0
    if int(p[1]) != n and not (syn == "xer" and int(p[1]) + 1 == n): return False
    return genmod.same_value(t, p[2], sx, env)

# ---------------------------------------------------------------------------------- fixed module aimed at the option-sensitive shapes
def focus_module(rng):
    T = lambda k, **kw: dict(k=k, **kw)
    C = genmod.cons
    ch = T("CHOICE", comps=[{"id": "a", "type": T("INTEGER", cons=None)}, {"id": "b", "type": T("REAL")},
                            {"id": "c", "type": T("ENUMERATED", items=[("p", None), ("q", None)], ext=[("r", None)])},
                            {"id": "d", "type": T("SEQUENCE", comps=[{"id": "x", "type": T("INTEGER", cons=C(0, None))},
                                                                      {"id": "y", "type": T("BOOLEAN"), "opt": "OPTIONAL"}])},
                            {"id": "e", "type": T("OCTET STRING", size=C(1, 4))}], ext=4)
    types = [
        ("FI", T("INTEGER", cons=None)), ("FU", T("INTEGER", cons=C(0, None))), ("FX", T("INTEGER", cons=C(0, 7, True))),
        ("FN", T("INTEGER", cons=C(None, 100))), ("FS", T("INTEGER", cons=C(-5, 5))), ("FNm", T("INTEGER", cons=None, named=[("one", 1), ("two", 2)])),
        ("FE", T("ENUMERATED", items=[("a", None), ("b", None), ("c", None)])),
        ("FEx", T("ENUMERATED", items=[("a", 3), ("b", 10), ("c", 200)], ext=[("d", 300)])),
        # explicitly numbered items, negative numbers in the root, additions after an all-negative root (the wide representation
        # holds the number in an INTEGER_t: sign handling of every decoder; the native one in a long).  asn1c accepts no negative
        # number among the additions (asn1f_fix_enum starts its "previous maximum" at -1: `{ a(-100), ..., c(-20) }` is rejected)
        ("FEn", T("ENUMERATED", items=[("n5", -5), ("n1", -1), ("z", 0), ("p7", 7)], ext=[("x300", 300)])),
        ("FEp", T("ENUMERATED", items=[("a", -100), ("b", -50)], ext=[("e", 0), ("f", 5)])),
        ("FEm", T("ENUMERATED", items=[("lo", -2147483648), ("m32769", -32769), ("m129", -129), ("m128", -128), ("m2", -2)])),
        ("FEo", T("ENUMERATED", items=[("neg", -2)], ext=[("xz", 0), ("xpos", 1)])),
        ("FSeqE", T("SEQUENCE", comps=[{"id": "er", "type": T("REF", name="FEn")},
                                       {"id": "ei", "type": T("ENUMERATED", items=[("x", -1), ("y", -7), ("w", 2)]), "opt": "OPTIONAL"},
                                       {"id": "ed", "type": T("ENUMERATED", items=[("dm", -4), ("dz", 0)]), "opt": ("DEFAULT", "dz", 0)},
                                       {"id": "el", "type": T("SEQUENCE OF", elem=T("REF", name="FEm"), size=None), "opt": "OPTIONAL"},
                                       {"id": "ec", "type": T("CHOICE", comps=[{"id": "ee", "type": T("ENUMERATED", items=[("q", -9), ("s", -7)], ext=[("t", 0), ("u", 4)])},
                                                                                 {"id": "eb", "type": T("BOOLEAN")}]), "opt": "OPTIONAL"}])),
        ("FSoE", T("SET OF", elem=T("ENUMERATED", items=[("a", -3), ("b", -2), ("c", 5)]), size=None)),
        ("FR", T("REAL")),
        ("FCh", ch),
        ("FSeq", T("SEQUENCE", comps=[{"id": "i", "type": T("INTEGER", cons=None)}, {"id": "u", "type": T("INTEGER", cons=C(0, None)), "opt": "OPTIONAL"},
                                      {"id": "e", "type": T("ENUMERATED", items=[("m", None), ("n", None)]), "opt": ("DEFAULT", "m", 0)},
                                      {"id": "r", "type": T("REAL"), "opt": "OPTIONAL"}, {"id": "c", "type": T("REF", name="FCh")},
                                      {"id": "l", "type": T("SEQUENCE OF", elem=T("REF", name="FCh"), size=None), "opt": "OPTIONAL"}])),
        ("FSoI", T("SEQUENCE OF", elem=T("INTEGER", cons=None), size=None)),
        ("FSoR", T("SET OF", elem=T("REAL"), size=None)),
        # unsigned ranges whose -fwide-types descriptor has field_unsigned since the repair of F172 / F173: lower bound 0 and not 0, as a
        # member, as an element; FUx is the extensible range that is left without it (proposed F174 / F175 from 2^63 on)
        ("FU5", T("INTEGER", cons=C(5, None))), ("FUx", T("INTEGER", cons=C(0, None, True))),
        ("FSoU", T("SEQUENCE OF", elem=T("REF", name="FU"), size=None)),
        # SET with DEFAULT members: 0 / FALSE defaults are inline natively and NULL pointers under -fwide-types (former region F76)
        ("FSt", T("SET", comps=[{"id": "i", "type": T("INTEGER", cons=None)}, {"id": "e", "type": T("ENUMERATED", items=[("m", None), ("n", None)]), "opt": ("DEFAULT", "m", 0)},
                                {"id": "z", "type": T("INTEGER", cons=C(0, 255)), "opt": ("DEFAULT", "0", 0)}, {"id": "b", "type": T("BOOLEAN"), "opt": ("DEFAULT", "FALSE", False)},
                                {"id": "j", "type": T("INTEGER", cons=None), "opt": ("DEFAULT", "7", 7)}, {"id": "u", "type": T("INTEGER", cons=C(0, None)), "opt": "OPTIONAL"}])),
    ]
    m = {"name": "FOC", "tagdefault": "AUTOMATIC", "types": types}
    env = dict(types)
    ints = [0, 1, -1, 127, 128, -128, -129, 255, 256, 32767, 32768, -32769, 2 ** 31 - 1, 2 ** 31, -2 ** 31 - 1, 2 ** 32, 2 ** 56 - 1, -2 ** 56,
            2 ** 63 - 1, -2 ** 63, rng.randrange(-2 ** 63, 2 ** 63), rng.randrange(-2 ** 40, 2 ** 40)]
    reals = [0, 0x8000000000000000, 0x7ff0000000000000, 0xfff0000000000000, 0x3ff0000000000000, 0xbff8000000000000, 0x3ff0200000000000,
             0x7fefffffffffffff, 0x0010000000000000, 0x3fb999999999999a, (rng.randrange(1, 2047) << 52) | rng.getrandbits(52),
             0x0000000000000003, 0x800fffffffffffff, rng.getrandbits(52) | 1]   # subnormals (F1 repaired)
    # FU / FSeq.u / FCh.d.x are `unsigned long` natively: the whole range 0 .. 2^64-1 (finding F20 repaired)
    uints = [v for v in ints if v >= 0] + [2 ** 63, 2 ** 63 + 1, 2 ** 64 - 2, 2 ** 64 - 1, rng.randrange(2 ** 63, 2 ** 64)]
    vals = {"FI": ints, "FNm": ints[:8], "FU": uints, "FX": [0, 7, 8, -1, 1000, 2 ** 40],
            "FN": [v for v in ints if v <= 100], "FS": [-5, 0, 5], "FE": [0, 1, 2], "FEx": [3, 10, 200, 300], "FR": reals,
            "FCh": [("a", ints[7]), ("a", -2 ** 63), ("b", reals[5]), ("c", 2), ("c", 0), ("d", {"x": 2 ** 40, "y": True}), ("d", {"x": 0}), ("e", b"\x01\x02"),
                    ("d", {"x": 2 ** 63}), ("d", {"x": 2 ** 64 - 1, "y": False})],
            "FSoI": [[], ints[:6], ints[6:]], "FSoR": [[], reals[:4], reals[4:8]],
            "FEn": [-5, -1, 0, 7, 300], "FEp": [-100, -50, 0, 5], "FEm": [-2147483648, -32769, -129, -128, -2], "FEo": [-2, 0, 1],
            "FSeqE": [{"er": -5}, {"er": -1, "ei": -1, "ed": -4, "el": [-2, -128, -2147483648], "ec": ("ee", -9)}, {"er": 300, "ei": -7, "el": [], "ec": ("ee", 0)},
                      {"er": 7, "ei": 2, "ed": -4, "el": [-129, -32769], "ec": ("ee", 4)}, {"er": -5, "ec": ("ee", -7)}, {"er": 0, "ec": ("eb", True)}],
            "FSoE": [[], [-3], [-2, 5, -3, -3]]}
    vals["FU5"] = [v for v in uints if v >= 5]; vals["FUx"] = uints; vals["FSoU"] = [[], uints[:5], uints[-5:]]
    vals["FSt"] = [{"i": 1}, {"i": -1, "e": 0, "z": 0, "b": False, "j": 7}, {"i": 2, "e": 1, "z": 9, "b": True, "j": 8, "u": 2 ** 63}, {"i": 3, "z": 0, "u": 2 ** 64 - 1}, {"i": 4, "j": 7, "e": 1}]
    vals["FSeq"] = [{"i": -129, "c": ("a", 5)}, {"i": 2 ** 63 - 1, "u": 2 ** 63 - 1, "e": 1, "r": reals[9], "c": ("d", {"x": 7, "y": False}), "l": [("a", 1), ("b", reals[4]), ("c", 1), ("e", b"\xff")]},
                    {"i": 0, "u": 0, "c": ("c", 2), "l": []},
                    {"i": -1, "u": 2 ** 63, "c": ("d", {"x": 2 ** 64 - 1})}, {"i": 1, "u": 2 ** 64 - 1, "c": ("a", 0), "l": [("d", {"x": 2 ** 63 + 5})]}]
    return m, vals

# ---------------------------------------------------------------------------------- witnesses of the findings proposed for C13
WITNESSES = {
    # the remainder of F172 / F173 (proposed F174 / F175): the EXTENSIBLE unsigned range keeps a -fwide-types descriptor without field_unsigned
    "F174": {"module": "W DEFINITIONS AUTOMATIC TAGS ::= BEGIN U ::= INTEGER (0..MAX, ...) END", "type": "U", "op": "enc uper (int 9223372036854775808)",
             "options_a": list(BASE), "options_b": list(BASE) + [WIDE], "expect_a": "ok 04400000000000000000", "expect_b": "fail EBADF U"},
    "F175": {"module": "W DEFINITIONS AUTOMATIC TAGS ::= BEGIN U ::= INTEGER (0..MAX, ...) END", "type": "U", "op": "enc cxer (int 9223372036854775808)",
             "options_a": list(BASE), "options_b": list(BASE) + [WIDE], "expect_a": "ok " + b"<U>9223372036854775808</U>".hex(),
             "expect_b": "ok " + b"<U>00:80:00:00:00:00:00:00:00</U>".hex()},
    "F77": {"module": "W DEFINITIONS ::= BEGIN S ::= SEQUENCE { a [5] EXPLICIT INTEGER (0..MAX) } END", "type": "S", "op": "enc der (seq (a (int 1)))",
            "options_a": list(BASE), "options_b": list(BASE) + [WIDE], "expect_a": "ok 3007a505a503020101", "expect_b": "ok 3005a503020101"},
}

# former witnesses of the repaired findings F74 / F75 (-fno-constraints), F172 / F173 (INTEGER (0..MAX) at 2^63 under -fwide-types) and
# F76 (BASIC-XER of a SET with an absent DEFAULT member): same encodings as the default build
U63 = "(int 9223372036854775808)"; U64 = "(int 18446744073709551615)"
FORMER = {
    "F172": {"module": "W DEFINITIONS AUTOMATIC TAGS ::= BEGIN U ::= INTEGER (0..MAX) V ::= INTEGER (5..MAX) S ::= SEQUENCE { u INTEGER (0..MAX), l SEQUENCE OF U } END",
             "type": "U", "ops": [f"enc uper {U63}", f"enc uper {U64}", "enc uper (int 0)", f"enc oer {U63}", f"enc der {U64}"], "options_b": list(BASE) + [WIDE],
             "expect": {f"enc uper {U63}": "ok 088000000000000000", f"enc uper {U64}": "ok 08ffffffffffffffff"}},
    "F173": {"module": "W DEFINITIONS AUTOMATIC TAGS ::= BEGIN U ::= INTEGER (0..MAX) END", "type": "U",
             "ops": [f"enc cxer {U63}", f"enc xer {U64}", "enc xer (int 0)"], "options_b": list(BASE) + [WIDE],
             "expect": {f"enc cxer {U63}": "ok " + b"<U>9223372036854775808</U>".hex()}},
    "F76": {"module": "W DEFINITIONS AUTOMATIC TAGS ::= BEGIN T ::= SET { i INTEGER, e ENUMERATED { m, n } DEFAULT m } END", "type": "T",
            "ops": ["enc xer (set (i (int 1)))", "enc xer (set (i (int 1)) (e (enum 0)))", "enc cxer (set (i (int 1)))", "enc xer (set (i (int 1)) (e (enum 1)))"],
            "options_b": list(BASE) + [WIDE], "expect": {"enc xer (set (i (int 1)))": "ok " + b"<T>\n    <i>1</i>\n    <e><m/></e>\n</T>\n".hex()}},
    # F77 / F49: an EXPLICIT-tagged inline INTEGER (lb..MAX) / ENUMERATED member is tagged once under every option set
    "F77": {"module": "W DEFINITIONS ::= BEGIN S ::= SEQUENCE { a [5] EXPLICIT INTEGER (0..MAX), b [6] EXPLICIT INTEGER (7..MAX) OPTIONAL, "
                      "c [7] EXPLICIT ENUMERATED { x, y } OPTIONAL, d [8] INTEGER (0..MAX) OPTIONAL } END", "type": "S",
            "ops": ["enc der (seq (a (int 1)))", "enc der (seq (a (int 5)) (b (int 9)) (c (enum 1)) (d (int 3)))", "enc uper (seq (a (int 1)) (b (int 7)))"],
            "options_b": list(BASE) + [WIDE], "expect": {"enc der (seq (a (int 1)))": "ok 3005a503020101"}},
    "F77w": {"module": "W DEFINITIONS EXPLICIT TAGS ::= BEGIN S ::= SEQUENCE { a [0] INTEGER (0..MAX), b [1] INTEGER (5..MAX) OPTIONAL } END", "type": "S",
             "ops": ["enc der (seq (a (int 5)))", "enc der (seq (a (int 5)) (b (int 6)))"],
             "options_b": list(BASE) + [WIDE, "-fno-include-deps"], "expect": {"enc der (seq (a (int 5)))": "ok 3005a003020105"}},
    "F74": {"module": "W DEFINITIONS AUTOMATIC TAGS ::= BEGIN S ::= SEQUENCE { a INTEGER (0..7) } END", "type": "S",
            "ops": ["enc uper (seq (a (int 5)))", "enc oer (seq (a (int 5)))", "enc der (seq (a (int 5)))"], "options_b": list(BASE) + [NOCONS]},
    "F75": {"module": 'W DEFINITIONS AUTOMATIC TAGS ::= BEGIN N ::= NumericString (FROM("0".."3"|" ")) END', "type": "N",
            "ops": ["enc uper (os 3320)", "enc uper (os 30313233)", "enc oer (os 3320)"], "options_b": list(BASE) + [NOCONS], "expect": {"enc uper (os 3320)": "ok 0280"}},
}

def replay_former_witnesses(ctx, st):
    for fid, w in FORMER.items():
        names = re.findall(r"(\w+)\s*::=", w["module"].split("BEGIN", 1)[1])
        r = build_many([("f" + fid + "a", w["module"], names, list(BASE)), ("f" + fid + "b", w["module"], names, w["options_b"])])
        try:
            bad = next((e for _, e in r if isinstance(e, Exception)), None)
            if bad is not None:
                msg = getattr(bad, "out", None) or str(bad)
                st.fail(("build", optname(tuple(o for o in w["options_b"] if o not in BASE)), "does not build"), {"module": w["module"], "options_a": list(BASE), "options_b": w["options_b"],
                        "failure": f"former witness of {fid} does not build", "output_b": msg[-1500:]})
                continue
            for op in w["ops"]:
                line = f"@{w['type']} {op}"
                oa = ctx.run_c_bisect(r[0][1], [line])[0][0]; ob = ctx.run_c_bisect(r[1][1], [line])[0][0]
                want = w.get("expect", {}).get(op)
                if oa != ob or not str(oa).startswith("ok ") or (want and oa != want):
                    st.fail(("enc", optname(tuple(o for o in w["options_b"] if o not in BASE)), "different encoding"), {"module": w["module"], "type": w["type"], "op": line, "options_a": list(BASE),
                            "options_b": w["options_b"], "failure": f"former witness of {fid}: encodings differ", "output_a": oa, "output_b": ob})
                else: st.stats["former_witness_ops_equal"] += 1
        finally:
            for b, _ in r: b.cleanup()

def replay_witnesses(ctx, st):
    for fid, w in WITNESSES.items():
        names = re.findall(r"(\w+)\s*::=", w["module"].split("BEGIN", 1)[1])
        still = False
        if "expect_build_error" in w:
            (b, exe), = build_many([("w" + fid, w["module"], names, w["options_b"])])
            still = isinstance(exe, build.BuildError) and re.search(w["expect_build_error"], str(exe)) is not None
            b.cleanup()
        else:
            r = build_many([("w" + fid + "a", w["module"], names, w["options_a"]), ("w" + fid + "b", w["module"], names, w["options_b"])])
            if not any(isinstance(e, Exception) for _, e in r):
                line = f"@{w['type']} {w['op']}"
                oa = ctx.run_c_bisect(r[0][1], [line])[0][0]; ob = ctx.run_c_bisect(r[1][1], [line])[0][0]
                still = oa == w["expect_a"] and ob == w["expect_b"]
            for b, _ in r: b.cleanup()
        st.stats[f"witness_{fid}_reproduces"] = int(still)
        f = next((f for f in ctx.findings if f["id"] == fid and f.get("status") == "known"), None)
        if still and f: ctx.known(f)
        elif still: ctx.log(f"finding {fid} reproduces on its witness (no KNOWN_FINDINGS entry for property C13 yet)")
        else: ctx.log(f"note: finding {fid} no longer reproduces on its witness")

# ---------------------------------------------------------------------------------- K leg
def minimal_octets(v):
    n = 1
    while True:
        try: return v.to_bytes(n, "big", signed=True)
        except OverflowError: n += 1

CTS = ["-", "0,0,3,0,7", "1,0,3,0,7", "0,0,8,-128,127", "1,0,8,0,255", "0,0,16,0,65535", "0,0,32,0,4294967295", "0,0,33,0,4294967296",
       "0,0,64,-9223372036854775808,9223372036854775807", "0,1,-1,0,0", "1,1,-1,0,0", "0,1,-1,5,0", "0,0,0,5,5", "0,0,40,-5,1099511627770",
       "0,0,-1,0,0", "1,0,-1,0,0"]
OERS = [(0, 0), (0, 1), (1, 0), (1, 1), (2, 0), (2, 1), (4, 0), (4, 1), (8, 0), (8, 1)]
MAPS = [("0:a,1:b,2:c", 0, ["0,0,2,0,2"]), ("0:a,1:b,5:c", 3, ["1,0,1,0,1"]), ("-5:x,3:y,10:z,200:w,300:v", 5, ["1,0,2,0,3"]),
        ("0:a", 0, ["0,0,0,0,0", "-"]), ("1:a,2:b,3:c,4:d,5:e,6:f,7:g,8:h,9:i", 2, ["1,0,0,0,0"]),
        ("-2147483648:lo,-32769:a,-129:b,-128:c,-2:d,-1:e", 0, ["0,0,3,0,5"]), ("-2:n,0:z,1:p", 1, ["1,0,0,0,0"])]

def k_lines(ctx):
    ints = sorted(c16.boundary_ints())
    n = 300 if ctx.quick else 20000
    rnd = []
    for _ in range(n):
        bits = ctx.rng.choice([3, 8, 16, 31, 32, 33, 56, 63, 64])
        v = ctx.rng.getrandbits(bits)
        rnd.append(v - (1 << 64) if v >= (1 << 63) and ctx.rng.random() < 0.7 else v)
    lines = []; pairs = []      # pairs: (index of native line, index of wide line) that the property says must agree
    def add(l): lines.append(l); return len(lines) - 1
    for v in ints + rnd:
        s_ok = -(1 << 63) <= v < (1 << 63); u_ok = 0 <= v < (1 << 64)
        mo = minimal_octets(v).hex() if (s_ok or u_ok) else None
        pads = []
        if mo:
            fill = "ff" if v < 0 else "00"
            pads = [mo, fill + mo, fill * 3 + mo, fill * 9 + mo]
        if s_ok:
            a = add(f"n_der s {v}")
            for p in pads: pairs.append((a, add(f"w_der {p}"), "der"))
            a = add(f"n_xer s {v}"); pairs.append((a, add(f"w_xer s {mo}"), "xer")); pairs.append((a, add(f"w_xer s {pads[1]}"), "xer"))
            a = add(f"ne_oer {v}"); pairs.append((a, add(f"we_oer {pads[1]}"), "enum-oer"))
        if u_ok:
            a = add(f"n_der u {v}")
            for p in pads: pairs.append((a, add(f"w_der {p}"), "der-unsigned"))      # whole unsigned long range (F20 repaired)
            a = add(f"n_xer u {v}"); pairs.append((a, add(f"w_xer u {mo}"), "xer-unsigned"))
    sub = ints[::3] + rnd[: (60 if ctx.quick else 3000)]
    for v in sub + [(1 << 63), (1 << 63) + 1, (1 << 64) - 1]:
        s_ok = -(1 << 63) <= v < (1 << 63); u_ok = 0 <= v < (1 << 63)
        if (1 << 63) <= v < (1 << 64):
            # an unsigned native cell beyond LONG_MAX against the wide value under a descriptor that also has field_unsigned
            mo = minimal_octets(v).hex()
            for w, p in OERS:
                a = add(f"n_oer u {w} {p} {v}"); pairs.append((a, add(f"w_oer {w} {p} {mo}"), "oer-unsigned"))
            for ct in CTS:
                lb = int(ct.split(",")[3]) if ct != "-" else 0
                if lb >= 0: a = add(f"n_uper u {ct} {v}"); pairs.append((a, add(f"w_uper u {ct} {mo}"), "uper-unsigned-both"))
            continue
        if not s_ok: continue
        mo = minimal_octets(v).hex()
        for w, p in OERS:
            a = add(f"n_oer s {w} {p} {v}"); pairs.append((a, add(f"w_oer {w} {p} {mo}"), "oer"))
            if u_ok: a = add(f"n_oer u {w} {p} {v}"); pairs.append((a, add(f"w_oer {w} {p} {mo}"), "oer-unsigned"))
        fill = "ff" if v < 0 else "00"
        for ct in CTS:
            a = add(f"n_uper s {ct} {v}"); pairs.append((a, add(f"w_uper s {ct} {mo}"), "uper"))
            # redundant leading octets of the wide value must not reach the wire (finding F18 repaired)
            pairs.append((a, add(f"w_uper s {ct} {fill + mo}"), "uper-padded")); pairs.append((a, add(f"w_uper s {ct} {fill * 3 + mo}"), "uper-padded"))
            lb = int(ct.split(",")[3]) if ct != "-" else 0
            if u_ok and lb >= 0:
                a = add(f"n_uper u {ct} {v}"); pairs.append((a, add(f"w_uper s {ct} {mo}"), "uper-unsigned"))
                add(f"w_uper u {ct} {mo}")
    # non-minimal / long wide values (no native counterpart), model correspondence only
    for k in (9, 12, 40, 127, 128, 300):
        b = bytes(ctx.rng.getrandbits(8) for _ in range(k)).hex()
        add(f"w_der {b}"); add(f"w_uper s - {b}"); add(f"w_oer 0 0 {b}"); add(f"w_oer 0 1 00{b}")
    # the native BER decoder on arbitrary contents octets
    octs = [b""] + [bytes([a]) for a in range(0, 256, 5)] + [bytes([a, b]) for a in (0, 1, 0x7f, 0x80, 0xff) for b in (0, 0x7f, 0x80, 0xff)]
    alpha = [0x00, 0x01, 0x7f, 0x80, 0xfe, 0xff]
    for k in (3, 8, 9, 10):
        for _ in range(40 if ctx.quick else 2000):
            octs.append(bytes(ctx.rng.choice(alpha) if ctx.rng.random() < 0.6 else ctx.rng.getrandbits(8) for _ in range(k)))
    for v in ints:
        if -(1 << 64) <= v <= (1 << 64): octs.append(minimal_octets(v)); octs.append((b"\xff" if v < 0 else b"\x00") * 2 + minimal_octets(v))
    dec_lines = []
    for b in octs:
        if len(b) > 100: continue
        hx = b.hex() or "-"
        dec_lines.append((add(f"n_dec s {hx}"), add(f"n_dec u {hx}"), b))
    # ENUMERATED
    for mp, ext, cts in MAPS:
        vals = [int(x.split(":")[0]) for x in mp.split(",")] + [4, 1000]
        for v in vals:
            mo = minimal_octets(v).hex()
            a = add(f"ne_xer {mp} {v}"); pairs.append((a, add(f"we_xer {mp} {mo}"), "enum-xer")); pairs.append((a, add(f"we_xer {mp} 00{mo}" if v >= 0 else f"we_xer {mp} ff{mo}"), "enum-xer"))
            for ct in cts:
                a = add(f"ne_uper {mp} {ext} {ct} {v}"); pairs.append((a, add(f"we_uper {mp} {ext} {ct} {mo}"), "enum-uper"))
    return lines, pairs, dec_lines

def k_leg(ctx, st):
    lib = build.build_skel("asan")
    drv = build.build_prog("c13_driver", ["c13_driver.c", "ops_c13.c"], libs=[lib])
    lines, pairs, dec_lines = k_lines(ctx)
    dis, couts, mouts = ctx.correspond("native", drv, lines)
    for i, l, c, mo in dis[:50]:
        ctx.broken.append({"kind": "correspondence", "name": "native", "op": l, "c": c, "model": mo})
    if dis: ctx.log(f"native correspondence: {len(dis)} disagreements, first: {dis[0][1:]}")
    # the property at the primitive level, on C's outputs alone (no model in the loop)
    bad = []
    for a, b, what in pairs:
        if couts[a] != couts[b] or couts[a] is None or str(couts[a]).startswith("CRASH"):
            bad.append((what, lines[a], couts[a], lines[b], couts[b]))
    for ia, iu, octs in dec_lines:
        v = int.from_bytes(octs, "big", signed=True) if octs else 0
        exp_s = f"ok {v}" if -(1 << 63) <= v < (1 << 63) else "fail"
        if couts[ia] != exp_s: bad.append(("ber-decode", lines[ia], couts[ia], "wide value " + str(v), exp_s))
        exp_u = f"ok {v}" if 0 <= v < (1 << 64) else "fail"       # negative contents must be rejected, not wrapped (F3 repaired)
        if couts[iu] != exp_u: bad.append(("ber-decode-unsigned", lines[iu], couts[iu], "wide value " + str(v), exp_u))
    # decoding side of the ENUMERATED UPER path: NativeEnumerated_decode_uper and ENUMERATED_decode_uper on the octets the native
    # encoder produced must both return the encoded number (C's outputs alone; the model has no such op)
    dl = []; dmeta = []
    for i, l in enumerate(lines):
        o = str(couts[i])
        if l.startswith("ne_uper ") and o.startswith("ok ") and o.split()[1] != "0":
            _, mp, ext, ct, v = l.split()
            for side in ("ne", "we"):
                dl.append(f"{side}_uperdec {mp} {ext} {ct} {o.split()[2]}"); dmeta.append((int(v), l, o))
    douts, _ = ctx.run_c_bisect(drv, dl)
    ctx.cov["evaluations"] += len(dl)
    for (v, l, o), dline, do in zip(dmeta, dl, douts):
        if do != f"ok {v}": bad.append(("enum-uper-decode", l, o, dline, do))
        else: ctx.count_nontrivial(("enum-uper-decode", dline))
    ctx.cov["predicate"]["native_vs_wide_primitives"] = {"pairs": len(pairs) + 2 * len(dec_lines) + len(dl), "failures": len(bad)}
    for what, la, ca, lb, cb in bad[:4]:
        ctx.violation(f"C13: native and wide codec disagree ({what}): {la} -> {ca} but {lb} -> {cb}",
                      {"driver": "c13_driver", "op_a": la, "output_a": ca, "op_b": lb, "output_b": cb, "what": what})

# ---------------------------------------------------------------------------------- run
def run(ctx):
    ctx.lean()
    st = PState()
    k_leg(ctx, st)
    replay_witnesses(ctx, st)
    replay_former_witnesses(ctx, st)
    nmods = 5 if ctx.quick else 24
    nvals = 6 if ctx.quick else 16
    fm, fvals = focus_module(ctx.rng)
    plan = [(fm, fvals, option_sets(ctx))]
    for i in range(nmods):
        td = [None, "AUTOMATIC", "IMPLICIT", "EXPLICIT"][i % 4]
        g = genmod.Gen(ctx.rng, tagdefault=td)
        m = g.gen_module(f"N{i}", 8 if ctx.quick else 10)
        if i % 2 == 1: m = hoist_member_constraints(m)
        plan.append((m, None, option_sets(ctx)))
    if not ctx.quick:
        # all 2^6 subsets of the six toggles for a few modules
        plan.append((fm, fvals, option_sets(ctx, thorough_all=True)))
        for i in range(2):
            g = genmod.Gen(ctx.rng, tagdefault=[None, "AUTOMATIC"][i])
            m = g.gen_module(f"A{i}", 6)
            if i == 1: m = hoist_member_constraints(m)
            plan.append((m, None, option_sets(ctx, thorough_all=True)))
    for m, bvals, sets in plan:
        nb = st.stats["modules"]
        run_module(ctx, st, m, bvals, sets, nvals)
        ctx.log(f"module {m['name']}: {len(sets)} option sets; totals {dict(st.stats)}")
        if m is fm and st.stats["modules"] == nb:
            ctx.broken.append({"kind": "harness", "msg": "the fixed focus module FOC does not build with the default options (see the log)"})
    ctx.cov["programs"] = st.stats["builds"]
    ctx.cov["predicate"]["option_invariance"] = {"stats": dict(st.stats), "failure_classes": len(st.fails), "skipped_known_regions": dict(st.skipped)}
    agg = collections.Counter()
    for (kind, on, why), n in st.fails.items(): agg[(kind, why)] += n
    nviol = 0
    for (kind, why), n in agg.most_common(30):
        key = next(k for k in st.samples if k[0] == kind and k[2] == why)
        sm = dict(st.samples[key]); sm["count_in_class"] = n
        ctx.log("FAIL", n, kind, why, "|", key[1], "|", str(sm.get("op", ""))[:120], "=>", str(sm.get("output_a", ""))[:70], "VS", str(sm.get("output_b", ""))[:70])
        if nviol < 5:
            nviol += 1
            ctx.violation(f"C13 {kind}: {why} under options [{key[1]}] (type {sm.get('type', '-')}): {str(sm.get('failure', ''))[:200]}", sm)
    ctx.cov["rule"] = ("generated modules x option sets (default, each single representation option, combinations; thorough: all 2^6 subsets) x "
                       "boundary-first values x 5 syntaxes: encodings compared byte for byte against the default build, every build decodes every "
                       "distinct encoding, descriptor dumps compared after erasing the fields the options may change; non-trivial = an encoding that "
                       "succeeded and was compared / a decoding that returned the original value, distinct by (module, type, syntax, value, option set); "
                       "plus native-vs-wide primitive codec pairs on the real functions (K leg)")

def replay(ctx, path):
    r = json.load(open(path))
    ctx.lean()
    if "module" not in r:
        lib = build.build_skel("asan")
        drv = build.build_prog("c13_driver", ["c13_driver.c", "ops_c13.c"], libs=[lib])
        ops = [r[k] for k in ("op_a", "op_b") if k in r and not r[k].startswith("wide value")] or [b["op"] for b in r.get("broken", []) if "op" in b]
        c, _ = ctx.run_c_bisect(drv, ops)
        rc, mo, _ = ctx.run_lines(build.model_exe(), ops)
        for o, a, b in zip(ops, c, mo): print("replay:", o, "| C:", a, "| model:", b)
        return
    names = re.findall(r"^\s*(\w+) ::=", r["module"], re.M)
    for side in ("options_a", "options_b"):
        (b, exe), = build_many([("replay", r["module"], names, r[side])])
        if isinstance(exe, Exception):
            print("replay:", side, r[side], "=> build failed:", (getattr(exe, "out", None) or str(exe))[-400:])
        elif "op" in r:
            outs, _ = ctx.run_c_bisect(exe, [r["op"]])
            print("replay:", side, r[side], "|", r["op"][:200], "=>", str(outs[0])[:600])
        b.cleanup()
