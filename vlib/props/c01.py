"""C01 — encode-then-decode returns the same value in every transfer syntax."""
import re, collections
from .. import build, core, genmod, bundle, sexp, gfind

SYNTAXES = ("der", "uper", "oer", "xer", "cxer")

def leaf_sig(t, env, depth=0):
    k = t["k"]
    if k == "REF": return leaf_sig(env[t["name"]], env, depth + 1) if depth < 6 else set()
    if k in ("SEQUENCE", "SET", "CHOICE"):
        s = {k}
        for c in t["comps"]: s |= leaf_sig(c["type"], env, depth + 1)
        return s
    if k in ("SEQUENCE OF", "SET OF"): return {k} | leaf_sig(t["elem"], env, depth + 1)
    return {k}

def gen_bundles(ctx, n, ntypes=10, **kw):
    out = []
    for i in range(n):
        td = [None, "AUTOMATIC", "IMPLICIT", "EXPLICIT"][i % 4]
        g = genmod.Gen(ctx.rng, tagdefault=td, **kw)
        m = g.gen_module(f"M{i}", ntypes)
        out.append(m)
    return out

def run(ctx):
    ctx.lean()
    nb = 6 if ctx.quick else 60
    nvals = 8 if ctx.quick else 25
    mods = gen_bundles(ctx, nb)
    fails = collections.Counter()
    skipped = collections.Counter()
    gfind.replay_witnesses(ctx)
    samples = {}
    total = 0
    f30 = 0
    built = 0
    for m in mods:
        txt = genmod.module_text(m)
        env = dict(m["types"])
        b = bundle.Bundle(m["name"], txt, [n for n, _ in m["types"]])
        try:
            exe = b.build()
        except bundle.Asn1cFailed as e:
            ctx.log("asn1c rejected generated module:", e.out.strip().split("\n")[0][:200])
            fails[("asn1c", e.out.strip().split("\n")[0][:60], "")] += 1
            b.cleanup(); continue
        except build.BuildError as e:
            fails[("cc", str(e)[:80], "")] += 1
            b.cleanup(); continue
        built += 1
        vg = genmod.ValGen(ctx.rng, env)
        lines = []; meta = []
        for n, t in m["types"]:
            for v in vg.values(t, nvals):
                sx = genmod.val_sexp(t, v, env)
                lines.append(f"@{n} echo " + sx); meta.append(("echo", n, sx))
                feats = gfind.features(t, env)
                for syn in SYNTAXES:
                    # Dom_C01: regions of known findings are skipped; their witnesses are replayed separately
                    if syn in ("uper", "oer") and "SET" in feats: skipped["F32"] += 1; continue
                    if syn == "oer" and "choice_tag_ge128" in feats: skipped["F34"] += 1; continue
                    if syn == "oer" and "wide_int_fixed_oer" in feats: skipped["F36"] += 1; continue
                    if syn == "uper" and "inline_printable" in feats: skipped["F37"] += 1; continue
                    if syn == "uper" and "choice_alias" in feats: skipped["F38"] += 1; continue
                    if syn == "uper" and "semi_nonzero_lb" in feats: skipped["F42"] += 1; continue
                    if syn == "xer" and "REAL" in feats: skipped["F40"] += 1; continue
                    lines.append(f"@{n} rt {syn} {sx}"); meta.append((syn, n, sx))
        outs, crashes = ctx.run_c_bisect(exe, lines)
        for l, o, me in zip(lines, outs, meta):
            if me is None: continue
            total += 1
            kind, tn, sx = me
            why = None
            if o is None or o.startswith("CRASH"): why = "crash"
            elif kind == "echo":
                if not genmod.same_value(env[tn], o, sx, env): why = "reflect-mismatch"
            else:
                mm = re.search(r"rc=(\w+) consumed=(\d+)/(\d+)(?: cmp=(-?\d+) der_same=(\d) val=(.*))?$", o)
                if not o.startswith("ok "): why = "encode:" + o.split()[0]
                elif not mm: why = "unparsable"
                elif mm.group(1) != "ok": why = "decode-rc=" + mm.group(1)
                elif mm.group(2) != mm.group(3) and not (kind == "xer" and int(mm.group(2)) + 1 == int(mm.group(3))): why = "consumed"
                elif mm.group(4) != "0": why = "cmp!=0"
                elif mm.group(5) != "1": why = "der-differs"
                elif not genmod.same_value(env[tn], mm.group(6), sx, env): why = "value-differs"
                elif kind == "xer": f30 += 1     # F30 (trailing newline not consumed), everything else intact
            if why:
                sig = ",".join(sorted(leaf_sig(env[tn], env)))
                key = (kind, why, sig if len(sig) < 60 else sig[:60])
                fails[key] += 1
                samples.setdefault(key, (m["name"], tn, l[:400], str(o)[:300], genmod.type_text(env[tn])[:400].replace("\n", " ")))
            else:
                ctx.count_nontrivial((kind, tn, sx[:80]))
        b.cleanup()
    ctx.cov["evaluations"] += total
    ctx.cov["predicate"]["roundtrip"] = {"modules_built": built, "cases": total, "failure_classes": len(fails), "skipped_known_regions": dict(skipped), "F30_xer_newline": f30}
    agg = collections.Counter()
    for (kind, why, sig), n in fails.items(): agg[(kind, why)] += n
    for (kind, why), n in agg.most_common(25):
        ex = next(k for k in samples if k[0] == kind and k[1] == why) if any(k[0] == kind and k[1] == why for k in samples) else None
        sm = samples.get(ex, ("", "", "", "", ""))
        if why == "consumed-1" and kind == "xer": ctx.log("FAIL", n, kind, why); continue
        ctx.log("FAIL", n, kind, why, "|", sm[0], sm[2][:150], "=>", sm[3][:90], "| TYPE", " ".join(sm[4].split())[:300])
    ctx.cov["rule"] = "generated modules x boundary-first values x 5 syntaxes; round trip on C"
