"""C01 — encode-then-decode returns the same value in every transfer syntax."""
import re, collections
from .. import build, core, genmod, bundle, sexp, gfind, l2k

SYNTAXES = ("der", "uper", "oer", "xer", "cxer")

def leaf_sig(t, env, depth=0):
    k = t["k"]
    if k == "REF": return leaf_sig(env[t["name"]], env, depth + 1) if depth < 6 else set()
    if k in ("SEQUENCE", "SET", "CHOICE"):
        s = {k}
        for c in t["comps"]: s |= leaf_sig(c["type"], env, depth + 1)
        return s
    if k in ("SEQUENCE OF", "SET OF"): return {k} | leaf_sig(t["elem"], env, depth + 1)
    return {k}

def skip_region(syn, feats, skipped):
    """Dom_C01: regions of known findings are skipped; their witnesses are replayed separately."""
    fid = None
    if syn in ("uper", "oer") and "SET" in feats: fid = "F32"
    # F46 (named plain NumericString), F38 / F123 (type assignment that references a CHOICE / an ENUMERATED type) are
    # repaired: the features named_plain_numeric / choice_alias / enum_alias are compared like any other type
    if fid: skipped[fid] += 1
    return fid is not None

def gen_bundles(ctx, n, ntypes=10, **kw):
    out = []
    for i in range(n):
        td = [None, "AUTOMATIC", "IMPLICIT", "EXPLICIT"][i % 4]
        g = genmod.Gen(ctx.rng, tagdefault=td, **kw)
        m = g.gen_module(f"M{i}", ntypes)
        out.append(m)
    return out

def replay(ctx, path):
    import json
    r = json.load(open(path))
    ctx.lean()
    names = re.findall(r"^\s*(\w+) ::=", r["module"], re.M)
    b = bundle.Bundle("replay", r["module"], names)
    exe = b.build()
    outs, _ = ctx.run_c_bisect(exe, [r["op"]])
    print("replay:", r["op"][:300], "=>", str(outs[0])[:600])
    b.cleanup()

def run(ctx):
    ctx.lean()
    nb = 6 if ctx.quick else 60
    nvals = 8 if ctx.quick else 25
    mods = gen_bundles(ctx, nb)
    fails = collections.Counter()
    notbuilt = []
    skipped = collections.Counter()
    gfind.replay_witnesses(ctx)
    gfind.replay_fixed_witnesses(ctx)      # former witnesses of repaired findings must not reproduce
    samples = {}
    total = 0
    f30 = 0
    built = 0
    bm, bvals = genmod.boundary_module(ctx.rng, ctx.quick)
    xm, xvals = genmod.ext64_module(ctx.rng)       # extension indexes / bitmap lengths from 64 on (F29 / F64 repaired)
    fixedvals = {id(bm): bvals, id(xm): xvals}
    tg = genmod.tagged_member_modules()            # unsigned long from 2^63 on under XER too (F125 repaired); tagged SEQUENCE OF / SET OF elements, EXPLICIT tags on own-descriptor members (F122 / F49 repaired)
    fixedvals.update({id(m): v for m, v in tg})
    al = [genmod.alias_module(td) for td in (None, "AUTOMATIC")]     # type assignments that reference / tag another type (F38 / F123 / F111 / F46 repaired)
    fixedvals.update({id(m): v for m, v in al})
    for m in [bm, xm] + [m for m, _ in tg] + [m for m, _ in al] + mods:
        txt = genmod.module_text(m)
        env = dict(m["types"])
        b = bundle.Bundle(m["name"], txt, [n for n, _ in m["types"]])
        try:
            exe = b.build()
        except bundle.Asn1cFailed as e:
            ctx.log("asn1c rejected generated module:", e.out.strip().split("\n")[0][:200])
            notbuilt.append(("asn1c", e.out.strip().split("\n")[0][:100]))     # C10's subject, not a C01 violation
            if id(m) in fixedvals:      # a fixed (directed) module must build: otherwise the directed cases are silently lost
                ctx.broken.append({"kind": "harness", "name": "directed module does not build", "module": m["name"], "msg": e.out.strip().split("\n")[0][:300]})
            b.cleanup(); continue
        except build.BuildError as e:
            notbuilt.append(("cc", str(e)[:100]))
            if id(m) in fixedvals:
                ctx.broken.append({"kind": "harness", "name": "directed module does not compile", "module": m["name"], "msg": str(e)[:300]})
            b.cleanup(); continue
        built += 1
        vg = genmod.ValGen(ctx.rng, env)
        lines = []; meta = []
        for n, t in m["types"]:
            for v in (fixedvals[id(m)][n] if id(m) in fixedvals else vg.values(t, nvals)):
                sx = genmod.val_sexp(t, v, env)
                lines.append(f"@{n} echo " + sx); meta.append(("echo", n, sx))
                feats = gfind.features(t, env)
                ok_syn = [syn for syn in SYNTAXES if not skip_region(syn, feats, skipped)]
                for syn in ok_syn:
                    if syn in ("xer", "cxer") and len(sx) > 20000: continue      # keep XER text small (time)
                    lines.append(f"@{n} rt {syn} {sx}"); meta.append((syn, n, sx))
        # transcoding: every ordered pair of admissible syntaxes once per type, plus a longer chain
        for n, t in m["types"]:
            feats = gfind.features(t, env)
            ok_syn = [syn for syn in SYNTAXES if not skip_region(syn, feats, collections.Counter())]
            vs = vg.values(t, 3)
            if not vs or len(ok_syn) < 2: continue
            sx = genmod.val_sexp(t, vs[-1], env)
            for a in ok_syn:
                for b2 in ok_syn:
                    if a != b2:
                        lines.append(f"@{n} transcode 2 {a} {b2} {sx}"); meta.append(("chain", n, sx))
            chain = [ctx.rng.choice(ok_syn) for _ in range(5)]
            lines.append(f"@{n} transcode 5 {' '.join(chain)} {sx}"); meta.append(("chain", n, sx))
        outs, crashes = ctx.run_c_bisect(exe, lines)
        for l, o, me in zip(lines, outs, meta):
            if me is None: continue
            total += 1
            kind, tn, sx = me
            why = None
            if o is None or o.startswith("CRASH"): why = "crash"
            elif kind == "echo":
                if not genmod.same_value(env[tn], o, sx, env): why = "reflect-mismatch"
            elif kind == "chain":
                if o != "ok der_same=1 cmp=0": why = "transcode:" + o[:40]
            else:
                mm = re.search(r"rc=(\w+) consumed=(\d+)/(\d+)(?: cmp=(-?\d+) der_same=(\d) val=(.*))?$", o)
                if not o.startswith("ok "): why = "encode:" + o.split()[0]
                elif not mm: why = "unparsable"
                elif mm.group(1) != "ok": why = "decode-rc=" + mm.group(1)
                elif mm.group(2) != mm.group(3) and not (kind == "xer" and int(mm.group(2)) + 1 == int(mm.group(3))): why = "consumed"
                elif mm.group(4) != "0": why = "cmp!=0"
                elif mm.group(5) != "1": why = "der-differs"
                elif not genmod.same_value(env[tn], mm.group(6), sx, env): why = "value-differs"
                elif kind == "xer": f30 += 1     # F30 (trailing newline not consumed), everything else intact
            if why:
                sig = ",".join(sorted(leaf_sig(env[tn], env)))
                key = (kind, why, sig if len(sig) < 60 else sig[:60])
                fails[key] += 1
                samples.setdefault(key, (m["name"], tn, l[:400], str(o)[:300], genmod.type_text(env[tn])[:400].replace("\n", " "), txt, l, str(o)))
            else:
                ctx.count_nontrivial((kind, tn, sx[:80]))
        b.cleanup()
    ctx.cov["evaluations"] += total
    ctx.cov["predicate"]["roundtrip"] = {"modules_built": built, "cases": total, "failure_classes": len(fails), "skipped_known_regions": dict(skipped), "F30_xer_newline": f30, "modules_not_built": notbuilt}
    # K leg: the L2 Lean model (subject of the theorems) vs C on DER/BER
    from . import c02
    kcases = []
    for m in mods[:2]:
        env = dict(m["types"]); vg = genmod.ValGen(ctx.rng, env)
        kcases.append((m, {n: vg.values(t, 5) for n, t in m["types"]}))
    for m, vals in kcases:
        l2k.k_leg(ctx, "l2-der:" + m["name"], [(m, vals)], [("der", "ber", "der", "ber")],
                  skip=lambda syn, t, env, m=m: c02.der_skip(syn, t, env, m.get("tagdefault")) is not None)
    # K leg: the L2 Lean XER model (lean/Asn1cModel/L2/Xer.lean, theorems in lean/props/C01XER.json) vs C:
    # BASIC-XER / CANONICAL-XER encoder bytes and decoder results on own encodings and on variants
    from .. import c01_xer
    c01_xer.run_xer(ctx)
    agg = collections.Counter()
    nviol = 0
    for (kind, why, sig), n in fails.items(): agg[(kind, why)] += n
    for (kind, why), n in agg.most_common(25):
        ex = next(k for k in samples if k[0] == kind and k[1] == why) if any(k[0] == kind and k[1] == why for k in samples) else None
        sm = samples.get(ex, ("", "", "", "", "", "", "", ""))
        if nviol < 5:
            nviol += 1
            ctx.violation(f"C01 round trip fails on C ({kind}: {why}) for type {sm[1]}: {sm[2][:200]} -> {sm[3][:160]}",
                          {"module": sm[5], "type": sm[1], "op": sm[6], "c_output": sm[7], "failure": why, "syntax": kind, "count_in_class": n})
        if why == "consumed-1" and kind == "xer": ctx.log("FAIL", n, kind, why); continue
        ctx.log("FAIL", n, kind, why, "|", sm[0], sm[2][:150], "=>", sm[3][:90], "| TYPE", " ".join(sm[4].split())[:300])
    ctx.cov["rule"] = "generated modules x boundary-first values x 5 syntaxes; round trip on C"
