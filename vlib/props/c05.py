"""C05 — chunked (restartable) decoding gives the same result as one-shot decoding.

No OER skip region is left: F10 (SEQUENCE_decode_oer, resume inside the extension addition bitmap) and F54
(CHOICE_decode_oer, incomplete open type of an extension alternative) are repaired; `directed_module` keeps their
former witnesses and neighbourhood under test at every split point."""
import collections, re
from .. import build, core, genmod, bundle, gfind
from . import c01
from .. import c05_stream

SYN = [("der", "ber"), ("oer", "oer"), ("xer", "xer"), ("cxer", "xer")]

def directed_module():
    """OER restart bookkeeping of extensible types (findings F10 / F54, repaired): the former witnesses Q and V and their
    neighbourhood — addition bitmaps of 1 and 2 octets, additions that are themselves extensible, length-prefixed
    extension alternatives, extensible types nested in extension additions — with fixed values whose additions are present."""
    T = lambda k, **kw: dict(k=k, **kw)
    I8 = T("INTEGER", cons=genmod.cons(0, 255))
    OS = lambda: T("OCTET STRING", size=None)
    def sq(comps, ext=None):
        t = T("SEQUENCE", comps=[dict(id=c[0], type=c[1], **({"opt": c[2]} if len(c) > 2 else {})) for c in comps])
        if ext is not None: t["ext"] = ext
        return t
    def ch(alts, ext=None):
        t = T("CHOICE", comps=[dict(id=i, type=ty) for i, ty in alts])
        if ext is not None: t["ext"] = ext
        return t
    types = []; vals = {}
    def add(n, t, vs): types.append((n, t)); vals[n] = vs
    add("Q", sq([("a", I8), ("b", T("OCTET STRING", size=genmod.cons(2, 2)), "OPTIONAL"), ("c", T("BOOLEAN"))], ext=2),
        [{"a": 7, "c": True}, {"a": 7, "b": b"xy", "c": False}])
    add("V", ch([("a", T("NULL")), ("b", T("BOOLEAN")), ("c", OS())], ext=1),
        [("a", None), ("b", True), ("c", b"ab"), ("c", b""), ("c", bytes(range(130)))])
    add("Q10", sq([("r", T("BOOLEAN"))] + [(f"x{i}", I8 if i % 2 else OS(), "OPTIONAL") for i in range(10)], ext=1),
        [{"r": True}, {"r": True, "x0": b"abc"}, {"r": False, "x9": 200}, {"r": True, **{f"x{i}": (i if i % 2 else bytes([i]) * i) for i in range(10)}}])
    add("QN", sq([("a", I8), ("q", T("REF", name="Q"), "OPTIONAL"), ("v", T("REF", name="V"), "OPTIONAL")], ext=1),
        [{"a": 1}, {"a": 1, "q": {"a": 2, "c": True}}, {"a": 1, "v": ("c", b"hello")}, {"a": 1, "q": {"a": 9, "b": b"zz", "c": False}, "v": ("b", False)}])
    add("VN", ch([("n", T("NULL")), ("q", T("REF", name="Q")), ("l", T("SEQUENCE OF", elem=T("REF", name="V"), size=None))], ext=1),
        [("n", None), ("q", {"a": 3, "c": True}), ("l", []), ("l", [("c", b"ab"), ("a", None), ("b", True)])])
    add("QL", T("SEQUENCE OF", elem=T("REF", name="QN"), size=None),
        [[{"a": 1, "q": {"a": 2, "c": True}}, {"a": 3}, {"a": 4, "v": ("c", b"xyz")}]])
    add("QEmpty", sq([], ext=0), [{}])
    return {"name": "C05D", "tagdefault": "AUTOMATIC", "types": types}, vals

def run(ctx):
    ctx.lean()
    gfind.replay_witnesses(ctx)
    nb = 4 if ctx.quick else 30
    nvals = 4 if ctx.quick else 10
    mods = c01.gen_bundles(ctx, nb)
    stats = collections.Counter()
    fails = []
    dm, dvals = directed_module()
    for m in [dm] + mods:
        txt = genmod.module_text(m); env = dict(m["types"])
        b = bundle.Bundle(m["name"], txt, [n for n, _ in m["types"]])
        try: exe = b.build()
        except Exception as e:
            stats["build_failed"] += 1; ctx.module_not_built(m, e); b.cleanup(); continue
        vg = genmod.ValGen(ctx.rng, env)
        enc_lines, meta = [], []
        for n, t in m["types"]:
            feats = gfind.features(t, env)
            for v in (dvals[n] if m is dm else vg.values(t, nvals)):
                sx = genmod.val_sexp(t, v, env)
                for syn, dsyn in SYN:
                    if c01.skip_region(syn, feats, collections.Counter()): continue
                    enc_lines.append(f"@{n} enc {syn} {sx}"); meta.append((n, syn, dsyn))
        outs, _ = ctx.run_c_bisect(exe, enc_lines)
        # K leg of the streaming BER decoder model (Impl/BerStream.lean): C per-step trace vs model trace
        c05_stream.run_stream(ctx, [(m, exe, [(n, bytes.fromhex(o[3:])) for (n, syn, _), o in zip(meta, outs)
                                              if syn == "der" and o and o.startswith("ok ") and o[3:] != "-"])])
        lines, lmeta = [], []
        for (n, syn, dsyn), o in zip(meta, outs):
            if not (o and o.startswith("ok ")): continue
            data = bytes.fromhex(o[3:]) if o[3:] != "-" else b""
            if syn == "xer" and data.endswith(b"\n"): data = data[:-1]      # F30: the decoder stops before the newline
            ln = len(data)
            if ln == 0 or ln > (600 if ctx.quick else 5000): continue
            hx = data.hex()
            lines.append(f"@{n} decq {dsyn} {hx}"); lmeta.append((n, syn, ln, "oneshot", None))
            cuts = list(range(1, ln)) if ln <= (48 if ctx.quick else 400) else sorted(ctx.rng.sample(range(1, ln), 48 if ctx.quick else 300))
            for c in cuts:
                lines.append(f"@{n} decchunks {dsyn} {hx} {c}"); lmeta.append((n, syn, ln, "split2", c))
            if 2 <= ln <= (120 if ctx.quick else 1500):
                lines.append(f"@{n} decchunks {dsyn} {hx} {','.join(map(str, range(1, ln)))}"); lmeta.append((n, syn, ln, "bytewise", None))
            for _ in range(2 if ctx.quick else 12):
                k = ctx.rng.randrange(2, min(ln, 9) + 1) if ln > 2 else 1
                cs = sorted(ctx.rng.sample(range(1, ln), min(k, ln - 1))) if ln > 1 else []
                if cs: lines.append(f"@{n} decchunks {dsyn} {hx} {','.join(map(str, cs))}"); lmeta.append((n, syn, ln, "ksplit", None))
        outs, _ = ctx.run_c_parallel(exe, lines, env={"VERIF_LINE_TIMEOUT": "3"})
        ref = None
        for l, o, (n, syn, ln, kind, cut) in zip(lines, outs, lmeta):
            stats["cases"] += 1; stats["kind:" + kind] += 1
            o = str(o)
            why = None
            if kind == "oneshot":
                mm = re.match(r"ok (\d+) (.*)$", o)
                ref = (int(mm.group(1)), mm.group(2)) if mm else None
                if not mm or ref[0] != ln: why = f"one-shot decode of a valid encoding: {o[:80]}"
            else:
                if o.startswith("CRASH") or o == "HANG": why = o[:200]
                else:
                    mm = re.match(r"((?:\w+:\d+ )*)final (\w+) (\d+) (.*)$", o)
                    if not mm: why = "unparsable: " + o[:80]
                    else:
                        steps = [s.split(":") for s in mm.group(1).split()]
                        if mm.group(2) != "ok": why = f"chunked decoding ends with {mm.group(2)} (one-shot: ok)"
                        elif int(mm.group(3)) != ln: why = f"chunked total consumed {mm.group(3)} != {ln}"
                        elif ref and not genmod.same_value(env[n], mm.group(4), ref[1], env): why = "chunked value differs from one-shot value"
                        # every proper prefix must give WMORE with consumed <= what was presented
                        elif any(s[0] != "more" for s in steps): why = "a proper prefix did not yield RC_WMORE: " + mm.group(1)[:60]
                        elif kind == "split2" and steps and int(steps[0][1]) > cut: why = f"consumed {steps[0][1]} > prefix length {cut}"
            if why: fails.append((txt, n, l, o, why, syn, kind))
            else: ctx.count_nontrivial((syn, kind, hash(l)))
        b.cleanup()
    ctx.cov["evaluations"] += stats["cases"]
    ctx.cov["distribution"] = dict(stats)
    ctx.cov["predicate"]["chunking"] = {"cases": stats["cases"], "failures": len(fails)}
    ctx.cov["rule"] = ("valid encodings (BER/DER, OER, BASIC-XER, CANONICAL-XER) of generated values: every 2-chunk split point "
                       "(exhaustive up to 48 octets in quick tier), 1-byte feeding, random k-chunk schedules; final rc/consumed/value "
                       "== one-shot and every proper prefix yields RC_WMORE with consumed <= prefix")
    sig = collections.Counter(); first = {}
    for f in fails:
        key = (f[5], f[6], f[4][:50]); sig[key] += 1; first.setdefault(key, f)
    for key, cnt in sig.most_common(10):
        ctx.log("  class", cnt, key, "| e.g.", first[key][2][:110])
    for key, cnt in list(sig.most_common())[:5]:
        txt, n, l, o, why, syn, kind = first[key]
        ctx.violation(f"C05: {why} for type {n} ({syn}, {kind}): {l[:140]}", {"module": txt, "type": n, "op": l, "c_output": o[:1000], "why": why, "count_in_class": cnt})
    ctx.log("C05:", {k: v for k, v in stats.items()}, "failures", len(fails))

def replay(ctx, path):
    c01.replay(ctx, path)
