"""C03 — decoders accept every valid encoding of a value, not only the library's own."""
import collections, re
from .. import build, core, genmod, bundle, gfind, bervar, sexp, c03_oer
from . import c01, c02

# identifiers of the control-character tags of X.680 11.15.5 as OCTET_STRING__xer_escape_table spells them
CTL_TAGS = set("nul soh stx etx eot enq ack bel bs vt ff so si dle dc1 dc2 dc3 dc4 nak syn etb can em sub esc is4 is3 is2 is1".split())

def xer_variants(text, rng, count):
    """whitespace / comments between elements (X.693 8: only where a tag directly follows a tag and
    the pair is not <x></x> of one element, so that no string content is changed)"""
    out = []
    t = text.decode("utf-8", "surrogateescape")
    pos = [m.end() - 1 for m in re.finditer(r">\s*<", t)]      # index of the '<'
    def ok(i):
        # do not touch <x></x> (empty content must stay empty) nor the content of a character string (next to a
        # control-character tag such as <nul/>).  White space around another empty-element value (<b> <true/> </b>,
        # an enumeration identifier, <PLUS-INFINITY/>) is generated: finding F59 is repaired
        j = t.rfind("<", 0, i)
        k = t.find(">", i)
        prev_is_start = t[j + 1] != "/" and t[t.find(">", j) - 1] != "/"
        if prev_is_start and t[i + 1] == "/": return False
        if t[j + 1:t.find(">", j)].rstrip("/") in CTL_TAGS or t[i + 1:k].rstrip("/") in CTL_TAGS: return False
        return True
    pos = [i for i in pos if ok(i)]
    fillers = [" ", "\n", "\t\r\n  ", "<!-- c -->", " <!-- a --> \n"]
    if not pos: return out
    for k in range(count):
        s = t; sel = sorted(rng.sample(pos, min(len(pos), rng.randrange(1, 5))), reverse=True)
        for i in sel: s = s[:i] + rng.choice(fillers) + s[i:]
        out.append((f"xer-ws{k}", s.encode("utf-8", "surrogateescape")))
    return out

# tagged strings (former finding F58): constructed encodings whose segments are universal OCTET STRINGs (BIT STRINGs),
# below IMPLICIT and EXPLICIT tags written on the type, on a reference and on a SEQUENCE component
STRSEG_MODULE = """STRSEG DEFINITIONS ::= BEGIN
  SgIa ::= IA5String
  SgUt ::= UTF8String
  SgTm ::= UTCTime
  SgImp ::= [5] IMPLICIT OCTET STRING
  SgExp ::= [1] EXPLICIT OCTET STRING
  SgExpIa ::= [APPLICATION 2] EXPLICIT IA5String
  SgImpBs ::= [6] IMPLICIT BIT STRING
  SgExpBs ::= [7] EXPLICIT BIT STRING
  SgRef ::= [8] IMPLICIT SgExpIa
  SgTwo ::= [9] EXPLICIT SgExp
END
"""
STRSEG_TYPES = [  # (type, length of the tag chain, BIT STRING?, values)
    ("SgIa", 1, False, ["(os 616263646566)", "(os 61)"]), ("SgUt", 1, False, ["(os c3a4c3b6c3bc)"]),
    ("SgTm", 1, False, ["(os 3939313233313233353935395a)"]),
    ("SgImp", 1, False, ["(os 0001020304)", "(os ff)"]), ("SgExp", 2, False, ["(os 0001020304)"]),
    ("SgExpIa", 2, False, ["(os 616263646566)"]), ("SgImpBs", 1, True, ["(bs 0102f0 4)", "(bs a5 0)"]),
    ("SgExpBs", 2, True, ["(bs 0102f0 4)"]), ("SgRef", 2, False, ["(os 6162636465)"]), ("SgTwo", 3, False, ["(os 6162636465)"]),
]

def run_tagged_strings(ctx, stats, fails):
    names = [n for n, _, _, _ in STRSEG_TYPES]
    b = bundle.Bundle("STRSEG", STRSEG_MODULE, names)
    try:
        exe = b.build()
        enc = [(n, ch, bits, v) for n, ch, bits, vals in STRSEG_TYPES for v in vals]
        outs, _ = ctx.run_c_bisect(exe, [f"@{n} enc der {v}" for n, _, _, v in enc])
        lines, meta = [], []
        for (n, ch, bits, v), o in zip(enc, outs):
            if not (o and str(o).startswith("ok ")):
                fails.append((STRSEG_MODULE, n, f"@{n} enc der {v}", str(o), "DER encoding of a tagged string failed", "ber", "constructed-tagged")); continue
            der = bytes.fromhex(o[3:])
            for name, vb in bervar.string_variants(der, ch, bits, ctx.rng):
                lines.append(f"@{n} reenc ber {vb.hex()}"); meta.append((n, v, name, der, len(vb)))
        outs, _ = ctx.run_c_bisect(exe, lines)
        for l, o, (n, v, name, der, vlen) in zip(lines, outs, meta):
            stats["cases"] += 1; stats["variant:constructed-tagged"] += 1
            mm = re.match(r"(\w+) (\d+) (\S+) (.*)$", str(o)); why = None
            if not mm: why = "crash/unparsable: " + str(o)[:100]
            elif mm.group(1) != "ok": why = f"valid ber encoding ({name}) rejected: rc={mm.group(1)}"
            elif int(mm.group(2)) != vlen: why = f"consumed {mm.group(2)} of {vlen}"
            elif mm.group(3) != der.hex(): why = "DER re-encoding of the decoded variant differs from the DER of the value"
            if why: fails.append((STRSEG_MODULE, n, l, str(o), why, "ber", name))
            else: ctx.count_nontrivial(("ber", "constructed-tagged", hash(l)))
    finally:
        b.cleanup()

XUNK_MODULE = ("XU DEFINITIONS AUTOMATIC TAGS ::= BEGIN St ::= SET { a INTEGER, b INTEGER OPTIONAL, ..., c INTEGER OPTIONAL } "
               "Sq ::= SEQUENCE { a INTEGER, ..., c INTEGER OPTIONAL, d BOOLEAN OPTIONAL } "
               "Ou ::= SEQUENCE { s St, q Sq, z BOOLEAN } END")
# XER texts of a newer version's sender: unknown extension additions (empty-element, start/end pair, nested, with text) that the
# receiver must skip; (type, text, expected value)
XUNK_CASES = [
    ("St", "<St><a>1</a><flag/><b>2</b></St>", "(set (a (int 1)) (b (int 2)))"),
    ("St", "<St><a>1</a><b>2</b><flag/><c>3</c></St>", "(set (a (int 1)) (b (int 2)) (c (int 3)))"),
    ("St", "<St><flag/><a>1</a></St>", "(set (a (int 1)))"),
    ("St", "<St><a>1</a><flag></flag><b>2</b></St>", "(set (a (int 1)) (b (int 2)))"),
    ("St", "<St><a>1</a><u><v/>text<w>1</w></u><b>2</b><c>3</c></St>", "(set (a (int 1)) (b (int 2)) (c (int 3)))"),
    ("St", "<St><a>1</a><flag/><flag2/><b>2</b><last/></St>", "(set (a (int 1)) (b (int 2)))"),
    ("Sq", "<Sq><a>1</a><c>3</c><flag/></Sq>", "(seq (a (int 1)) (c (int 3)))"),
    ("Sq", "<Sq><a>1</a><c>3</c><d><true/></d><u><v/>x</u><flag/></Sq>", "(seq (a (int 1)) (c (int 3)) (d (bool t)))"),
    ("Sq", "<Sq><a>1</a><flag/></Sq>", "(seq (a (int 1)))"),
    ("Ou", "<Ou><s><a>1</a><flag/><b>2</b></s><q><a>4</a><new/></q><z><true/></z></Ou>",
     "(seq (s (set (a (int 1)) (b (int 2)))) (q (seq (a (int 4)))) (z (bool t)))"),
]

def directed_xer_unknown_extensions(ctx):
    names = ["St", "Sq", "Ou"]
    b = bundle.Bundle("XU", XUNK_MODULE, names)
    try: exe = b.build()
    except Exception as e:
        ctx.module_not_built({"name": "XU-directed"}, e); b.cleanup(); return
    bad = []
    try:
        from .. import sexp as _sx
        env = {}
        lines = [f"@{tn} dec xer {text.encode().hex()}" for tn, text, _ in XUNK_CASES]
        outs, _ = ctx.run_c_bisect(exe, lines)
        for (tn, text, want), l, o in zip(XUNK_CASES, lines, outs):
            ctx.cov["evaluations"] += 1
            o = str(o); parts = o.split(" ", 2)
            ok = len(parts) == 3 and parts[0] == "ok" and int(parts[1]) == len(text.encode()) and \
                 re.sub(r"\s+", " ", parts[2].strip()) == want
            if ok: ctx.count_nontrivial(("xer-unknown-ext", text))
            else: bad.append((tn, text, want, o))
    finally:
        b.cleanup()
    ctx.cov["predicate"]["xer_unknown_extensions"] = {"cases": len(XUNK_CASES), "failures": len(bad)}
    for tn, text, want, o in bad[:3]:
        ctx.violation(f"C03: valid xer text with unknown extension additions is not decoded to the value it denotes: @{tn} {text} -> {o[:160]} (expected ok {len(text)} {want})",
                      {"module": XUNK_MODULE, "type": tn, "op": f"@{tn} dec xer {text.encode().hex()}", "c_output": o[:2000], "expected": want})

def run(ctx):
    ctx.lean()
    directed_xer_unknown_extensions(ctx)
    gfind.replay_witnesses(ctx)
    gfind.replay_fixed_witnesses(ctx)      # former witnesses of repaired findings must not reproduce
    # OER / UPER: valid encodings that are not the library's own (Lean variant generators L2.OerVar / L2.UperVar)
    import time as _t; _t0 = _t.time()
    vacc = c03_oer.Acc(ctx)
    c03_oer.audit_once(ctx)
    c03_oer.replay_proposed(ctx)
    vacc.seconds += _t.time() - _t0
    c03_oer.run_fixed(ctx, vacc)
    nb = 4 if ctx.quick else 30
    nvals = 5 if ctx.quick else 12
    nmix = 3 if ctx.quick else 12
    mods = c01.gen_bundles(ctx, nb)
    stats = collections.Counter(); fails = []; kdis = []
    run_tagged_strings(ctx, stats, fails)
    for m in mods:
        txt = genmod.module_text(m); env = dict(m["types"])
        b = bundle.Bundle(m["name"], txt, [n for n, _ in m["types"]])
        try: exe = b.build()
        except Exception as e:
            stats["build_failed"] += 1; ctx.module_not_built(m, e); b.cleanup(); continue
        vg = genmod.ValGen(ctx.rng, env)
        enc, meta = [], []
        for n, t in m["types"]:
            feats = gfind.features(t, env, tagdefault=m.get("tagdefault"))
            for v in vg.values(t, nvals):
                sx = genmod.val_sexp(t, v, env)
                enc.append(f"@{n} enc der {sx}"); meta.append((n, t, sx, "der", feats))
                enc.append(f"@{n} enc cxer {sx}"); meta.append((n, t, sx, "cxer", feats))     # REAL included: CANONICAL-XER is exact, <r> <PLUS-INFINITY/> </r> decodes (F59 repaired)
        outs, _ = ctx.run_c_bisect(exe, enc)
        lines, lmeta = [], []
        for (n, t, sx, syn, feats), o in zip(meta, outs):
            if not (o and o.startswith("ok ")) or len(o) > 3000: continue
            data = bytes.fromhex(o[3:]) if o[3:] != "-" else b""
            if syn == "der":
                for name, vb in bervar.variants(data, ctx.rng, nmix):
                    lines.append(f"@{n} reenc ber {vb.hex()}"); lmeta.append((n, t, sx, "ber", name, data, len(vb), feats))
            else:
                for name, vb in xer_variants(data, ctx.rng, 3 if ctx.quick else 8):
                    lines.append(f"@{n} reenc xer {vb.hex()}"); lmeta.append((n, t, sx, "xer", name, None, len(vb), feats))
        outs, _ = ctx.run_c_parallel(exe, lines, env={"VERIF_LINE_TIMEOUT": "3"})
        # K leg: the Lean BER decoder on the same variants
        klines = ["l2mod " + genmod.module_sexp(m)] + [f"@{lm[0]} l2dec ber {l.split()[-1]}" for l, lm in zip(lines, lmeta) if lm[3] == "ber"]
        rc, mo, err = ctx.run_lines(build.model_exe(), klines)
        mo = mo[1:]; mi = 0
        for l, o, (n, t, sx, syn, vname, der, vlen, feats) in zip(lines, outs, lmeta):
            stats["cases"] += 1; stats["variant:" + re.sub(r"\d+$", "", vname)] += 1
            o = str(o); why = None
            mm = re.match(r"(\w+) (\d+) (\S+) (.*)$", o)
            if not mm: why = "crash/unparsable: " + o[:100]
            elif mm.group(1) != "ok": why = f"valid {syn} encoding ({vname}) rejected: rc={mm.group(1)}"
            elif int(mm.group(2)) != vlen: why = f"consumed {mm.group(2)} of {vlen}"
            elif not genmod.same_value(t, mm.group(4), sx, env): why = "decoded value differs from the encoded value"
            elif der is not None and mm.group(3) != der.hex() and "SET OF" not in feats: why = "DER re-encoding of the decoded variant differs from the DER of the value"
            if syn == "ber":
                mres = mo[mi]; mi += 1
                if mres != "unsupported-type":
                    cm = mres.split(" ", 2)
                    agree = (cm[0] == (mm.group(1) if mm else "?")) and (cm[0] != "ok" or cm[1] == mm.group(2))
                    if agree and cm[0] == "ok":
                        try: agree = genmod.norm_sexp(t, genmod.pos_to_named(t, sexp.parse(cm[2]), env), env) == genmod.norm_sexp(t, sexp.parse(mm.group(4)), env)
                        except Exception: agree = False
                    stats["k_agree" if agree else "k_disagree"] += 1
                    if not agree: kdis.append((txt, n, l, o, mres, vname))
            if why: fails.append((txt, n, l, o, why, syn, vname))
            else: ctx.count_nontrivial((syn, vname, hash(l)))
        try: c03_oer.run_generated(ctx, m, exe, vacc)
        finally: b.cleanup()
    ctx.cov["evaluations"] += stats["cases"]
    ctx.cov["distribution"] = dict(stats)
    ctx.cov["predicate"]["variants"] = {"cases": stats["cases"], "failures": len(fails)}
    ctx.cov["correspondence"]["l2-ber-variants"] = {"agree": stats["k_agree"], "disagree": stats["k_disagree"]}
    c03_oer.finish(ctx, vacc)
    ctx.cov["rule"] = ("BER variants of C's DER output (long-form / zero-padded lengths, indefinite lengths, constructed and nested constructed "
                       "strings, SET / SET OF member permutations, BOOLEAN TRUE as any non-zero octet, random mixes) and XER variants "
                       "(whitespace, newlines, comments between elements); OER variants of the Lean reference encoder (long-form / zero-padded length "
                       "determinants, ENUMERATED long form, BOOLEAN TRUE as 0x01..0xFE, SET OF order, shorter / longer extension presence bitmaps "
                       "with unknown additions absent or present) and UPER variants (shorter / longer extension bitmaps, unknown additions to "
                       "skip): decode rc OK, consumed all, value equal, DER re-encoding identical")
    sig = collections.Counter(); first = {}
    for f in fails:
        key = (f[5], re.sub(r"\d+$", "", f[6]), f[4][:60]); sig[key] += 1; first.setdefault(key, f)
    for key, cnt in sig.most_common(10):
        ctx.log("  class", cnt, key, "| e.g.", first[key][2][:120], "=>", first[key][3][:100])
    for key, cnt in list(sig.most_common())[:5]:
        txt, n, l, o, why, syn, vname = first[key]
        ctx.violation(f"C03: {why} for type {n}: {l[:140]}", {"module": txt, "type": n, "op": l, "c_output": o[:600], "why": why, "variant": vname, "count_in_class": cnt})
    for txt, n, l, o, mres, vname in kdis[:10]:
        ctx.broken.append({"kind": "correspondence", "name": "l2-ber-variants", "module": txt[:3000], "type": n, "op": l, "c": o[:300], "model": mres[:300]})
    if kdis: ctx.log("  K disagreements:", len(kdis), "e.g.", kdis[0][2][:100], "| C:", kdis[0][3][:80], "| M:", kdis[0][4][:80])
    ctx.log("C03:", {k: v for k, v in stats.items()}, "failures", len(fails))

def replay(ctx, path):
    c01.replay(ctx, path)
