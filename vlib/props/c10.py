"""C10 — every accepted specification yields C code that builds; the compiler never dies.

L: Props/C10.lean (identifier generation, reserved words, WfDescr consequences, exit status).
K: (a) asn1c_make_identifier / construct_base_name: real functions (harness/naming_driver.c) vs Impl.Naming;
   (b) exit status: asn1c -E / -E -F / full run vs Impl.CompilerMain.mainStatus.
P: generated valid modules (nasty identifier pool), modules with injected semantic errors and multi-module sets
   (2-3 files with IMPORTS, deliberately colliding inner member names across / inside modules) x option sets:
   asn1c ends by exit(); exit 0 => every emitted .c compiles (gcc -std=c99), the exact emitted file set links
   with a PDU-table stub, every emitted header passes g++ -std=gnu++14 -fsyntax-only, every descriptor
   satisfies WfDescr (Lean driver) and agrees with the source module on optional members;
   exit != 0 => diagnostic on stderr.
   Repaired findings F80 (hyphenated C++ keywords), F43 (negative DEFAULT), F82 (empty range), F86 (enumeration item named like a
   generated symbol), F88 (NULL as actual type parameter), F33 (directly nested constrained OF types), F44 (inline unsigned-long
   element of SEQUENCE OF / SET OF), F27 (built-in &Type in an object set), F85 (value range on a restricted string), F74
   (-fno-constraints member constraint records), F63 (type defined through itself without a tag), F12 (exact file set without
   string types links), F120 (SEQUENCE { ... }) have no skip region:
   their former witnesses and neighbours run as directed modules with an expected outcome (built / rejected)."""
import os, re, json, shutil, collections, itertools
from .. import build, core, genmod, bundle, cgen, trans_reswords, c10_compile

OPTSETS = [
    ("compound", ["-fcompound-names"]),
    ("wide", ["-fwide-types", "-fcompound-names"]),
    ("indirect", ["-findirect-choice", "-fcompound-names"]),
    ("noconstr", ["-fno-constraints", "-fcompound-names"]),
    ("noper", ["-no-gen-PER", "-fcompound-names"]),
    ("nooer", ["-no-gen-OER", "-fcompound-names"]),
    ("quoted", ["-fincludes-quoted", "-fcompound-names"]),
    ("default", []),
    ("noper-nooer", ["-no-gen-PER", "-no-gen-OER"]),
    ("noconstr-plain", ["-fno-constraints", "-no-gen-PER", "-no-gen-OER", "-fcompound-names"]),
]

PROPOSED_FINDINGS = [
 {"id": "F81", "property": "C10", "status": "known",
  "what": "a type reference whose C name equals a skeleton typedef (INTEGER-t -> 'typedef struct INTEGER_t {...} INTEGER_t_t' next to the skeleton's 'typedef ... INTEGER_t') is accepted (exit 0); "
          "legal C (struct tags have their own name space) but the emitted header is rejected by g++ (using typedef-name after struct)",
  "witness": {"module": "M DEFINITIONS AUTOMATIC TAGS ::= BEGIN INTEGER-t ::= SEQUENCE { a INTEGER } END", "opts": [],
              "c_output": "INTEGER-t.h: error: using typedef-name 'INTEGER_t' after 'struct'"},
  "matcher": "module defines a type named <SkeletonType>-t (its C name equals an existing skeleton typedef); failure is g++ on the emitted header"},
]

# ------------------------------------------------------------------ K leg (a): identifiers
C_KEYWORDS = ("auto break case char const continue default do double else enum extern float for goto if inline int long register "
              "restrict return short signed sizeof static struct switch typedef union unsigned void volatile while").split()
CXX_KEYWORDS = ("alignas alignof and and_eq asm bitand bitor bool catch char16_t char32_t class compl const_cast constexpr decltype "
                "delete dynamic_cast explicit export false friend mutable namespace new noexcept not not_eq nullptr operator or or_eq "
                "private protected public reinterpret_cast static_assert static_cast template this thread_local throw true try typeid "
                "typename using virtual wchar_t xor xor_eq").split()

def hx(s): return s.encode("latin1").hex() if s else "-"
def unhx(h): return "" if h == "-" else bytes.fromhex(h).decode("latin1")

def naming_driver():
    srcs = [s for s in build.asn1c_sources() if not s.endswith("/asn1c/asn1c.c") and not s.endswith("asn1c_naming.c")]
    fl = [f for f in build.asn1c_flags() if f != "-w" and not f.startswith("-std")] + \
         ['-DREPO_NAMING_C="%s"' % os.path.join(build.REPO, "libasn1compiler", "asn1c_naming.c")]
    return build.build_prog("naming_driver", ["naming_driver.c"] + srcs, san="asan", extra_flags=fl)

def naming_lines(ctx, words):
    r = ctx.rng
    L = []
    alpha = "abzAZ09-_ .&$\x80\xe9"
    # boundary-exhaustive: every reserved word under every flag value, alone and followed by a second part
    for w in sorted(set(words)):
        for fl in range(8):
            L.append(f"mkid {fl} N {hx(w)}")
            L.append(f"mkid {fl} E {hx(w)} 0 {hx('M')} 3 -1")
        L.append(f"mkid 2 N {hx(w)} {hx('x')}")
        L.append(f"mkid 2 E {hx(w)} 1 {hx('Mod-1')} 7 -1")
        L.append(f"mkid 2 E {hx(w)} 0 {hx('M')} 7 2")
        L.append(f"mkid 2 N {hx(w.replace('_', '-'))}")
        L.append(f"mkid 2 N {hx(w.upper())}")
        L.append(f"mkid 2 N {hx(w + '-')}")
        L.append(f"cbn 1 1 {hx(w)}"); L.append(f"cbn 1 1 {hx('T')} {hx(w)}"); L.append(f"cbn 0 1 {hx('T')} {hx(w)}")
        L.append(f"cbn 1 0 {hx(w)}")
    # all strings of length <= 3 over a small alphabet (escaping state machine), flags 0 and 1
    small = "a9-_ "
    for n in range(0, 4):
        for t in itertools.product(small, repeat=n):
            s = "".join(t)
            L.append(f"mkid 0 N {hx(s)}")
            if n == 3: L.append(f"mkid 1 N {hx(s)}")
    for a in ("", "a", "-", " ", "a-"):
        for b in ("", "b", "-", " ", "-b"):
            for fl in (0, 4, 2):
                L.append(f"mkid {fl} N {hx(a)} {hx(b)}")
                L.append(f"mkid {fl} N {hx(a)} {hx(b)} {hx('c')}")
                L.append(f"mkid {fl} E {hx(a or 'q')} 0 {hx('M')} 1 -1 {hx(b)}")
    L.append("mkid 0 E NULL 0 4d 1 -1"); L.append("mkid 2 E NULL 1 4d 1 5 61")
    n = 1500 if ctx.quick else 60000
    for _ in range(n):
        def rs():
            k = r.choice([0, 1, 1, 2, 3, 5, 9])
            return "".join(r.choice(alpha) for _ in range(k))
        fl = r.randrange(8)
        if r.random() < 0.5:
            args = [rs() for _ in range(r.choice([1, 1, 2, 3, 4]))]
            L.append(f"mkid {fl} N " + " ".join(hx(a) for a in args))
        elif r.random() < 0.7:
            args = [rs() for _ in range(r.choice([0, 0, 1, 2, 3]))]
            ident = rs() if r.random() < 0.7 else r.choice(words)
            L.append(f"mkid {fl} E {hx(ident)} {r.randrange(2)} {hx(rs() or 'M')} {r.choice([0, 1, 12, 99999])} {r.choice([-1, -1, 0, 3, 17])} "
                     + " ".join(hx(a) for a in args))
        else:
            chain = [r.choice([rs() or "t", r.choice(words), "T", "a-b"]) for _ in range(r.choice([1, 2, 3, 4]))]
            L.append(f"cbn {r.randrange(2)} {r.randrange(2)} " + " ".join(hx(c) for c in chain))
    return [l.rstrip() for l in L]

IDENT_RE = re.compile(r"[A-Za-z_][A-Za-z0-9_]*\Z")
HYPHEN_KW = {k.replace("_", "-") for k in C_KEYWORDS + CXX_KEYWORDS if "_" in k}

def naming_predicate(ctx, lines, couts):
    """P on C's own outputs: identifiers made from ASN.1-shaped names are C identifiers and not keywords"""
    bad = []
    nh = 0
    n = 0
    asn1_name = re.compile(r"[A-Za-z][A-Za-z0-9]*(-[A-Za-z0-9]+)*\Z")
    for l, c in zip(lines, couts):
        t = l.split()
        if c is None or c.startswith("CRASH"):
            bad.append((l, c, "crash")); continue
        if t[0] == "mkid" and t[2] == "N" and len(t) == 4 and int(t[1]) in (0, 2):
            name = unhx(t[3])
            if not asn1_name.match(name): continue
            n += 1
            if not c.startswith("ok "): bad.append((l, c, "no result")); continue
            out = unhx(c[3:])
            if not IDENT_RE.match(out): bad.append((l, c, "not a C identifier"))
            elif int(t[1]) == 2 and out in C_KEYWORDS + CXX_KEYWORDS:
                bad.append((l, c, "reserved word"))       # hyphenated keywords (and-eq, wchar-t, ...: former finding F80) included
            if name in HYPHEN_KW: nh += 1
            ctx.count_nontrivial(("mkid", name, out))
    ctx.cov["predicate"]["identifier"] = {"asn1_shaped_names": n, "hyphenated_keywords_checked": nh, "failures": len(bad)}
    return bad

# ------------------------------------------------------------------ modules
def inject_errors(rng, base_text, kind):
    """returns module text with one injected semantic error (an extra type `Bad`)"""
    cat = {
        "dup-ident": "Bad ::= SEQUENCE { a [0] INTEGER, a [1] BOOLEAN }",
        "dup-ident-choice": "Bad ::= CHOICE { a [0] INTEGER, a [1] BOOLEAN }",
        "dup-tag-seq": "Bad ::= SEQUENCE { a [1] INTEGER OPTIONAL, b [1] BOOLEAN }",
        "dup-tag-set": "Bad ::= SET { a [3] INTEGER, b [3] BOOLEAN }",
        "dup-tag-choice": "Bad ::= CHOICE { a [0] INTEGER, b [0] NULL }",
        "dup-tag-nested-choice": "Bad ::= SET { a [0] INTEGER, c CHOICE { x [0] NULL, y [1] NULL } }",
        "dup-enum-name": "Bad ::= ENUMERATED { a, b, a }",
        "dup-enum-value": "Bad ::= ENUMERATED { a(1), b(1) }",
        "dup-type": "Bad ::= INTEGER\n  Bad ::= BOOLEAN",
        "undef-ref": "Bad ::= SEQUENCE { a [0] Undefined-Type }",
        "undef-alias": "Bad ::= Undefined-Type",
        "undef-of": "Bad ::= SEQUENCE OF Undefined-Type",
        "undef-default": "Bad ::= SEQUENCE { a [0] INTEGER DEFAULT undefined-value }",
        "undef-import": "Bad ::= SEQUENCE { a [0] Other-Module.Thing }",
        "self-alias": "Bad ::= Bad",
        "mutual-alias": "Bad ::= Bad2\n  Bad2 ::= Bad",
        "empty-range": "Bad ::= INTEGER (5..1)",
        "empty-size": "Bad ::= OCTET STRING (SIZE(4..2))",
        "empty-range-member": "Bad ::= SEQUENCE { a [0] INTEGER (10..-10) }",
        "default-out-of-range": "Bad ::= SEQUENCE { a [0] INTEGER (0..7) DEFAULT 9 }",
        "default-wrong-type": "Bad ::= SEQUENCE { a [0] BOOLEAN DEFAULT 5 }",
        "default-wrong-type2": "Bad ::= SEQUENCE { a [0] INTEGER DEFAULT TRUE }",
        "string-value-on-int": "Bad ::= INTEGER (\"abc\")",
        "negative-size": "Bad ::= IA5String (SIZE(-1))",
        "size-on-integer": "Bad ::= INTEGER (SIZE(1..2))",
        "size-on-boolean": "Bad ::= BOOLEAN (SIZE(1))",
        "from-on-integer": "Bad ::= INTEGER (FROM(\"a\"..\"z\"))",
        "range-on-boolean": "Bad ::= BOOLEAN (1..5)",
        "range-on-string": "Bad ::= IA5String (1..5)",
        "min-max-swapped": "Bad ::= INTEGER (MAX..MIN)",
        "empty-range-union": "Bad ::= INTEGER (1..5 | 9..7)",
        "empty-range-parent-min": "Bad ::= INTEGER (1..10)(MIN..0)",
        "empty-alphabet-range": "Bad ::= IA5String (FROM(\"z\"..\"a\"))",
        "empty-size-member": "Bad ::= SEQUENCE { a [0] OCTET STRING (SIZE(9..8)) OPTIONAL }",
        "rec-seq": "Bad ::= SEQUENCE { a [0] INTEGER, b [1] Bad }",
        "rec-set": "Bad ::= SET { a [0] INTEGER, b [1] Bad }",
        "rec-choice-tagged": "Bad ::= CHOICE { a [0] Bad, b [1] INTEGER }",
        "rec-choice-untagged": "Bad ::= CHOICE { a Bad, b INTEGER }",
        "rec-mutual": "Bad ::= SEQUENCE { b [0] Bad2 }\n  Bad2 ::= SEQUENCE { a [0] Bad }",
        "rec-of": "Bad ::= SEQUENCE OF Bad",
        "rec-setof-choice": "Bad ::= SET OF CHOICE { a [0] Bad, b [1] NULL }",
        "big-tag": "Bad ::= [99999999999] INTEGER",
        "huge-int": "Bad ::= INTEGER (0..99999999999999999999999999999999999999999999)",
        "huge-enum": "Bad ::= ENUMERATED { a(99999999999999999999) }",
        "components-of-nonseq": "Bad ::= SEQUENCE { COMPONENTS OF INTEGER }",
        "ext-twice": "Bad ::= SEQUENCE { a [0] INTEGER, ..., ..., b [1] INTEGER, ..., c [2] NULL }",
        "named-number-dup": "Bad ::= INTEGER { a(1), a(2) }",
        "named-bit-dup": "Bad ::= BIT STRING { a(1), b(1) }",
        "named-bit-negative": "Bad ::= BIT STRING { a(-1) }",
        "automatic-with-manual": "Bad ::= SEQUENCE { a INTEGER, ..., b [5] BOOLEAN }",
        "set-untagged-dups": "Bad ::= SET { a INTEGER, b INTEGER }",
        "choice-any": "Bad ::= CHOICE { a ANY, b ANY }",
        "setof-constraint": "Bad ::= SET (SIZE(3..1)) OF INTEGER",
        "setof-constraint-inner": "Bad ::= SET OF INTEGER (7..3)",
        "with-components-unknown": "Bad ::= SEQUENCE { a [0] INTEGER } (WITH COMPONENTS { nope })",
        "class-field-undefined": "Bad ::= SEQUENCE { a [0] NO-CLASS.&id }",
    }
    if kind == "*keys": return sorted(cat)
    body = cat[kind]
    lines = base_text.rstrip().split("\n")
    assert lines[-1].strip() == "END"
    pos = rng.randrange(1, len(lines))
    # insert at a top-level position only (lines starting with two spaces and a capital letter start an assignment)
    tops = [i for i in range(1, len(lines)) if re.match(r"  [A-Z][\w-]* ::=", lines[i]) or lines[i].strip() == "END"]
    pos = rng.choice(tops)
    lines.insert(pos, "  " + body)
    names = ["Bad"] + (["Bad2"] if "Bad2 ::=" in body else [])
    return "\n".join(lines) + "\n", names

def type_names_of(text):
    return re.findall(r"^\s*([A-Z][\w-]*)\s*::=", text.split("BEGIN", 1)[1], re.M)

def opt_members_of(m):
    """{sequence member-id tuple: optional flags} from the source module, for the descriptor cross-check"""
    out = {}
    def walk(t):
        if t["k"] in ("SEQUENCE", "SET"):
            ids = tuple(c["id"] for c in t["comps"])
            ext = t.get("ext")
            out.setdefault(ids, tuple(c.get("opt") is not None or (ext is not None and i >= ext) for i, c in enumerate(t["comps"])))
        for c in t.get("comps", []): walk(c["type"])
        if "elem" in t: walk(t["elem"])
    for _, t in m["types"]: walk(t)
    return out

MEMBER_RE = re.compile(r"\(m (\S+) flags=(\d+) opt=(\d+) ")

def check_optional_vs_source(dump, optmap):
    """every dumped SEQUENCE/SET member list that matches a source component list: opt>0 <=> OPTIONAL/DEFAULT"""
    bad = []
    from .. import sexp
    try: tree = sexp.parse(dump)
    except Exception: return ["unparsable dump"]
    def walk(x):
        if isinstance(x, list):
            if x and x[0] == "type" and len(x) > 3 and x[2] in ("sequence", "set"):
                ms = [y for y in x if isinstance(y, list) and y and y[0] == "members"]
                if ms:
                    mem = [y for y in ms[0][1:] if isinstance(y, list) and y and y[0] == "m"]
                    ids = tuple(y[1] for y in mem)
                    if ids in optmap:
                        got = tuple(int(str(y[3]).split("=")[1]) > 0 for y in mem)
                        if x[2] == "sequence" and got != optmap[ids]: bad.append(f"{x[1]}: optional flags {got} != source {optmap[ids]}")
            for y in x: walk(y)
    walk(tree)
    return bad

def job(args):
    """one (module text, option set) run of the whole pipeline; returns a result dict"""
    idx, tag, text, names, optname, opts, want_dump = args
    asn1c = build.build_asn1c()
    d = cgen.fresh_dir("c10", f"{os.getpid()}-{idx}")
    files = text if isinstance(text, list) else [("module.asn1", text)]
    text = "\n".join(t for _, t in files)
    res = {"idx": idx, "tag": tag, "opt": optname, "opts": opts, "text": text, "names": names, "files": files}
    try:
        paths = []
        for fn, ft in files:
            f = os.path.join(d, fn); paths.append(f)
            with open(f, "w") as fh: fh.write(ft)
        out = os.path.join(d, "out")
        r = cgen.run_asn1c(asn1c, paths, out, ["-no-gen-example"] + opts)
        res.update(rc=r["rc"], died=cgen.died(r), death=cgen.death_summary(r) if cgen.died(r) else None,
                   stderr_empty=not r["err"].strip(), err_head=r["err"].strip().split("\n")[0][:200] if r["err"].strip() else "")
        if r["rc"] != 0 or cgen.died(r): return res
        cflags = cgen.module_cflags(out)
        res["cflags"] = cflags
        objs, mobjs, errs = cgen.compile_emitted(out, cflags)
        res["emitted_c"] = len(objs) + len(errs)
        res["compile_errors"] = errs[:4]
        if errs: return res
        res["link_error"] = cgen.link_exact(out, objs, names, cflags)
        res["cxx_errors"] = cgen.cxx_headers(out, cflags)[:4]
        if want_dump:
            try:
                exe = cgen.link_dump_driver(out, mobjs, names, cflags)
                p = cgen._sh([exe], input="".join(f"@{n} descr\n" for n in names))
                lines = p.stdout.split("\n")
                if p.returncode != 0 or len(lines) < len(names): res["dump_error"] = f"dump driver rc={p.returncode} {p.stdout[-200:]}"
                else: res["dumps"] = lines[:len(names)]
            except build.BuildError as e:
                res["dump_error"] = str(e)[:400]
        return res
    finally:
        shutil.rmtree(d, ignore_errors=True)

# ------------------------------------------------------------------ directed modules (former witnesses of repaired findings and their neighbourhood)
def directed_modules():
    """[(tag, module text, expected outcome 'built' | 'rejected')], each run under every option set"""
    hk = sorted(HYPHEN_KW)
    seq = ", ".join(f"{k} [{i}] INTEGER" for i, k in enumerate(hk))
    cho = ", ".join(f"{k} [{i}] NULL" for i, k in enumerate(hk))
    enu = ", ".join(hk)
    D = [
     ("F80-witness", "M DEFINITIONS AUTOMATIC TAGS ::= BEGIN\n  T ::= SEQUENCE { and-eq INTEGER, wchar-t BOOLEAN }\nEND\n", "built"),
     ("F80-all-hyphenated-keywords",
      "M DEFINITIONS ::= BEGIN\n  S ::= SEQUENCE { %s }\n  C ::= CHOICE { %s }\n  E ::= ENUMERATED { %s }\n"
      "  U ::= SET { and-eq [0] SEQUENCE { wchar-t INTEGER OPTIONAL }, thread-local [1] SEQUENCE OF INTEGER }\n"
      "  Static-assert ::= INTEGER\n  Wchar-t ::= BOOLEAN\n  thread-local INTEGER ::= 5\nEND\n" % (seq, cho, enu), "built"),
     ("F80-near-misses", "M DEFINITIONS AUTOMATIC TAGS ::= BEGIN\n  T ::= SEQUENCE { and-eq-x INTEGER, x-and-eq INTEGER, wchar-t1 BOOLEAN, and-EQ NULL, int-t INTEGER }\nEND\n", "built"),
     ("F43-witness", "M DEFINITIONS AUTOMATIC TAGS ::= BEGIN\n  T ::= SEQUENCE { a INTEGER (MIN..-1) DEFAULT -1 }\nEND\n", "built"),
     ("F43-negative-defaults",
      "M DEFINITIONS AUTOMATIC TAGS ::= BEGIN\n  T ::= SEQUENCE { a INTEGER (MIN..-1) DEFAULT -1, b INTEGER DEFAULT -5, c INTEGER DEFAULT 5, d E DEFAULT neg,\n"
      "    e INTEGER (-10..10) DEFAULT -10, f INTEGER DEFAULT -2147483648, g INTEGER { m(-7) } DEFAULT m, h INTEGER DEFAULT 0,\n"
      "    i INTEGER (-5..5) DEFAULT 5, j INTEGER (-5..5) DEFAULT -5, k INTEGER DEFAULT -9223372036854775807 }\n"
      "  U ::= SET { a [0] INTEGER DEFAULT -1, b [1] INTEGER DEFAULT 1, c [2] E DEFAULT neg }\n"
      "  E ::= ENUMERATED { neg(-3), pos(3), zero(0) }\nEND\n", "built"),
     ("F86-witness", "M DEFINITIONS AUTOMATIC TAGS ::= BEGIN\n  T ::= ENUMERATED { free, busy }\nEND\n", "built"),
     ("F86-generated-symbol-names",
      "M DEFINITIONS AUTOMATIC TAGS ::= BEGIN\n  T ::= ENUMERATED { free, busy, print, constraint, t, decode-ber, encode-der, decode-xer, encode-xer,\n"
      "    decode-oer, encode-oer, decode-uper, encode-uper, pr, e, specs, def }\n"
      "  U ::= SEQUENCE { e ENUMERATED { print, x, t }, i INTEGER { constraint(1), free(2) }, b BIT STRING { free(0), t(1) } }\n"
      "  I ::= INTEGER { t(1), free(2), other(3) }\n  B ::= BIT STRING { free(0), t(1), print(2) }\n"
      "  C ::= CHOICE { free NULL, t INTEGER, print BOOLEAN, nothing NULL, pr NULL }\nEND\n", "built"),
     ("F12-witness", "M DEFINITIONS AUTOMATIC TAGS ::= BEGIN\n  T ::= SEQUENCE { a INTEGER, b BOOLEAN }\nEND\n", "built"),
     ("F12-no-octet-string-user", "M DEFINITIONS AUTOMATIC TAGS ::= BEGIN\n  T ::= CHOICE { a NULL, b BOOLEAN }\n  U ::= SEQUENCE OF INTEGER (0..7)\n  V ::= ENUMERATED { x, y }\nEND\n", "built"),
     ("F120-witness", "M DEFINITIONS AUTOMATIC TAGS ::= BEGIN\n  A ::= SEQUENCE { ... }\n  B ::= SEQUENCE { a A, b SEQUENCE { ... } OPTIONAL, ... }\nEND\n", "built"),
     ("F82-witness", "M DEFINITIONS AUTOMATIC TAGS ::= BEGIN\n  T ::= INTEGER (5..1)\nEND\n", "rejected"),
     ("F82-size", "M DEFINITIONS AUTOMATIC TAGS ::= BEGIN\n  T ::= OCTET STRING (SIZE(4..2))\nEND\n", "rejected"),
     ("F82-member", "M DEFINITIONS AUTOMATIC TAGS ::= BEGIN\n  T ::= SEQUENCE { a INTEGER (10..-10), b BOOLEAN }\nEND\n", "rejected"),
     ("F82-union", "M DEFINITIONS AUTOMATIC TAGS ::= BEGIN\n  T ::= INTEGER (1..5 | 9..7)\nEND\n", "rejected"),
     ("F82-alphabet", "M DEFINITIONS AUTOMATIC TAGS ::= BEGIN\n  T ::= IA5String (FROM(\"z\"..\"a\"))\nEND\n", "rejected"),
     ("F82-element", "M DEFINITIONS AUTOMATIC TAGS ::= BEGIN\n  T ::= SET (SIZE(3..1)) OF INTEGER\n  U ::= SEQUENCE OF INTEGER (7..3)\nEND\n", "rejected"),
     ("F82-controls", "M DEFINITIONS AUTOMATIC TAGS ::= BEGIN\n  T ::= INTEGER (3..3)\n  U ::= IA5String (FROM(\"cba\"))\n  V ::= INTEGER (-5..-1 | 1..5)\n"
                      "  W ::= OCTET STRING (SIZE(0..0))\n  X ::= IA5String (SIZE(1..4))(FROM(\"za\"))\nEND\n", "built"),
    ]
    A = "M DEFINITIONS AUTOMATIC TAGS ::= BEGIN\n"
    IOC = ("M DEFINITIONS ::= BEGIN\n"
           "  Frame ::= SEQUENCE { ident FRAME-STRUCTURE.&id({FrameTypes}), value FRAME-STRUCTURE.&Type({FrameTypes}{@.ident}) }\n"
           "  FRAME-STRUCTURE ::= CLASS { &id INTEGER UNIQUE, &Type } WITH SYNTAX {&Type IDENTIFIED BY &id}\n"
           "  FrameTypes FRAME-STRUCTURE ::= { %s | { Other IDENTIFIED BY 2 } }\n  Other ::= SEQUENCE {}\nEND\n")
    FN = ["Frame", "Other"]
    D += [
     # F88: NULL as actual type parameter (read by the parser as a value); any other value in place of a type is diagnosed
     ("F88-witness", "M DEFINITIONS IMPLICIT TAGS ::= BEGIN\n  Box {T} ::= SEQUENCE { x T }\n  U ::= Box {NULL}\nEND\n", "built", ["U"]),
     ("F88-null-parameters", A + "  Box {T} ::= SEQUENCE { x T, y T OPTIONAL }\n  Lst {T} ::= SEQUENCE OF T\n  Cho {T, INTEGER:v} ::= CHOICE { a T, b INTEGER (0..v) }\n"
      "  Outer {T} ::= SET { o Box {T} }\n  U ::= Box {NULL}\n  V ::= Lst {NULL}\n  W ::= SEQUENCE { a Box {NULL}, b Box {INTEGER}, c Cho {NULL, 5}, d Outer {NULL} }\nEND\n",
      "built", ["U", "V", "W"]),
     ("F88-value-for-type", A + "  Box {T} ::= SEQUENCE { x T }\n  U ::= Box {5}\nEND\n", "rejected", ["U"]),
     ("F88-boolean-value-for-type", A + "  Lst {T} ::= SEQUENCE OF T\n  U ::= Lst {TRUE}\nEND\n", "rejected", ["U"]),
     # F44: inline INTEGER element mapped to unsigned long
     ("F44-witness", "M DEFINITIONS ::= BEGIN\n  T ::= SEQUENCE OF INTEGER (1..MAX)\nEND\n", "built"),
     ("F44-set-of", A + "  T ::= SET OF INTEGER (0..4294967295)\nEND\n", "built"),
     ("F44-member", A + "  T ::= SEQUENCE { a SEQUENCE (SIZE(1..2)) OF x INTEGER (5..4294967295), c SEQUENCE OF INTEGER (0..7), d INTEGER (0..MAX) }\nEND\n", "built"),
     ("F44-tagged-element", "M DEFINITIONS ::= BEGIN\n  T ::= CHOICE { a SEQUENCE OF [5] INTEGER (1..MAX), b NULL }\nEND\n", "built"),
     # F27: built-in &Type in an object set row; what the table cannot express is diagnosed
     ("F27-witness", IOC % "{ BOOLEAN IDENTIFIED BY 1 }", "built", FN),
     ("F27-builtin-rows", IOC % "{ BOOLEAN IDENTIFIED BY 1 } | { INTEGER IDENTIFIED BY 3 } | { IA5String IDENTIFIED BY 4 } | { REAL IDENTIFIED BY 7 } | "
                            "{ UTF8String IDENTIFIED BY 8 } | { GeneralizedTime IDENTIFIED BY 9 }", "built", FN),
     # (rows whose type name has a blank - OCTET STRING, BIT STRING, OBJECT IDENTIFIER - build as well, but the member is then called
     #  "OCTET STRING", which the descriptor dump syntax of the WfDescr leg cannot carry: only Other is dumped)
     ("F27-builtin-rows-blank-names", IOC % "{ OCTET STRING IDENTIFIED BY 5 } | { OBJECT IDENTIFIER IDENTIFIED BY 8 } | { BIT STRING IDENTIFIED BY 9 }", "built", ["Other"]),
     ("F27-constrained-row", IOC % "{ INTEGER (0..7) IDENTIFIED BY 1 }", "rejected", FN),
     ("F27-enumerated-row", IOC % "{ ENUMERATED { a, b } IDENTIFIED BY 1 }", "rejected", FN),
     ("F27-null-row", IOC % "{ NULL IDENTIFIED BY 1 }", "rejected", FN),
     ("F27-constructed-row", IOC % "{ SEQUENCE { a INTEGER } IDENTIFIED BY 1 }", "rejected", FN),
     ("F27-size-constrained-row", IOC % "{ IA5String (SIZE(1..4)) IDENTIFIED BY 1 }", "rejected", FN),
     # F85: a value range directly on a restricted character string type (X.680 table 9: only inside FROM)
     ("F85-witness", A + "  T ::= IA5String (1..5)\nEND\n", "rejected"),
     ("F85-string-range", A + "  T ::= IA5String (\"a\"..\"z\")\nEND\n", "rejected"),
     ("F85-utf8", A + "  T ::= UTF8String (1..MAX)\nEND\n", "rejected"),
     ("F85-through-reference", A + "  R ::= IA5String\n  T ::= R (1..5)\nEND\n", "rejected"),
     ("F85-member", A + "  T ::= SEQUENCE { a IA5String (1..5), b BOOLEAN }\nEND\n", "rejected"),
     ("F85-in-union", A + "  T ::= IA5String (SIZE(1..5) | 7..9)\nEND\n", "rejected"),
     ("F85-controls", A + "  T ::= IA5String (FROM(\"a\"..\"z\"))\n  U ::= IA5String (SIZE(1..5) ^ FROM(\"a\"..\"c\" | \"x\"..\"z\"))\n  V ::= IA5String (\"abc\" | \"def\")\n"
                      "  W ::= NumericString (FROM(\"0\"..\"9\"))(SIZE(1..3))\n  X ::= BMPString (FROM(\"a\"..\"c\"))\nEND\n", "built"),
     # F74 / F75: -fno-constraints keeps the OER / PER constraint records (and the PER character maps) the tables refer to
     ("F74-witness", A + "  T ::= SEQUENCE { a INTEGER (0..7) }\nEND\n", "built"),
     ("F74-member-constraints", A + "  T ::= SEQUENCE { a INTEGER (0..7), b IA5String (SIZE(1..4)) OPTIONAL, c SEQUENCE (SIZE(1..2)) OF INTEGER (-5..5),\n"
      "    d CHOICE { x INTEGER (0..MAX), y NumericString (FROM(\"0\"..\"3\" | \" \")) }, e BIT STRING (SIZE(8)), f ENUMERATED { p, q } }\n"
      "  U ::= SET OF VisibleString (FROM(\"A\"..\"C\" | \"a\"))\n  N ::= NumericString (SIZE(1..3))\nEND\n", "built"),
     # F63: a type that contains itself without an intervening tag
     ("F63-witness", "M DEFINITIONS ::= BEGIN\n  T ::= CHOICE { a T, b INTEGER }\nEND\n", "rejected"),
     ("F63-mutual", "M DEFINITIONS ::= BEGIN\n  T ::= CHOICE { a U, b INTEGER }\n  U ::= CHOICE { c T, d NULL }\nEND\n", "rejected"),
     ("F63-used-as-member", "M DEFINITIONS ::= BEGIN\n  S ::= SEQUENCE { x T OPTIONAL, y BOOLEAN }\n  T ::= CHOICE { a T, b INTEGER }\nEND\n", "rejected"),
     ("F63-alias-cycle-member", "M DEFINITIONS ::= BEGIN\n  S ::= SET { x T, y INTEGER }\n  T ::= U\n  U ::= T\nEND\n", "rejected"),
     ("F63-controls", "M DEFINITIONS ::= BEGIN\n  T ::= CHOICE { a [0] T, b INTEGER }\n  U ::= CHOICE { a SEQUENCE { u U OPTIONAL }, b INTEGER }\nEND\n", "built"),
     ("F63-automatic-tags", A + "  T ::= CHOICE { a T, b INTEGER }\n  S ::= SEQUENCE { x T OPTIONAL, y BOOLEAN }\nEND\n", "built"),
    ]
    return D

# ------------------------------------------------------------------ known-finding regions (narrow)
SKEL_TYPEDEFS = None
def skel_typedef_names():
    global SKEL_TYPEDEFS
    if SKEL_TYPEDEFS is None:
        s = set()
        for h in build.skel_headers():
            s.update(re.findall(r"\}\s*(\w+_t)\s*;", open(h).read()))
            s.update(re.findall(r"typedef\s+[\w\s\*]+?\s(\w+_t)\s*;", open(h).read()))
        SKEL_TYPEDEFS = s
    return SKEL_TYPEDEFS

def classify(res):
    """list of (failure class, finding id or None, detail); empty when the run satisfies the property"""
    text = res["text"]
    out = []
    if res["died"]:
        d = res["death"] or ""
        # F33 stays known (its repair would need the hand-patched bison output asn1p_y.c: not small and safe)
        if "asn1p_y" in d and re.search(r"(SET|SEQUENCE)\s*\(SIZE\([^)]*\)\)\s*OF\s+(SET|SEQUENCE)\s*\(SIZE", text): return [("died", "F33", d)]
        return [("died", None, d)]      # no other known way to make asn1c die is left (former findings F88, F63)
    if res["rc"] != 0:
        if res["stderr_empty"]: return [("silent-nonzero-exit", None, f"rc={res['rc']}")]
        return []
    for f, msg in res.get("compile_errors") or []:
        out.append(("compile", None, f + ": " + msg))    # every compile error counts (former findings F44, F74, F85, F27)
    if out: return out
    if res.get("link_error"):
        out.append(("link-exact-set", None, res["link_error"]))        # F12 repaired: the exact emitted set links
    for h, msg in res.get("cxx_errors") or []:
        if "typedef-name" in msg and {n for n in type_names_of(text) if cgen.c_ident(n) in skel_typedef_names()}: out.append(("c++-header", "F81", h + ": " + msg))
        else: out.append(("c++-header", None, h + ": " + msg))
    if res.get("dump_error"): out.append(("descriptor-dump", None, res["dump_error"]))
    return out

def run(ctx):
    have = {f["id"] for f in ctx.findings}
    for f in PROPOSED_FINDINGS:
        if f["id"] not in have:
            ctx.findings.append(f)
            ctx.assumptions.append(f"finding {f['id']} is not in KNOWN_FINDINGS.json yet; using the proposed entry embedded in vlib/props/c10.py")
    fmap = {f["id"]: f for f in ctx.findings}
    active = {f["id"] for f in ctx.findings if f.get("status") == "known"}
    tr = trans_reswords.translate()
    ctx.cov["translator"] = {"res_kwd": len(tr["words"]), "changed": tr["changed"]}
    asn1c = build.build_asn1c()
    drv = naming_driver()
    ctx.lean()
    c10_compile.audit_theorems(ctx)
    ctx.cov["rule"] = ("K: real asn1c_make_identifier/construct_base_name vs model on boundary-exhaustive + random names; "
                       "P: generated valid modules (nasty identifier pool) x 10 option sets and single-fault modules x 2 option sets: "
                       "asn1c exit kind, gcc -std=c99 on every emitted .c, link of exactly the emitted set, g++ -std=gnu++14 on headers, "
                       "WfDescr (Lean) on every descriptor; distinct = distinct (module, options) runs and identifier cases")
    # ---------------- K (a)
    lines = naming_lines(ctx, tr["words"])
    dis, couts, mouts = ctx.correspond("naming", drv, lines)
    for i, l, c, m in dis[:5]:
        ctx.log("K naming disagreement:", l, "C:", c, "model:", m)
    if dis:
        ctx.broken.append({"kind": "correspondence", "name": "naming", "first": {"op": dis[0][1], "c": dis[0][2], "model": dis[0][3]}, "count": len(dis)})
    pbad = naming_predicate(ctx, lines, couts)
    for l, c, why in pbad[:3]:
        ctx.violation(f"identifier predicate fails on C: {why}: {l} -> {c}", {"op": l, "c_output": c, "failure": why})

    # ---------------- modules
    jobs = []
    nvalid = 16 if ctx.quick else 80
    ntypes = 7 if ctx.quick else 10
    valid_mods = []
    for i in range(nvalid):
        td = [None, "AUTOMATIC", "IMPLICIT", "EXPLICIT"][i % 4]
        m = cgen.gen_valid(ctx.rng, f"V{i}", ntypes, td, nasty=0.5, allow_recursion=(i % 3 == 0))
        valid_mods.append(m)
        text = genmod.module_text(m)
        names = [n for n, _ in m["types"]]
        for on, opts in OPTSETS:
            jobs.append((len(jobs), ("valid", i), text, names, on, opts, True))
    # single-fault modules
    kinds = inject_errors(ctx.rng, "", "*keys")
    reps = 2 if ctx.quick else 8
    for rep in range(reps):
        for kind in kinds:
            td = ctx.rng.choice([None, "AUTOMATIC", "IMPLICIT", "EXPLICIT"])
            g = cgen.NGen(ctx.rng, nasty=0.2, tagdefault=td, max_depth=2)
            base = cgen.hoist_anonymous(g.gen_module(f"E{len(jobs)}", 2))
            text, bad_names = inject_errors(ctx.rng, genmod.module_text(base), kind)
            names = [n for n, _ in base["types"]] + bad_names
            for on, opts in (OPTSETS[0], OPTSETS[ctx.rng.randrange(1, len(OPTSETS))]):
                jobs.append((len(jobs), ("fault", kind), text, sorted(set(names), key=names.index), on, opts, True))
    # multi-module sets (2-3 files with IMPORTS) with deliberately colliding C names, with and without -fcompound-names
    nmulti = 12 if ctx.quick else 90
    modes = [m for m in cgen.MULTI_MODES if m != "same-toplevel"]
    for i in range(nmulti):
        mode = modes[i % len(modes)]
        td = ctx.rng.choice([None, "AUTOMATIC", "IMPLICIT", "EXPLICIT"])
        files, names, desc = cgen.gen_multi(ctx.rng, f"X{i}", ctx.rng.choice([2, 2, 3]), mode, td)
        if ctx.rng.random() < 0.5: files = files[::-1]
        extra = ctx.rng.choice([["-no-gen-OER"], ["-fwide-types"], ["-findirect-choice"], ["-no-gen-PER"], ["-fincludes-quoted"]])
        for on, opts in (("default", []), ("compound", ["-fcompound-names"]), ("other", extra)):
            jobs.append((len(jobs), ("multi", desc), files, names, on, opts, True))
    # modules built around the tagging rules, for the compiler-model leg (vlib/c10_compile.py)
    tag_mods = []
    for i in range(6 if ctx.quick else 32):
        td = [None, "AUTOMATIC", "IMPLICIT", "EXPLICIT"][i % 4]
        m = c10_compile.gen_tag_module(ctx.rng, f"G{i}", td)
        tag_mods.append(m)
        for on, opts in (OPTSETS[0], OPTSETS[1 + i % 3]):
            jobs.append((len(jobs), ("tagmod", i), genmod.module_text(m), [n for n, _ in m["types"]], on, opts, True))
    # directed modules: former witnesses of the repaired findings and their neighbourhood, every option set
    directed = directed_modules()
    dexpect = {d[0]: d[2] for d in directed}
    for tag, text, exp, *nm in directed:
        for on, opts in OPTSETS:
            jobs.append((len(jobs), ("directed", tag), text, nm[0] if nm else type_names_of(text), on, opts, True))
    # witnesses of the known findings of this property (replayed through the same pipeline)
    for f in ctx.findings:
        w = f.get("witness", {})
        if f.get("status") == "known" and "module" in w:
            text = w["module"] if "\n" in w["module"] else w["module"].replace(" BEGIN ", " BEGIN\n  ").replace(" END", "\nEND\n")
            opts = w.get("opts") or w.get("options_b") or ["-fcompound-names"]
            if isinstance(opts, str): opts = opts.split()
            jobs.append((len(jobs), ("witness", f["id"]), text, w.get("types") or type_names_of(text), "witness", opts, False))
    ctx.log(f"running {len(jobs)} asn1c+gcc pipelines ({nvalid} valid modules x {len(OPTSETS)} option sets, {len(kinds) * reps} single-fault modules x 2, "
            f"{nmulti} multi-module collision sets x 3, {len(directed)} directed modules x {len(OPTSETS)})")
    results = cgen.pmap(job, jobs)
    ctx.log("pipelines done")

    # ---------------- K (b): exit status vs model (phase outcomes observed with -E and -E -F)
    texts = {}; tfiles = {}
    for r in results:
        texts.setdefault(r["text"], []).append(r); tfiles[r["text"]] = r["files"]
    def phases(text):
        d = cgen.fresh_dir("c10", f"{os.getpid()}-ph-{abs(hash(text)) % 10**9}")
        try:
            paths = []
            for fn, ft in tfiles[text]:
                f = os.path.join(d, fn); open(f, "w").write(ft); paths.append(f)
            pe = cgen.run_asn1c(asn1c, paths, None, ["-E"]); pf = cgen.run_asn1c(asn1c, paths, None, ["-E", "-F"])
            return text, pe, pf
        finally: shutil.rmtree(d, ignore_errors=True)
    ph = cgen.pmap(phases, list(texts))
    elines = []; emeta = []
    for text, pe, pf in ph:
        if cgen.died(pe) or cgen.died(pf): continue
        parse_ok = pe["rc"] == 0; fix_ok = pf["rc"] == 0
        for r in texts[text]:
            if r["died"]: continue
            for comp in (0, -1):
                elines.append(f"exitstatus 0 0 0 {1 if parse_ok else 0} | {0 if fix_ok else -1} {comp}")
            emeta.append((r, parse_ok, fix_ok))
            elines.append(f"exitstatus 1 0 0 {1 if parse_ok else 0} | {0 if fix_ok else -1} 0");
            elines.append(f"exitstatus 1 1 0 {1 if parse_ok else 0} | {0 if fix_ok else -1} 0")
    rc, eouts, eerr = ctx.run_lines(build.model_exe(), elines)
    nbad = 0
    phmap = {t: (pe, pf) for t, pe, pf in ph}
    for k, (r, parse_ok, fix_ok) in enumerate(emeta):
        o = eouts[4 * k: 4 * k + 4]
        pe, pf = phmap[r["text"]]
        allowed = {int(o[0]), int(o[1])}
        ok = r["rc"] in allowed and pe["rc"] == int(o[2]) and pf["rc"] == int(o[3]) and (r["rc"] == 0) == (parse_ok and fix_ok and r["rc"] != 70)
        if not ok:
            nbad += 1
            if nbad <= 3:
                ctx.log("K exit-status disagreement:", r["tag"], r["opt"], "rc", r["rc"], "-E", pe["rc"], "-E -F", pf["rc"], "model", o)
    st = ctx.cov["correspondence"].setdefault("exit_status", {"lines": 0, "disagreements": 0, "c_crashes": 0})
    st["lines"] += len(emeta); st["disagreements"] += nbad
    ctx.cov["evaluations"] += len(emeta)
    if nbad: ctx.broken.append({"kind": "correspondence", "name": "exit_status", "count": nbad})

    # ---------------- P: classification
    classes = collections.Counter(); samples = {}
    stats = collections.Counter()
    wlines = []; wmeta = []
    optmaps = {i: opt_members_of(m) for i, m in enumerate(valid_mods)}
    for r in results:
        kind = r["tag"][0]
        stats[f"{kind}:{'died' if r['died'] else 'rc=' + str(r['rc'])}"] += 1
        cl = classify(r)
        if r["tag"][0] == "witness":
            fid = r["tag"][1]
            if any(c[1] == fid for c in cl): ctx.known(fmap[fid])
            else: ctx.log(f"note: finding {fid} does not reproduce on its witness through the C10 pipeline ({cl[:2]})")
            continue
        # a finding whose status is no longer `known` (repaired) suppresses nothing: the failure counts as a violation
        cl = [(cls, fid if fid in active else None, detail) for cls, fid, detail in cl]
        if kind == "directed" and not r["died"]:
            exp = dexpect[r["tag"][1]]
            if exp == "built" and r["rc"] != 0: cl.append(("valid-module-rejected", None, f"rc={r['rc']} {r['err_head']}"))
            if exp == "rejected" and r["rc"] == 0: cl.append(("invalid-module-accepted", None, "exit 0"))
        unknown = [c for c in cl if c[1] is None]
        for cls, fid, detail in cl:
            if fid: ctx.known(fmap[fid]); stats["known:" + fid] += 1
        for cls, fid, detail in unknown[:1]:
            key = (cls, re.sub(r"\d+", "N", detail)[:70])
            classes[key] += 1
            samples.setdefault(key, (r, detail))
        if cl and (unknown or r["died"] or r.get("compile_errors")): continue
        if r["rc"] == 0:
            ctx.count_nontrivial((r["text"], r["opt"]))
            stats["built"] += 1
            req = 0 if ("-no-gen-PER" in r["opts"] and "-no-gen-OER" in r["opts"]) else 1
            for n, dmp in zip(r["names"], r.get("dumps", [])):
                wlines.append(f"wfdescr {req} {dmp}"); wmeta.append((r, n, dmp))
                if r["tag"][0] == "valid":
                    for b in check_optional_vs_source(dmp, optmaps[r["tag"][1]])[:1]:
                        key = ("descriptor-vs-source", b[:60]); classes[key] += 1; samples.setdefault(key, (r, b))
        else:
            stats["rejected-with-diagnostic"] += 1
            ctx.count_nontrivial((r["text"], r["opt"], "rejected"))
    # WfDescr through the Lean driver
    if wlines:
        rc, wouts, werr = ctx.run_lines(build.model_exe(), wlines)
        if rc != 0 or len(wouts) != len(wlines): raise RuntimeError("model driver failed on wfdescr: " + werr[-300:])
        nwf = 0
        for (r, n, dmp), o in zip(wmeta, wouts):
            if o == "ok": nwf += 1; continue
            key = ("wfdescr", o.split("@")[0][:60]); classes[key] += 1
            samples.setdefault(key, (dict(r, type=n, dump=dmp[:3000]), o))
        ctx.cov["predicate"]["wfdescr"] = {"descriptor_dumps": len(wlines), "well_formed": nwf}
        ctx.cov["evaluations"] += len(wlines)
        if len(ctx.cov["samples"]) < 14:
            ctx.cov["samples"].append({"op": wlines[0][:300], "model": wouts[0]})
    # ---------------- K (c): the compiler model (Impl/CompileDescr.lean) vs the generated descriptor tables, field by field
    items = []
    for r in results:
        if r.get("dumps") and r["tag"][0] in ("valid", "tagmod"):
            m = (valid_mods if r["tag"][0] == "valid" else tag_mods)[r["tag"][1]]
            items.append((m, r["opts"], dict(zip(r["names"], r["dumps"]))))
    c10_compile.run_compile(ctx, items)
    ctx.cov["evaluations"] += len(results)
    ctx.cov["programs"] = stats["built"]
    ctx.cov["predicate"]["pipeline"] = {"runs": len(results), "outcomes": dict(stats), "failure_classes": len(classes)}
    ctx.cov["distribution"]["option_sets"] = [n for n, _ in OPTSETS]
    ctx.cov["distribution"]["fault_kinds"] = len(kinds)
    nviol = 0
    for (cls, sig), n in classes.most_common(12):
        r, detail = samples[(cls, sig)]
        ctx.log("FAIL", n, cls, "|", r["tag"], r["opt"], "|", str(detail)[:260])
        if nviol < 5:
            nviol += 1
            ctx.violation(f"C10 fails on C ({cls}) for {r['tag']} with options {r['opts']}: {str(detail)[:200]}",
                          {"module": r["text"], "files": r["files"] if len(r["files"]) > 1 else None, "names": r["names"],
                           "options": r["opts"], "failure": cls, "detail": str(detail)[:2000],
                           "type": r.get("type"), "dump": r.get("dump"), "count_in_class": n})

def replay(ctx, path):
    r = json.load(open(path))
    if "module" not in r:
        print("replay: nothing to run (proof obligation / correspondence record):", json.dumps(r.get("broken", r))[:600]); return
    src = [tuple(x) for x in r["files"]] if r.get("files") else r["module"]
    res = job((0, ("replay", 0), src, r.get("names") or type_names_of(r["module"]), "replay", r.get("options", []), True))
    res.pop("text", None); res.pop("files", None); d = res.pop("dumps", None)
    print("replay:", json.dumps(res, default=str)[:1500])
    print("classification:", classify(dict(res, text=r["module"])))
