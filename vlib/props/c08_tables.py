"""C08 translator: re-extracts the alphabet data of the skeletons and of the compiler from the
working tree and writes lean/Asn1cModel/Generated/AlphabetTables.lean.  The Lean theorems of
Props/C08.lean over these definitions are closed by `decide +kernel` over all 256 octets, so an
edit of a table / case label / comparison constant breaks the build of the property.

Extracted (regex over the C text, comments stripped):
  * skeletons/PrintableString.c   _PrintableString_alphabet[256], _PrintableString_code2value[74]
  * skeletons/NumericString.c     the `case 0x..:` labels of NumericString_constraint
  * skeletons/VisibleString.c     the two constants of `*buf < 0x20 || *buf > 0x7e`
  * skeletons/IA5String.c         the constant of `*buf > 0x7F`
  * skeletons/UTF8String.c        UTF8String_ht[2][16], UTF8String_mv[7]
  * libasn1fix/asn1fix_constraint_compat.c   the DECL(...) ranges and the element arrays of the
    compiler's default alphabets (what generated checkers of constrained strings test)
"""
import os, re
from .. import build

class ExtractError(Exception):
    pass

def _strip_comments(s):
    s = re.sub(r"/\*.*?\*/", " ", s, flags=re.S)
    return re.sub(r"//[^\n]*", " ", s)

def _read(rel):
    with open(os.path.join(build.REPO, rel)) as fh:
        return _strip_comments(fh.read())

def _int(tok):
    tok = tok.strip()
    return int(tok, 16) if tok.lower().startswith(("0x", "-0x")) else int(tok)

def _array(text, name, what, pad=False):
    """initialiser list of a (possibly 2-dimensional) int array; with pad=True a one-dimensional array
    declared with an explicit length is zero-filled up to that length (C semantics)"""
    m = re.search(re.escape(name) + r"\s*((?:\[[^\]]*\])+)\s*=\s*\{(.*?)\}\s*;", text, re.S)
    if not m: raise ExtractError(f"cannot find {what} ({name})")
    body = m.group(2).replace("{", " ").replace("}", " ")
    vals = [_int(t) for t in body.split(",") if t.strip()]
    dims = re.findall(r"\[\s*(\d*)\s*\]", m.group(1))
    if pad and len(dims) == 1 and dims[0]:
        n = int(dims[0])
        if len(vals) > n: raise ExtractError(f"{name}: more initialisers than the declared length")
        vals += [0] * (n - len(vals))
    return vals

def _func_body(text, name):
    m = re.search(r"\b" + re.escape(name) + r"\s*\([^)]*\)\s*\{", text)
    if not m: raise ExtractError(f"cannot find function {name}")
    i = m.end(); depth = 1
    while i < len(text) and depth:
        depth += {"{": 1, "}": -1}.get(text[i], 0); i += 1
    return text[m.end():i]

def extract():
    d = {}
    ps = _read("skeletons/PrintableString.c")
    d["printableTable"] = _array(ps, "_PrintableString_alphabet", "PrintableString alphabet table", pad=True)
    d["printableCode2Value"] = _array(ps, "_PrintableString_code2value", "PrintableString code2value table")
    if len(d["printableTable"]) != 256: raise ExtractError("PrintableString table is not 256 entries")
    body = _func_body(ps, "PrintableString_constraint")
    if not re.search(r"if\s*\(\s*!\s*_PrintableString_alphabet\s*\[\s*\*\s*buf\s*\]\s*\)", body):
        raise ExtractError("PrintableString_constraint no longer tests !_PrintableString_alphabet[*buf]")
    ns = _func_body(_read("skeletons/NumericString.c"), "NumericString_constraint")
    m = re.search(r"switch\s*\(\s*\*\s*buf\s*\)\s*\{(.*?)continue\s*;", ns, re.S)
    if not m: raise ExtractError("NumericString_constraint: switch(*buf) { case ...: continue; } not found")
    d["numericCases"] = sorted(_int(x) for x in re.findall(r"case\s+([0-9xXa-fA-F]+)\s*:", m.group(1)))
    vs = _func_body(_read("skeletons/VisibleString.c"), "VisibleString_constraint")
    m = re.search(r"if\s*\(\s*\*\s*buf\s*<\s*([0-9xXa-fA-F]+)\s*\|\|\s*\*\s*buf\s*>\s*([0-9xXa-fA-F]+)\s*\)", vs)
    if not m: raise ExtractError("VisibleString_constraint: `*buf < lo || *buf > hi` not found")
    d["visibleLo"], d["visibleHi"] = _int(m.group(1)), _int(m.group(2))
    ia = _func_body(_read("skeletons/IA5String.c"), "IA5String_constraint")
    m = re.search(r"if\s*\(\s*\*\s*buf\s*>\s*([0-9xXa-fA-F]+)\s*\)", ia)
    if not m: raise ExtractError("IA5String_constraint: `*buf > hi` not found")
    d["ia5Hi"] = _int(m.group(1))
    u8 = _read("skeletons/UTF8String.c")
    ht = _array(u8, "UTF8String_ht", "UTF8String_ht")
    if len(ht) != 32: raise ExtractError("UTF8String_ht is not 2x16")
    d["utf8Ht0"], d["utf8Ht1"] = ht[:16], ht[16:]
    d["utf8Mv"] = _array(u8, "UTF8String_mv", "UTF8String_mv")
    cc = _func_body(_read("libasn1fix/asn1fix_constraint_compat.c"), "asn1constraint_default_alphabet")
    decl = {}
    for name, lo, hi in re.findall(r"DECL(?:_notOPV)?\s*\(\s*(\w+)\s*,\s*([0-9xXa-fA-F]+)\s*,\s*([0-9xXa-fA-F]+)\s*\)", cc):
        decl[name] = (_int(lo), _int(hi))
    def arr(n):
        m = re.search(r"range_" + n + r"_array\s*\[\s*\]\s*=\s*\{(.*?)\}", cc, re.S)
        if not m: raise ExtractError(f"default alphabet array of {n} not found")
        names = re.findall(r"&\s*range_(\w+)", m.group(1))
        return [decl[x] for x in names]
    def single(n):
        m = re.search(r"range_" + n + r"\s*=\s*\{\s*\{\s*ARE_VALUE\s*,\s*0\s*,\s*([0-9xXa-fA-F]+)\s*\}\s*,\s*\{\s*ARE_VALUE\s*,\s*0\s*,\s*([0-9xXa-fA-F]+)\s*\}", cc)
        if not m: raise ExtractError(f"default alphabet range of {n} not found")
        return [(_int(m.group(1)), _int(m.group(2)))]
    def which(case):
        m = re.search(r"case\s+" + case + r"\s*:(?:\s*assert\s*\([^;]*;)*\s*return\s*&\s*range_(\w+)\s*;", cc)
        if not m: raise ExtractError(f"default alphabet selection for {case} not found")
        return m.group(1)
    sel = {k: which(c) for k, c in [("numeric", "ASN_STRING_NumericString"), ("printable", "ASN_STRING_PrintableString"),
                                    ("visible", "ASN_STRING_VisibleString"), ("ia5", "ASN_STRING_IA5String"),
                                    ("bmp", "ASN_STRING_BMPString"), ("universal", "ASN_STRING_UniversalString")]}
    def ranges_of(n):
        if re.search(r"range_" + n + r"_array", cc): return sorted(arr(n))
        if n in decl: return [decl[n]]
        return single(n)
    for k, n in sel.items():
        d["compiler_" + k] = ranges_of(n)
    return d

def lean_text(d):
    def nats(xs): return "[" + ", ".join(str(x) for x in xs) + "]"
    def ints(xs): return "[" + ", ".join(str(x) if x >= 0 else f"({x})" for x in xs) + "]"
    def rngs(xs): return "[" + ", ".join(f"({a}, {b})" for a, b in xs) + "]"
    out = ["/- GENERATED by vlib/props/c08_tables.py from the working tree on every run of `./check C08`.",
           "   Do not edit: the file is overwritten.  Data only; the theorems are in Props/C08.lean. -/",
           "namespace Asn1c.Generated.AlphabetTables", ""]
    out.append("/-- skeletons/PrintableString.c `_PrintableString_alphabet[256]` -/")
    out.append(f"def printableTable : List Nat := {nats(d['printableTable'])}")
    out.append("/-- skeletons/PrintableString.c `_PrintableString_code2value[]` -/")
    out.append(f"def printableCode2Value : List Nat := {nats(d['printableCode2Value'])}")
    out.append("/-- skeletons/NumericString.c: the `case` labels accepted by NumericString_constraint -/")
    out.append(f"def numericCases : List Nat := {nats(d['numericCases'])}")
    out.append("/-- skeletons/VisibleString.c: `*buf < visibleLo || *buf > visibleHi` rejects -/")
    out.append(f"def visibleLo : Nat := {d['visibleLo']}")
    out.append(f"def visibleHi : Nat := {d['visibleHi']}")
    out.append("/-- skeletons/IA5String.c: `*buf > ia5Hi` rejects -/")
    out.append(f"def ia5Hi : Nat := {d['ia5Hi']}")
    out.append("/-- skeletons/UTF8String.c `UTF8String_ht[0]`, `UTF8String_ht[1]`, `UTF8String_mv` -/")
    out.append(f"def utf8Ht0 : List Int := {ints(d['utf8Ht0'])}")
    out.append(f"def utf8Ht1 : List Int := {ints(d['utf8Ht1'])}")
    out.append(f"def utf8Mv : List Nat := {nats(d['utf8Mv'])}")
    out.append("/-- libasn1fix/asn1fix_constraint_compat.c: the compiler's default alphabets (inclusive ranges) -/")
    for k in ("numeric", "printable", "visible", "ia5", "bmp", "universal"):
        out.append(f"def compiler{k.capitalize()} : List (Nat × Nat) := {rngs(d['compiler_' + k])}")
    out += ["", "end Asn1c.Generated.AlphabetTables", ""]
    return "\n".join(out)

def write(lean_dir=None):
    """Regenerates the Lean file (only rewritten when the content changes, so lake stays incremental).
    Returns the extracted dict."""
    d = extract()
    txt = lean_text(d)
    path = os.path.join(lean_dir or build.LEAN, "Asn1cModel", "Generated", "AlphabetTables.lean")
    os.makedirs(os.path.dirname(path), exist_ok=True)
    old = None
    try:
        with open(path) as fh: old = fh.read()
    except FileNotFoundError:
        pass
    if old != txt:
        with open(path, "w") as fh: fh.write(txt)
    return d
