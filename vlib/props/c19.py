"""C19 — codecs are reentrant: concurrent use equals sequential use, without data races.

L  translator (vlib/trans_globals.py) rewrites Generated/Globals.lean from the current skeleton sources,
   then Props/C19.lean is rebuilt: interleaving_eq_sequential (abstract non-interference under the
   footprint discipline) + writable_globals_allowed / debug_helpers_unreferenced /
   no_nonreentrant_calls_in_codecs … (`decide` over the regenerated inventory).
K  the translator output *is* the tie for the globals theorems.  For the interleaving theorem the tie is
   the observation, made by the thread driver, that every job's digest is a function of the job alone:
   equal in two alone-runs and equal in every randomised schedule (`schedule_independent`).
P  harness/thread_driver.c linked into TSan bundles of generated modules: N ∈ {2,4,8,16} threads,
   R repetitions, several yield-PRNG seeds; P holds iff mismatches = 0, no ThreadSanitizer report,
   exit code 0.  The generated module objects themselves are scanned for mutable globals as well.
"""
import os, re, subprocess, collections, json
from .. import build, core, genmod, bundle, gfind, trans_globals
from . import c01

SYNTAXES = ("der", "uper", "oer", "xer", "cxer")
DRIVER = ("thread_driver.c", "reflect.c")
# The race-detector build is unoptimised: at -O1 gcc forwards/eliminates stores to a function-local static
# that is written and read back in the same call (measured with mutation (b): the race disappears from the
# binary), whereas a data race is a property of the source (C11 5.1.2.4).  Registered here, no shared file edited.
build.SAN.setdefault("tsan0", ["-O0", "-g", "-fsanitize=thread"])
SAN = "tsan0"
TSAN_ENV = {"TSAN_OPTIONS": "halt_on_error=0:exitcode=66:second_deadlock_stack=1:history_size=4"}

def lean_allowed():
    """(file, symbol) pairs of allowedDebugOnly ++ allowedReadOnly, read from Props/C19.lean (diagnostics only)."""
    try:
        txt = open(os.path.join(build.LEAN, "Asn1cModel", "Props", "C19.lean")).read()
    except OSError:
        return set()
    out = set()
    for name in ("allowedDebugOnly", "allowedReadOnly"):
        m = re.search(r"def " + name + r"\b[^\[]*\[(.*?)\]", txt, re.S)
        if m: out |= set(re.findall(r'\("([^"]+)",\s*"([^"]+)"\)', m.group(1)))
    return out

JUSTIFICATION = {
    "ber_tlv_tag_string::buf": "debug-only: ber_tlv_tag_string is called only inside ASN_DEBUG(...) (no object imports it)",
    "asn_bit_data_string::buf": "debug-only: asn_bit_data_string is called only inside ASN_DEBUG(...) (no object imports it)",
    "asn_bit_data_string::n": "debug-only: asn_bit_data_string is called only inside ASN_DEBUG(...) (no object imports it)",
    "BIT_STRING_encode_oer::zeros": "codec path, never written: only sizeof(zeros) and cb(zeros, n, key) with const void* (missing const)",
    "real_zero": "REAL.c, compiled only without NAN/INFINITY (not on this platform); volatile, never written",
}

def make_jobs(ctx, m, nvals, bvals=None):
    """job lines `<Type> <syntax> <value>` for one module, honouring C01's known-finding regions."""
    env = dict(m["types"])
    vg = genmod.ValGen(ctx.rng, env)
    jobs = []; skipped = collections.Counter()
    for n, t in m["types"]:
        feats = gfind.features(t, env)
        ok_syn = [s for s in SYNTAXES if not c01.skip_region(s, feats, skipped)]
        flag = ""
        vals = bvals[n] if bvals else vg.values(t, nvals)
        for v in vals:
            sx = genmod.val_sexp(t, v, env)
            if len(sx) > 6000: continue
            for s in ok_syn:
                if s in ("xer", "cxer") and len(sx) > 3000: continue
                jobs.append(f"{n} {s}{flag} {sx}")
        # failing validation of time types: the strerror() path of GeneralizedTime/UTCTime_constraint
        if genmod.resolve_kind(t, env) in ("GeneralizedTime", "UTCTime"):
            for bad in (b"garbage", b"20001332250000Z", b""):
                jobs.append(f"{n} der (os {bad.hex() or '-'})")
    return jobs, skipped

def parse_tsan(err):
    """[(summary line, first 1500 chars of the report)]"""
    reps = []
    for blk in err.split("==================\n"):
        if "WARNING: ThreadSanitizer" not in blk: continue
        m = re.search(r"SUMMARY: ThreadSanitizer: ([^\n]*)", blk)
        reps.append((m.group(1) if m else blk.strip().split("\n")[0], blk[:1500]))
    return reps

def run_driver(exe, script, seed, reps, threads, timeout=1500):
    e = dict(os.environ); e.update(TSAN_ENV)
    p = subprocess.run([exe, script, str(seed), str(reps), threads], stdout=subprocess.PIPE, stderr=subprocess.PIPE,
                       text=True, env=e, timeout=timeout)
    return p.returncode, p.stdout, p.stderr

def drop_alone_crashers(ctx, exe, script, jobs, stats):
    """A job that kills the driver when run ALONE (phase 0 only, no threads) is a sequential defect that
    belongs to C04/C08, not to C19: it is bisected out, logged and counted, and the rest goes on."""
    def dies(js):
        with open(script, "w") as fh: fh.write("\n".join(js) + "\n")
        rc, out, err = run_driver(exe, script, 1, 0, "1")
        return rc != 0 and not parse_tsan(err)
    for _ in range(6):
        if not jobs or not dies(jobs): return jobs
        lo, hi = 0, len(jobs)
        while hi - lo > 1:
            mid = (lo + hi) // 2
            if dies(jobs[lo:mid]): hi = mid
            elif dies(jobs[mid:hi]): lo = mid
            else: break
        if hi - lo != 1: return jobs        # not attributable to one job: let the main run report it
        t = jobs[lo].split(" ")
        ctx.log("job crashes when run alone (sequential defect, outside C19):", jobs[lo][:160])
        stats["alone_crashes"] += 1
        jobs = [j for j in jobs if j.split(" ")[:1] != t[:1]]      # drop the whole type
    return jobs

def run_bundle(ctx, m, jobs, seeds, reps, threads, stats):
    """Builds the TSan bundle of module m, runs the script under each yield seed.  Returns list of failures."""
    txt = genmod.module_text(m)
    b = bundle.Bundle(m["name"], txt, [n for n, _ in m["types"]], driver_sources=DRIVER, san=SAN)
    fails = []
    try:
        try:
            exe = b.build()
        except bundle.Asn1cFailed as e:
            ctx.log("asn1c rejected generated module", m["name"], e.out.strip().split("\n")[0][:160])
            stats["asn1c_rejected"] += 1
            return fails
        except build.BuildError as e:
            # libskel/asn1c were built before (run()): this is the generated module itself not compiling,
            # a C10 matter (e.g. `&asn_DFL_6_set_-4` for a negative DEFAULT); the module is skipped
            errl = [l for l in str(e).split("\n") if "error" in l]
            ctx.log("generated module does not compile (C10 matter, skipped):", m["name"], (errl or [str(e)])[0][:200])
            stats["cc_failed"] += 1
            return fails
        stats["programs"] += 1
        # the generated module's own objects must not bring writable state either
        gobjs = [os.path.join(b.dir, "obj", f) for f in os.listdir(os.path.join(b.dir, "obj"))]
        for o, sym, cls in trans_globals.scan_objects(gobjs):
            stats["gen_symbols"] += 1
            if cls == "mutable" and sym not in ("verif_types", "verif_type_names"):
                stats["gen_mutable"].append((m["name"], o, sym))
        script = os.path.join(b.dir, "script.txt")
        jobs = drop_alone_crashers(ctx, exe, script, jobs, stats)
        with open(script, "w") as fh: fh.write("\n".join(jobs) + "\n")
        for sd in seeds:
            rc, out, err = run_driver(exe, script, sd, reps, threads)
            tsan = parse_tsan(err)
            dones = re.findall(r"^done jobs=(\d+) threads=(\d+) reps=(\d+) executed=(\d+) mismatches=(\d+) nondet=(\d+) loaderr=(\d+)$", out, re.M)
            mism = [l for l in out.split("\n") if l.startswith("mismatch ")]
            if len(ctx.cov["samples"]) < 6 and not (tsan or mism):
                for mm in re.finditer(r"^ref job=(\d+) type=\S+ syn=\S+ digest=(\w+)$", out, re.M):
                    if len(ctx.cov["samples"]) >= 6: break
                    ctx.cov["samples"].append({"module": m["name"], "job": jobs[int(mm.group(1))][:300], "digest_alone": mm.group(2),
                                               "yield_seed": sd, "threads": threads, "reps": reps,
                                               "all_threaded_executions_equal_digest_alone": True})
            nondet = [l for l in out.split("\n") if l.startswith("nondet ")]
            for d in dones:
                stats["executed"] += int(d[3]); stats["runs"] += 1
                stats["by_threads"][d[1]] += int(d[3])
            if dones and sd == seeds[0]:        # distinct jobs of this bundle: counted once, not once per seed
                stats["jobs"] += int(dones[0][0]); stats["loaderr"] += int(dones[0][6]); stats["nondet"] += int(dones[0][5])
            stats["tsan_reports"] += len(tsan)
            stats["mismatches"] += sum(int(d[4]) for d in dones)
            complete = len(dones) == len(threads.split(","))
            if tsan or mism or nondet or rc != 0 or not complete:
                why = []
                if tsan: why.append("ThreadSanitizer: " + tsan[0][0])
                if mism: why.append(f"{len(mism)} digest mismatch line(s): {mism[0][:200]}")
                if nondet: why.append(f"job not a function of its input: {nondet[0][:200]}")
                if rc not in (0, 66) or (rc != 0 and not tsan): why.append(f"driver exit code {rc}: {err.strip()[-300:]}")
                if not complete: why.append("driver did not complete every thread count")
                # narrow the script to the types involved, if the output names them
                types = set(re.findall(r"type=(\w+)", "\n".join(mism + nondet)))
                jl = [j for j in jobs if j.split(" ", 1)[0] in types] if types else jobs
                fails.append({"module": txt, "module_name": m["name"], "script": jl[:400], "yield_seed": sd, "reps": reps,
                              "threads": threads, "exit_code": rc, "why": "; ".join(why),
                              "tsan_summaries": sorted(set(t[0] for t in tsan))[:10],
                              "tsan_first_report": tsan[0][1] if tsan else "", "driver_output": out[-1500:]})
                break       # one failing schedule per bundle is enough
    finally:
        b.cleanup()
    return fails

def run(ctx):
    # ---- translator + L leg
    inv = trans_globals.translate()
    allowed = lean_allowed()
    mutable = [(f, q) for f, q, c in inv["writableGlobals"] if c == "mutable"]
    new_mut = [g for g in mutable if g not in allowed]
    ctx.log(f"translator: {len(inv['writableGlobals'])} objects in writable sections / static non-const "
            f"({collections.Counter(c for _, _, c in inv['writableGlobals']).most_common()}); "
            f"mutable={mutable}; Globals.lean {'rewritten' if inv['changed'] else 'unchanged'}")
    if new_mut: ctx.log("NEW mutable globals (not in the allowed lists of Props/C19.lean):", new_mut)
    ctx.log("importers of functions owning a mutable static:", inv["mutableOwnerImporters"],
            "| non-reentrant libc imports:", [(f, n) for f, n, h in inv["nonReentrantCalls"] if h == "import"])
    ctx.lean()
    ctx.cov["globals_inventory"] = {
        "writable_globals_inventory": len(inv["writableGlobals"]),
        "classes": dict(collections.Counter(c for _, _, c in inv["writableGlobals"])),
        "mutable_globals": [{"file": f, "symbol": q, "justification": JUSTIFICATION.get(q, "NOT JUSTIFIED"),
                             "detected_by": inv["methods"].get(f + ":" + q, [])} for f, q in mutable],
        "unwritten_globals": [{"file": f, "symbol": q, "detected_by": inv["methods"].get(f + ":" + q, [])}
                              for f, q, c in inv["writableGlobals"] if c == "unwritten"],
        "mutable_owner_importers": inv["mutableOwnerImporters"],
        "nonreentrant_calls": inv["nonReentrantCalls"],
        "time_imports": inv["timeImports"]}
    ctx.cov["correspondence"]["globals_translator"] = {
        "lines": len(inv["writableGlobals"]), "disagreements": len(new_mut), "c_crashes": 0,
        "note": "Generated/Globals.lean regenerated from nm + source scan on this run; the Lean theorems are the comparison"}

    # ---- P leg
    build.build_asn1c(); build.build_skel(SAN)      # a failure here is a failure of the tree itself: propagates
    stats = collections.Counter(); stats["gen_mutable"] = []; stats["by_threads"] = collections.Counter()
    if ctx.quick:
        nb, ntypes, nvals, reps, threads = 6, 10, 5, 4, "2,4,8,16"
        seeds = [ctx.rng.randrange(1, 1 << 30) for _ in range(3)]
    else:
        nb, ntypes, nvals, reps, threads = 24, 10, 8, 6, "2,4,8,16"
        seeds = [ctx.rng.randrange(1, 1 << 30) for _ in range(5)]
    mods = c01.gen_bundles(ctx, nb, ntypes=ntypes)
    bm, bvals = genmod.boundary_module(ctx.rng, ctx.quick)
    plan = [(bm, bvals)] + [(m, None) for m in mods]
    allfails = []
    skipped = collections.Counter()
    for m, bv in plan:
        jobs, sk = make_jobs(ctx, m, nvals, bv)
        skipped.update(sk)
        if bv is not None:
            # the boundary module has very long values: bound the script for the (slow) TSan run
            jobs = [j for j in jobs if len(j) < (3000 if ctx.quick else 40000)]
        maxjobs = 350 if ctx.quick else 1500
        if len(jobs) > maxjobs:
            jobs = [jobs[i] for i in sorted(ctx.rng.sample(range(len(jobs)), maxjobs))]
        fails = run_bundle(ctx, m, jobs, seeds, reps, threads, stats)
        allfails += fails
        ctx.log(f"bundle {m['name']}: {len(jobs)} jobs, cumulative executed={stats['executed']} "
                f"tsan={stats['tsan_reports']} mismatches={stats['mismatches']}")
    for m, o, sym in stats["gen_mutable"][:3]:
        ctx.violation(f"generated module object {o} has a mutable global `{sym}`", {"module_name": m, "object": o, "symbol": sym})
    for f in allfails[:3]:
        ctx.violation("C19 fails on C: " + f["why"][:400], f)
    if stats["programs"] == 0:
        ctx.broken.append({"kind": "harness", "msg": "no generated module could be built and run"})
    ctx.cov["evaluations"] += stats["executed"]
    ctx.cov["distinct_nontrivial"] = stats["jobs"]
    ctx.cov["programs"] = stats["programs"]
    ctx.cov["predicate"]["threads"] = {
        "bundles": stats["programs"], "distinct_jobs": stats["jobs"], "job_executions_under_threads": stats["executed"],
        "executions_by_thread_count": dict(stats["by_threads"]), "driver_runs(seed x N)": stats["runs"],
        "yield_seeds": seeds, "reps": reps, "threads": threads,
        "tsan_reports": stats["tsan_reports"], "digest_mismatches": stats["mismatches"],
        "nondeterministic_jobs": stats["nondet"], "unloadable_jobs": stats["loaderr"], "jobs_crashing_alone_dropped": stats["alone_crashes"],
        "modules_rejected_by_asn1c": stats["asn1c_rejected"], "modules_not_compiling(C10)": stats["cc_failed"],
        "generated_object_symbols_scanned": stats["gen_symbols"], "generated_mutable_globals": len(stats["gen_mutable"]),
        "skipped_known_regions": dict(skipped), "failures": len(allfails)}
    ctx.cov["rule"] = ("job = (type, syntax, value): load, encode, decode, validate, print, compare, re-encode, free; "
                       "executed alone twice (reference digest) and then by 2/4/8/16 threads under randomised yields with TSan; "
                       "evaluations = job executions inside the threaded phase; distinct = distinct loadable jobs")
    ctx.assumptions += [
        "ThreadSanitizer sees only the schedules that were executed; absence of a report is an observation, not a proof",
        "that the C codecs obey the footprint discipline `Framed` of Impl/Reentrancy.lean is observed (TSan + digests), not proved",
        "descriptors/tables (asn_DEF_*, asn_OP_*, asn_SPC_*, *_tags, *_specs, *_constraints) are classified by name as never written",
        "library built without -DASN_EMIT_DEBUG=1 (the debug trace and its static buffers are outside the property)",
        "glibc 2.36: timegm/mktime/gmtime_r/localtime_r are MT-Safe (env, locale), strerror uses a thread-local buffer"]

def replay(ctx, path):
    r = json.load(open(path))
    if "module" not in r:
        print("replay: no concrete schedule in this file; broken obligations:", json.dumps(r.get("broken", r), indent=1)[:3000])
        trans_globals.translate(); ctx.lean()
        return
    names = re.findall(r"^\s*([A-Z][\w-]*) ::=", r["module"], re.M)
    b = bundle.Bundle("replay", r["module"], names, driver_sources=DRIVER, san=SAN)
    exe = b.build()
    script = os.path.join(b.dir, "script.txt")
    with open(script, "w") as fh: fh.write("\n".join(r["script"]) + "\n")
    rc, out, err = run_driver(exe, script, r["yield_seed"], r["reps"], r["threads"])
    ts = parse_tsan(err)
    print("replay: exit", rc, "| tsan reports:", len(ts), "|", out.strip().split("\n")[-1][:300])
    for s in sorted(set(t[0] for t in ts))[:10]: print("replay: TSan:", s)
    if ts: print(ts[0][1])
    b.cleanup()
