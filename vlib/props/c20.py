"""C20 — unber and enber are mutually inverse; unber is safe on arbitrary input.

Legs
  L  Lean theorems of lean/props/C20.json (build + axiom audit).
  K  the REAL `unber -p` / `enber` processes (built from /repo's working tree, ASan+UBSan)
     against the Lean model's ops `unber <hex>` / `enber <hex text>`: exit status,
     diagnostic kind and every output byte must agree.
  P  independent python oracle (own TLV forest generator, encoder and walker, written from
     X.690 §8.1; not the Lean model): enber(unber -p x) == x byte for byte and the
     O/T/TL/V/L attributes printed by unber equal the python walk of x, for well-formed x;
     on mutated / truncated / random / deeply nested input unber must exit by itself
     (0, or EX_DATAERR with a diagnostic): a signal or a sanitizer report is a failure.
     Nesting: unber walks at most UNBER_MAX_NESTING_LEVEL (read from the source; the model's
     constant must agree) constructed TLVs inside one another; well-formed input nested up to
     the limit must be accepted (also with a quarter of the default stack), deeper input must
     be answered with the "Too deep nesting" diagnostic - never with a stack overflow.
"""
import json, os, re, resource, subprocess
from concurrent.futures import ThreadPoolExecutor
from .. import build, build_tools

KF_NONMINIMAL = "F8"     # enber cannot reproduce non-minimal length forms
# (F41, unbounded recursion of process_deeper, is repaired: no matcher - a crash on deep nesting is a violation)
SMALL_STACK_KB = 2048    # a quarter of the usual 8 MB: nesting at the limit must fit (ASan build included)

def nesting_limit():
    """UNBER_MAX_NESTING_LEVEL of the tree under test (None: the source has no such limit)"""
    src = open(os.path.join(build.REPO, "asn1-tools", "unber", "libasn1_unber_tool.c"), encoding="latin1").read()
    m = re.search(r"^#define\s+UNBER_MAX_NESTING_LEVEL\s+(\d+)\s*$", src, re.M)
    return int(m.group(1)) if m else None

TOOL_ENV = dict(os.environ)
TOOL_ENV["ASAN_OPTIONS"] = "detect_leaks=0:abort_on_error=0:exitcode=99:allocator_may_return_null=1"
TOOL_ENV["UBSAN_OPTIONS"] = "print_stacktrace=1:halt_on_error=1:exitcode=98"

# ------------------------------------------------------------------ independent oracle (X.690 8.1)

class Node:
    """cls 0..3, num, form 'P' | 'C' | 'I'; lform: None = minimal definite, k = long form with
    k length octets; content: bytes (P) or list of Node (C, I)"""
    __slots__ = ("cls", "num", "form", "lform", "content")
    def __init__(self, cls, num, form, content, lform=None):
        self.cls, self.num, self.form, self.content, self.lform = cls, num, form, content, lform

def enc_ident(cls, constructed, num):
    first = (cls << 6) | (0x20 if constructed else 0)
    if num <= 30:
        return bytes([first | num])
    groups = []
    n = num
    while True:
        groups.append(n & 0x7f); n >>= 7
        if n == 0: break
    groups.reverse()
    return bytes([first | 31] + [g | 0x80 for g in groups[:-1]] + [groups[-1]])

def min_len_octets(n):
    return max(1, (n.bit_length() + 7) // 8)

def enc_length(n, lform):
    if lform is None:
        if n <= 127: return bytes([n])
        k = min_len_octets(n)
        return bytes([0x80 | k]) + n.to_bytes(k, "big")
    return bytes([0x80 | lform]) + n.to_bytes(lform, "big")

def is_minimal_lform(n, lform):
    return lform is None

def encode(node):
    if node.form == "P":
        body = bytes(node.content)
    else:
        body = b"".join(encode(c) for c in node.content)
    ident = enc_ident(node.cls, node.form != "P", node.num)
    if node.form == "I":
        return ident + b"\x80" + body + b"\x00\x00"
    return ident + enc_length(len(body), node.lform) + body

def encode_forest(nodes):
    return b"".join(encode(n) for n in nodes)

def walk(nodes, off, level, out):
    """expected unber records for the forest starting at offset `off`; returns end offset"""
    for n in nodes:
        ident = enc_ident(n.cls, n.form != "P", n.num)
        if n.form == "P":
            tl = len(ident) + len(enc_length(len(n.content), n.lform))
            out.append(("open", level, "P", off, n.cls, n.num, tl, len(n.content), bytes(n.content)))
            off += tl + len(n.content)
        elif n.form == "C":
            body_len = len(encode_forest(n.content))
            tl = len(ident) + len(enc_length(body_len, n.lform))
            out.append(("open", level, "C", off, n.cls, n.num, tl, body_len, None))
            end = walk(n.content, off + tl, level + 1, out)
            assert end == off + tl + body_len
            out.append(("close", level, "C", end, n.cls, n.num, None, tl + body_len))
            off = end
        else:
            tl = len(ident) + 1
            out.append(("open", level, "I", off, n.cls, n.num, tl, "Indefinite", None))
            end = walk(n.content, off + tl, level + 1, out)
            # closing element: offset of the end-of-contents octets, their tag and TL, total size
            out.append(("close", level, "I", end, 0, 0, 2, end + 2 - off))
            off = end + 2
    return off

def depth_of(nodes):
    d = 0
    for n in nodes:
        if n.form != "P":
            d = max(d, 1 + depth_of(n.content))
    return d

def has_nonminimal(nodes):
    for n in nodes:
        if n.form != "I" and n.lform is not None:
            return True
        if n.form != "P" and has_nonminimal(n.content):
            return True
    return False

def max_header(nodes):
    m = 0
    for n in nodes:
        ident = enc_ident(n.cls, n.form != "P", n.num)
        if n.form == "I": m = max(m, len(ident) + 1)
        else:
            body = len(n.content) if n.form == "P" else len(encode_forest(n.content))
            m = max(m, len(ident) + len(enc_length(body, n.lform)))
        if n.form != "P": m = max(m, max_header(n.content))
    return m

CLASS_NAMES = {None: 2, "UNIVERSAL": 0, "APPLICATION": 1, "PRIVATE": 3}
_TAG = r'T="\[(?:(UNIVERSAL|APPLICATION|PRIVATE) )?(\d+)\]"'
RE_OPEN = re.compile(r'^( *)<([PCI]) O="(\d+)" ' + _TAG + r' TL="(\d+)" V="(Indefinite|\d+)"(?: A="[^"<>]*")?>(.*)$')
RE_CLOSE = re.compile(r'^( *)</([CI]) O="(\d+)" ' + _TAG + r'(?: TL="(\d+)")?(?: A="[^"<>]*")? L="(\d+)">$')
RE_PBODY = re.compile(r'^((?:&#x[0-9a-f]{2};)*)</P>$')

def parse_unber_text(text):
    """records in the format of walk(); raises ValueError on a line of unknown shape"""
    out = []
    if text and not text.endswith("\n"):
        raise ValueError("output does not end with a newline")
    for line in text.split("\n")[:-1] if text else []:
        m = RE_OPEN.match(line)
        if m:
            ind, form, o, cname, num, tl, v, rest = m.groups()
            if len(ind) % 4: raise ValueError("indent: " + line[:80])
            lvl = len(ind) // 4
            vv = v if v == "Indefinite" else int(v)
            if form == "P":
                b = RE_PBODY.match(rest)
                if not b: raise ValueError("primitive body: " + line[:80])
                content = bytes(int(h, 16) for h in re.findall(r"&#x([0-9a-f]{2});", b.group(1)))
                out.append(("open", lvl, "P", int(o), CLASS_NAMES[cname], int(num), int(tl), vv, content))
            else:
                if rest != "": raise ValueError("text after constructed opening tag: " + line[:80])
                out.append(("open", lvl, form, int(o), CLASS_NAMES[cname], int(num), int(tl), vv, None))
            continue
        m = RE_CLOSE.match(line)
        if m:
            ind, form, o, cname, num, tl, L = m.groups()
            if len(ind) % 4: raise ValueError("indent: " + line[:80])
            out.append(("close", len(ind) // 4, form, int(o), CLASS_NAMES[cname], int(num),
                        int(tl) if tl is not None else None, int(L)))
            continue
        raise ValueError("unrecognised line: " + line[:120])
    return out

# ------------------------------------------------------------------ generators

TAG_EDGES = [0, 1, 2, 4, 5, 16, 17, 29, 30, 31, 32, 126, 127, 128, 129, 16383, 16384, (1 << 21) - 1, 1 << 21,
             (1 << 28) - 1, 1 << 28, (1 << 30) - 1]

def rand_tag(rng):
    cls = rng.randrange(4)
    r = rng.random()
    if r < 0.45: num = rng.randrange(0, 31)
    elif r < 0.75: num = rng.choice(TAG_EDGES)
    else: num = rng.getrandbits(rng.choice([6, 7, 8, 14, 15, 21, 22, 28, 29, 30]))
    if cls == 0 and num == 0: num = rng.choice([4, 16, 31])   # [UNIVERSAL 0] is the end-of-contents marker
    return cls, num

def rand_content(rng, big):
    r = rng.random()
    if r < 0.25: n = 0
    elif r < 0.85: n = rng.randrange(1, 12)
    elif r < 0.97 or not big: n = rng.choice([126, 127, 128, 129, 255, 256, 257])
    else: n = rng.choice([65535, 65536])
    if rng.random() < 0.3:
        return bytes(rng.choice([0x00, 0x26, 0x3c, 0x3e, 0x0a, 0xff, 0x80, 0x1f]) for _ in range(n))
    return bytes(rng.getrandbits(8) for _ in range(n))

def rand_forest(rng, depth, width, big=False, nonmin=0.0, modes="PCI"):
    """`width` top-level nodes, nesting up to `depth`"""
    nodes = []
    for _ in range(width):
        cls, num = rand_tag(rng)
        form = rng.choice(modes) if depth > 0 else "P"
        if form == "P":
            n = Node(cls, num, "P", rand_content(rng, big))
        else:
            w = rng.choice([0, 1, 1, 2, 2, 3, 4])
            n = Node(cls, num, form, rand_forest(rng, depth - 1, w, big, nonmin, modes))
        if n.form != "I" and rng.random() < nonmin:
            body = len(n.content) if n.form == "P" else len(encode_forest(n.content))
            n.lform = min_len_octets(body) + rng.choice([0, 0, 1, 2, 5]) if body > 127 else rng.choice([1, 1, 2, 3, 8])
            if body > 127 and n.lform == min_len_octets(body): n.lform += 1
        nodes.append(n)
    return nodes

def chain(rng, depth, form_choice):
    """one TLV nested `depth` times"""
    node = Node(0, 5, "P", b"")
    for _ in range(depth):
        cls, num = rand_tag(rng)
        node = Node(cls, num, rng.choice(form_choice), [node])
    return [node]

def fixed_wellformed():
    """boundary cases, every run"""
    cases = []
    P = lambda c, n, body=b"", lf=None: Node(c, n, "P", body, lf)
    for t in list(range(0, 41)) + TAG_EDGES:            # every [UNIVERSAL n] name, P and C and I
        for cls in range(4):
            if cls == 0 and t == 0: continue
            if cls != 0 and t not in TAG_EDGES: continue
            cases.append([P(cls, t, b"\x01")])
            cases.append([Node(cls, t, "C", [P(0, 5)])])
            cases.append([Node(cls, t, "I", [P(0, 5)])])
    for n in [0, 1, 2, 126, 127, 128, 129, 255, 256, 257, 65535, 65536]:
        body = bytes((i * 7 + 3) & 0xff for i in range(n))
        cases.append([P(0, 4, body)])
        cases.append([Node(0, 16, "C", [P(2, 0, body)])])
        cases.append([Node(0, 16, "I", [P(2, 0, body)])])
    cases.append([])                                                 # empty input
    cases.append([Node(0, 16, "C", [])]); cases.append([Node(0, 16, "I", [])])
    cases.append([Node(0, 16, "I", [Node(0, 17, "I", [Node(2, 1, "C", [P(0, 0x1f + 1, b"ab")])]), P(0, 5)]), P(0, 5)])
    cases.append([P(1, 1, bytes(range(256)))])                        # every octet value as content
    return cases

def fixed_nonminimal():
    P = lambda c, n, body=b"", lf=None: Node(c, n, "P", body, lf)
    out = [[P(0, 4, b"ab", 1)],                                       # the F8 witness 04 81 02 61 62
           [P(0, 4, b"", 1)], [P(0, 4, b"ab", 2)], [P(0, 4, b"x" * 200, 2)], [P(0, 4, b"x" * 200, 8)],
           [Node(0, 16, "C", [P(0, 5)], 1)], [Node(0, 16, "I", [P(0, 4, b"ab", 3)])],
           [P(0, 4, b"ab", 25)], [P(2, (1 << 30) - 1, b"ab", 25)]]
    return out

def mutate(rng, x):
    b = bytearray(x)
    r = rng.random()
    if not b: return bytes([rng.getrandbits(8)])
    if r < 0.35:
        for _ in range(rng.choice([1, 1, 2, 3])):
            i = rng.randrange(len(b)); b[i] ^= 1 << rng.randrange(8)
    elif r < 0.5:
        i = rng.randrange(len(b)); b[i] = rng.choice([0x00, 0x80, 0x81, 0x84, 0x88, 0xff, 0x1f, 0x3f, 0x7f, 0xa0, 0x30])
    elif r < 0.65:
        i = rng.randrange(len(b) + 1); b[i:i] = bytes(rng.getrandbits(8) for _ in range(rng.choice([1, 2, 5])))
    elif r < 0.8:
        i = rng.randrange(len(b)); del b[i:i + rng.choice([1, 2, 5])]
    elif r < 0.9:
        i = rng.randrange(len(b)); b = b[:i] + b                     # splice
    else:
        b = b[:rng.randrange(len(b) + 1)]
    return bytes(b)

def fixed_malformed():
    out = [bytes([0x1f]), bytes([0x1f, 0x80]), bytes([0x1f] + [0xff] * 6), bytes([0x1f, 0x84, 0x80, 0x80, 0x80, 0x00, 0x00]),
           bytes([0x1f, 0x83, 0xff, 0xff, 0xff, 0x7f, 0x00]), bytes([0x1f, 0x84, 0x80, 0x80, 0x80, 0x00]),
           bytes([0x04, 0xff]), bytes([0x04, 0x80]), bytes([0x24, 0x80]), bytes([0x04, 0x89] + [0xff] * 9),
           bytes([0x04, 0x88] + [0x7f] + [0xff] * 7), bytes([0x04, 0x88, 0x3f] + [0xff] * 7), bytes([0x04, 0x88, 0x40] + [0] * 7),
           bytes([0x04, 0x88, 0x00, 0x80] + [0] * 6), bytes([0x04, 0x87, 0x80] + [0] * 6),
           bytes([0x04, 0x9e] + [0] * 29 + [0x01, 0x55]), bytes([0x04, 0x9f] + [0] * 30 + [0x01, 0x55]),
           bytes([0x04] + [0xa0] + [0] * 31 + [0x01, 0x55]),           # 33-octet TL: tagbuf[32] is full
           bytes([0x1f] + [0x80] * 31 + [0x01, 0x00]), bytes([0x1f] + [0x80] * 30 + [0x01, 0x00]),
           bytes([0x30, 0x03, 0x04, 0x05, 0x00]), bytes([0x30, 0x02, 0x04, 0x81, 0x00]), bytes([0x30, 0x01, 0x04]),
           bytes([0x30, 0x03, 0x1f, 0x81, 0x80, 0x00]), bytes([0x30, 0x02, 0x30, 0x80, 0x00, 0x00]),
           bytes([0x30, 0x80, 0x00]), bytes([0x30, 0x80, 0x00, 0x00, 0x00, 0x00]), bytes([0x00, 0x00]), bytes([0x00]),
           bytes([0x30, 0x80, 0x30, 0x02, 0x00, 0x00, 0x00, 0x00]), bytes([0x30, 0x80, 0x00, 0x81, 0x00, 0x00, 0x00]),
           bytes([0x30, 0x06, 0x30, 0x80, 0x00, 0x00, 0x05, 0x00]), bytes([0x30, 0x05, 0x30, 0x80, 0x05, 0x00, 0x00, 0x00]),
           bytes([0x30, 0x04, 0x30, 0x80, 0x05, 0x00]), bytes([0x20, 0x80, 0x20, 0x00, 0x00, 0x00])]
    return out

# ------------------------------------------------------------------ running the real tools

def run_tool(cmd, data, timeout=300, discard_stdout=False, stack_kb=None):
    def small_stack():
        resource.setrlimit(resource.RLIMIT_STACK, (stack_kb * 1024, stack_kb * 1024))
    try:
        p = subprocess.run(cmd, input=data, stdout=subprocess.DEVNULL if discard_stdout else subprocess.PIPE,
                           stderr=subprocess.PIPE, env=TOOL_ENV, timeout=timeout,
                           preexec_fn=small_stack if stack_kb else None)
        return p.returncode, (b"" if discard_stdout else p.stdout), p.stderr.decode("latin1")
    except subprocess.TimeoutExpired:
        return "timeout", b"", "timeout after %ds" % timeout

def crash_summary(rc, err):
    """None if the process exited by itself (0, or EX_DATAERR with a diagnostic)"""
    for l in err.split("\n"):
        if "ERROR: AddressSanitizer" in l or "runtime error" in l or "Assertion" in l or "DEADLYSIGNAL" in l:
            return l.strip()[:200]
    if rc == 0: return None
    if rc == 65: return None if err.strip() else "exit 65 without a diagnostic"
    return "exit/signal %s: %s" % (rc, err.strip()[:150])

UNBER_DIAG = [("Too long TL sequence", ">=", "tooLongLimit"), ("Too long TL sequence", "bytes)", "tooLongBuf"),
              ("Unexpected end of file (TL)", "", "eofTL"), ("Fatal error decoding tag", "", "badTag"),
              ("Fatal error decoding value length", "", "badLen"), ("Outer tag length", "", "tlMismatch"),
              ("advertizes length", "", "lenExceeds"), ("Unexpected end of file (V)", "", "eofV"),
              ("Too deep nesting", "", "tooDeep")]
ENBER_DIAG = [("Missing '<'", "missingOpen"), ("Invalid charset", "charset"), ("Missing '>'", "missingClose"),
              ("Multiple tags per line", "multipleTags"), ("Expected \"C\"/\"P\"/\"I\"", "badForm"),
              ("Detected pretty-printing", "pretty"), ("Mandatory attribute", "noAttr"), ("Invalid TL or V value", "badTLV"),
              ("Invalid tag class", "badClass"), ("Invalid tag value", "badTagValue"), ("Cannot encode TL", "cannotEncodeTL"),
              ("Expected \"&#xNN;\"", "badEntity"), ("Could not encode value", "valueLength")]

def unber_status(rc, err):
    c = crash_summary(rc, err)
    if c: return "CRASH " + c
    if rc == 0: return "ok"
    for a, b, name in UNBER_DIAG:
        if a in err and b in err: return "fail:" + name
    return "fail:?"

def enber_status(rc, err):
    c = crash_summary(rc, err)
    if c: return "CRASH " + c
    if rc == 0: return "ok"
    for a, name in ENBER_DIAG:
        if a in err: return "err:" + name
    return "err:?"

def same_status(real, model):
    if real == model: return True
    # an unrecognised (reworded) diagnostic still is a diagnostic
    return real in ("fail:?", "err:?") and model.split(":")[0] == real.split(":")[0]

def hx(b): return bytes(b).hex() if b else "-"
def unhx(s): return b"" if s == "-" else bytes.fromhex(s)

def pmap(fn, items):
    with ThreadPoolExecutor(build.JOBS) as ex:
        return list(ex.map(fn, items))

def text_mutations(rng, text):
    """variants of an unber output (bytes) that exercise enber's line parser"""
    lines = text.split(b"\n")
    outs = []
    if not text: return [b"\n", b"# comment\n", b"-- c\n", b"<!-- c -->\n", b"<?xml?>\n", b"x\n", b"<P>\n", b"<P"]
    def put(ls): outs.append(b"\n".join(ls))
    i = rng.randrange(max(1, len(lines) - 1))
    l = lines[i]
    subs = [(b' TL="', b' XL="'), (b' V="', b' W="'), (b' T="[', b' T="('), (b'TL="', b'TL="0'), (b'TL="', b'TL="1'),
            (b'TL="', b'TL="-'), (b' V="', b' V="1'), (b' V="', b' V="-'), (b'">', b'" F>'), (b"&#x", b"&#y"),
            (b"&#x", b"&x"), (b";", b""), (b"<P", b"<Q"), (b"<C", b"<I"), (b"<I", b"<C"), (b"</I", b"</C"), (b"</C", b"</I"),
            (b"UNIVERSAL ", b"PRIVATE "), (b"UNIVERSAL ", b"APPLICATION "), (b"UNIVERSAL ", b""), (b"UNIVERSAL ", b"X"),
            (b'[', b'[0'), (b']"', b'99999999999]"'), (b']"', b'"'), (b"</P>", b""), (b"</P>", b"</P><P>"),
            (b"&#x", b"A&#x"), (b"    ", b"\t"), (b">", b""), (b'O="', b'O="\x01'), (b'O="', b'O="\xe9'),
            (b'TL="', b'TL="18446744073709551616'), (b' V="', b' V="9223372036854775808'), (b' V="', b' V=" +'),
            (b"</P>", b"&"), (b"</P>", b"&#"), (b"</P>", b"&#x4"), (b"</P>", b"&#x4g;"), (b"</P>", b"&amp;</P>")]
    for a, b in rng.sample(subs, 12):
        if a in l:
            put(lines[:i] + [l.replace(a, b, 1)] + lines[i + 1:])
    put(lines[:i] + [b"# comment", b"-- comment", b"", b"<!-- x -->", b"<?xml version?>"] + lines[i:])
    put(lines[:i] + lines[i + 1:])                       # drop a line
    if text.endswith(b"\n"): outs.append(text[:-1])      # last line without '\n' is never processed
    outs.append(text.replace(b' TL="', b' tl="'))        # no TL attributes at all: enber must not check them
    return outs

# ------------------------------------------------------------------ the check

def run(ctx):
    unber, enber = build_tools.build_tools()
    ctx.lean()
    rng = ctx.rng
    q = ctx.quick
    limit = nesting_limit()
    if limit is None:
        ctx.broken.append({"kind": "correspondence", "name": "unber-nesting-limit",
                           "msg": "asn1-tools/unber/libasn1_unber_tool.c defines no UNBER_MAX_NESTING_LEVEL (the model has one)"})
    ctx.cov["rule"] = ("inputs: python TLV forests (boundary set + random; any class, tag numbers to 2^30-1, definite/indefinite/"
                       "mixed, long-form and non-minimal lengths, big contents), their mutations/truncations, random bytes, deep nesting; "
                       "each is run through the real `unber -p` (and `enber`) process and through the Lean model; "
                       "distinct = distinct (input, real output) pairs; non-trivial = well-formed inputs whose text reached enber "
                       "(round trip evaluated) or malformed inputs reaching a diagnostic / successful parse")

    # ---------------- inputs
    wf = []            # (forest, bytes)
    for f in fixed_wellformed(): wf.append(f)
    n_rand = 250 if q else 6000
    for i in range(n_rand):
        depth = rng.choice([0, 1, 2, 3, 4, 6, 8]) if q else rng.choice([0, 1, 2, 3, 4, 6, 8, 12, 16])
        modes = rng.choice(["PCI", "PCI", "PC", "PI"])
        wf.append(rand_forest(rng, depth, rng.choice([1, 1, 2, 3]), big=(i % 40 == 0), modes=modes))
    for d in ([10, 40, 100] if q else [10, 40, 100, 200, 300]):
        for fc in ("C", "I", "CI"):
            wf.append(chain(rng, d, fc))
    nonmin = list(fixed_nonminimal())
    for i in range(60 if q else 1500):
        f = rand_forest(rng, rng.choice([0, 1, 2, 3]), rng.choice([1, 2]), nonmin=0.5)
        if has_nonminimal(f): nonmin.append(f)
    wf_x = [encode_forest(f) for f in wf]
    nonmin_x = [encode_forest(f) for f in nonmin]

    bad = list(fixed_malformed())
    # truncation at every offset of a few encodings
    for f in rng.sample(wf, 12 if q else 120):
        x = encode_forest(f)
        if 0 < len(x) <= 400:
            bad += [x[:i] for i in range(1, len(x))]
    for _ in range(700 if q else 30000):
        bad.append(mutate(rng, rng.choice(wf_x[:len(wf_x) - 9] + nonmin_x)))
    for _ in range(300 if q else 10000):
        n = rng.choice([1, 2, 3, 5, 8, 16, 40, 100])
        pool = rng.choice([None, [0x30, 0x80, 0x00, 0x04, 0x01, 0x1f, 0xa0, 0x81, 0xff]])
        bad.append(bytes(rng.choice(pool) if pool else rng.getrandbits(8) for _ in range(n)))
    bad = [b for b in bad if len(b) <= 200000]

    all_inputs = [("wf", x) for x in wf_x] + [("nonmin", x) for x in nonmin_x] + [("bad", x) for x in bad]
    ctx.cov["distribution"].update({"wellformed_minimal": len(wf_x), "wellformed_nonminimal": len(nonmin_x),
                                    "malformed": len(bad), "max_depth": max(depth_of(f) for f in wf),
                                    "max_input_bytes": max(len(x) for _, x in all_inputs)})

    # ---------------- real unber on everything
    ures = pmap(lambda kx: run_tool([unber, "-p", "-"], kx[1]), all_inputs)
    ctx.log(f"real unber: {len(all_inputs)} runs")

    # ---------------- K: model unber
    pfail = []     # (kind, what, replay dict)
    kdis = []
    if getattr(ctx, "driver_ok", True):
        lines = ["unber " + hx(x) for _, x in all_inputs]
        rc, mouts, merr = ctx.run_lines(build.model_exe(), lines, timeout=3600)
        if rc != 0 or len(mouts) != len(lines):
            raise RuntimeError("model driver failed: rc=%s %s" % (rc, merr[-500:]))
        st = ctx.cov["correspondence"].setdefault("unber", {"lines": 0, "disagreements": 0, "c_crashes": 0})
        for (kind, x), (rc, out, err), m in zip(all_inputs, ures, mouts):
            real = unber_status(rc, err)
            ms, mt = m.split(" ")
            st["lines"] += 1
            if real.startswith("CRASH"): st["c_crashes"] += 1
            if not same_status(real, ms) or out != unhx(mt):
                st["disagreements"] += 1
                kdis.append({"kind": "correspondence", "name": "unber", "op": "unber " + hx(x)[:2000],
                             "c": real + " " + out[:300].decode("latin1"), "model": ms + " " + unhx(mt)[:300].decode("latin1")})
        ctx.cov["evaluations"] += len(lines)
        for j in (0, len(wf_x) // 2, len(all_inputs) - 1):
            kind, x = all_inputs[j]
            ctx.cov["samples"].append({"op": "unber -p " + hx(x)[:120], "c": unber_status(ures[j][0], ures[j][2]) + " " + ures[j][1][:160].decode("latin1"),
                                       "model": mouts[j].split(" ")[0] + " " + unhx(mouts[j].split(" ")[1])[:160].decode("latin1")})
    else:
        ctx.broken.append({"kind": "correspondence", "name": "unber", "msg": "Lean driver does not build"})

    # ---------------- P: fields agree + safety
    nP = 0
    texts_for_enber = []     # (kind, x, text)
    for (kind, x), forest, (rc, out, err) in zip(all_inputs, wf + nonmin + [None] * len(bad), ures):
        nP += 1
        c = crash_summary(rc, err)
        if c:
            pfail.append(("crash", f"unber died on input ({len(x)} bytes): {c}", {"input_hex": hx(x)[:100000], "stderr": err[:2000], "tool": "unber -p"}))
            continue
        ctx.count_nontrivial(("u", x, rc, out))
        if kind == "bad":
            texts_for_enber.append((kind, x, out))
            continue
        # well-formed input
        if kind == "nonmin" and max_header(forest) > 32:
            # X.690 allows up to 126 length octets; unber's tagbuf holds 32: part of the known region
            if rc != 0:
                if not ctx.match_finding(lambda f: f["id"] == KF_NONMINIMAL):
                    pfail.append(("nonmin-header", "unber rejects a well-formed TL longer than 32 octets", {"input_hex": hx(x), "stderr": err[:500]}))
                continue
        if limit is not None and depth_of(forest) > limit:
            if unber_status(rc, err) != "fail:tooDeep":
                pfail.append(("nesting", f"nesting {depth_of(forest)} > {limit} must be answered with the nesting diagnostic: exit {rc} {err.strip()[:160]}",
                              {"input_hex": hx(x)[:100000], "stderr": err[:500]}))
            continue
        if rc != 0:
            pfail.append(("reject", "unber -p rejects a well-formed BER input: " + err.strip()[:200], {"input_hex": hx(x)[:100000], "stderr": err[:500]}))
            continue
        exp = []
        walk(forest, 0, 0, exp)
        try:
            got = parse_unber_text(out.decode("latin1"))
        except ValueError as e:
            pfail.append(("fields", "unber output has an unexpected shape: %s" % e, {"input_hex": hx(x)[:100000]}))
            continue
        if got != exp:
            k = next((i for i, (a, b) in enumerate(zip(got, exp)) if a != b), min(len(got), len(exp)))
            pfail.append(("fields", f"printed fields differ from the TLV structure at element {k}: printed {got[k] if k < len(got) else None}, "
                                    f"expected {exp[k] if k < len(exp) else None}"[:600], {"input_hex": hx(x)[:100000]}))
            continue
        texts_for_enber.append((kind, x, out))
    ctx.cov["predicate"]["unber_safety_and_fields"] = {"cases": nP, "failures": len(pfail)}

    # deep nesting (output is quadratic in the depth, so it is discarded; K compares the exit status / diagnostic
    # with the model's `unber_st`, P compares it with what the nesting rule demands)
    L = limit if limit is not None else 2048
    def indef(d): return b"\x30\x80" * d + b"\x00\x00" * d
    def definite(d):
        body = b""
        for _ in range(d): body = b"\x30" + enc_length(len(body), None) + body
        return body
    def mixed(d):
        body = b"\x05\x00"
        forms = [rng.choice("CI") for _ in range(d)]
        for f in forms:                                    # innermost first
            ident = rng.choice([b"\x30", b"\xa1", b"\x7f\x64"])
            if f == "I": body = ident + b"\x80" + body + b"\x00\x00"
            else: body = ident + enc_length(len(body), None) + body
        return body
    deep = [("deep-indef-2000", indef(2000), "ok" if L >= 2000 else "fail:tooDeep", None),
            (f"deep-indef-{L - 1}", indef(L - 1), "ok", None),
            (f"deep-indef-{L}", indef(L), "ok", None),
            (f"deep-indef-{L}-small-stack", indef(L), "ok", SMALL_STACK_KB),
            (f"deep-indef-{L + 1}", indef(L + 1), "fail:tooDeep", None),
            (f"deep-indef-{L + 1}-small-stack", indef(L + 1), "fail:tooDeep", SMALL_STACK_KB),
            ("deep-indef-10000", indef(10000), "fail:tooDeep", None),
            (f"deep-indef-trunc-{L}", b"\x30\x80" * L, "fail:eofTL", None),
            (f"deep-indef-trunc-{L + 1}", b"\x30\x80" * (L + 1), "fail:tooDeep", None),
            ("deep-indef-trunc-10000", b"\x30\x80" * 10000, "fail:tooDeep", None),
            ("3080 x 100000", b"\x30\x80" * 100000, "fail:tooDeep", None),          # the former F41 witness
            (f"deep-definite-{L}", definite(L), "ok", None),
            (f"deep-definite-{L + 1}", definite(L + 1), "fail:tooDeep", None),
            (f"deep-definite-{L + 1}-small-stack", definite(L + 1), "fail:tooDeep", SMALL_STACK_KB),
            ("deep-definite-3000", definite(3000), "fail:tooDeep" if L < 3000 else "ok", None),
            ("deep-tagonly-10000", b"\x3f" * 10000, "fail", None)]
    for d in ([L, L + 1] if q else [L - 1, L, L + 1, L + 2, 3 * L]):
        deep.append((f"deep-mixed-{d}", mixed(d), "ok" if d <= L else "fail:tooDeep", None))
    dres = pmap(lambda c: run_tool([unber, "-p", "-"], c[1], discard_stdout=True, stack_kb=c[3]), deep)
    dmodel = None
    if getattr(ctx, "driver_ok", True):
        rc, dmodel, merr = ctx.run_lines(build.model_exe(), ["unber_maxlevel"] + ["unber_st " + hx(c[1]) for c in deep], timeout=3600)
        if rc != 0 or len(dmodel) != len(deep) + 1:
            raise RuntimeError("model driver failed: rc=%s %s" % (rc, merr[-500:]))
        if limit is not None and dmodel[0] != str(limit):
            kdis.append({"kind": "correspondence", "name": "unber-nesting-limit", "op": "unber_maxlevel",
                         "c": f"UNBER_MAX_NESTING_LEVEL {limit}", "model": dmodel[0]})
        dmodel = dmodel[1:]
        ctx.cov["evaluations"] += len(deep)
    st = ctx.cov["correspondence"].setdefault("unber-deep", {"lines": 0, "disagreements": 0, "c_crashes": 0})
    deep_seen = {}
    for i, ((name, x, want, _), (rc, _, err)) in enumerate(zip(deep, dres)):
        nP += 1
        ctx.count_nontrivial(("deep", name, rc))
        real = unber_status(rc, err)
        deep_seen[name] = real
        if dmodel is not None:
            st["lines"] += 1
            ms = dmodel[i].split(" ")[0]
            if real.startswith("CRASH"): st["c_crashes"] += 1
            if not same_status(real, ms):
                st["disagreements"] += 1
                kdis.append({"kind": "correspondence", "name": "unber-deep", "op": "unber_st <" + name + ">", "c": real, "model": ms})
        c = crash_summary(rc, err)
        if c:
            pfail.append(("crash", f"unber died on {name}: {c}", {"input": name, "stderr": err[:2000]}))
        elif limit is None and want != "fail":
            pass      # a tree without a nesting limit: only "exits by itself" can be demanded (the model disagreement is reported by K)
        elif not (real == want or (want == "fail" and real.startswith("fail:"))):
            pfail.append(("nesting", f"unber on {name}: {real} ({err.strip()[:160]}), the nesting rule (limit {L}) demands {want}",
                          {"input": name, "stderr": err[:500]}))
    ctx.cov["evaluations"] += len(deep)
    ctx.cov["predicate"]["deep_nesting"] = {"cases": len(deep), "nesting_limit": limit, "small_stack_kb": SMALL_STACK_KB, "outcomes": deep_seen}

    # ---------------- real enber on unber's texts (+ mutated texts for K)
    eruns = [(kind, x, t, True) for kind, x, t in texts_for_enber]
    srcs = [t for k, _, t in texts_for_enber if k != "bad" and len(t) < 5000]
    for _ in range(80 if q else 2500):
        t = rng.choice(srcs)
        for tm in text_mutations(rng, t):
            if b"\x00" not in tm: eruns.append(("text", None, tm, False))
    for tm in text_mutations(rng, b""): eruns.append(("text", None, tm, False))
    eres = pmap(lambda e: run_tool([enber, "-"], e[2]), eruns)
    ctx.log(f"real enber: {len(eruns)} runs")

    nE = 0
    for (kind, x, t, from_unber), (rc, out, err) in zip(eruns, eres):
        c = crash_summary(rc, err)
        ctx.count_nontrivial(("e", t, rc, out))
        if kind in ("wf", "nonmin"):
            nE += 1
            if c:
                pfail.append(("crash", "enber died on unber's output: " + c, {"input_hex": hx(x)[:100000], "stderr": err[:2000], "tool": "enber"}))
            elif rc == 0 and out == x:
                pass
            elif kind == "nonmin" and rc == 65 and "Cannot encode TL" in err and ctx.match_finding(lambda f: f["id"] == KF_NONMINIMAL):
                pass
            else:
                pfail.append(("roundtrip", f"enber(unber -p x) != x: exit {rc}, {err.strip()[:160]}; got {hx(out)[:80]}",
                              {"input_hex": hx(x)[:100000], "unber_text": t[:4000].decode("latin1"), "enber_out_hex": hx(out)[:100000], "enber_stderr": err[:500]}))
    ctx.cov["predicate"]["roundtrip"] = {"cases": nE, "failures": sum(1 for p in pfail if p[0] == "roundtrip")}
    ctx.cov["evaluations"] += len(eruns)

    # ---------------- K: model enber
    if getattr(ctx, "driver_ok", True):
        lines = ["enber " + hx(t) for _, _, t, _ in eruns]
        rc, mouts, merr = ctx.run_lines(build.model_exe(), lines, timeout=3600)
        if rc != 0 or len(mouts) != len(lines):
            raise RuntimeError("model driver failed: rc=%s %s" % (rc, merr[-500:]))
        st = ctx.cov["correspondence"].setdefault("enber", {"lines": 0, "disagreements": 0, "c_crashes": 0})
        for (kind, x, t, _), (rc, out, err), m in zip(eruns, eres, mouts):
            real = enber_status(rc, err)
            ms, mo = m.split(" ")
            st["lines"] += 1
            if real.startswith("CRASH"): st["c_crashes"] += 1
            if not same_status(real, ms) or out != unhx(mo):
                st["disagreements"] += 1
                kdis.append({"kind": "correspondence", "name": "enber", "op": "enber " + t[:1500].decode("latin1"),
                             "c": real + " " + hx(out)[:300], "model": ms + " " + mo[:300]})
        ctx.cov["evaluations"] += len(lines)
        j = len(eruns) // 3
        ctx.cov["samples"].append({"op": "enber " + eruns[j][2][:200].decode("latin1"), "c": enber_status(eres[j][0], eres[j][2]) + " " + hx(eres[j][1])[:100], "model": mouts[j][:110]})
        ctx.cov["samples"].append({"op": "enber " + eruns[-1][2][:200].decode("latin1"), "c": enber_status(eres[-1][0], eres[-1][2]) + " " + hx(eres[-1][1])[:100], "model": mouts[-1][:110]})

    # ---------------- classification
    ctx.cov["predicate"]["total_failures"] = len(pfail)
    pfail.sort(key=lambda p: p[0] != "crash")            # memory errors first (stable)
    for kind, what, rep in pfail[:5]:
        ctx.violation("C20 predicate fails on the real tools: " + what, dict(rep, kind=kind))
    for d in kdis[:50]:
        ctx.broken.append(d)
    if kdis:
        ctx.log(f"correspondence: {len(kdis)} disagreements, first: {json.dumps(kdis[0])[:1500]}")
    ctx.assumptions += ["unber is run as `unber -p -` (stdin), enber as `enber -`; texts fed to enber are NUL-free",
                        "sanitizer leak detection is off (exit-time leaks are not memory errors)",
                        "stack use is runtime behaviour the model does not have: the model bounds the recursion level (theorem "
                        "unber_levels_bounded); that UNBER_MAX_NESTING_LEVEL + 1 frames of process_deeper fit the stack is measured "
                        f"(nesting at the limit under a {SMALL_STACK_KB} KB stack, ASan build)"]

def replay(ctx, path):
    r = json.load(open(path))
    unber, enber = build_tools.build_tools()
    ctx.lean()
    ins = []
    if "input_hex" in r: ins.append(unhx(r["input_hex"]))
    for b in r.get("broken", []):
        if b.get("op", "").startswith("unber "): ins.append(unhx(b["op"].split()[1]))
    for x in ins:
        rc, out, err = run_tool([unber, "-p", "-"], x)
        print("replay: unber -p", hx(x)[:200], "| exit", rc, "|", err.strip()[:300])
        print(out[:2000].decode("latin1"))
        rc2, out2, err2 = run_tool([enber, "-"], out)
        print("replay: enber | exit", rc2, "|", err2.strip()[:300], "|", hx(out2)[:200], "| equal:", out2 == x)
        _, m, _ = ctx.run_lines(build.model_exe(), ["enber_unber " + hx(x)])
        print("replay: model:", m[0][:300])
