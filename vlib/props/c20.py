"""C20 — unber and enber are mutually inverse; unber is safe on arbitrary input.

Legs
  L  Lean theorems of lean/props/C20.json (build + axiom audit).
  K  the REAL `unber -p` / `enber` processes (built from /repo's working tree, ASan+UBSan)
     against the Lean model's ops `unber <hex>` / `enber <hex text>`: exit status,
     diagnostic kind and every output byte must agree.
  P  independent python oracle (own TLV forest generator, encoder and walker, written from
     X.690 §8.1; not the Lean model): enber(unber -p x) == x byte for byte and the
     O/T/TL/V/L attributes printed by unber equal the python walk of x, for well-formed x;
     on mutated / truncated / random / deeply nested input unber must exit by itself
     (0, or EX_DATAERR with a diagnostic): a signal or a sanitizer report is a failure.
     Nesting: unber walks at most UNBER_MAX_NESTING_LEVEL (read from the source; the model's
     constant must agree) constructed TLVs inside one another; well-formed input nested up to
     the limit must be accepted (also with a quarter of the default stack), deeper input must
     be answered with the "Too deep nesting" diagnostic - never with a stack overflow.
     Presentation modes: the same inputs plus a family of primitive TLVs (OBJECT IDENTIFIER / RELATIVE-OID /
     string / time / INTEGER / ENUMERATED / BOOLEAN / REAL / NULL contents of many lengths, every universal tag and
     the other classes) also go through the DEFAULT mode (pretty-printing, no -p), `-m`, `-m -p` and `-i <n>`:
     never a signal or a sanitizer report; on well-formed input the structure attributes equal the python walk,
     a reformatted value (flag F) equals the python rendering written from X.690 8.2 / 8.3 / 8.19 / 8.20
     (BOOLEAN, INTEGER, dotted OID text) and every other value decodes back (characters + &#xNN;) to the
     content octets.
"""
import json, os, re, resource, subprocess
from concurrent.futures import ThreadPoolExecutor
from .. import build, build_tools

KF_NONMINIMAL = "F8"     # enber cannot reproduce non-minimal length forms
# (F41, unbounded recursion of process_deeper, is repaired: no matcher - a crash on deep nesting is a violation)
KF_ITOA_SHIFT = "F231"  # asn1p_itoa_s: ASN_INTEGER_MIN shifts 1 into the sign bit (UB) - reached by unber's INTEGER pretty-printer
# findings of this property that KNOWN_FINDINGS.json may not list yet (proposed entries; the file wins)
PROPOSED = [
 {"id": "F231", "property": "C20", "status": "known",
  "what": "unber in its default (pretty-printing) mode prints an INTEGER / ENUMERATED of up to sizeof(asn1c_integer_t) (16 with __int128) content octets through "
          "asn1p_itoa; for a negative value below LONG_MIN asn1p_itoa_s evaluates ASN_INTEGER_MIN = -(~0 & ~((asn1c_integer_t)1 << 127)) - 1: a left shift of 1 "
          "into the sign bit of a signed type, undefined behaviour (C99 6.5.7p4); the UBSan build of unber stops with 'left shift of 1 by 127 places cannot be "
          "represented in type __int128' (libasn1parser/asn1p_integer.c:120) on the 11 octets 02 09 ff 00 00 00 00 00 00 00 00. unber -p is not affected",
  "witness": {"tool": "unber -", "input_hex": "0209ff0000000000000000", "expect": "runtime error: left shift of 1 by 127 places"},
  "matcher": "sanitizer summary names asn1p_integer.c and 'left shift of 1 by' AND the input holds a [UNIVERSAL 2] / [UNIVERSAL 10] primitive header followed by 9..16 as "
             "length and a first content octet >= 0x80 (python scan of the input octets); pretty-printing modes only"},
]
SMALL_STACK_KB = 2048    # a quarter of the usual 8 MB: nesting at the limit must fit (ASan build included)

def nesting_limit():
    """UNBER_MAX_NESTING_LEVEL of the tree under test (None: the source has no such limit)"""
    src = open(os.path.join(build.REPO, "asn1-tools", "unber", "libasn1_unber_tool.c"), encoding="latin1").read()
    m = re.search(r"^#define\s+UNBER_MAX_NESTING_LEVEL\s+(\d+)\s*$", src, re.M)
    return int(m.group(1)) if m else None

TOOL_ENV = dict(os.environ)
TOOL_ENV["ASAN_OPTIONS"] = "detect_leaks=0:abort_on_error=0:exitcode=99:allocator_may_return_null=1"
TOOL_ENV["UBSAN_OPTIONS"] = "print_stacktrace=1:halt_on_error=1:exitcode=98"

# ------------------------------------------------------------------ independent oracle (X.690 8.1)

class Node:
    """cls 0..3, num, form 'P' | 'C' | 'I'; lform: None = minimal definite, k = long form with
    k length octets; content: bytes (P) or list of Node (C, I)"""
    __slots__ = ("cls", "num", "form", "lform", "content")
    def __init__(self, cls, num, form, content, lform=None):
        self.cls, self.num, self.form, self.content, self.lform = cls, num, form, content, lform

def enc_ident(cls, constructed, num):
    first = (cls << 6) | (0x20 if constructed else 0)
    if num <= 30:
        return bytes([first | num])
    groups = []
    n = num
    while True:
        groups.append(n & 0x7f); n >>= 7
        if n == 0: break
    groups.reverse()
    return bytes([first | 31] + [g | 0x80 for g in groups[:-1]] + [groups[-1]])

def min_len_octets(n):
    return max(1, (n.bit_length() + 7) // 8)

def enc_length(n, lform):
    if lform is None:
        if n <= 127: return bytes([n])
        k = min_len_octets(n)
        return bytes([0x80 | k]) + n.to_bytes(k, "big")
    return bytes([0x80 | lform]) + n.to_bytes(lform, "big")

def is_minimal_lform(n, lform):
    return lform is None

def encode(node):
    if node.form == "P":
        body = bytes(node.content)
    else:
        body = b"".join(encode(c) for c in node.content)
    ident = enc_ident(node.cls, node.form != "P", node.num)
    if node.form == "I":
        return ident + b"\x80" + body + b"\x00\x00"
    return ident + enc_length(len(body), node.lform) + body

def encode_forest(nodes):
    return b"".join(encode(n) for n in nodes)

def walk(nodes, off, level, out):
    """expected unber records for the forest starting at offset `off`; returns end offset"""
    for n in nodes:
        ident = enc_ident(n.cls, n.form != "P", n.num)
        if n.form == "P":
            tl = len(ident) + len(enc_length(len(n.content), n.lform))
            out.append(("open", level, "P", off, n.cls, n.num, tl, len(n.content), bytes(n.content)))
            off += tl + len(n.content)
        elif n.form == "C":
            body_len = len(encode_forest(n.content))
            tl = len(ident) + len(enc_length(body_len, n.lform))
            out.append(("open", level, "C", off, n.cls, n.num, tl, body_len, None))
            end = walk(n.content, off + tl, level + 1, out)
            assert end == off + tl + body_len
            out.append(("close", level, "C", end, n.cls, n.num, None, tl + body_len))
            off = end
        else:
            tl = len(ident) + 1
            out.append(("open", level, "I", off, n.cls, n.num, tl, "Indefinite", None))
            end = walk(n.content, off + tl, level + 1, out)
            # closing element: offset of the end-of-contents octets, their tag and TL, total size
            out.append(("close", level, "I", end, 0, 0, 2, end + 2 - off))
            off = end + 2
    return off

def depth_of(nodes):
    d = 0
    for n in nodes:
        if n.form != "P":
            d = max(d, 1 + depth_of(n.content))
    return d

def has_nonminimal(nodes):
    for n in nodes:
        if n.form != "I" and n.lform is not None:
            return True
        if n.form != "P" and has_nonminimal(n.content):
            return True
    return False

def max_header(nodes):
    m = 0
    for n in nodes:
        ident = enc_ident(n.cls, n.form != "P", n.num)
        if n.form == "I": m = max(m, len(ident) + 1)
        else:
            body = len(n.content) if n.form == "P" else len(encode_forest(n.content))
            m = max(m, len(ident) + len(enc_length(body, n.lform)))
        if n.form != "P": m = max(m, max_header(n.content))
    return m

CLASS_NAMES = {None: 2, "UNIVERSAL": 0, "APPLICATION": 1, "PRIVATE": 3}
_TAG = r'T="\[(?:(UNIVERSAL|APPLICATION|PRIVATE) )?(\d+)\]"'
RE_OPEN = re.compile(r'^( *)<([PCI])(?: O="(\d+)")? ' + _TAG + r' TL="(\d+)" V="(Indefinite|\d+)"(?: A="([^"<>]*)")?( F)?>(.*)$')
RE_CLOSE = re.compile(r'^( *)</([CI])(?: O="(\d+)")? ' + _TAG + r'(?: TL="(\d+)")?(?: A="([^"<>]*)")?(?: L="(\d+)")?>$')
RE_PBODY = re.compile(r'^((?:&#x[0-9a-f]{2};)*)</P>$')

def parse_unber_text(text, indent=4, minimal=False, pretty=False):
    """records in the format of walk(); raises ValueError on a line of unknown shape.
    indent: the -i value (0: the level cannot be read, None is recorded); minimal: -m (no O= / A= / L= attributes, closing
    TL= never printed: None is recorded); pretty: no -p, the content of a primitive is recorded as (F flag, body text)."""
    out = []
    if text and not text.endswith("\n"):
        raise ValueError("output does not end with a newline")
    def level(ind, line):
        if indent == 0:
            if ind: raise ValueError("indent: " + line[:80])
            return None
        if len(ind) % indent: raise ValueError("indent: " + line[:80])
        return len(ind) // indent
    for line in text.split("\n")[:-1] if text else []:
        m = RE_OPEN.match(line)
        if m:
            ind, form, o, cname, num, tl, v, a, fflag, rest = m.groups()
            lvl = level(ind, line)
            if (o is None) != minimal: raise ValueError("O attribute: " + line[:80])
            if minimal and a is not None: raise ValueError("A attribute in minimalistic mode: " + line[:80])
            if fflag and (not pretty or form != "P"): raise ValueError("F flag: " + line[:80])
            vv = v if v == "Indefinite" else int(v)
            oo = None if o is None else int(o)
            if form == "P":
                if pretty:
                    if not rest.endswith("</P>"): raise ValueError("primitive body: " + line[:80])
                    content = (bool(fflag), rest[:-4])
                else:
                    b = RE_PBODY.match(rest)
                    if not b: raise ValueError("primitive body: " + line[:80])
                    content = bytes(int(h, 16) for h in re.findall(r"&#x([0-9a-f]{2});", b.group(1)))
                out.append(("open", lvl, "P", oo, CLASS_NAMES[cname], int(num), int(tl), vv, content))
            else:
                if rest != "": raise ValueError("text after constructed opening tag: " + line[:80])
                out.append(("open", lvl, form, oo, CLASS_NAMES[cname], int(num), int(tl), vv, None))
            continue
        m = RE_CLOSE.match(line)
        if m:
            ind, form, o, cname, num, tl, a, L = m.groups()
            if (o is None) != minimal or (L is None) != minimal: raise ValueError("O / L attribute: " + line[:80])
            if minimal and (a is not None or tl is not None): raise ValueError("A / TL attribute in minimalistic mode: " + line[:80])
            out.append(("close", level(ind, line), form, None if o is None else int(o), CLASS_NAMES[cname], int(num),
                        int(tl) if tl is not None else None, None if L is None else int(L)))
            continue
        raise ValueError("unrecognised line: " + line[:120])
    return out

def project(records, indent=4, minimal=False):
    """the walk() records as a presentation mode shows them"""
    out = []
    for r in records:
        r = list(r)
        if indent == 0: r[1] = None
        if minimal:
            r[3] = None
            if r[0] == "close": r[6] = None; r[7] = None
        out.append(tuple(r))
    return out

# ------------------------------------------------------------------ pretty-printed values (default mode): python rendering
ARC_LIMIT = 1 << 32          # asn_oid_arc_t is 32 bits wide: an arc beyond it cannot be reformatted (printed as octets)
PRETTY_BUF_LIMIT = 128 * 1024

def oid_arcs(content, relative):
    """X.690 8.19 / 8.20: (arcs | None when the contents are not a whole number of subidentifiers or empty,
    sub-identifier values, has a subidentifier with a leading 0x80 octet)"""
    subs = []; acc = 0; n = 0; lead80 = False
    for b in content:
        if n == 0 and b == 0x80: lead80 = True
        acc = (acc << 7) | (b & 0x7f); n += 1
        if not b & 0x80:
            subs.append(acc); acc = 0; n = 0
    if n or not subs: return None, subs, lead80
    if relative: return list(subs), subs, lead80
    f = subs[0]
    first = [0, f] if f < 40 else [1, f - 40] if f < 80 else [2, f - 80]
    return first + subs[1:], subs, lead80

def unescape(body):
    """characters + &#xNN; -> octets; None if the text holds a raw markup character or a malformed reference"""
    out = bytearray(); i = 0
    while i < len(body):
        ch = body[i]
        if ch == "&":
            mm = re.match(r"&#x([0-9a-f]{2});", body[i:i + 6])
            if not mm: return None
            out.append(int(mm.group(1), 16)); i += 6
        elif ch in "<>" or ord(ch) < 0x20 or ord(ch) > 0xff: return None
        else: out.append(ord(ch)); i += 1
    return bytes(out)

def pretty_value_error(cls, num, content, fflag, body):
    """None when the printed value (F flag, body text) is a faithful presentation of the primitive's content octets"""
    n = len(content)
    want_f = None; text = None          # want_f: True / False / None (either)
    if cls == 0 and num == 1 and n == 1:                               # BOOLEAN, X.690 8.2
        want_f = True
        text = "<false/>" if content[0] == 0 else "<true/>" if content[0] == 0xff else '<true value="&#x%02x"/>' % content[0]
    elif cls == 0 and num in (2, 10) and n <= 16:                      # INTEGER / ENUMERATED, 8.3: two's complement
        want_f = True if n <= 8 else None                              # (9..16 octets: reformatted when the build has a 128-bit integer)
        text = str(int.from_bytes(content, "big", signed=True)) if n else "0"
    elif cls == 0 and num in (6, 13) and n > 0:                        # OBJECT IDENTIFIER 8.19 / RELATIVE-OID 8.20
        arcs, subs, lead80 = oid_arcs(content, num == 13)
        if arcs is None: want_f = False
        else:
            text = ".".join(str(a) for a in arcs)
            if any(s >= ARC_LIMIT for s in subs): want_f = False
            elif lead80 or n >= PRETTY_BUF_LIMIT: want_f = None
            else: want_f = True
    else:
        want_f = False
    if fflag:
        if want_f is False: return "value flagged F (reformatted) but it is not a reformattable value"
        if body != text: return f"reformatted value {body[:80]!r}, expected {str(text)[:80]!r}"
        return None
    if want_f is True: return f"value not reformatted, expected F and {str(text)[:80]!r}"
    got = unescape(body)
    if got is None: return f"value text holds raw markup / malformed reference: {body[:80]!r}"
    if got != bytes(content):
        k = next((i for i, (a, b) in enumerate(zip(got, content)) if a != b), min(len(got), n))
        return f"value text decodes to {len(got)} octets, differing from the {n} content octets at {k}"
    return None

# ------------------------------------------------------------------ generators

TAG_EDGES = [0, 1, 2, 4, 5, 16, 17, 29, 30, 31, 32, 126, 127, 128, 129, 16383, 16384, (1 << 21) - 1, 1 << 21,
             (1 << 28) - 1, 1 << 28, (1 << 30) - 1]

def rand_tag(rng):
    cls = rng.randrange(4)
    r = rng.random()
    if r < 0.45: num = rng.randrange(0, 31)
    elif r < 0.75: num = rng.choice(TAG_EDGES)
    else: num = rng.getrandbits(rng.choice([6, 7, 8, 14, 15, 21, 22, 28, 29, 30]))
    if cls == 0 and num == 0: num = rng.choice([4, 16, 31])   # [UNIVERSAL 0] is the end-of-contents marker
    return cls, num

def rand_content(rng, big):
    r = rng.random()
    if r < 0.25: n = 0
    elif r < 0.85: n = rng.randrange(1, 12)
    elif r < 0.97 or not big: n = rng.choice([126, 127, 128, 129, 255, 256, 257])
    else: n = rng.choice([65535, 65536])
    if rng.random() < 0.3:
        return bytes(rng.choice([0x00, 0x26, 0x3c, 0x3e, 0x0a, 0xff, 0x80, 0x1f]) for _ in range(n))
    return bytes(rng.getrandbits(8) for _ in range(n))

def rand_forest(rng, depth, width, big=False, nonmin=0.0, modes="PCI"):
    """`width` top-level nodes, nesting up to `depth`"""
    nodes = []
    for _ in range(width):
        cls, num = rand_tag(rng)
        form = rng.choice(modes) if depth > 0 else "P"
        if form == "P":
            n = Node(cls, num, "P", rand_content(rng, big))
        else:
            w = rng.choice([0, 1, 1, 2, 2, 3, 4])
            n = Node(cls, num, form, rand_forest(rng, depth - 1, w, big, nonmin, modes))
        if n.form != "I" and rng.random() < nonmin:
            body = len(n.content) if n.form == "P" else len(encode_forest(n.content))
            n.lform = min_len_octets(body) + rng.choice([0, 0, 1, 2, 5]) if body > 127 else rng.choice([1, 1, 2, 3, 8])
            if body > 127 and n.lform == min_len_octets(body): n.lform += 1
        nodes.append(n)
    return nodes

def chain(rng, depth, form_choice):
    """one TLV nested `depth` times"""
    node = Node(0, 5, "P", b"")
    for _ in range(depth):
        cls, num = rand_tag(rng)
        node = Node(cls, num, rng.choice(form_choice), [node])
    return [node]

def fixed_wellformed():
    """boundary cases, every run"""
    cases = []
    P = lambda c, n, body=b"", lf=None: Node(c, n, "P", body, lf)
    for t in list(range(0, 41)) + TAG_EDGES:            # every [UNIVERSAL n] name, P and C and I
        for cls in range(4):
            if cls == 0 and t == 0: continue
            if cls != 0 and t not in TAG_EDGES: continue
            cases.append([P(cls, t, b"\x01")])
            cases.append([Node(cls, t, "C", [P(0, 5)])])
            cases.append([Node(cls, t, "I", [P(0, 5)])])
    for n in [0, 1, 2, 126, 127, 128, 129, 255, 256, 257, 65535, 65536]:
        body = bytes((i * 7 + 3) & 0xff for i in range(n))
        cases.append([P(0, 4, body)])
        cases.append([Node(0, 16, "C", [P(2, 0, body)])])
        cases.append([Node(0, 16, "I", [P(2, 0, body)])])
    cases.append([])                                                 # empty input
    cases.append([Node(0, 16, "C", [])]); cases.append([Node(0, 16, "I", [])])
    cases.append([Node(0, 16, "I", [Node(0, 17, "I", [Node(2, 1, "C", [P(0, 0x1f + 1, b"ab")])]), P(0, 5)]), P(0, 5)])
    cases.append([P(1, 1, bytes(range(256)))])                        # every octet value as content
    return cases

def sub_id(v):
    """one subidentifier, X.690 8.19.2"""
    out = [v & 0x7f]; v >>= 7
    while v: out.append(0x80 | (v & 0x7f)); v >>= 7
    return bytes(reversed(out))

def primitive_contents(rng, q):
    """[(universal tag number, content octets)]: primitives the default mode reformats or prints as text, of many lengths"""
    out = []
    # OBJECT IDENTIFIER (6) / RELATIVE-OID (13)
    oids = [b"", bytes([0x2b, 0x06, 0x01, 0x04, 0x01, 0x09])]                 # 1.3.6.1.4.1.9: single-octet arcs only
    oids += [bytes([b]) for b in (0x00, 0x01, 0x27, 0x28, 0x4f, 0x50, 0x7f, 0x80, 0x81, 0xff)]
    for n in (2, 3, 4, 5, 7, 8, 9, 15, 16, 17, 31, 32, 33, 63, 64, 127, 128, 129, 255, 256, 257, 1000, 4096):
        oids.append(bytes((7 * i + 1) & 0x7f for i in range(n)))             # n single-octet subidentifiers
        oids.append(bytes([0x2a] + [0x00] * (n - 1)))
    big = [127, 128, 16383, 16384, (1 << 21) - 1, 1 << 21, (1 << 28) - 1, 1 << 28, (1 << 31) - 1, 1 << 31, (1 << 32) - 1, 1 << 32,
           (1 << 32) + 79, (1 << 32) + 80, (1 << 35) - 1, 1 << 35, (1 << 63), (1 << 64) - 1, 1 << 64, 1 << 70]
    for v in big:
        oids.append(sub_id(v)); oids.append(b"\x2b" + sub_id(v)); oids.append(b"\x2b" + sub_id(v) + b"\x01"); oids.append(sub_id(v) + sub_id(v))
    for v in (39, 40, 79, 80, 81, 119, 120, 999 + 80, (1 << 32) - 1, (1 << 32) - 81):
        oids.append(sub_id(v) + b"\x03")                                       # first subidentifier = 40 X + Y
    oids += [b"\x2b\x86", b"\x86", b"\x2b\x80\x01", b"\x80\x01", b"\x80\x80\x80\x80\x80\x80\x01", b"\x2b\xff\xff\xff\xff\x7f", b"\x2b\xff\xff\xff\xff\xff\x7f",
             b"\x2b" + b"\x81" * 200 + b"\x00", b"\x2b" + b"\x80" * 200 + b"\x01", b"\x2b" + b"\x86\x48" * 70, bytes([0x2b]) + bytes([0x81, 0x00]) * 64]
    for _ in range(40 if q else 600):
        n = rng.choice([1, 2, 3, 5, 8, 13, 30, 127, 128, 129, 300])
        r = rng.random()
        if r < 0.5: oids.append(bytes(rng.randrange(128) for _ in range(n)))               # single-octet arcs only
        elif r < 0.8: oids.append(b"".join(sub_id(rng.getrandbits(rng.choice([3, 7, 8, 14, 21, 28, 32, 33]))) for _ in range(n))[:2000])
        else: oids.append(bytes(rng.getrandbits(8) for _ in range(n)))
    if not q: oids += [bytes([0x2b]) + b"\x01" * (PRETTY_BUF_LIMIT - 2), bytes([0x2b]) + b"\x01" * (PRETTY_BUF_LIMIT - 1), bytes([0x2b]) + b"\x01" * PRETTY_BUF_LIMIT]
    else: oids += [bytes([0x2b]) + b"\x01" * (PRETTY_BUF_LIMIT - 2), bytes([0x2b]) + b"\x01" * (PRETTY_BUF_LIMIT - 1)]
    for c in oids: out.append((6, c)); out.append((13, c))
    # BOOLEAN (1), INTEGER (2), ENUMERATED (10)
    for c in [b"", b"\x00", b"\xff", b"\x01", b"\x80", b"\x7f", b"\x00\x00", b"\xff\xff", b"\x00\xff\x00"]: out.append((1, c))
    ints = [b""]
    for n in range(1, 11):
        for c in (b"\x00" * n, b"\xff" * n, b"\x7f" + b"\xff" * (n - 1), b"\x80" + b"\x00" * (n - 1), b"\x00" + b"\x80" * (n - 1), b"\xff" + b"\x7f" * (n - 1),
                  b"\x01" + b"\x00" * (n - 1), bytes(rng.getrandbits(8) for _ in range(n))):
            ints.append(c)
    ints += [b"\x12" * 16, b"\xff" * 127, b"\x00" * 128]
    for c in ints: out.append((2, c)); out.append((10, c))
    # REAL (9), NULL (5), BIT STRING (3) and the tags without a type
    for c in [b"", b"\x40", b"\x41", b"\x42", b"\x43", b"\x80\x00\x01", b"\x81\xff\xfe\x03", b"\xc0\x04\x01", b"\x03\x31\x2e\x45\x30", b"\x01\x31", b"\x02\x31\x2e\x35",
              b"\x83\x00", b"\x83\x02\x01\x02\x03", b"\xbf\xff\xff", bytes(range(0x20, 0x40)), b"\x00" * 130]:
        out.append((9, c)); out.append((5, c)); out.append((3, c)); out.append((14, c)); out.append((0x1f + 5, c))
    # character strings, times, OCTET STRING, ObjectDescriptor: text / binary mixtures around the 1/8 threshold, markup, controls
    texts = [b"", b"a", b"<", b"&", b">", b"\x00", b"\x1b", b"\x7f", b"\x80", b"\xff", b"\t\n\r", b"hello world", b"<a href=\"x\">&amp;</a>", b"</P>", b"&#x41;", b" F>x",
             b"20250929120000Z", b"250929120000Z", b"20250929120000.123+0100", b"2025092912", b"99999999999999Z", b"20250229250000Z", b"\x0020250929",
             "héllo 世界 \U0001f600".encode("utf-8"), b"\xc3", b"\xe4\xb8", b"\xc0\xaf", b"\xed\xa0\x80", b"\x00h\x00i", b"\x00\x00\x00h\x00\x01\xf6\x00",
             b"0123456789 ", b"A-Z a-z '()+,-./:=?", bytes(range(256)), bytes(range(0x20, 0x7f)), bytes(range(0x80, 0x100)), bytes(range(0x20))]
    for n in (7, 8, 9, 15, 16, 17, 24, 64, 127, 128, 129, 255, 256, 1000):
        for nb in sorted({0, 1, n // 8, n // 8 + 1, n // 2}):
            t = bytearray(b"t" * n)
            for j in rng.sample(range(n), min(nb, n)): t[j] = rng.choice([0x00, 0x01, 0x7f, 0x80, 0xe9, 0xff, 0x1f])
            texts.append(bytes(t))
        t = bytearray(b"e" * n); t[rng.randrange(n)] = 0x1b; texts.append(bytes(t))
        t = bytearray(b"w" * n)
        for j in rng.sample(range(n), n // 3): t[j] = rng.choice([0x09, 0x0a, 0x0d])
        texts.append(bytes(t))
    for _ in range(30 if q else 500):
        n = rng.choice([1, 2, 3, 8, 20, 100, 200])
        alpha = rng.choice([list(range(0x20, 0x7f)), list(range(256)), [0x3c, 0x3e, 0x26, 0x41, 0x20], list(range(0x41, 0x5b)) + [0x80, 0x00]])
        texts.append(bytes(rng.choice(alpha) for _ in range(n)))
    texts += [b"x" * (PRETTY_BUF_LIMIT - 1), b"x" * PRETTY_BUF_LIMIT]
    STR_TAGS = [4, 7, 12, 18, 19, 20, 21, 22, 23, 24, 25, 26, 27, 28, 30]
    for i, c in enumerate(texts):
        if len(c) > 300: tags = [STR_TAGS[i % len(STR_TAGS)], 4, 12]
        elif q: tags = [STR_TAGS[(3 * i + j) % len(STR_TAGS)] for j in range(3)]      # every tag, in turn
        else: tags = STR_TAGS
        for t in tags: out.append((t, c))
    return out

def primitive_forests(rng, q):
    """the primitives of primitive_contents: alone, under the other tag classes, inside definite / indefinite constructed TLVs"""
    prims = primitive_contents(rng, q)
    out = []
    for i, (t, c) in enumerate(prims):
        out.append([Node(0, t, "P", c)])
        if i % 7 == 0 and len(c) < 5000: out.append([Node(rng.choice([1, 2, 3]), rng.choice([0, 1, 2, 6, 13, 30, 31, 1000]), "P", c)])
    small = [(t, c) for t, c in prims if len(c) <= 40]
    for _ in range(40 if q else 600):
        kids = [Node(0, t, "P", c) for t, c in rng.sample(small, rng.choice([1, 2, 3, 5]))]
        out.append([Node(0, rng.choice([16, 17]), rng.choice("CI"), kids)])
        out.append([Node(2, rng.randrange(4), "C", [Node(0, 16, "I", kids[:2]), kids[0]]), kids[-1]])
    return out

def fixed_nonminimal():
    P = lambda c, n, body=b"", lf=None: Node(c, n, "P", body, lf)
    out = [[P(0, 4, b"ab", 1)],                                       # the F8 witness 04 81 02 61 62
           [P(0, 4, b"", 1)], [P(0, 4, b"ab", 2)], [P(0, 4, b"x" * 200, 2)], [P(0, 4, b"x" * 200, 8)],
           [Node(0, 16, "C", [P(0, 5)], 1)], [Node(0, 16, "I", [P(0, 4, b"ab", 3)])],
           [P(0, 4, b"ab", 25)], [P(2, (1 << 30) - 1, b"ab", 25)]]
    return out

def mutate(rng, x):
    b = bytearray(x)
    r = rng.random()
    if not b: return bytes([rng.getrandbits(8)])
    if r < 0.35:
        for _ in range(rng.choice([1, 1, 2, 3])):
            i = rng.randrange(len(b)); b[i] ^= 1 << rng.randrange(8)
    elif r < 0.5:
        i = rng.randrange(len(b)); b[i] = rng.choice([0x00, 0x80, 0x81, 0x84, 0x88, 0xff, 0x1f, 0x3f, 0x7f, 0xa0, 0x30])
    elif r < 0.65:
        i = rng.randrange(len(b) + 1); b[i:i] = bytes(rng.getrandbits(8) for _ in range(rng.choice([1, 2, 5])))
    elif r < 0.8:
        i = rng.randrange(len(b)); del b[i:i + rng.choice([1, 2, 5])]
    elif r < 0.9:
        i = rng.randrange(len(b)); b = b[:i] + b                     # splice
    else:
        b = b[:rng.randrange(len(b) + 1)]
    return bytes(b)

def fixed_malformed():
    out = [bytes([0x1f]), bytes([0x1f, 0x80]), bytes([0x1f] + [0xff] * 6), bytes([0x1f, 0x84, 0x80, 0x80, 0x80, 0x00, 0x00]),
           bytes([0x1f, 0x83, 0xff, 0xff, 0xff, 0x7f, 0x00]), bytes([0x1f, 0x84, 0x80, 0x80, 0x80, 0x00]),
           bytes([0x04, 0xff]), bytes([0x04, 0x80]), bytes([0x24, 0x80]), bytes([0x04, 0x89] + [0xff] * 9),
           bytes([0x04, 0x88] + [0x7f] + [0xff] * 7), bytes([0x04, 0x88, 0x3f] + [0xff] * 7), bytes([0x04, 0x88, 0x40] + [0] * 7),
           bytes([0x04, 0x88, 0x00, 0x80] + [0] * 6), bytes([0x04, 0x87, 0x80] + [0] * 6),
           bytes([0x04, 0x9e] + [0] * 29 + [0x01, 0x55]), bytes([0x04, 0x9f] + [0] * 30 + [0x01, 0x55]),
           bytes([0x04] + [0xa0] + [0] * 31 + [0x01, 0x55]),           # 33-octet TL: tagbuf[32] is full
           bytes([0x1f] + [0x80] * 31 + [0x01, 0x00]), bytes([0x1f] + [0x80] * 30 + [0x01, 0x00]),
           bytes([0x30, 0x03, 0x04, 0x05, 0x00]), bytes([0x30, 0x02, 0x04, 0x81, 0x00]), bytes([0x30, 0x01, 0x04]),
           bytes([0x30, 0x03, 0x1f, 0x81, 0x80, 0x00]), bytes([0x30, 0x02, 0x30, 0x80, 0x00, 0x00]),
           bytes([0x30, 0x80, 0x00]), bytes([0x30, 0x80, 0x00, 0x00, 0x00, 0x00]), bytes([0x00, 0x00]), bytes([0x00]),
           bytes([0x30, 0x80, 0x30, 0x02, 0x00, 0x00, 0x00, 0x00]), bytes([0x30, 0x80, 0x00, 0x81, 0x00, 0x00, 0x00]),
           bytes([0x30, 0x06, 0x30, 0x80, 0x00, 0x00, 0x05, 0x00]), bytes([0x30, 0x05, 0x30, 0x80, 0x05, 0x00, 0x00, 0x00]),
           bytes([0x30, 0x04, 0x30, 0x80, 0x05, 0x00]), bytes([0x20, 0x80, 0x20, 0x00, 0x00, 0x00])]
    return out

# ------------------------------------------------------------------ running the real tools

def run_tool(cmd, data, timeout=300, discard_stdout=False, stack_kb=None):
    def small_stack():
        resource.setrlimit(resource.RLIMIT_STACK, (stack_kb * 1024, stack_kb * 1024))
    try:
        p = subprocess.run(cmd, input=data, stdout=subprocess.DEVNULL if discard_stdout else subprocess.PIPE,
                           stderr=subprocess.PIPE, env=TOOL_ENV, timeout=timeout,
                           preexec_fn=small_stack if stack_kb else None)
        return p.returncode, (b"" if discard_stdout else p.stdout), p.stderr.decode("latin1")
    except subprocess.TimeoutExpired:
        return "timeout", b"", "timeout after %ds" % timeout

def crash_summary(rc, err):
    """None if the process exited by itself (0, or EX_DATAERR with a diagnostic)"""
    for l in err.split("\n"):
        if "ERROR: AddressSanitizer" in l or "runtime error" in l or "Assertion" in l or "DEADLYSIGNAL" in l:
            return l.strip()[:200]
    if rc == 0: return None
    if rc == 65: return None if err.strip() else "exit 65 without a diagnostic"
    return "exit/signal %s: %s" % (rc, err.strip()[:150])

UNBER_DIAG = [("Too long TL sequence", ">=", "tooLongLimit"), ("Too long TL sequence", "bytes)", "tooLongBuf"),
              ("Unexpected end of file (TL)", "", "eofTL"), ("Fatal error decoding tag", "", "badTag"),
              ("Fatal error decoding value length", "", "badLen"), ("Outer tag length", "", "tlMismatch"),
              ("advertizes length", "", "lenExceeds"), ("Unexpected end of file (V)", "", "eofV"),
              ("Too deep nesting", "", "tooDeep")]
ENBER_DIAG = [("Missing '<'", "missingOpen"), ("Invalid charset", "charset"), ("Missing '>'", "missingClose"),
              ("Multiple tags per line", "multipleTags"), ("Expected \"C\"/\"P\"/\"I\"", "badForm"),
              ("Detected pretty-printing", "pretty"), ("Mandatory attribute", "noAttr"), ("Invalid TL or V value", "badTLV"),
              ("Invalid tag class", "badClass"), ("Invalid tag value", "badTagValue"), ("Cannot encode TL", "cannotEncodeTL"),
              ("Expected \"&#xNN;\"", "badEntity"), ("Could not encode value", "valueLength")]

def unber_status(rc, err):
    c = crash_summary(rc, err)
    if c: return "CRASH " + c
    if rc == 0: return "ok"
    for a, b, name in UNBER_DIAG:
        if a in err and b in err: return "fail:" + name
    return "fail:?"

def enber_status(rc, err):
    c = crash_summary(rc, err)
    if c: return "CRASH " + c
    if rc == 0: return "ok"
    for a, name in ENBER_DIAG:
        if a in err: return "err:" + name
    return "err:?"

def same_status(real, model):
    if real == model: return True
    # an unrecognised (reworded) diagnostic still is a diagnostic
    return real in ("fail:?", "err:?") and model.split(":")[0] == real.split(":")[0]

def hx(b): return bytes(b).hex() if b else "-"
def unhx(s): return b"" if s == "-" else bytes.fromhex(s)

def pmap(fn, items):
    with ThreadPoolExecutor(build.JOBS) as ex:
        return list(ex.map(fn, items))

def text_mutations(rng, text):
    """variants of an unber output (bytes) that exercise enber's line parser"""
    lines = text.split(b"\n")
    outs = []
    if not text: return [b"\n", b"# comment\n", b"-- c\n", b"<!-- c -->\n", b"<?xml?>\n", b"x\n", b"<P>\n", b"<P"]
    def put(ls): outs.append(b"\n".join(ls))
    i = rng.randrange(max(1, len(lines) - 1))
    l = lines[i]
    subs = [(b' TL="', b' XL="'), (b' V="', b' W="'), (b' T="[', b' T="('), (b'TL="', b'TL="0'), (b'TL="', b'TL="1'),
            (b'TL="', b'TL="-'), (b' V="', b' V="1'), (b' V="', b' V="-'), (b'">', b'" F>'), (b"&#x", b"&#y"),
            (b"&#x", b"&x"), (b";", b""), (b"<P", b"<Q"), (b"<C", b"<I"), (b"<I", b"<C"), (b"</I", b"</C"), (b"</C", b"</I"),
            (b"UNIVERSAL ", b"PRIVATE "), (b"UNIVERSAL ", b"APPLICATION "), (b"UNIVERSAL ", b""), (b"UNIVERSAL ", b"X"),
            (b'[', b'[0'), (b']"', b'99999999999]"'), (b']"', b'"'), (b"</P>", b""), (b"</P>", b"</P><P>"),
            (b"&#x", b"A&#x"), (b"    ", b"\t"), (b">", b""), (b'O="', b'O="\x01'), (b'O="', b'O="\xe9'),
            (b'TL="', b'TL="18446744073709551616'), (b' V="', b' V="9223372036854775808'), (b' V="', b' V=" +'),
            (b"</P>", b"&"), (b"</P>", b"&#"), (b"</P>", b"&#x4"), (b"</P>", b"&#x4g;"), (b"</P>", b"&amp;</P>")]
    for a, b in rng.sample(subs, 12):
        if a in l:
            put(lines[:i] + [l.replace(a, b, 1)] + lines[i + 1:])
    put(lines[:i] + [b"# comment", b"-- comment", b"", b"<!-- x -->", b"<?xml version?>"] + lines[i:])
    put(lines[:i] + lines[i + 1:])                       # drop a line
    if text.endswith(b"\n"): outs.append(text[:-1])      # last line without '\n' is never processed
    outs.append(text.replace(b' TL="', b' tl="'))        # no TL attributes at all: enber must not check them
    return outs

def mode_output_error(forest, out, indent, minimal, pretty):
    """None when the output of a presentation mode shows exactly the TLV structure of the forest (and faithful values)"""
    exp = []
    walk(forest, 0, 0, exp)
    exp = project(exp, indent, minimal)
    try:
        got = parse_unber_text(out.decode("latin1"), indent, minimal, pretty)
    except ValueError as e:
        return "output has an unexpected shape: %s" % e
    for k, (g, e) in enumerate(zip(got, exp)):
        if pretty and g[0] == "open" and g[2] == "P" and e[2] == "P":
            if g[:8] != e[:8]: return f"element {k}: printed {g[:8]}, expected {e[:8]}"[:500]
            err = pretty_value_error(e[4], e[5], e[8], g[8][0], g[8][1])
            if err: return f"element {k} ([{'UACP'[e[4]]} {e[5]}], {len(e[8])} content octets {bytes(e[8][:24]).hex()}): {err}"[:600]
        elif g != e:
            return f"element {k}: printed {g}, expected {e}"[:600]
    if len(got) != len(exp): return f"{len(got)} elements printed, {len(exp)} expected"
    return None

RE_WIDE_NEGATIVE_INT = re.compile(rb"[\x02\x0a][\x09-\x10][\x80-\xff]")      # region of F231

MODES = [   # name, options, -i value, minimalistic, pretty-printing, share of the inputs (1 = all, k = every k-th)
    ("default", [], 4, False, True, 1),
    ("-m", ["-m"], 4, True, True, 7),
    ("-m -p", ["-m", "-p"], 4, True, False, 14),
    ("-i 0", ["-i", "0"], 0, False, True, 14),
    ("-i 1 -p", ["-i", "1", "-p"], 1, False, False, 14),
    ("-i 8", ["-i", "8"], 8, False, True, 14),
    ("-i 15 -m", ["-i", "15", "-m"], 15, True, True, 14),
]

def presentation_modes(ctx, unber, items, accepted, pfail):
    """items: [(kind, x, forest | None)]; accepted: indexes of the well-formed items `unber -p` accepted with the right fields.
    Safety on everything, structure + values on the accepted ones, in every presentation mode."""
    res = {}
    # witness of the known finding F231 (a fixed or absent entry: the crash is a violation like any other)
    for f in ctx.findings:
        w = f.get("witness", {})
        if f["id"] == KF_ITOA_SHIFT and f.get("status") == "known" and "input_hex" in w:
            rc, out, err = run_tool([unber, "-"], unhx(w["input_hex"]))
            if w["expect"] in err: ctx.known(f)
            else: ctx.log(f"note: finding {f['id']} no longer reproduces on its witness (exit {rc})")
    for mi, (name, opts, indent, minimal, pretty, share) in enumerate(MODES):
        idx = [i for i in range(len(items)) if (i + mi) % share == 0]
        runs = pmap(lambda i: run_tool([unber] + opts + ["-"], items[i][1]), idx)
        nfail = 0; nval = 0; nknown = 0
        for i, (rc, out, err) in zip(idx, runs):
            kind, x, forest = items[i]
            c = crash_summary(rc, err)
            if c:
                if pretty and "asn1p_integer.c" in c and "left shift of 1 by" in c and RE_WIDE_NEGATIVE_INT.search(x) \
                   and ctx.match_finding(lambda f: f["id"] == KF_ITOA_SHIFT):
                    nknown += 1
                    continue
                nfail += 1
                pfail.append(("crash", f"unber {name} died on input ({len(x)} bytes): {c}", {"input_hex": hx(x)[:100000], "stderr": err[:2000], "tool": "unber " + name, "options": opts}))
                continue
            ctx.count_nontrivial(("mode", name, x, rc))
            if i not in accepted: continue
            nval += 1
            if rc != 0:
                nfail += 1
                pfail.append(("mode", f"unber {name} rejects an input that unber -p accepts: {err.strip()[:200]}", {"input_hex": hx(x)[:100000], "tool": "unber " + name, "options": opts}))
                continue
            e = mode_output_error(forest, out, indent, minimal, pretty)
            if e:
                nfail += 1
                pfail.append(("mode", f"unber {name}: {e}", {"input_hex": hx(x)[:100000], "tool": "unber " + name, "options": opts, "output": out[:3000].decode("latin1")}))
        res[name] = {"runs": len(idx), "structure_and_values_checked": nval, "failures": nfail, "known_" + KF_ITOA_SHIFT: nknown}
        ctx.cov["evaluations"] += len(idx)
    # the option parser itself: out-of-range indent values are a usage error (EX_USAGE), never a memory error
    for opts in (["-i", "16"], ["-i", "-1"], ["-i", "15"], ["-i", "x"], ["-s", "-1"], ["-s", "2"], ["-1"], ["-1", "-m", "-i", "2"]):
        rc, out, err = run_tool([unber] + opts + ["-"], bytes([0x30, 0x03, 0x06, 0x01, 0x2b, 0x05, 0x00]))
        bad = next((l.strip()[:200] for l in err.split("\n") if "ERROR: AddressSanitizer" in l or "runtime error" in l or "DEADLYSIGNAL" in l), None)
        if bad or rc not in (0, 64, 65):
            pfail.append(("crash", f"unber {' '.join(opts)}: exit {rc} {bad or err.strip()[:160]}", {"input_hex": "30030601" + "2b0500", "tool": "unber " + " ".join(opts), "options": opts}))
    ctx.cov["predicate"]["presentation_modes"] = res

# ------------------------------------------------------------------ the check

def findings(ctx):
    have = {f["id"] for f in ctx.findings}
    for f in PROPOSED:
        if f["id"] not in have: ctx.findings.append(f)

def run(ctx):
    findings(ctx)
    unber, enber = build_tools.build_tools()
    ctx.lean()
    rng = ctx.rng
    q = ctx.quick
    limit = nesting_limit()
    if limit is None:
        ctx.broken.append({"kind": "correspondence", "name": "unber-nesting-limit",
                           "msg": "asn1-tools/unber/libasn1_unber_tool.c defines no UNBER_MAX_NESTING_LEVEL (the model has one)"})
    ctx.cov["rule"] = ("inputs: python TLV forests (boundary set + random; any class, tag numbers to 2^30-1, definite/indefinite/"
                       "mixed, long-form and non-minimal lengths, big contents), their mutations/truncations, random bytes, deep nesting; "
                       "each is run through the real `unber -p` (and `enber`) process and through the Lean model; "
                       "distinct = distinct (input, real output) pairs; non-trivial = well-formed inputs whose text reached enber "
                       "(round trip evaluated) or malformed inputs reaching a diagnostic / successful parse")

    # ---------------- inputs
    wf = []            # (forest, bytes)
    for f in fixed_wellformed(): wf.append(f)
    n_rand = 250 if q else 6000
    for i in range(n_rand):
        depth = rng.choice([0, 1, 2, 3, 4, 6, 8]) if q else rng.choice([0, 1, 2, 3, 4, 6, 8, 12, 16])
        modes = rng.choice(["PCI", "PCI", "PC", "PI"])
        wf.append(rand_forest(rng, depth, rng.choice([1, 1, 2, 3]), big=(i % 40 == 0), modes=modes))
    for d in ([10, 40, 100] if q else [10, 40, 100, 200, 300]):
        for fc in ("C", "I", "CI"):
            wf.append(chain(rng, d, fc))
    n_general = len(wf)
    prim = primitive_forests(rng, q)
    wf += prim[::8] if q else prim          # (quick tier: an eighth of the family also goes through -p / the model / enber)
    nonmin = list(fixed_nonminimal())
    for i in range(60 if q else 1500):
        f = rand_forest(rng, rng.choice([0, 1, 2, 3]), rng.choice([1, 2]), nonmin=0.5)
        if has_nonminimal(f): nonmin.append(f)
    wf_x = [encode_forest(f) for f in wf]
    nonmin_x = [encode_forest(f) for f in nonmin]

    bad = list(fixed_malformed())
    # truncation at every offset of a few encodings
    for f in rng.sample(wf, 12 if q else 120):
        x = encode_forest(f)
        if 0 < len(x) <= 400:
            bad += [x[:i] for i in range(1, len(x))]
    for _ in range(700 if q else 30000):
        bad.append(mutate(rng, rng.choice(wf_x[:n_general - 9] + nonmin_x)))
    prim_x = [x for x in map(encode_forest, prim) if len(x) <= 600]
    prim_bad = [mutate(rng, rng.choice(prim_x)) for _ in range(400 if q else 6000)]
    for _ in range(300 if q else 10000):
        n = rng.choice([1, 2, 3, 5, 8, 16, 40, 100])
        pool = rng.choice([None, [0x30, 0x80, 0x00, 0x04, 0x01, 0x1f, 0xa0, 0x81, 0xff]])
        bad.append(bytes(rng.choice(pool) if pool else rng.getrandbits(8) for _ in range(n)))
    bad = [b for b in bad if len(b) <= 200000]

    all_inputs = [("wf", x) for x in wf_x] + [("nonmin", x) for x in nonmin_x] + [("bad", x) for x in bad]
    ctx.cov["distribution"].update({"wellformed_minimal": len(wf_x), "wellformed_nonminimal": len(nonmin_x),
                                    "primitive_family": len(prim), "primitive_family_mutated": len(prim_bad), "malformed": len(bad), "max_depth": max(depth_of(f) for f in wf),
                                    "max_input_bytes": max(len(x) for _, x in all_inputs)})

    # ---------------- real unber on everything
    ures = pmap(lambda kx: run_tool([unber, "-p", "-"], kx[1]), all_inputs)
    ctx.log(f"real unber: {len(all_inputs)} runs")

    # ---------------- K: model unber
    pfail = []     # (kind, what, replay dict)
    kdis = []
    if getattr(ctx, "driver_ok", True):
        lines = ["unber " + hx(x) for _, x in all_inputs]
        rc, mouts, merr = ctx.run_lines(build.model_exe(), lines, timeout=3600)
        if rc != 0 or len(mouts) != len(lines):
            raise RuntimeError("model driver failed: rc=%s %s" % (rc, merr[-500:]))
        st = ctx.cov["correspondence"].setdefault("unber", {"lines": 0, "disagreements": 0, "c_crashes": 0})
        for (kind, x), (rc, out, err), m in zip(all_inputs, ures, mouts):
            real = unber_status(rc, err)
            ms, mt = m.split(" ")
            st["lines"] += 1
            if real.startswith("CRASH"): st["c_crashes"] += 1
            if not same_status(real, ms) or out != unhx(mt):
                st["disagreements"] += 1
                kdis.append({"kind": "correspondence", "name": "unber", "op": "unber " + hx(x)[:2000],
                             "c": real + " " + out[:300].decode("latin1"), "model": ms + " " + unhx(mt)[:300].decode("latin1")})
        ctx.cov["evaluations"] += len(lines)
        for j in (0, len(wf_x) // 2, len(all_inputs) - 1):
            kind, x = all_inputs[j]
            ctx.cov["samples"].append({"op": "unber -p " + hx(x)[:120], "c": unber_status(ures[j][0], ures[j][2]) + " " + ures[j][1][:160].decode("latin1"),
                                       "model": mouts[j].split(" ")[0] + " " + unhx(mouts[j].split(" ")[1])[:160].decode("latin1")})
    else:
        ctx.broken.append({"kind": "correspondence", "name": "unber", "msg": "Lean driver does not build"})

    # ---------------- P: fields agree + safety
    nP = 0
    texts_for_enber = []     # (kind, x, text)
    for (kind, x), forest, (rc, out, err) in zip(all_inputs, wf + nonmin + [None] * len(bad), ures):
        nP += 1
        c = crash_summary(rc, err)
        if c:
            pfail.append(("crash", f"unber died on input ({len(x)} bytes): {c}", {"input_hex": hx(x)[:100000], "stderr": err[:2000], "tool": "unber -p"}))
            continue
        ctx.count_nontrivial(("u", x, rc, out))
        if kind == "bad":
            texts_for_enber.append((kind, x, out))
            continue
        # well-formed input
        if kind == "nonmin" and max_header(forest) > 32:
            # X.690 allows up to 126 length octets; unber's tagbuf holds 32: part of the known region
            if rc != 0:
                if not ctx.match_finding(lambda f: f["id"] == KF_NONMINIMAL):
                    pfail.append(("nonmin-header", "unber rejects a well-formed TL longer than 32 octets", {"input_hex": hx(x), "stderr": err[:500]}))
                continue
        if limit is not None and depth_of(forest) > limit:
            if unber_status(rc, err) != "fail:tooDeep":
                pfail.append(("nesting", f"nesting {depth_of(forest)} > {limit} must be answered with the nesting diagnostic: exit {rc} {err.strip()[:160]}",
                              {"input_hex": hx(x)[:100000], "stderr": err[:500]}))
            continue
        if rc != 0:
            pfail.append(("reject", "unber -p rejects a well-formed BER input: " + err.strip()[:200], {"input_hex": hx(x)[:100000], "stderr": err[:500]}))
            continue
        exp = []
        walk(forest, 0, 0, exp)
        try:
            got = parse_unber_text(out.decode("latin1"))
        except ValueError as e:
            pfail.append(("fields", "unber output has an unexpected shape: %s" % e, {"input_hex": hx(x)[:100000]}))
            continue
        if got != exp:
            k = next((i for i, (a, b) in enumerate(zip(got, exp)) if a != b), min(len(got), len(exp)))
            pfail.append(("fields", f"printed fields differ from the TLV structure at element {k}: printed {got[k] if k < len(got) else None}, "
                                    f"expected {exp[k] if k < len(exp) else None}"[:600], {"input_hex": hx(x)[:100000]}))
            continue
        texts_for_enber.append((kind, x, out))
    ctx.cov["predicate"]["unber_safety_and_fields"] = {"cases": nP, "failures": len(pfail)}

    # ---------------- P: the other presentation modes (default pretty-printing, -m, -i)
    accepted_x = {x for k, x, _ in texts_for_enber if k != "bad"}
    items = [(kind, x, forest) for (kind, x), forest in zip(all_inputs, wf + nonmin + [None] * len(bad))]
    # a third of the general inputs (every non-minimal one), a quarter of the malformed ones (thorough tier: all / half)
    k_wf, k_bad = (3, 4) if q else (1, 2)
    items = [it for i, it in enumerate(items) if (it[0] == "wf" and i % k_wf == 0) or it[0] == "nonmin" or (it[0] == "bad" and i % k_bad == 0)]
    accepted = {i for i, (kind, x, forest) in enumerate(items) if kind != "bad" and x in accepted_x}
    # the primitive family: minimal definite / indefinite TLVs at most 3 deep - well-formed, so acceptance is demanded outright
    n0 = len(items)
    items += [("prim", encode_forest(f), f) for f in prim] + [("bad", x, None) for x in prim_bad]
    accepted |= set(range(n0, n0 + len(prim)))
    presentation_modes(ctx, unber, items, accepted, pfail)
    ctx.log(f"presentation modes: {ctx.cov['predicate']['presentation_modes']}")

    # deep nesting (output is quadratic in the depth, so it is discarded; K compares the exit status / diagnostic
    # with the model's `unber_st`, P compares it with what the nesting rule demands)
    L = limit if limit is not None else 2048
    def indef(d): return b"\x30\x80" * d + b"\x00\x00" * d
    def definite(d):
        body = b""
        for _ in range(d): body = b"\x30" + enc_length(len(body), None) + body
        return body
    def mixed(d):
        body = b"\x05\x00"
        forms = [rng.choice("CI") for _ in range(d)]
        for f in forms:                                    # innermost first
            ident = rng.choice([b"\x30", b"\xa1", b"\x7f\x64"])
            if f == "I": body = ident + b"\x80" + body + b"\x00\x00"
            else: body = ident + enc_length(len(body), None) + body
        return body
    deep = [("deep-indef-2000", indef(2000), "ok" if L >= 2000 else "fail:tooDeep", None),
            (f"deep-indef-{L - 1}", indef(L - 1), "ok", None),
            (f"deep-indef-{L}", indef(L), "ok", None),
            (f"deep-indef-{L}-small-stack", indef(L), "ok", SMALL_STACK_KB),
            (f"deep-indef-{L + 1}", indef(L + 1), "fail:tooDeep", None),
            (f"deep-indef-{L + 1}-small-stack", indef(L + 1), "fail:tooDeep", SMALL_STACK_KB),
            ("deep-indef-10000", indef(10000), "fail:tooDeep", None),
            (f"deep-indef-trunc-{L}", b"\x30\x80" * L, "fail:eofTL", None),
            (f"deep-indef-trunc-{L + 1}", b"\x30\x80" * (L + 1), "fail:tooDeep", None),
            ("deep-indef-trunc-10000", b"\x30\x80" * 10000, "fail:tooDeep", None),
            ("3080 x 100000", b"\x30\x80" * 100000, "fail:tooDeep", None),          # the former F41 witness
            (f"deep-definite-{L}", definite(L), "ok", None),
            (f"deep-definite-{L + 1}", definite(L + 1), "fail:tooDeep", None),
            (f"deep-definite-{L + 1}-small-stack", definite(L + 1), "fail:tooDeep", SMALL_STACK_KB),
            ("deep-definite-3000", definite(3000), "fail:tooDeep" if L < 3000 else "ok", None),
            ("deep-tagonly-10000", b"\x3f" * 10000, "fail", None)]
    for d in ([L, L + 1] if q else [L - 1, L, L + 1, L + 2, 3 * L]):
        deep.append((f"deep-mixed-{d}", mixed(d), "ok" if d <= L else "fail:tooDeep", None))
    dres = pmap(lambda c: run_tool([unber, "-p", "-"], c[1], discard_stdout=True, stack_kb=c[3]), deep)
    dmodel = None
    if getattr(ctx, "driver_ok", True):
        rc, dmodel, merr = ctx.run_lines(build.model_exe(), ["unber_maxlevel"] + ["unber_st " + hx(c[1]) for c in deep], timeout=3600)
        if rc != 0 or len(dmodel) != len(deep) + 1:
            raise RuntimeError("model driver failed: rc=%s %s" % (rc, merr[-500:]))
        if limit is not None and dmodel[0] != str(limit):
            kdis.append({"kind": "correspondence", "name": "unber-nesting-limit", "op": "unber_maxlevel",
                         "c": f"UNBER_MAX_NESTING_LEVEL {limit}", "model": dmodel[0]})
        dmodel = dmodel[1:]
        ctx.cov["evaluations"] += len(deep)
    st = ctx.cov["correspondence"].setdefault("unber-deep", {"lines": 0, "disagreements": 0, "c_crashes": 0})
    deep_seen = {}
    for i, ((name, x, want, _), (rc, _, err)) in enumerate(zip(deep, dres)):
        nP += 1
        ctx.count_nontrivial(("deep", name, rc))
        real = unber_status(rc, err)
        deep_seen[name] = real
        if dmodel is not None:
            st["lines"] += 1
            ms = dmodel[i].split(" ")[0]
            if real.startswith("CRASH"): st["c_crashes"] += 1
            if not same_status(real, ms):
                st["disagreements"] += 1
                kdis.append({"kind": "correspondence", "name": "unber-deep", "op": "unber_st <" + name + ">", "c": real, "model": ms})
        c = crash_summary(rc, err)
        if c:
            pfail.append(("crash", f"unber died on {name}: {c}", {"input": name, "stderr": err[:2000]}))
        elif limit is None and want != "fail":
            pass      # a tree without a nesting limit: only "exits by itself" can be demanded (the model disagreement is reported by K)
        elif not (real == want or (want == "fail" and real.startswith("fail:"))):
            pfail.append(("nesting", f"unber on {name}: {real} ({err.strip()[:160]}), the nesting rule (limit {L}) demands {want}",
                          {"input": name, "stderr": err[:500]}))
    ctx.cov["evaluations"] += len(deep)
    ctx.cov["predicate"]["deep_nesting"] = {"cases": len(deep), "nesting_limit": limit, "small_stack_kb": SMALL_STACK_KB, "outcomes": deep_seen}

    # ---------------- real enber on unber's texts (+ mutated texts for K)
    eruns = [(kind, x, t, True) for kind, x, t in texts_for_enber]
    srcs = [t for k, _, t in texts_for_enber if k != "bad" and len(t) < 5000]
    for _ in range(80 if q else 2500):
        t = rng.choice(srcs)
        for tm in text_mutations(rng, t):
            if b"\x00" not in tm: eruns.append(("text", None, tm, False))
    for tm in text_mutations(rng, b""): eruns.append(("text", None, tm, False))
    eres = pmap(lambda e: run_tool([enber, "-"], e[2]), eruns)
    ctx.log(f"real enber: {len(eruns)} runs")

    nE = 0
    for (kind, x, t, from_unber), (rc, out, err) in zip(eruns, eres):
        c = crash_summary(rc, err)
        ctx.count_nontrivial(("e", t, rc, out))
        if kind in ("wf", "nonmin"):
            nE += 1
            if c:
                pfail.append(("crash", "enber died on unber's output: " + c, {"input_hex": hx(x)[:100000], "stderr": err[:2000], "tool": "enber"}))
            elif rc == 0 and out == x:
                pass
            elif kind == "nonmin" and rc == 65 and "Cannot encode TL" in err and ctx.match_finding(lambda f: f["id"] == KF_NONMINIMAL):
                pass
            else:
                pfail.append(("roundtrip", f"enber(unber -p x) != x: exit {rc}, {err.strip()[:160]}; got {hx(out)[:80]}",
                              {"input_hex": hx(x)[:100000], "unber_text": t[:4000].decode("latin1"), "enber_out_hex": hx(out)[:100000], "enber_stderr": err[:500]}))
    ctx.cov["predicate"]["roundtrip"] = {"cases": nE, "failures": sum(1 for p in pfail if p[0] == "roundtrip")}
    ctx.cov["evaluations"] += len(eruns)

    # ---------------- K: model enber
    if getattr(ctx, "driver_ok", True):
        lines = ["enber " + hx(t) for _, _, t, _ in eruns]
        rc, mouts, merr = ctx.run_lines(build.model_exe(), lines, timeout=3600)
        if rc != 0 or len(mouts) != len(lines):
            raise RuntimeError("model driver failed: rc=%s %s" % (rc, merr[-500:]))
        st = ctx.cov["correspondence"].setdefault("enber", {"lines": 0, "disagreements": 0, "c_crashes": 0})
        for (kind, x, t, _), (rc, out, err), m in zip(eruns, eres, mouts):
            real = enber_status(rc, err)
            ms, mo = m.split(" ")
            st["lines"] += 1
            if real.startswith("CRASH"): st["c_crashes"] += 1
            if not same_status(real, ms) or out != unhx(mo):
                st["disagreements"] += 1
                kdis.append({"kind": "correspondence", "name": "enber", "op": "enber " + t[:1500].decode("latin1"),
                             "c": real + " " + hx(out)[:300], "model": ms + " " + mo[:300]})
        ctx.cov["evaluations"] += len(lines)
        j = len(eruns) // 3
        ctx.cov["samples"].append({"op": "enber " + eruns[j][2][:200].decode("latin1"), "c": enber_status(eres[j][0], eres[j][2]) + " " + hx(eres[j][1])[:100], "model": mouts[j][:110]})
        ctx.cov["samples"].append({"op": "enber " + eruns[-1][2][:200].decode("latin1"), "c": enber_status(eres[-1][0], eres[-1][2]) + " " + hx(eres[-1][1])[:100], "model": mouts[-1][:110]})

    # ---------------- classification
    ctx.cov["predicate"]["total_failures"] = len(pfail)
    pfail.sort(key=lambda p: p[0] != "crash")            # memory errors first (stable)
    for kind, what, rep in pfail[:5]:
        ctx.violation("C20 predicate fails on the real tools: " + what, dict(rep, kind=kind))
    for d in kdis[:50]:
        ctx.broken.append(d)
    if kdis:
        ctx.log(f"correspondence: {len(kdis)} disagreements, first: {json.dumps(kdis[0])[:1500]}")
    ctx.assumptions += ["unber is run as `unber -p -` (stdin; the K leg and the round trip) and as `unber [-m] [-i n] [-p] -` (presentation modes, P leg only: the Lean model has no pretty-printer), enber as `enber -`; texts fed to enber are NUL-free",
                        "sanitizer leak detection is off (exit-time leaks are not memory errors)",
                        "stack use is runtime behaviour the model does not have: the model bounds the recursion level (theorem "
                        "unber_levels_bounded); that UNBER_MAX_NESTING_LEVEL + 1 frames of process_deeper fit the stack is measured "
                        f"(nesting at the limit under a {SMALL_STACK_KB} KB stack, ASan build)"]

def replay(ctx, path):
    r = json.load(open(path))
    unber, enber = build_tools.build_tools()
    ctx.lean()
    ins = []
    if "input_hex" in r: ins.append(unhx(r["input_hex"]))
    for b in r.get("broken", []):
        if b.get("op", "").startswith("unber "): ins.append(unhx(b["op"].split()[1]))
    tool = r.get("tool", "")
    if "options" in r:
        # a presentation-mode failure: rerun the input with the options of that mode
        for x in ins:
            rc, out, err = run_tool([unber] + list(r["options"]) + ["-"], x)
            print("replay:", tool, hx(x)[:200], "| exit", rc, "|", err.strip()[:600])
            print(out[:2000].decode("latin1"))
        return
    for x in ins:
        rc, out, err = run_tool([unber, "-p", "-"], x)
        print("replay: unber -p", hx(x)[:200], "| exit", rc, "|", err.strip()[:300])
        print(out[:2000].decode("latin1"))
        rc2, out2, err2 = run_tool([enber, "-"], out)
        print("replay: enber | exit", rc2, "|", err2.strip()[:300], "|", hx(out2)[:200], "| equal:", out2 == x)
        _, m, _ = ctx.run_lines(build.model_exe(), ["enber_unber " + hx(x)])
        print("replay: model:", m[0][:300])
