"""C09 helpers: constraint expression trees, their ASN.1 text, the parser/pull-up mimic that
gives the asn1p_constraint_t tree fed to the Lean model (K leg), and the *independent* oracle
written from X.680 (set semantics), X.691 9.3/10.3/10.5/10.9 and X.696 8.2/10 (P leg).

Tree (python tuples), one ElementSetSpec `e`:
  ('v', n)            single value           ('r', lo, hi)   lo/hi: int | 'MIN' | 'MAX'
  ('u', [e, ...])     e1 | e2 | ...          ('i', [e, ...]) e1 ^ e2 ^ ...
  ('x', e1, e2)       e1 EXCEPT e2           ('p', e)        ( e )
  ('size', spec)      SIZE( spec )           (size kind only)
spec = ('spec', root_e, ext: bool, additions_e | None)      one "( ... )"
A type is a chain of levels; level = list of specs (serially applied); level k > 0 is a type
reference to level k-1:  T3a ::= INTEGER (s1)(s2)   T3 ::= T3a (s3).
"""
import itertools

# ----------------------------------------------------------------------------- rendering

def _edge(x):
    return x if isinstance(x, str) else str(x)

def render_e(e, ctx="top"):
    """ASN.1 text of an ElementSetSpec.  ctx: 'top' | 'u' (operand of |) | 'i' (operand of ^) | 'x'."""
    k = e[0]
    if k == 'v': return str(e[1])
    if k == 'r': return "%s..%s" % (_edge(e[1]), _edge(e[2]))
    if k == 'p': return "(" + render_e(e[1]) + ")"
    if k == 'size': return "SIZE(" + render_spec(e[1]) + ")"
    if k == 'u':
        assert ctx == "top", "union operand must be parenthesised: " + repr(e)
        return " | ".join(render_e(o, 'u') for o in e[1])
    if k == 'i':
        assert ctx in ("top", "u")
        return " ^ ".join(render_e(o, 'i') for o in e[1])
    if k == 'x':
        assert ctx in ("top", "u", "i")
        return render_e(e[1], 'x') + " EXCEPT " + render_e(e[2], 'x')
    raise ValueError(e)

def render_spec(s):
    t = render_e(s[1])
    if s[2]:
        t += ", ..."
        if s[3] is not None:
            t += ", " + render_e(s[3])
    return t

def render_level(specs):
    return "".join("(" + render_spec(s) + ")" for s in specs)

# ----------------------------------------------------------------------------- parser mimic
# asn1p_y.y: CONSTRAINT_INSERT flattens same-kind left operands; '(' ElementSetSpec ')' makes a
# new ACT_CA_SET; Constraint does not wrap an ACT_CA_SET again; ManyConstraints appends.

def ct_e(e):
    k = e[0]
    if k == 'v': return ('v', e[1])
    if k == 'r': return ('r', e[1], e[2])
    if k == 'p': return ('set', [ct_e(e[1])])
    if k == 'size': return ('size', ct_constraint(e[1]))
    if k == 'u': return ('uni', [ct_e(o) for o in e[1]])
    if k == 'i': return ('int', [ct_e(o) for o in e[1]])
    if k == 'x': return ('exc', [ct_e(e[1]), ct_e(e[2])])
    raise ValueError(e)

def ct_spec(s):
    r = ct_e(s[1])
    if not s[2]: return r
    els = [r, ('ext',)]
    if s[3] is not None: els.append(ct_e(s[3]))
    return ('csv', els)

def ct_constraint(s):
    """Constraint: '(' ConstraintSpec ')' -> ACT_CA_SET unless it already is one"""
    c = ct_spec(s)
    return c if c[0] == 'set' else ('set', [c])

def ct_many(specs):
    """ManyConstraints"""
    acc = None
    for s in specs:
        c = ct_constraint(s)
        if acc is None:
            acc = ('set', list(c[1]))
        elif len(c[1]) == 1:
            acc[1].append(c[1][0])
        else:
            acc[1].append(c)
    return acc

def _clone(c):
    if c[0] in ('set', 'int', 'csv', 'uni', 'exc'): return (c[0], [_clone(x) for x in c[1]])
    if c[0] == 'size': return ('size', _clone(c[1]))
    return c

def remove_extensions(c, forgive_last):
    """asn1fix_constraint.c:_remove_extensions (in place on list-carrying nodes)"""
    if c[0] == 'size':
        els = [c[1]]
    elif c[0] in ('set', 'int', 'csv', 'uni', 'exc'):
        els = c[1]
    else:
        return c
    i = 0
    while i < len(els):
        if els[i][0] == 'ext': break
        if forgive_last and c[0] == 'set' and i + 1 == len(els): return c
        remove_extensions(els[i], False)
        i += 1
    if c[0] != 'size':
        del els[i:]
    return c

def combined(levels):
    """asn1constraint_pullup: expr->combined_constraints of the last level of the chain"""
    comb = None
    for lv in levels:
        own = ct_many(lv) if lv else None
        if comb is None and own is None:
            continue
        if own is None:
            comb = _clone(comb); continue
        own = _clone(own)
        if comb is not None:
            par = remove_extensions(_clone(comb), False)
            own = remove_extensions(own, True)      # of the own constraints only the last one keeps its marker
            par[1].extend(own[1])       # own is always ACT_CA_SET
            comb = par
        else:
            comb = remove_extensions(own, True)
    return comb

def sexp(c):
    if c is None: return "null"
    k = c[0]
    if k == 'v': return "(v %s)" % c[1]
    if k == 'r': return "(r %s %s)" % (_edge(c[1]), _edge(c[2]))
    if k == 'ext': return "ext"
    if k == 'size': return "(size %s)" % sexp(c[1])
    return "(%s %s)" % (k, " ".join(sexp(x) for x in c[1])) if c[1] else "(%s)" % k

# --- the abstract `Cons` s-expression understood by the Lean `Spec`/`toCT` (binary sub-language)

def cons_e(e):
    """None if the element uses n-ary (flattened) operators"""
    k = e[0]
    if k == 'v': return "(single %d)" % e[1]
    if k == 'r': return "(range %s %s)" % (_edge(e[1]), _edge(e[2]))
    if k == 'p':
        a = cons_e(e[1]); return a and "(paren %s)" % a
    if k == 'size':
        a = cons_spec(e[1]); return a and "(size %s)" % a
    if k in ('u', 'i'):
        if len(e[1]) != 2: return None
        a, b = cons_e(e[1][0]), cons_e(e[1][1])
        return a and b and "(%s %s %s)" % ("union" if k == 'u' else "inter", a, b)
    if k == 'x':
        a, b = cons_e(e[1]), cons_e(e[2])
        return a and b and "(except %s %s)" % (a, b)

def cons_spec(s):
    a = cons_e(s[1])
    if a is None: return None
    if not s[2]: return a
    if s[3] is None: return "(ext %s)" % a
    b = cons_e(s[3])
    return b and "(exta %s %s)" % (a, b)

def cons_chain(levels):
    """serial application, left-nested; a type reference is serial application as well, but of a
    parent whose extension markers are dropped (`(ref …)`)."""
    acc = None
    for li, lv in enumerate(levels):
        lev = None
        for s in lv:
            c = cons_spec(s)
            if c is None: return None
            lev = c if lev is None else "(serial %s %s)" % (lev, c)
        if lev is None: continue
        acc = lev if acc is None else "(refine %s %s)" % (acc, lev)
    return acc

# ----------------------------------------------------------------------------- oracle (P leg)
# Sets of integers that are finite unions of intervals whose end points are literals of the tree:
# membership is constant between consecutive "sample points" (every literal, literal-1,
# literal+1), and constant below the smallest / above the largest sample point.

class ISet:
    __slots__ = ("pts", "lo", "mem", "hi")
    def __init__(self, pts, lo, mem, hi):
        self.pts, self.lo, self.mem, self.hi = pts, lo, mem, hi      # mem: frozenset of sample points
    def empty(self): return not (self.lo or self.hi or self.mem)
    def key(self): return (self.lo, tuple(sorted(self.mem)), self.hi)
    def __contains__(self, x): return x in self.mem
    def has(self, x):
        """membership of an arbitrary integer: constant between consecutive sample points (every literal l
        comes with l-1 and l+1, so a gap starts at some l+1 and contains no literal)"""
        if x in self.mem: return True
        if not self.pts or x < self.pts[0]: return self.lo
        if x > self.pts[-1]: return self.hi
        import bisect
        i = bisect.bisect_right(self.pts, x) - 1
        return self.pts[i] != x and self.pts[i] in self.mem
    def inter(a, b): return ISet(a.pts, a.lo and b.lo, a.mem & b.mem, a.hi and b.hi)
    def union(a, b): return ISet(a.pts, a.lo or b.lo, a.mem | b.mem, a.hi or b.hi)
    def minus(a, b): return ISet(a.pts, a.lo and not b.lo, a.mem - b.mem, a.hi and not b.hi)
    def lb(self):
        """None = no lower bound"""
        return None if self.lo else min(self.mem)
    def ub(self):
        return None if self.hi else max(self.mem)
    def runs(self):
        """maximal runs of consecutive integers: list of (lo|None, hi|None).
        Membership is constant between consecutive sample points and equal to the tail beyond
        the outermost ones (the outermost sample points are literal-1 / literal+1)."""
        out = []; cur = [None, None] if self.lo else None
        for p in self.pts:
            if p in self.mem:
                if cur is None: cur = [p, p]
                else: cur[1] = p
            elif cur is not None:
                out.append(tuple(cur)); cur = None
        if cur is not None:
            if self.hi: cur[1] = None
            out.append(tuple(cur))
        return out

def literals_e(e, acc):
    k = e[0]
    if k == 'v': acc.add(e[1])
    elif k == 'r':
        for x in (e[1], e[2]):
            if not isinstance(x, str): acc.add(x)
    elif k == 'p': literals_e(e[1], acc)
    elif k == 'size': literals_spec(e[1], acc)
    elif k in ('u', 'i'):
        for o in e[1]: literals_e(o, acc)
    elif k == 'x':
        literals_e(e[1], acc); literals_e(e[2], acc)

def literals_spec(s, acc):
    literals_e(s[1], acc)
    if s[3] is not None: literals_e(s[3], acc)

def sample_points(levels, extra=()):
    acc = set([0]); acc.update(extra)
    for lv in levels:
        for s in lv: literals_spec(s, acc)
    pts = set()
    for l in acc: pts.update((l - 1, l, l + 1))
    return sorted(pts)

class Degenerate(Exception):
    """an operand denotes the empty set / a range is reversed: outside the property's domain"""

class Oracle:
    """X.680 set semantics relative to a parent set; `visible=True` ignores EXCEPT and what
    follows (X.691 9.3.19 / X.696 8.2.6)."""
    def __init__(self, pts, visible):
        self.pts, self.visible = pts, visible
        self.adds = False                # count the extension additions in (the "practical" set: what the
                                         # generated validity checker accepts; never PER-/OER-visible)
        self.degenerate = False          # some sub-expression is empty
        self.illegal = False             # a value outside the parent in a serial position (X.680 G.4.2.3)
    def full(self): return ISet(self.pts, True, frozenset(self.pts), True)
    def nat(self): return ISet(self.pts, False, frozenset(p for p in self.pts if p >= 0), True)
    def leaf(self, parent, lo, hi, constrained_parent):
        if not isinstance(lo, str) and not isinstance(hi, str) and lo > hi:
            self.degenerate = True
        s = ISet(self.pts, lo == 'MIN',
                 frozenset(p for p in self.pts if (lo == 'MIN' or p >= lo) and (hi == 'MAX' or p <= hi)
                           and lo != 'MAX' and hi != 'MIN'),
                 hi == 'MAX')
        for x in (lo, hi):
            if not isinstance(x, str) and x not in parent: self.illegal = True
        r = s.inter(parent)
        return r
    def e(self, parent, e, cp):
        k = e[0]
        if k == 'v': r = self.leaf(parent, e[1], e[1], cp)
        elif k == 'r': r = self.leaf(parent, e[1], e[2], cp)
        elif k == 'p': r = self.e(parent, e[1], cp)
        elif k == 'size': r = self.spec_root(parent, e[1], cp)
        elif k == 'u':
            r = None
            for o in e[1]:
                t = self.e(parent, o, cp); r = t if r is None else r.union(t)
        elif k == 'i':
            r = None
            for o in e[1]:
                t = self.e(parent, o, cp); r = t if r is None else r.inter(t)
        elif k == 'x':
            a = self.e(parent, e[1], cp)
            if self.visible:
                r = a
            else:
                b = self.e(parent, e[2], cp); r = a.minus(b)
        else:
            raise ValueError(e)
        if r.empty(): self.degenerate = True
        return r
    def spec_root(self, parent, s, cp):
        r = self.e(parent, s[1], cp)
        if self.adds and s[2] and s[3] is not None:
            deg = self.degenerate
            r = r.union(self.e(parent, s[3], cp))
            self.degenerate = deg
        return r

def _spec_is_ext(s):
    """extensible iff the spec carries a marker, or is a single SIZE(...) carrying one"""
    if s[2]: return True
    e = s[1]
    while e[0] == 'p': e = e[1]
    if e[0] == 'size': return _spec_is_ext(e[1])
    return False

def _spec_has_additions(s):
    if s[2] and s[3] is not None: return True
    return _any_size(s[1], lambda t: _spec_has_additions(t)) or (s[3] is not None and False)

def _any_size(e, f):
    k = e[0]
    if k == 'size': return f(e[1])
    if k == 'p': return _any_size(e[1], f)
    if k in ('u', 'i'): return any(_any_size(o, f) for o in e[1])
    if k == 'x': return _any_size(e[1], f) or _any_size(e[2], f)
    return False

def _inner_ext(e):
    """an extension marker inside an operand (only possible inside SIZE(...))"""
    return _any_size(e, lambda t: t[2] or _inner_ext(t[1]))

class Eff:
    """the oracle's verdict for one type"""
    __slots__ = ("root", "vis", "prac", "last_parent", "ext", "oer_vis", "degenerate", "illegal", "has_additions",
                 "nested_ext", "has_except", "multi_own_ext")

def evaluate(kind, levels):
    """kind: 'int' | 'size'.  Returns Eff.
    root     : the X.680 root set of the type (EXCEPT honoured)
    vis      : the PER-visible root (X.691 9.3.19: EXCEPT and what follows ignored)
    ext      : X.680: extensible iff the *last* serially applied constraint is (46.4/50.x: not inherited
               by a subtype that adds a constraint)
    oer_vis  : X.696 8.2.4: extensible constraints are not OER-visible -> the serial chain without
               its extensible members"""
    pts = sample_points(levels)
    ev = Eff()
    ev.has_additions = any(_spec_has_additions(s) for lv in levels for s in lv)
    flat = [s for lv in levels for s in lv]
    res = {}
    for name, visible in (("root", False), ("vis", True)):
        o = Oracle(pts, visible)
        cur = o.full() if kind == 'int' else o.nat()
        for n, s in enumerate(flat):
            if name == "root" and n == len(flat) - 1: ev.last_parent = cur
            cur = o.spec_root(cur, s, n > 0 or kind == 'size')
            if cur.empty(): o.degenerate = True
        if name == "root" and not flat: ev.last_parent = cur
        res[name] = cur
        if name == "root":
            ev.degenerate = o.degenerate; ev.illegal = o.illegal
        else:
            ev.degenerate = ev.degenerate or o.degenerate
    ev.root, ev.vis = res["root"], res["vis"]
    # "practical" constraints (asn1c's validity checker): the PER-visible root plus the extension additions
    # of the last serially applied constraint (the pull-up strips the others)
    o = Oracle(pts, True)
    cur = o.full() if kind == 'int' else o.nat()
    for n, s in enumerate(flat):
        o.adds = n == len(flat) - 1
        cur = o.spec_root(cur, s, n > 0 or kind == 'size')
    ev.prac = cur
    ev.ext = bool(flat) and _spec_is_ext(flat[-1])
    # OER: drop the extensible specs of the chain
    o = Oracle(pts, True)
    cur = o.full() if kind == 'int' else o.nat()
    # a non-last extensible spec loses its marker by X.680 (serial application), so only the last one can be extensible
    for n, s in enumerate(flat):
        if n == len(flat) - 1 and _spec_is_ext(s): continue
        cur = o.spec_root(cur, s, True)
    ev.oer_vis = cur
    ev.nested_ext = any((_inner_ext(s[1]) and not (_peel(s[1])[0] == 'size' and not s[2] and not _inner_ext(_peel(s[1])[1][1])))
                        for s in flat)
    ev.has_except = any(_has_x(s[1]) or (s[3] is not None and _has_x(s[3])) for s in flat)
    # F-own-ext region: a referencing type whose own constraints have an extensible non-last member
    ev.multi_own_ext = any(li > 0 and any(_spec_is_ext(s) for s in lv[:-1]) for li, lv in enumerate(levels))
    return ev

def _peel(e):
    while e[0] == 'p': e = e[1]
    return e

def _has_x(e):
    k = e[0]
    if k == 'x': return True
    if k == 'p': return _has_x(e[1])
    if k == 'size': return _has_x(e[1][1]) or (e[1][3] is not None and _has_x(e[1][3]))
    if k in ('u', 'i'): return any(_has_x(o) for o in e[1])
    return False

# ---- layouts from the effective constraint

def ceil_log2(r):
    """least k with 2^k >= r (r >= 1)"""
    k = 0
    while (1 << k) < r: k += 1
    return k

def per_layout(kind, lb, ub, ext):
    """X.691 10.5 (constrained whole number), 10.7/10.8, 12.2; 10.9.4.1 for sizes.
    Returns (flags, range_bits, effective_bits|None(not specified), lb, ub)"""
    e = "|APC_EXTENSIBLE" if ext else ""
    if lb is None:
        return ("APC_UNCONSTRAINED" + e, -1, -1, 0, 0)  # X.691 12.1: the extension bit is present whenever a marker is
    if ub is None:
        return ("APC_SEMI_CONSTRAINED" + e, -1, -1, lb, 0)
    r = ub - lb + 1
    rb = ceil_log2(r)
    eb = None
    if kind == 'size':
        eb = rb if ub < 65536 else -1
    return ("APC_CONSTRAINED" + e, rb, eb, lb, ub)

def oer_value_layout(lb, ub):
    """X.696 10.2: (width, positive)"""
    if lb is not None and lb >= 0:
        if ub is None: return (0, 1)
        for w, lim in ((1, 2**8), (2, 2**16), (4, 2**32), (8, 2**64)):
            if ub < lim: return (w, 1)
        return (0, 1)
    if lb is None or ub is None: return (0, 0)
    for w in (1, 2, 4, 8):
        if lb >= -(1 << (8 * w - 1)) and ub < (1 << (8 * w - 1)): return (w, 0)
    return (0, 0)

def oer_size_layout(lb, ub):
    """X.696 13/14/17: fixed size only"""
    if lb is not None and lb == ub: return lb
    return -1

def show_runs(runs, kind, ext):
    def one(r):
        lo = "MIN" if r[0] is None else str(r[0]); hi = "MAX" if r[1] is None else str(r[1])
        return lo if (r[0] is not None and r[0] == r[1]) else lo + ".." + hi
    body = " | ".join(one(r) for r in runs) + (",..." if ext else "")
    return "(SIZE(%s))" % body if kind == 'size' else "(%s)" % body
