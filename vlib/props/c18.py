"""C18 — open types governed by an information object set resolve per the object table.

Legs
  L  Lean: Props/C18.lean (selector = first-match lookup, table construction, framing lemmas, round trips,
     decoded type = paired type, unknown id fails, guarded clean-failure + counter-examples).
  K  correspondence C vs Impl.OpenType:
       table   dumped asn_ioc_set_t (+ alignment with the member's CHOICE elements) = buildTable(object-set syntax)
       select  the generated type_selector on every row id and on unknown ids = select
       get     frame decode outcome (ok present / fail / crash) and, after a failure, the state of the member's storage
               (NULL pointer / presence 0) = otGet/xerGet + slotAfter fed with the outcomes of the row
               types' own stand-alone decoders on the member's bytes (valid, mismatched, unknown-id frames)
       framing uper_open_type_put / _get on fixed-width row types = openPut / openGet (incl. fragmentation,
               padding-bit and length surgery)
  P  property predicate on C with python oracles: table holds every object of the set; round trip in
     DER/UPER/XER/CXER with decoded row = paired row; BER framing (member content = row's own DER) and UPER
     framing (X.691 10.2 field computed in python); mismatches never decode as a non-paired type; unknown
     ids fail; mutated encodings (every truncation, bit flips): no crash, and whenever the decoder says OK
     the stored row is the row paired with the decoded identifier.
Inside the checked domain since the repairs of F105 / F22 / F102: mismatched rows and damaged members of every row
type (no crash excused), OPTIONAL open type members (present and absent), untagged open type members under BER.
OER is left out: asn_OP_OPEN_TYPE has no OER encoder (slot 0; encoding a Frame fails), the property names
BER, XER, PER.
"""
import collections, json, os, re, shutil, threading, time
from concurrent.futures import ThreadPoolExecutor
from .. import build, bundle, core, genmod, genmod_ioc, gfind, sexp
from . import c01

DS = ("gen_c18_driver.c", "ops_gen_core.c", "ops_gen_c18.c", "reflect.c")
OPTS = ("-no-gen-example", "-fcompound-names")
SYN = ("der", "uper", "xer", "cxer")
# no symbolizer / stack traces in the batch runs (a crash costs two process runs in run_c_bisect)
FAST = {"ASAN_OPTIONS": "detect_leaks=1:abort_on_error=0:allocator_may_return_null=1:symbolize=0", "UBSAN_OPTIONS": "print_stacktrace=0:halt_on_error=1"}
PROPOSED = os.path.join(os.path.dirname(os.path.abspath(__file__)), "c18_findings.json")

# ------------------------------------------------------------------ small oracles (written from X.690 / X.691)
def der_tlvs(b):
    """list of (identifier octets, content) of the TLVs in b (definite lengths only); None if malformed"""
    out = []; i = 0
    while i < len(b):
        j = i + 1
        if b[i] & 0x1f == 0x1f:
            while j < len(b) and b[j] & 0x80: j += 1
            j += 1
        if j >= len(b): return None
        l = b[j]; j += 1
        if l & 0x80:
            k = l & 0x7f
            if k == 0 or j + k > len(b): return None
            l = int.from_bytes(b[j:j + k], "big"); j += k
        if j + l > len(b): return None
        out.append((bytes(b[i:j - 0]), bytes(b[j:j + l]), i)); i = j + l
    return out

def tlv_ident(b, i):
    j = i + 1
    if b[i] & 0x1f == 0x1f:
        while b[j] & 0x80: j += 1
        j += 1
    return bytes(b[i:j])

def bits_of(b): return "".join(format(x, "08b") for x in b)

def len_det(n):
    """X.691 10.9.3.6/7 (n < 16K)"""
    if n <= 127: return format(n, "08b")
    assert n < 16384
    return "10" + format(n, "014b")

def open_type_field(inner_bits):
    """X.691 10.2: complete encoding (>= 1 octet, zero padded) preceded by its length in octets"""
    p = inner_bits if inner_bits else "0" * 8
    p += "0" * (-len(p) % 8)
    n = len(p) // 8
    if n < 16384: return len_det(n) + p
    out = ""; pos = 0
    while True:                                   # 10.9.3.8 fragmentation
        rem = n - pos
        if rem >= 16384:
            m = min(rem // 16384, 4)
            out += format(0xc0 | m, "08b") + p[8 * pos: 8 * (pos + m * 16384)]; pos += m * 16384
            if pos == n: return out + "00000000"
        else:
            return out + len_det(rem) + p[8 * pos:]

def uper_ident_bits(m, idval):
    k = m["ioc"]["idkind"]
    if k in ("CINT-inline", "CINT-named"): return format(idval, "015b")
    if k == "INTEGER":
        n = 1
        while not (-(1 << (8 * n - 1)) <= idval < (1 << (8 * n - 1))): n += 1
        return format(n, "08b") + format(idval & ((1 << (8 * n)) - 1), "0%db" % (8 * n))
    return None

# ------------------------------------------------------------------ bundles
_shadow_n = [0]
def module_opts(m):
    """asn1c options of the module's bundle: OPTS + the module's own (-fwide-types); "base_opts" replaces OPTS (no -fcompound-names)"""
    return tuple(m.get("base_opts", OPTS)) + tuple(m.get("opts", ()))

def make_bundle(m):
    """Bundle of an ioc module + the per-bundle shadow file that exposes the (static) emitted table."""
    txt = genmod_ioc.module_text(m)
    tmp = os.path.join(build.CACHE, f"c18pre-{os.getpid()}-{threading.get_ident()}-{m['name']}")
    extra = []
    try:
        rc, out = bundle.run_asn1c(build.build_asn1c(), txt, tmp, ["-R"] + list(module_opts(m)))
        sym = None
        if rc == 0 and os.path.exists(os.path.join(tmp, "Frame.c")):
            mm = re.search(r"asn_ioc_set_t (asn_IOS_\w+)\[\]", open(os.path.join(tmp, "Frame.c")).read())
            sym = mm.group(1) if mm else None
    finally:
        shutil.rmtree(tmp, ignore_errors=True)
    shadow = None
    if sym:
        _shadow_n[0] += 1
        os.makedirs(os.path.join(build.CACHE, "bundles"), exist_ok=True)
        shadow = os.path.join(build.CACHE, "bundles", f"c18shadow_{os.getpid()}_{m['name']}_{_shadow_n[0]}.c")
        with open(shadow, "w") as fh:
            fh.write("/* second copy of the generated translation unit, only to reach its static table */\n"
                     "#define asn_DEF_Frame verif_shadow_DEF_Frame\n#include \"Frame.c\"\n"
                     f"const asn_ioc_set_t *verif_ioc_set = {sym};\n")
        extra = [shadow]
    b = bundle.Bundle(m["name"], txt, genmod_ioc.type_names(m), driver_sources=DS + tuple(extra), opts=module_opts(m))
    b.shadow = shadow
    return b

def build_all(mods):
    def one(m):
        b = make_bundle(m)
        try:
            return m, b, b.build(), None
        except bundle.Asn1cFailed as e:
            return m, b, None, ("asn1c", e.out.strip().split("\n")[0][:200])
        except build.BuildError as e:
            errs = re.findall(r"error: .*", str(e))
            return m, b, None, ("cc", (errs[0] if errs else str(e))[:200])
    with ThreadPoolExecutor(4) as ex:
        return list(ex.map(one, mods))

def cleanup(b):
    b.cleanup()
    if getattr(b, "shadow", None):
        try: os.unlink(b.shadow)
        except OSError: pass

# ------------------------------------------------------------------ parsing the `ioc` dump
def parse_ioc(out):
    try:
        forms = sexp.parse("(" + out + ")")
    except Exception:
        return None
    info = {"members": [], "rows": None}
    for f in forms:
        if not isinstance(f, list) or not f: continue
        if f[0] == "member":
            d = {"name": f[1]}
            for i, tok in enumerate(f[2:], 2):
                if isinstance(tok, str) and "=" in tok:
                    k, v = tok.split("=", 1)
                    if k == "elems": d["elems"] = [tuple(e.split(":")) for e in f[i + 1]] if i + 1 < len(f) else []
                    else: d[k] = v
            info["members"].append(d)
        elif f[0] == "table":
            if len(f) > 1 and f[1] == "-": continue
            rows = []
            for r in f[1:]:
                if isinstance(r, list) and r and r[0] == "row":
                    row = {}
                    for cell in r[1:]:
                        if cell[1] == "value": row["id"] = cell[2]
                        elif cell[1] == "type": row["type"] = cell[2]; row["aligned"] = cell[3] == "aligned=1"
                    rows.append(row)
            info["rows"] = rows
    return info

def id_of_sexp(sx):
    if isinstance(sx, list) and len(sx) == 2 and sx[0] == "int": return int(sx[1])
    if isinstance(sx, list) and len(sx) == 2 and sx[0] == "oid": return "oid:" + sx[1]
    return repr(sx)

def frame_parts(dumped):
    """dumped Frame value -> {member: parsed sexp}"""
    p = sexp.parse(dumped)
    if not isinstance(p, list) or not p or p[0] != "seq": return None
    return {x[0]: x[1] for x in p[1:] if isinstance(x, list) and len(x) == 2}

def frame_same(m, env, dumped, expected):
    try:
        a, b = frame_parts(dumped), frame_parts(expected)
        if a is None or b is None or set(a) != set(b): return False
        for k in a:
            if k == "value":
                if a[k][0] != "open" or b[k][0] != "open" or a[k][1] != b[k][1]: return False
                t = env[a[k][1]]
                if genmod.norm_sexp(t, a[k][2], env) != genmod.norm_sexp(t, b[k][2], env): return False
            elif k == "ident":
                if a[k] != b[k]: return False
            else:
                et = next(e["type"] for e in m["ioc"]["frame"]["extras"] if e["id"] == k)
                if genmod.norm_sexp(et, a[k], env) != genmod.norm_sexp(et, b[k], env): return False
        return True
    except Exception:
        return False

def member_index(m, fsx):
    """position of the open type member among the members present in the frame value `fsx`"""
    k = 0
    for kind, v in genmod_ioc.frame_members(m):
        if kind == "value": return k
        if kind == "ident" or f"({v['id']} " in fsx: k += 1
    return k

RT_RE = re.compile(r"rc=(\w+) consumed=(\d+)/(\d+)(?: cmp=(-?\d+) der_same=(\d) val=(.*))?$")

# ------------------------------------------------------------------ findings (KNOWN_FINDINGS.json + proposed entries)
def load_findings(ctx):
    """entries of KNOWN_FINDINGS.json for C18 plus the proposed ones shipped with the check (an id
    present in KNOWN_FINDINGS.json wins)."""
    have = {f["id"] for f in ctx.findings}
    try:
        for f in json.load(open(PROPOSED))["findings"]:
            if f["id"] not in have and f.get("property") == "C18": ctx.findings.append(f)
    except FileNotFoundError:
        pass
    return {f["id"]: f for f in ctx.findings}

def run_c(ctx, exe, lines, env=None):
    """ctx.run_c_bisect + attribution of leaks.  LeakSanitizer reports at exit, after every line has been answered;
    run_c_bisect reads that as "the last line killed the driver", re-runs the last line alone and - unless that very
    line leaks - drops the report.  Here a batch that answered every line but exited non-zero with a leak report is
    split in halves down to the leaking line(s): `CRASH LeakSanitizer ...`."""
    outs = [None] * len(lines); crashes = 0
    def go(lo, hi):
        nonlocal crashes
        rc, out, err = ctx.run_lines(exe, lines[lo:hi], **({"env": env} if env else {}))
        if rc == 0 and len(out) == hi - lo:
            outs[lo:hi] = out; return
        if rc != 0 and len(out) == hi - lo and "LeakSanitizer" in err and not (out and out[-1] == "HANG"):
            if hi - lo == 1:
                crashes += 1
                summ = next((l.strip()[:200] for l in err.split("\n") if l.startswith("SUMMARY:")), "")
                outs[lo] = "CRASH LeakSanitizer: detected memory leaks | " + summ + " | after: " + out[0][:200]
            else:
                mid = (lo + hi) // 2
                go(lo, mid); go(mid, hi)
            return
        o, c = ctx.run_c_bisect(exe, lines[lo:hi], **({"env": env} if env else {}))
        outs[lo:hi] = o; crashes += c
    if lines: go(0, len(lines))
    return outs, crashes

def replay_fixed_witnesses(ctx):
    """regression: the witness of every *fixed* finding of this property must no longer reproduce on the working tree"""
    n = 0
    for f in ctx.findings:
        w = f.get("witness", {})
        if f.get("status") != "fixed" or f.get("property") != ctx.prop or "module" not in w or "op" not in w or not w.get("expect"): continue
        names = re.findall(r"(\w+)\s*::=", w["module"].split("BEGIN", 1)[1])
        b = bundle.Bundle("x" + f["id"], w["module"], names, driver_sources=DS, opts=OPTS)
        try:
            exe = b.build()
            line = f"@{w.get('type', names[0])} {w['op']}"
            outs, _ = run_c(ctx, exe, [line], env=FAST)
            o = str(outs[0] or "CRASH")
            n += 1; ctx.cov["evaluations"] += 1
            if re.search(w["expect"], o):
                ctx.violation(f"C18: fixed finding {f['id']} reproduces again on its witness: {line[:200]} -> {o[:160]} ({f['what'][:160]})",
                              {"module": w["module"], "type": w.get("type", names[0]), "op": w["op"], "c_output": o, "finding": f["id"]})
            else: ctx.count_nontrivial(("fixed-witness", f["id"]))
        except (bundle.Asn1cFailed, build.BuildError) as e:
            ctx.broken.append({"kind": "harness", "msg": f"witness module of fixed finding {f['id']} does not build: {str(e)[-200:]}"})
        finally:
            b.cleanup()
    ctx.cov["fixed_witnesses_replayed"] = n

# ------------------------------------------------------------------ the check
class Run:
    def __init__(self, ctx):
        self.ctx = ctx
        self.fails = collections.Counter()
        self.samples = {}
        self.known = collections.Counter()
        self.skipped = collections.Counter()
        self.stats = collections.Counter()
        self.kdis = []
        self.times = collections.Counter()
        self.cases = {}               # actual cases of this run, one per kind (evidence samples)
    def sample(self, kind, **kw):
        if kind not in self.cases: self.cases[kind] = {k: (v[:400] if isinstance(v, str) else v) for k, v in dict(kind=kind, **kw).items()}

    def fail(self, cls, m, line, out, extra=None):
        self.fails[cls] += 1
        if cls not in self.samples:
            self.samples[cls] = {"module": genmod_ioc.module_text(m) if isinstance(m, dict) else str(m), "type": "Frame", "op": line,
                                 "c_output": str(out)[:600], "failure": cls}
            if isinstance(m, dict): self.samples[cls]["opts"] = list(module_opts(m))
            if extra: self.samples[cls].update(extra)

def model_lines(ctx, lines):
    for attempt in range(40):
        try:
            rc, outs, err = ctx.run_lines(build.model_exe(), lines)
            break
        except (FileNotFoundError, PermissionError, OSError):
            # the shared lean project is being re-linked by a concurrent check: wait for the driver to reappear
            if attempt == 39: raise
            time.sleep(3)
    if rc != 0 or len(outs) != len(lines): raise RuntimeError("model driver failed: " + err[-300:])
    return outs

def k_table_select(R, m, exe, want_complete=True):
    """K: dumped table (+ alignment with the member's CHOICE elements) vs buildTable; generated selector vs select.
    P: the table holds exactly the objects of the set (only asked for inside the clean domain)."""
    ctx = R.ctx
    ioc = m["ioc"]; rows = ioc["rows"]
    outs, _ = run_c(ctx, exe, ["@Frame ioc"])
    info = parse_ioc(outs[0] or "")
    if not info or not info["members"] or info["rows"] is None:
        R.fail("ioc-dump", m, "@Frame ioc", outs[0]); return None
    mem = info["members"][0]
    elems = mem.get("elems", [])
    ctab = [(id_of_sexp(r.get("id")), r.get("type")) for r in info["rows"]]
    ti = genmod_ioc.type_index(m)
    names_by_ti = {v: k for k, v in ti.items()}
    R.stats["modules"] += 1
    R.stats["rows"] += len(ctab)
    if not all(r.get("aligned") for r in info["rows"]) or len(elems) != len(ctab):
        R.fail("table-not-aligned-with-choice-elements", m, "@Frame ioc", outs[0])
    spec = set(genmod_ioc.spec_objects(m))
    if want_complete and {(repr(i), t) for i, t in ctab} != spec:
        R.fail("table-incomplete", m, "@Frame ioc", outs[0], {"expected_objects": sorted(spec)})
    mo = model_lines(ctx, ["c18tbl " + genmod_ioc.model_items(m)])[0]
    mm = re.match(r"ext=(\d) n=(\d+) rows=(\S+)$", mo)
    mtab = [] if not mm or mm.group(3) == "-" else [(int(x.split(":")[0]), names_by_ti[int(x.split(":")[1])]) for x in mm.group(3).split(",")]
    ctx.cov["correspondence"].setdefault("table", {"lines": 0, "disagreements": 0, "c_crashes": 0})
    ctx.cov["correspondence"]["table"]["lines"] += 1
    if mtab != ctab or (mm and (mm.group(1) == "1") != genmod_ioc.is_extensible(m)):
        ctx.cov["correspondence"]["table"]["disagreements"] += 1
        R.kdis.append({"kind": "table", "module": genmod_ioc.module_text(m), "c": str(ctab), "model": mo})
    tbl_txt = ",".join(f"{i}:{ti[t]}" for i, t in ctab) or "-"
    ids = []
    for r in rows:
        if r["id"] not in ids: ids.append(r["id"])
    unknown = []
    pool = [0, 1, -1, 5, 6, 11, 299, 301, 32766, 40000, 70000, -7] if ioc["idkind"] == "INTEGER" else [0, 1, 4, 5, 6, 11, 299, 301, 20000, 32766]
    # identifiers without a row; first the ones that differ from a row's identifier by a multiple of 256 / 65536 (same low octets)
    # or only in the sign (two's complement neighbours of the INTEGER_t / long constants in the table)
    near = []
    for i in ids: near += [i - 256, i + 256]
    if not m.get("all_unknown"): ctx.rng.shuffle(near)
    far = []
    for i in ids: far += [i - 65536, i + 65536, -i, ~i]
    ctx.rng.shuffle(far)
    for u in near + far[:6] + pool + [i + 1 for i in ids] + [i - 1 for i in ids]:
        if u not in ids and u not in unknown and (ioc["idkind"] == "INTEGER" or 0 <= u <= 32767): unknown.append(u)
    unknown = unknown[:60 if m.get("all_unknown") else 12]
    if mem.get("selector") == "1":
        sel_lines = [f"@Frame select (seq (ident (int {i})))" for i in ids + unknown]
        sel_model = [f"c18sel {tbl_txt} {i}" for i in ids + unknown]
        co, _ = run_c(ctx, exe, sel_lines, env=FAST)
        mo2 = model_lines(ctx, sel_model)
        st = ctx.cov["correspondence"].setdefault("select", {"lines": 0, "disagreements": 0, "c_crashes": 0})
        for l, c, mdl in zip(sel_lines, co, mo2):
            st["lines"] += 1
            p, ty = mdl.split()
            want = f"{p} {names_by_ti[int(ty)] if ty != '-' else '-'}"
            if c != want:
                st["disagreements"] += 1
                R.kdis.append({"kind": "select", "module": genmod_ioc.module_text(m), "op": l, "c": c, "model": want})
            else:
                ctx.count_nontrivial(("select", m["name"], l))
                R.sample("select", op=l, c=c, model=mdl, table=tbl_txt)
    return info, mem, elems, ctab, ti, names_by_ti, tbl_txt, ids, unknown

def check_module(R, m, exe, nvals, nmut, findings):
    ctx = R.ctx
    ioc = m["ioc"]; env = dict(m["types"]); f = ioc["frame"]
    rows = ioc["rows"]
    vg = genmod.ValGen(ctx.rng, env)
    # ---------------- table / selector (K1, P1)
    k1 = k_table_select(R, m, exe)
    if k1 is None: return
    info, mem, elems, ctab, ti, names_by_ti, tbl_txt, ids, unknown = k1
    # paired row per identifier as the *standard* says (UNIQUE ids): id -> row type name
    paired = {}
    for i, t in genmod_ioc.spec_objects(m): paired.setdefault(i, t)
    open_ext = bool(f.get("open_ext"))        # the open type member is an extension addition: UPER cannot decode it (F109)
    if open_ext: R.stats["modules_open_type_extension_addition"] += 1
    simple_uper = f["id_first"] and not f["seq_ext"] and not open_ext and not any(e["pos"] in ("pre", "mid") for e in f["extras"])
    nopt_post = sum(1 for e in f["extras"] if e["opt"]) + (1 if f["open_opt"] else 0)
    vpos = [k for k, _ in genmod_ioc.frame_members(m)].index("value")
    untagged = bool(f.get("manual")) and f["open_tag"] is None
    if untagged: R.stats["modules_open_type_untagged"] += 1
    if f["open_opt"]: R.stats["modules_open_type_optional"] += 1
    T0 = time.time()
    def tick(name):
        nonlocal T0
        R.times[name] += time.time() - T0; T0 = time.time()
    # ---------------- values, round trips (P2), framing (P3)
    lines = []; meta = []
    rowvals = {}
    for ri, row in enumerate(rows):
        t = env[row["name"]]
        feats = gfind.features(t, env)
        vals = vg.values(t, nvals)
        rowvals[row["name"]] = [(v, genmod.val_sexp(t, v, env)) for v in vals]
        for vi, (v, sx) in enumerate(rowvals[row["name"]]):
            ex = genmod_ioc.extras_values(m, vg, vi % 3)
            fsx = genmod_ioc.frame_sexp(m, row["id"], row["name"], sx, ex, env)
            lines.append("@Frame echo " + fsx); meta.append(("echo", row, fsx, None))
            for syn in SYN:
                if c01.skip_region(syn, feats, R.skipped): continue
                if syn in ("xer", "cxer") and len(fsx) > 20000: continue
                lines.append(f"@Frame rt {syn} {fsx}"); meta.append(("rt", row, fsx, syn))
            if f["open_opt"] and vi < 2:
                # the OPTIONAL open type member left out: nothing to resolve, the frame round-trips
                fsx0 = genmod_ioc.frame_sexp(m, row["id"], None, None, ex, env)
                lines.append("@Frame echo " + fsx0); meta.append(("echo", row, fsx0, None))
                for syn in SYN:
                    lines.append(f"@Frame rt {syn} {fsx0}"); meta.append(("rt", dict(row, absent=True), fsx0, syn))
            if not c01.skip_region("der", feats, collections.Counter()):
                lines.append(f"@{row['name']} enc der {sx}"); meta.append(("rowder", row, fsx, None))
            if not c01.skip_region("uper", feats, collections.Counter()):
                lines.append(f"@{row['name']} uperbits {sx}"); meta.append(("rowuper", row, (fsx, ex), None))
    outs = []; ncrash = 0
    for i in range(0, len(lines), 100):
        o_, c_ = run_c(ctx, exe, lines[i:i + 100], env=FAST)
        outs += o_; ncrash += c_
        if ncrash > 40:                     # a broken tree: do not spend minutes on bisecting hundreds of crashes
            outs += ["SKIPPED"] * (len(lines) - len(outs)); break
    valid = []                     # (syn, row, frame sexp, hex, row der hex / uper bits)
    last_rt = {}
    for l, o, (kind, row, fsx, syn) in zip(lines, outs, meta):
        o = str(o)
        if o == "SKIPPED": continue
        R.stats["cases"] += 1
        if o.startswith("CRASH"):
            R.fail(f"crash:{kind}:{syn}", m, l, o); continue
        if kind == "echo":
            if not frame_same(m, env, o, fsx): R.fail("reflect-mismatch", m, l, o)
        elif kind == "rt":
            mm = RT_RE.search(o)
            why = None
            if not o.startswith("ok "): why = "encode:" + o.split()[0]
            elif not mm: why = "unparsable"
            elif open_ext and syn == "uper" and not row.get("absent") and mm.group(1) == "fail" and "F109" in findings:
                R.known["F109"] += 1; continue          # clean failure (a crash is reported above)
            elif mm.group(1) != "ok": why = "decode-rc=" + mm.group(1)
            elif mm.group(2) != mm.group(3) and not (syn == "xer" and int(mm.group(2)) + 1 == int(mm.group(3))): why = "consumed"
            elif mm.group(4) != "0": why = "cmp!=0"
            elif mm.group(5) != "1": why = "der-differs"
            elif not frame_same(m, env, mm.group(6), fsx): why = "value-differs"
            if why: R.fail(f"roundtrip:{syn}:{why}", m, l, o)
            else:
                ctx.count_nontrivial(("rt", syn, m["name"], fsx[:100]))
                R.stats["roundtrips_ok"] += 1
                if isinstance(row, dict) and row.get("absent"): R.stats["roundtrips_ok_member_absent"] += 1
                elif f["open_opt"]: R.stats["roundtrips_ok_optional_member_present"] += 1
                if untagged and syn == "der": R.stats["roundtrips_ok_untagged_der"] += 1
                last_rt[(fsx, syn)] = o.split()[1]
                R.sample("roundtrip-" + syn, module=genmod_ioc.module_text(m), op=l, c=o)
                valid.append((syn, row, fsx, o.split()[1]))
        elif kind == "rowder":
            # BER framing: the member's content (inside its EXPLICIT context tag) is the row type's own DER
            h = last_rt.get((fsx, "der"))
            if h and o.startswith("ok "):
                fb = bytes.fromhex(h)
                top = der_tlvs(fb)
                inner = None
                if top and len(top) == 1:
                    tl = der_tlvs(top[0][1]) or []
                    if untagged:                # the member *is* the row's TLV, at the member's position among the present ones
                        k = member_index(m, fsx)
                        if k < len(tl): inner = tl[k][0] + tl[k][1]
                    for idn, content, _ in ([] if untagged else tl):
                        if idn[:1] == bytes([0xa0 | vpos]) and vpos < 31: inner = content
                want = "" if o.split()[1] == "-" else o.split()[1]
                if inner is None or inner.hex() != want: R.fail("ber-framing", m, l, o, {"frame_der": h})
                else: R.stats["ber_framing_ok"] += 1
        elif kind == "rowuper":
            fsx2, ex = fsx
            h = last_rt.get((fsx2, "uper"))
            if h and o.startswith("ok ") and simple_uper and uper_ident_bits(m, row["id"]) is not None and h != "-":
                rb = o.split()[2] if len(o.split()) > 2 and o.split()[2] != "-" else ""
                field = open_type_field(rb)
                fbits = bits_of(bytes.fromhex(h))
                pre = "1" if f["open_opt"] else ""          # preamble: one bit per OPTIONAL member, in member order
                for e in f["extras"]:
                    if e["opt"]: pre += "1" if e["id"] in ex else "0"
                pre += uper_ident_bits(m, row["id"])
                if fbits[:len(pre)] != pre or fbits[len(pre):len(pre) + len(field)] != field:
                    R.fail("uper-framing", m, l, o, {"frame_uper": h, "expected_prefix": pre, "expected_field": field[:200]})
                else: R.stats["uper_framing_ok"] += 1
    # chunked (restartable) BER decoding of frames: every 2-split of the DER frame must end like the one-shot call
    # (the open type getter keeps no state across RC_WMORE: it must report nothing consumed and start over)
    ders = []
    for l, o, (kind, row, fsx, syn) in zip(lines, outs, meta):
        if kind == "rt" and syn == "der" and str(o).startswith("ok ") and RT_RE.search(str(o)) and RT_RE.search(str(o)).group(1) == "ok":
            h = str(o).split()[1]
            if h != "-" and len(h) // 2 <= 400 and (l.split()[0], h) not in ders: ders.append((l.split()[0], h))
    ders = ders[:6 if m.get("light") else 12]
    cl = []
    for tp, h in ders:
        n_ = len(h) // 2
        cl.append((tp, h, "-"))
        for cut in range(1, n_): cl.append((tp, h, str(cut)))
    if cl:
        couts, _ = run_c(ctx, exe, [f"{tp} decchunks ber {h} {cut}" for tp, h, cut in cl], env=FAST)
        one = {}
        fin = re.compile(r"final (\w+) (\d+) (.*)$")
        for (tp, h, cut), o in zip(cl, couts):
            mm = fin.search(str(o))
            if cut == "-" and mm: one[(tp, h)] = mm.groups()
        for (tp, h, cut), o in zip(cl, couts):
            if cut == "-" or (tp, h) not in one: continue
            R.stats["chunked_cases"] += 1
            mm = fin.search(str(o))
            if str(o).startswith("CRASH") or not mm or mm.groups() != one[(tp, h)]:
                R.fail("chunked-ber:differs-from-one-shot", m, f"{tp} decchunks ber {h} {cut}", str(o), {"oneshot": list(one[(tp, h)])})
            else: ctx.count_nontrivial(("chunked", m["name"], h[:40], cut))
    tick("roundtrip")
    if sum(R.fails.values()) > 150 or ncrash > 40:
        R.stats["modules_cut_short_after_many_failures"] += 1       # a broken tree: the remaining stages only add crashes
        return
    # ---------------- mismatches and unknown identifiers (P4, P5) + get-level correspondence (K2)
    # a syntax in which some row type has no codec at all (F32: SET under UPER) is left out of the mismatch /
    # mutation tests of this module: a mutated identifier could select that row
    noskip_free = ({"uper"} if open_ext else set()) | {syn for syn in ("der", "uper", "cxer") if any(c01.skip_region(syn, gfind.features(env[r["name"]], env), collections.Counter()) for r in rows)}
    enc_lines = []; enc_meta = []
    for i, rowi in enumerate(rows):
        others = [r for r in rows if r["name"] != rowi["name"]]
        for rowj in others[:4] if len(rows) > 4 else others:
            for v, sx in [x for x in rowvals[rowj["name"]] if len(x[1]) <= 1500][:2]:
                fsx = genmod_ioc.frame_sexp(m, rowi["id"], rowj["name"], sx, genmod_ioc.extras_values(m, vg, 0), env)
                for syn in ("der", "uper", "cxer"):
                    if syn in noskip_free: continue
                    if c01.skip_region(syn, gfind.features(env[rowj["name"]], env), collections.Counter()): continue
                    enc_lines.append(f"@Frame enc {syn} {fsx}"); enc_meta.append(("mismatch", syn, rowi["id"], rowj["name"], fsx))
    for u in unknown[:40 if m.get("all_unknown") else 4]:
        for rowj in (rows[:1] if m.get("all_unknown") else rows[:3]):
            v, sx = min(rowvals[rowj["name"]], key=lambda x: len(x[1]))
            fsx = genmod_ioc.frame_sexp(m, u, rowj["name"], sx, genmod_ioc.extras_values(m, vg, 0), env)
            for syn in ("der", "uper", "cxer"):
                if syn in noskip_free: continue
                if c01.skip_region(syn, gfind.features(env[rowj["name"]], env), collections.Counter()): continue
                enc_lines.append(f"@Frame enc {syn} {fsx}"); enc_meta.append(("unknown", syn, u, rowj["name"], fsx))
    for syn, row, fsx, h in valid:
        if syn != "xer" and len(h) <= 3000: enc_meta.append(("valid", "cxer" if syn == "cxer" else syn, row["id"], None if row.get("absent") else row["name"], fsx)); enc_lines.append(f"@Frame enc {syn} {fsx}")
    eouts, _ = run_c(ctx, exe, enc_lines, env=FAST)
    dec_lines = []; dec_meta = []
    for l, o, me in zip(enc_lines, eouts, enc_meta):
        o = str(o)
        if not o.startswith("ok "):
            R.fail("encode-of-frame-failed", m, l, o); continue
        h = o.split()[1]
        dec_lines.append(f"@Frame odec {me[1]} {h}"); dec_meta.append(me + (h,))
    tick("enc")
    douts, _ = run_c(ctx, exe, dec_lines, env=FAST)
    tick("dec")
    # inner outcome of every row type's own decoder on the member's bytes (input of the model)
    inner_lines = []; inner_idx = []
    for k, (l, o, me) in enumerate(zip(dec_lines, douts, dec_meta)):
        kind, syn, idv, rowname, fsx, h = me
        member = None
        if len(inner_lines) > 1200: break
        if rowname is None: continue              # open type member absent: the getter is not reached
        if syn == "der":
            top = der_tlvs(bytes.fromhex(h))
            if top and len(top) == 1:
                tl = der_tlvs(top[0][1]) or []
                if untagged:
                    k2 = member_index(m, fsx)
                    if k2 < len(tl): member = (tl[k2][0] + tl[k2][1]).hex()
                for idn, content, _ in ([] if untagged else tl):
                    if idn[:1] == bytes([0xa0 | vpos]): member = content.hex() or "-"
        elif syn == "cxer":
            t = bytes.fromhex(h).decode("utf-8", "replace")
            mm = re.search(r"<value>(.*)</value>", t, re.S)
            if mm: member = mm.group(1).encode().hex() or "-"
        elif syn == "uper" and simple_uper and uper_ident_bits(m, idv) is not None:
            pre = nopt_post + len(uper_ident_bits(m, idv))
            member = bits_of(bytes.fromhex(h))[pre:] if h != "-" else ""
        if member is None: continue
        for tname in ti:
            if syn == "uper": inner_lines.append(f"@{tname} oget {member or '-'}")
            else: inner_lines.append(f"@{tname} dec {'der' if syn == 'der' else 'xer'} {member}")
            inner_idx.append((k, tname, len(member)))
    iouts, _ = run_c(ctx, exe, inner_lines, env=FAST)
    tick("inner")
    inner = collections.defaultdict(dict)
    for (k, tname, mlen), l, o in zip(inner_idx, inner_lines, iouts):
        o = str(o); syn = dec_meta[k][1]
        if o.startswith("CRASH"): inner[k][tname] = "c"
        elif syn == "uper": inner[k][tname] = "o" if o.startswith("ok") else ("m" if o.startswith("more") else "f")
        else:
            p = o.split()
            full = p[0] == "ok" and int(p[1]) * 2 == mlen          # the member's bytes must be used up exactly
            inner[k][tname] = "o" if full else ("m" if p[0] == "more" else "f")
    gst = ctx.cov["correspondence"].setdefault("get", {"lines": 0, "disagreements": 0, "c_crashes": 0})
    glines = []; gk = []
    for k, me in enumerate(dec_meta):
        if k not in inner or any(v == "c" for v in inner[k].values()): continue
        outs_s = "".join(inner[k].get(names_by_ti[j], "f") for j in range(len(names_by_ti)))
        syn = {"der": "ber", "uper": "uper", "cxer": "xer"}[me[1]]
        glines.append(f"c18get {syn} {tbl_txt} {len(elems)} {mem.get('ptr', '0')} {me[2]} {outs_s}"); gk.append(k)
    gouts = model_lines(ctx, glines) if glines else []
    model_of = dict(zip(gk, gouts))
    elem_names = [e[0] for e in elems]
    for k, (l, o, me) in enumerate(zip(dec_lines, douts, dec_meta)):
        kind, syn, idv, rowname, fsx, h = me
        o = str(o)
        R.stats["decodes_" + kind] += 1
        # --- P: the property predicate on C's outcome
        got = None
        if o.startswith("CRASH"):
            got = "crash"
            R.fail(f"crash:{kind}:{syn}", m, l, o)
        else:
            p = o.split(" ", 2)
            if p[0] == "ok":
                fp = frame_parts(p[2]) or {}
                orow = fp.get("value", [None, None])[1] if isinstance(fp.get("value"), list) else None
                got = "ok %d" % (elem_names.index(orow) + 1) if orow in elem_names else "ok ?"
                pid = repr(id_of_sexp(fp.get("ident")))
                if kind == "unknown": R.fail(f"unknown-id-decoded:{syn}", m, l, o)
                elif rowname is None:
                    if "value" in fp or not frame_same(m, env, p[2], fsx): R.fail(f"valid-decode-differs:{syn}", m, l, o)
                    else: ctx.count_nontrivial((kind, syn, m["name"], h[:60]))
                elif paired.get(pid) != dict((e[0], e[1]) for e in elems).get(orow):
                    R.fail(f"decoded-type-not-paired-type:{syn}", m, l, o)
                elif kind == "valid" and not frame_same(m, env, p[2], fsx): R.fail(f"valid-decode-differs:{syn}", m, l, o)
                else:
                    ctx.count_nontrivial((kind, syn, m["name"], h[:60]))
                    if kind == "mismatch": R.sample("mismatch-bytes-valid-for-paired-type", op=l, frame=fsx, c=o)
            else:
                got = "fail"          # RC_FAIL / RC_WMORE on a complete frame: both are "not decoded"
                if kind == "valid": R.fail(f"valid-frame-rejected:{syn}", m, l, o)
                else:
                    ctx.count_nontrivial((kind, syn, m["name"], h[:60]))
                    R.sample(kind + "-rejected", op=l, frame=fsx, c=o, model=model_of.get(k), model_op=(glines[gk.index(k)] if k in model_of else None))
        # --- K: the model's prediction from the row decoders' outcomes
        if k in model_of:
            gst["lines"] += 1
            want = model_of[k]
            if want.split()[0] in ("more", "fail"):
                # a failed getter leaves the member empty: NULL pointer / presence 0 (Impl.OpenType.slotAfter)
                want = "fail " + want.split()[1]
                sm = re.search(r" slot=(\w+)$", o)
                if got == "fail": got = "fail " + (sm.group(1) if sm else "?")
            if want != got:
                gst["disagreements"] += 1
                R.kdis.append({"kind": "get", "module": genmod_ioc.module_text(m), "op": l, "c": o[:200], "model": model_of[k], "model_op": glines[gk.index(k)]})
            if got == "crash": gst["c_crashes"] += 1
    tick("classify")
    # ---------------- mutated encodings (P6)
    mlines = []; mmeta = []
    budget = nmut
    seen = set()
    per = max(1, budget // max(1, len(valid)))
    for syn, row, fsx, h in valid:
        if syn == "xer" or h == "-" or len(h) > 4000 or syn in noskip_free: continue
        b = bytes.fromhex(h)
        picks = list(range(9 * len(b)))          # k < len(b): truncation to k octets; else flip of bit k - len(b)
        if len(picks) > per: picks = ctx.rng.sample(picks, per)
        muts = [b[:k] if k < len(b) else b[:(k - len(b)) // 8] + bytes([b[(k - len(b)) // 8] ^ (0x80 >> ((k - len(b)) % 8))]) + b[(k - len(b)) // 8 + 1:] for k in picks]
        for mb in muts:
            key = (syn, mb)
            if key in seen: continue
            seen.add(key)
            mlines.append(f"@Frame odec {'xer' if syn == 'cxer' else syn} {mb.hex() or '-'}"); mmeta.append(syn)
    mouts, _ = run_c(ctx, exe, mlines, env=FAST)
    tick("mut-run")
    for l, o, syn in zip(mlines, mouts, mmeta):
        o = str(o)
        R.stats["mutated"] += 1
        if o.startswith("CRASH"):
            R.fail(f"crash:mutated:{syn}", m, l, o)
            continue
        p = o.split(" ", 2)
        if p[0] not in ("ok", "more", "fail"): R.fail("bad-rc", m, l, o); continue
        if p[0] == "ok":
            fp = frame_parts(p[2]) or {}
            val = fp.get("value")
            orow = val[1] if isinstance(val, list) and len(val) > 1 else None
            pid = repr(id_of_sexp(fp.get("ident")))
            if val is None and f["open_opt"]:
                ctx.count_nontrivial(("mut-ok-absent", syn, l[-40:])); continue      # member absent: nothing to resolve
            if paired.get(pid) is None or paired.get(pid) != dict((e[0], e[1]) for e in elems).get(orow):
                R.fail(f"decoded-type-not-paired-type:mutated:{syn}", m, l, o)
            else: ctx.count_nontrivial(("mut-ok", syn, l[-40:]))
        else: ctx.count_nontrivial(("mut", syn, p[0], l[-24:]))
    tick("mut-classify")

# ------------------------------------------------------------------ framing correspondence on a fixed module
FIX = """FX DEFINITIONS AUTOMATIC TAGS ::= BEGIN
  FB ::= BOOLEAN
  F3 ::= INTEGER (0..7)
  F8 ::= INTEGER (0..255)
  F16 ::= INTEGER (0..65535)
  FN ::= NULL
  FS ::= SEQUENCE { a BOOLEAN, b INTEGER (0..7) }
  FO ::= OCTET STRING
END
"""
FIXW = {"FB": 1, "F3": 3, "F8": 8, "F16": 16, "FN": 0, "FS": 4}

def framing_correspondence(R):
    ctx = R.ctx
    b = bundle.Bundle("FX", FIX, ["FB", "F3", "F8", "F16", "FN", "FS", "FO"], driver_sources=DS, opts=OPTS)
    exe = b.build()
    try:
        vals = {"FB": ["(bool t)", "(bool f)"], "F3": ["(int 0)", "(int 5)", "(int 7)"], "F8": ["(int 0)", "(int 200)"], "F16": ["(int 513)"], "FN": ["(null)"],
                "FS": ["(seq (a (bool t)) (b (int 6)))"]}
        sizes = [0, 1, 2, 125, 126, 127, 128, 129, 300, 16380, 16381, 16382, 16383, 16384, 16385, 32767, 32768, 32770, 49152, 65536, 65537, 70000]
        if not ctx.quick: sizes += [81920, 98304, 131072, 131073, 200000]
        vals["FO"] = ["(os %s)" % (bytes(ctx.rng.getrandbits(8) for _ in range(n)).hex() or "-") for n in sizes]
        lines = []; meta = []
        for t, vs in vals.items():
            for v in vs:
                lines.append(f"@{t} uperbits {v}"); meta.append((t, v, "bits"))
                lines.append(f"@{t} oput {v}"); meta.append((t, v, "put"))
        outs, _ = run_c(ctx, exe, lines)
        st = ctx.cov["correspondence"].setdefault("uper_open_type_put", {"lines": 0, "disagreements": 0, "c_crashes": 0})
        fields = []
        mlines = []; cfields = []
        for i in range(0, len(lines), 2):
            ob, op = str(outs[i]), str(outs[i + 1])
            if not ob.startswith("ok ") or not op.startswith("ok "):
                R.fail("framing-op-failed", "FX", lines[i + 1], op); continue
            inner = ob.split()[2] if ob.split()[2] != "-" else ""
            mlines.append("c18oput " + (inner or "-")); cfields.append((meta[i][0], meta[i][1], inner, op.split()[1]))
        mouts = model_lines(ctx, mlines)
        for (t, v, inner, cf), mo_ in zip(cfields, mouts):
            st["lines"] += 1
            if cf != mo_:
                st["disagreements"] += 1
                R.kdis.append({"kind": "uper_open_type_put", "op": f"@{t} oput {v[:60]}", "c": cf[:120], "model": mo_[:120]})
            if cf != open_type_field(inner): R.fail("uper-field-not-X691-10.2", "FX", f"@{t} oput {v[:80]}", cf[:200])
            else: ctx.count_nontrivial(("oput", t, len(inner)))
            if t in FIXW: fields.append((t, cf))
        # decoder side: as produced, with trailing data, every padding bit set, length surgery, every truncation
        glines = []; gm = []
        for t, fb in fields:
            k = FIXW[t]
            variants = {fb, fb + "1011", fb + "0" * 8}
            for i in range(8 + k, len(fb)): variants.add(fb[:i] + "1" + fb[i + 1:])
            for i in range(len(fb)): variants.add(fb[:i])
            for n in (0, 2, 3, 127, 128):
                variants.add(format(n, "08b") + fb[8:] + "0" * 24)
            variants.add("10" + format(1, "014b") + fb[8:])          # two-octet form of a short length
            variants.add("11000001" + fb[8:])                         # fragment marker without the data
            variants.add("11000101" + fb[8:]); variants.add("11000000" + fb[8:])
            for vb in sorted(variants):
                glines.append(f"@{t} oget {vb or '-'}"); gm.append(f"c18oget {k} {vb or '-'}")
        couts, _ = run_c(ctx, exe, glines)
        mouts = model_lines(ctx, gm)
        st2 = ctx.cov["correspondence"].setdefault("uper_open_type_get", {"lines": 0, "disagreements": 0, "c_crashes": 0})
        for l, c, mo_ in zip(glines, couts, mouts):
            st2["lines"] += 1
            c = str(c); cc = " ".join(c.split()[:2]) if c.startswith("ok") else c.split()[0]
            if cc != mo_:
                st2["disagreements"] += 1
                R.kdis.append({"kind": "uper_open_type_get", "op": l, "c": c[:100], "model": mo_})
            else:
                ctx.count_nontrivial(("oget", l))
                if mo_ == "fail": R.sample("uper_open_type_get-rejects", op=l, c=c, model=mo_)
        ctx.cov["evaluations"] += len(lines) + len(glines)
    finally:
        b.cleanup()

# ------------------------------------------------------------------ shapes outside the clean domain
def probe_shapes(R, findings):
    """one module per non-clean shape: record what the unchanged tree does (evidence: rejected / defective shapes)"""
    ctx = R.ctx
    g = genmod_ioc.IocGen(ctx.rng)
    shapes = [s for s in genmod_ioc.SHAPES if s != "clean"]
    mods = [g.gen_module("S" + s.replace("_", ""), s) for s in shapes]
    res = {}
    for (m, b, exe, err), s in zip(build_all(mods), shapes):
        fid = genmod_ioc.SHAPES[s][0]
        try:
            if err:
                res[s] = {"finding": fid, "observed": f"{err[0]}: {err[1]}"}
                continue
            env = dict(m["types"]); ioc = m["ioc"]; rows = ioc["rows"]
            vg = genmod.ValGen(ctx.rng, env)
            lines = ["@Frame ioc"]
            for row in rows[:3]:
                t = env.get(row["name"])
                if t is None: continue
                sx = genmod.val_sexp(t, vg.values(t, 1)[0], env)
                fsx = genmod_ioc.frame_sexp(m, row["id"], row["name"], sx, None, env)
                for syn in ("der", "uper", "cxer"):
                    if not c01.skip_region(syn, gfind.features(t, env), collections.Counter()): lines.append(f"@Frame rt {syn} {fsx}")
            if ioc["idkind"] != "OID":
                k_table_select(R, m, exe, want_complete=False)      # K also outside the clean domain (duplicate ids, dropped rows)
                R.stats["modules"] -= 1
            outs, _ = run_c(ctx, exe, lines)
            info = parse_ioc(str(outs[0])) or {"rows": None}
            nrows = len(info["rows"] or [])
            cls = collections.Counter()
            for l, o in zip(lines[1:], outs[1:]):
                o = str(o); mm = RT_RE.search(o)
                syn = l.split()[2]
                if o.startswith("CRASH"): cls[syn + ":crash"] += 1
                elif o.startswith("load-error"): cls[syn + ":no-such-row-in-open-type"] += 1
                elif mm and mm.group(1) == "ok" and mm.group(4) == "0": cls[syn + ":roundtrip"] += 1
                elif mm and mm.group(1) == "ok": cls[syn + ":decoded-differently"] += 1
                elif mm: cls[syn + ":decode-" + mm.group(1)] += 1
                else: cls[syn + ":" + o.split()[0]] += 1
            res[s] = {"finding": fid, "table_rows": nrows, "objects_in_set": len(genmod_ioc.spec_objects(m)), "observed": dict(cls)}
            ctx.cov["evaluations"] += len(lines)
        finally:
            cleanup(b)
    ctx.cov["predicate"]["shapes_outside_clean_domain"] = res
    ctx.cov["predicate"]["generator_restriction"] = {s: v[1] for s, v in genmod_ioc.SHAPES.items()}

def replay(ctx, path):
    r = json.load(open(path))
    ctx.lean()
    names = [n for n in re.findall(r"^\s*([A-Z][\w]*)\s*::=", r["module"], re.M) if n != "Frames"]
    b = bundle.Bundle("replay", r["module"], names, driver_sources=DS, opts=tuple(r.get("opts") or OPTS))
    exe = b.build()
    rc, outs, err = ctx.run_lines(exe, [r["op"]])
    print("replay:", r["op"][:300], "=>", (outs[0] if outs else "")[:600], err[-1500:] if rc else "")
    b.cleanup()

def run(ctx):
    ctx.lean()
    findings = load_findings(ctx)
    R = Run(ctx)
    gfind.replay_witnesses(ctx, driver_sources=DS)
    replay_fixed_witnesses(ctx)
    ctx.log("witnesses replayed")
    framing_correspondence(R)
    ctx.log("framing correspondence done")
    probe_shapes(R, findings)
    ctx.log("shapes probed")
    nb = 14 if ctx.quick else 80
    nvals = 5 if ctx.quick else 10
    nmut = 2500 if ctx.quick else 12000
    g = genmod_ioc.IocGen(ctx.rng)
    mods = []
    for i in range(nb):
        nrows = [1, 2, 3, 5][i] if i < 4 else None
        mods.append(g.gen_module(f"M{i}", "clean", nrows=nrows, open_opt=(True if i in (1, 5) else None), untagged=(True if i in (2, 6) else None),
                                 open_ext=(True if i == 7 else None)))
    # identifiers at the octet boundaries of the table cells' INTEGER_t / long constants, every row and every identifier without a
    # row that differs from one by 256; native and -fwide-types (asn1c then takes 0..32767 only), with and without -fcompound-names
    EDGE = [0, 1, 127, 128, 129, 255, 256, 257, 32767, 32768, 65535, 65536, -1, -127, -128, -129, -256, -32768, -32769]
    EDGEW = [v for v in EDGE if 0 <= v <= 32767]
    ge = genmod_ioc.IocGen(ctx.rng, max_depth=1)
    edge_mods = [ge.gen_module("E0", "clean", ids=EDGE, idkind="INTEGER", prim_rows=True),
                 ge.gen_module("E1", "clean", ids=EDGEW + [254, 130], idkind="INTEGER", opts=("-fwide-types",), prim_rows=True),
                 ge.gen_module("E2", "clean", ids=[255, 0, 128, 32767, 127, 256], idkind="CINT-named", opts=("-fwide-types",)),
                 ge.gen_module("E3", "clean", ids=[128, 255, 1, 129, 257], idkind="INTEGER", opts=("-fwide-types",), prim_rows=True)]
    edge_mods[3]["base_opts"] = ("-no-gen-example",)
    for em in edge_mods: em["all_unknown"] = True; em["light"] = True
    mods += edge_mods
    # the random modules under -fwide-types as well
    for i in range(3 if ctx.quick else 12):
        mods.append(g.gen_module(f"MW{i}", "clean", opts=("-fwide-types",), nrows=[2, 4, 6][i % 3]))
    # modules whose rows all have size-led specifics (the former F105-free sub-domain; kept for its row-type mix)
    gs = genmod_ioc.IocGen(ctx.rng, safe_rows=True)
    mods += [gs.gen_module(f"MS{i}", "clean") for i in range(4 if ctx.quick else 16)]
    built = 0
    for chunk in [mods[i:i + 8] for i in range(0, len(mods), 8)]:
        for m, b, exe, err in build_all(chunk):
            try:
                if err:
                    R.fail(f"clean-shape-rejected:{err[0]}", m, "build", err[1])
                    continue
                built += 1
                if m.get("light"): check_module(R, m, exe, 2, 300 if ctx.quick else 1500, findings)
                else: check_module(R, m, exe, nvals, nmut, findings)
                if "-fwide-types" in m.get("opts", ()): R.stats["modules_wide_types"] += 1
                ctx.log("module", m["name"], "rows", len(m["ioc"]["rows"]), dict(R.stats).get("mutated"), sum(R.known.values()), {k: round(v, 1) for k, v in R.times.items()})
            finally:
                cleanup(b)
    ctx.cov["evaluations"] += R.stats["cases"] + R.stats["mutated"] + sum(v for k, v in R.stats.items() if k.startswith("decodes_"))
    ctx.cov["programs"] = built
    ctx.cov["predicate"]["open_types"] = dict(R.stats)
    ctx.cov["predicate"]["skipped_known_regions_of_row_types"] = dict(R.skipped)
    ctx.cov["predicate"]["known_finding_hits"] = dict(R.known)
    for fid in R.known:
        if fid in findings: ctx.known(findings[fid])
    for d in R.kdis[:8]:
        ctx.log("K-DISAGREE", d["kind"], d.get("op", "")[:160], "C:", d["c"][:120], "MODEL:", d["model"][:120])
    if R.kdis:
        ctx.broken.append({"kind": "correspondence", "name": "open-type", "count": len(R.kdis), "first": R.kdis[:5]})
    if os.environ.get("C18_DEBUG"):
        json.dump(R.samples, open(os.environ["C18_DEBUG"], "w"), indent=1)
    nviol = 0
    for cls, n in R.fails.most_common(30):
        s = R.samples[cls]
        ctx.log("FAIL", n, cls, "|", s["op"][:160], "=>", s["c_output"][:120])
        if nviol < 5:
            nviol += 1
            rep = dict(s); rep["count_in_class"] = n
            ctx.violation(f"C18 fails on C ({cls}): {s['op'][:200]} -> {s['c_output'][:160]}", rep)
    ctx.cov["rule"] = ("generated class/object-set modules (1..9 rows, INTEGER ids unconstrained/constrained, class field order, extensible sets, default options and -fwide-types; "
                       "fixed identifier sets at the octet boundaries 0/1/127/128/129/255/256/257/32767/32768/65535/65536 and their negatives, unknown ids = row id +-256, "
                       "extra members, manual or automatic tags) x boundary-first row values x {DER,UPER,XER,CXER} round trip, BER/UPER framing oracles, "
                       "all row mismatches, unknown ids, truncations + bit flips; distinct = distinct (kind, syntax, module, input); non-trivial = reached "
                       "the selector / open type decoder (not a load or build error)")
    for cls in list(R.samples)[:3]: ctx.cov["samples"].append(R.samples[cls])
    ctx.cov["samples"] += list(R.cases.values())[:10]
