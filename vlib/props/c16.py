"""C16 — INTEGER and REAL conversion helpers are exact and canonical."""
import struct
from .. import build, core
from . import c16_real

def twos_val(bs):
    if not bs: return 0
    return int.from_bytes(bs, "big", signed=True)

def minimal(bs):
    if len(bs) < 2: return True
    if bs[0] == 0 and bs[1] < 0x80: return False
    if bs[0] == 0xff and bs[1] >= 0x80: return False
    return True

def hx(bs): return bytes(bs).hex() if bs else "-"
def unhx(s): return b"" if s == "-" else bytes.fromhex(s)

def boundary_ints():
    s = set()
    for k in range(0, 65):
        for d in (-2, -1, 0, 1, 2):
            for sg in (1, -1):
                s.add(sg * (1 << k) + d)
    for k in range(1, 9):           # every octet-length boundary
        for d in (-1, 0, 1):
            s.add((1 << (8 * k - 1)) + d); s.add(-(1 << (8 * k - 1)) + d)
    return s

def gen_octets(ctx):
    out = []
    # exhaustive up to 2 octets
    out.append(b"")
    out += [bytes([a]) for a in range(256)]
    out += [bytes([a, b]) for a in range(256) for b in range(256)]
    alpha = [0x00, 0x01, 0x7f, 0x80, 0xfe, 0xff]
    maxk = 5 if ctx.quick else 7
    import itertools
    for k in range(3, maxk + 1):
        for t in itertools.product(alpha, repeat=k):
            out.append(bytes(t))
    # long strings with paddings: sign-extension prefixes of boundary values
    for v in sorted(boundary_ints()):
        if -(1 << 64) <= v <= (1 << 64):
            n = max(1, (v.bit_length() + 8) // 8)
            base = v.to_bytes(n, "big", signed=True)
            for pad in (0, 1, 2, 5):
                p = (b"\xff" if v < 0 else b"\x00") * pad
                out.append(p + base)
    nrand = 3000 if ctx.quick else 100000
    for _ in range(nrand):
        k = ctx.rng.choice([3, 4, 7, 8, 8, 9, 9, 10, 12, 17])
        b = bytearray(ctx.rng.getrandbits(8) for _ in range(k))
        if ctx.rng.random() < 0.5:
            npad = ctx.rng.randrange(0, k)
            fill = ctx.rng.choice([0, 0xff])
            for i in range(npad): b[i] = fill
        out.append(bytes(b))
    return out

def gen_numerals(ctx):
    s = set()
    edges = [(1 << 63) - 1, 1 << 63, (1 << 63) + 1, (1 << 64) - 1, 1 << 64, (1 << 64) + 1,
             922337203685477580, 922337203685477581, 1844674407370955161, 1844674407370955162,
             0, 1, 9, 10, 99, 12345]
    for e in edges:
        for d in range(-12, 13):
            v = e + d
            if v < 0: continue
            for sign in ("", "+", "-"):
                for lead in ("", "0", "0000000000000000000000"):
                    for suf in ("", " ", "x", "5", "0", "00", "-", "+1", ".5"):
                        s.add(sign + lead + str(v) + suf)
    for t in ["", "+", "-", "++1", "--1", "+-1", " 1", "a", "-a", "+ 1", "-0", "+0", "00", "-00"]:
        s.add(t)
    n = 2000 if ctx.quick else 60000
    for _ in range(n):
        ln = ctx.rng.choice([1, 2, 5, 18, 19, 19, 20, 20, 21, 25])
        t = ctx.rng.choice(["", "", "+", "-"]) + "".join(ctx.rng.choice("0123456789") for _ in range(ln))
        if ctx.rng.random() < 0.3: t += ctx.rng.choice(["x", " ", "-", "9", "e5", "\x00"])
        if ctx.rng.random() < 0.3:
            # near the boundary
            base = ctx.rng.choice([1 << 63, 1 << 64]) + ctx.rng.randrange(-30, 30)
            t = ctx.rng.choice(["", "+", "-"]) + str(base) + ctx.rng.choice(["", "", "0", "z"])
        s.add(t)
    return sorted(s)

def spec_strto(op, text):
    """Spec: the parsers accept exactly the in-range numerals; returns 'ok v' for those,
    None when the spec only says "not OK"."""
    import re
    signed = op in ("strtoimax", "strtol")
    m = re.fullmatch(r"([+-]?)([0-9]+)", text)
    if not m: return None
    if not signed and m.group(1) == "-": return None
    v = int(text)
    lo, hi = (-(1 << 63), (1 << 63) - 1) if signed else (0, (1 << 64) - 1)
    if lo <= v <= hi: return v
    return None

def run(ctx):
    lib = build.build_skel("asan")
    drv = build.build_prog("prim_driver", ["prim_driver.c", "ops_integer.c", "ops_real.c"], libs=[lib])
    ctx.lean()
    ctx.cov["rule"] = ("boundary-exhaustive + random operations on the real conversion functions; "
                       "distinct = distinct (operation, C output) pairs; non-trivial = every case reaches the conversion body")
    ints = sorted(boundary_ints())
    lines = []
    for v in ints:
        if -(1 << 63) <= v < (1 << 63): lines.append(f"imax2I {v}")
        if 0 <= v < (1 << 64):
            lines.append(f"umax2I {v}"); lines.append(f"ulong2I {v}")
    n = 3000 if ctx.quick else 200000
    for _ in range(n):
        bits = ctx.rng.choice([8, 16, 31, 32, 33, 56, 63, 64])
        v = ctx.rng.getrandbits(bits) & ((1 << 64) - 1)
        sv = v - (1 << 64) if v >= (1 << 63) else v
        lines.append(f"imax2I {sv}"); lines.append(f"umax2I {v}"); lines.append(f"ulong2I {v}")
    octs = gen_octets(ctx)
    for b in octs:
        for op in ("I2imax", "I2umax"):
            lines.append(f"{op} {hx(b)}")
    for b in octs[::7]:
        lines.append(f"I2long {hx(b)}"); lines.append(f"I2ulong {hx(b)}"); lines.append(f"I_strip {hx(b)}" if b else "I2long -")
    for i in range(0, len(octs) - 1, 5):
        lines.append(f"I_cmp {hx(octs[i])} {hx(octs[(i * 7 + 3) % len(octs)])}")
    nums = gen_numerals(ctx)
    for t in nums:
        for op in ("strtoimax", "strtoumax"):
            lines.append(f"{op} {hx(t.encode('latin1'))}")
    for t in nums[::5]:
        lines.append(f"strtol {hx(t.encode('latin1'))}"); lines.append(f"strtoul {hx(t.encode('latin1'))}")

    dis, couts, mouts = ctx.correspond("integer", drv, lines)
    ctx.cov["distribution"]["integer_ops"] = len(lines)

    # ---- P leg: the property itself, evaluated on C's outputs (no model in the loop)
    pfail = []
    second = []     # round-trip ops
    second_src = []
    nP = 0
    for l, c in zip(lines, couts):
        t = l.split(); op = t[0]
        if c is None or c.startswith("CRASH"):
            pfail.append((l, c, "crash")); continue
        if op in ("imax2I", "umax2I", "ulong2I"):
            nP += 1
            v = int(t[1])
            if c in ("fail", "bad-op"): pfail.append((l, c, "conversion failed")); continue
            o = unhx(c)
            if not o or not minimal(o) or twos_val(o) != v:
                pfail.append((l, c, "stored octets are not the minimal two's complement form of v")); continue
            second.append(("I2imax " if op == "imax2I" else "I2umax ") + c); second_src.append((l, v))
        elif op in ("I2imax", "I2long", "I2umax", "I2ulong"):
            nP += 1
            b = unhx(t[1]); v = twos_val(b)
            lo, hi = (-(1 << 63), (1 << 63) - 1) if op in ("I2imax", "I2long") else (0, (1 << 64) - 1)
            exp = f"ok {v}" if lo <= v <= hi else "erange"
            if c != exp: pfail.append((l, c, f"expected {exp}"))
        elif op.startswith("strto"):
            nP += 1
            text = unhx(t[1]).decode("latin1")
            sv = spec_strto(op, text)
            if sv is not None:
                if c != f"ok {len(text)} {sv}": pfail.append((l, c, f"in-range numeral must be accepted: ok {len(text)} {sv}"))
            else:
                if c.startswith("ok "): pfail.append((l, c, "not an in-range numeral, yet accepted (OK)"))
    if second:
        c2, _ = ctx.run_c_bisect(drv, second)
        ctx.cov["evaluations"] += len(second)
        for (l, v), l2, c in zip(second_src, second, c2):
            if c != f"ok {v}": pfail.append((l + " ; " + l2, c, f"round trip must return ok {v}"))
    ctx.cov["predicate"]["integer"] = {"cases": nP + len(second), "failures": len(pfail)}

    def is_F2(l):  # asn_ulong2INTEGER >= 2^63
        t = l.split(); return t[0] == "ulong2I" and int(t[1]) >= (1 << 63)
    def is_F3(l):  # asn_INTEGER2umax/ulong on a negative INTEGER (finding fixed: match_finding returns None, the failure is a violation)
        t = l.split()
        return t[0] in ("I2umax", "I2ulong") and t[1] != "-" and int(t[1][:2], 16) >= 0x80
    unexplained = []
    for l, c, why in pfail:
        f = None
        if is_F2(l): f = ctx.match_finding(lambda f: f["id"] == "F2")
        elif is_F3(l): f = ctx.match_finding(lambda f: f["id"] == "F3")
        if not f: unexplained.append((l, c, why))
    for l, c, why in unexplained[:5]:
        ctx.violation(f"C16 predicate fails on C: {l} -> {c}: {why}", {"op": l, "c_output": c, "why": why, "driver": "prim_driver"})

    for i, l, c, m in dis[:50]:
        ctx.broken.append({"kind": "correspondence", "name": "integer", "op": l, "c": c, "model": m})
    if dis:
        ctx.log(f"integer correspondence: {len(dis)} disagreements, first: {dis[0][1:]}")

    c16_real.run(ctx, drv)

def replay(ctx, path):
    import json
    r = json.load(open(path))
    lib = build.build_skel("asan")
    drv = build.build_prog("prim_driver", ["prim_driver.c", "ops_integer.c", "ops_real.c"], libs=[lib])
    ctx.lean()
    ops = [r["op"]] if "op" in r else [b["op"] for b in r.get("broken", []) if "op" in b]
    c, _ = ctx.run_c_bisect(drv, ops)
    rc, m, _ = ctx.run_lines(build.model_exe(), ops)
    for o, a, b in zip(ops, c, m):
        print("replay:", o, "| C:", a, "| model:", b)
