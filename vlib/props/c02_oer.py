"""C02 (OER leg) — the bytes produced by the canonical-OER encoder are exactly the bytes ITU-T X.696 prescribes.

Oracle: the Lean reference codec `L2.Oer.encOER` / `decOER` (lean/Asn1cModel/L2/Oer.lean), written from
X.696 (08/2015) on the generator's type AST (OER-visible constraints per §8.2, CHOICE tags resolved by
`L2.Resolve` per X.680 §31).  It shares nothing with asn1c: no descriptor tables, own constraint
semantics.  C bytes != reference bytes is a failing input of C02 (symmetric encoder/decoder bugs, which
round-trip tests cannot see, show up here); C decode of its own bytes != reference decode likewise.

Known deviations of the unchanged tree are skipped *narrowly* (type feature x syntax) and counted in the
evidence.  SET OF is compared at full strength: SET_OF_encode_oer sorts the element encodings (finding F55, repaired)."""
import collections, os
from .. import build, core, genmod, bundle, gfind, l2k
from . import c01

T = lambda k, **kw: dict(k=k, **kw)
cons = genmod.cons

# ------------------------------------------------------------------ skip regions (confirmed deviations only)
def _walk(t, env, seen=None):
    seen = seen or set()
    yield t
    k = t["k"]
    if k == "REF":
        if t["name"] in seen: return
        yield from _walk(env[t["name"]], env, seen | {t["name"]})
    elif k in ("SEQUENCE", "SET", "CHOICE"):
        for c in t["comps"]: yield from _walk(c["type"], env, seen)
    elif k in ("SEQUENCE OF", "SET OF"):
        yield from _walk(t["elem"], env, seen)

def oer_features(t, env):
    out = set()
    for x in _walk(t, env):
        k = x["k"]
        if k == "SET": out.add("SET")
        if k == "SEQUENCE" and x.get("ext") is not None:
            if sum(1 for c in x["comps"][:x["ext"]] if c.get("opt")) >= 8: out.add("ext_seq_ge8_optional")   # F121 (decoder)
    return out

def oer_skip(syn, t, env, skipped):
    """-> finding id or None.  (F34, F36 and F120 are fixed in /repo.)"""
    feats = oer_features(t, env)
    fid = None
    if "SET" in feats: fid = "F32"
    if fid: skipped[fid] += 1
    return fid

# Proposed KNOWN_FINDINGS entries (reported to the coordinator); used until they are merged.
PROPOSED_FINDINGS = [
 {"id": "F121", "property": "C02", "properties": ["C02", "C01", "C03"], "status": "known",
  "what": "SEQUENCE_decode_oer tests the extension bit in phase 2 as ((uint8_t *)preamble->buffer)[0] & 0x80 after "
          "asn_get_few_bits has advanced preamble->buffer: for an extensible SEQUENCE with >= 8 OPTIONAL/DEFAULT root "
          "components (preamble > 1 octet) it reads bit 8 of the *second* preamble octet (the presence bit of the 8th optional "
          "component) instead of the extension bit: own encodings are answered RC_WMORE or decoded without their extension additions",
  "witness": {"module": "M DEFINITIONS AUTOMATIC TAGS ::= BEGIN T ::= SEQUENCE { a BOOLEAN OPTIONAL, b BOOLEAN OPTIONAL, c BOOLEAN OPTIONAL, "
                        "d BOOLEAN OPTIONAL, e BOOLEAN OPTIONAL, f BOOLEAN OPTIONAL, g BOOLEAN OPTIONAL, h BOOLEAN OPTIONAL, ... } END",
              "type": "T", "op": "rt oer (seq (h (bool t)))", "expect": "^ok 0080ff rc=more"},
  "matcher": "syntax == oer and stage == decode and the type contains an extensible SEQUENCE with >= 8 OPTIONAL/DEFAULT root components"},
]

def replay_proposed(ctx):
    """replays the witnesses of the proposed entries that are not (yet) among ctx.findings with a module witness"""
    import re
    have = {f["id"] for f in ctx.findings if f.get("witness", {}).get("op")}
    for f in PROPOSED_FINDINGS:
        if f["id"] in have: continue
        if hasattr(ctx, "assumptions"):
            ctx.assumptions.append(f"finding {f['id']} (C02 witness) is not in KNOWN_FINDINGS.json yet; using the proposed entry embedded in vlib/props/c02_oer.py")
        w = f["witness"]
        names = re.findall(r"(\w+)\s*::=", w["module"].split("BEGIN", 1)[1])
        b = bundle.Bundle("w" + f["id"], w["module"], names)
        try:
            exe = b.build()
            outs, _ = ctx.run_c_bisect(exe, [f"@{w['type']} {w['op']}"])
            if re.search(w["expect"], outs[0] or ""): ctx.known(f)
            else: ctx.log(f"note: finding {f['id']} no longer reproduces on its witness ({(outs[0] or '')[:120]})")
        except Exception as e:
            ctx.log(f"note: witness of {f['id']} could not be built: {str(e)[:120]}")
        finally:
            b.cleanup()

# ------------------------------------------------------------------ fixed module of OER boundary shapes
def oer_shapes_module(rng, quick=True):
    types = []; vals = {}
    def add(n, t, vs): types.append((n, t)); vals[n] = vs
    # X.696 10: every width boundary, unsigned and signed
    P = lambda k: 1 << k
    ranges = [(0, P(8) - 1), (0, P(8)), (0, P(16) - 1), (0, P(16)), (0, P(32) - 1), (0, P(32)), (0, P(63) - 1), (0, P(63)),
              (0, P(64) - 1), (0, P(64)), (1, P(64)), (255, 255), (256, 256), (P(32), P(32)),
              (-P(7), P(7) - 1), (-P(7) - 1, P(7) - 1), (-P(7), P(7)), (-P(15), P(15) - 1), (-P(15) - 1, 0), (-1, P(15)),
              (-P(31), P(31) - 1), (-P(31) - 1, P(31) - 1), (-P(31), P(31)), (-P(63), P(63) - 1), (-P(63) - 1, P(63) - 1),
              (-P(63), P(63)), (-1, P(64) - 1), (-1, 0), (-1, -1), (-P(64), -1), (-1, P(64)), (-P(64) - 1, P(64))]
    for i, (lo, hi) in enumerate(ranges):
        vs = {lo, hi, min(lo + 1, hi), max(hi - 1, lo), (lo + hi) // 2}
        for e in (0, 1, -1, 127, 128, 255, 256, -128, -129, 65535, 65536, P(31), P(32) - 1, P(32), P(63) - 1, P(63), -P(63), -P(31) - 1):
            if lo <= e <= hi: vs.add(e)
        add(f"OI{i}", T("INTEGER", cons=cons(lo, hi)), sorted(vs))
    for i, c in enumerate([None, cons(0, None), cons(1, None), cons(-1, None), cons(None, 0), cons(None, -1), cons(0, 255, True), cons(-128, 127, True), cons(P(63), None)]):
        vs = sorted(v for v in genmod.int_boundaries(c) | {P(63) - 1, -P(63)} if (c is None or genmod.in_cons(c, v)) and -P(63) <= v < P(63)
                    and not (c and genmod.int_repr(c) == "ulong" and v < 0))
        add(f"OJ{i}", T("INTEGER", cons=c), vs)
    # X.696 11: ENUMERATED short/long form
    ev = [0, 1, 127, 128, 129, 255, 256, 32767, 32768, 65535, 8388607, 8388608, 2147483647]
    add("OE0", T("ENUMERATED", items=[(f"p{v}", v) for v in ev]), ev)
    en = [-2147483648, -8388609, -8388608, -32769, -32768, -129, -128, -1, 0, 5]
    add("OE1", T("ENUMERATED", items=[(f"n{i}", v) for i, v in enumerate(en)]), en)
    add("OE2", T("ENUMERATED", items=[("a", None), ("b", None)], ext=[("c", None), ("d", 128)]), [0, 1, 2, 128])
    # X.696 8.7 / 20: tags 0/62/63/64/127/128/16383/16384 in all four classes
    nums = [0, 62, 63, 64, 127, 128, 16383, 16384, 2097151, 2097152]
    for cl in ("univ", "app", "ctx", "priv"):
        ns = [n for n in nums if not (cl == "univ" and n < 31)] + ([1000, 100] if cl == "univ" else [])   # keep UNIVERSAL tags off the built-in ones
        add(f"OC{cl}", T("CHOICE", comps=[{"id": f"{cl[0]}{n}", "type": T("INTEGER", cons=cons(0, 255), tag=(cl, n, "IMPLICIT"))} for n in ns]),
            [(f"{cl[0]}{n}", n % 256) for n in ns])
    add("OCmix", T("CHOICE", comps=[
        {"id": "ma", "type": T("BOOLEAN")}, {"id": "mb", "type": T("INTEGER", cons=None)}, {"id": "mc", "type": T("OCTET STRING", size=None)},
        {"id": "md", "type": T("NULL", tag=("ctx", 62, "EXPLICIT"))}, {"id": "me", "type": T("IA5String", size=None, tag=("app", 63, "EXPLICIT"))},
        {"id": "mf", "type": T("SEQUENCE", comps=[{"id": "mf1", "type": T("BOOLEAN")}])},
        {"id": "mg", "type": T("SEQUENCE OF", elem=T("NULL"), size=None, tag=("priv", 300, "IMPLICIT"))}]),
        [("ma", True), ("mb", -129), ("mc", b"\x01\x02"), ("md", None), ("me", "x"), ("mf", {"mf1": False}), ("mg", [None, None])])
    # extensible CHOICE: extension alternatives are open types
    add("OCext", T("CHOICE", ext=2, comps=[
        {"id": "xa", "type": T("BOOLEAN", tag=("ctx", 0, ""))}, {"id": "xb", "type": T("INTEGER", cons=cons(0, 65535), tag=("ctx", 1, ""))},
        {"id": "xc", "type": T("NULL", tag=("ctx", 2, ""))}, {"id": "xd", "type": T("OCTET STRING", size=None, tag=("ctx", 63, ""))},
        {"id": "xe", "type": T("INTEGER", cons=None, tag=("ctx", 200, ""))}]),
        [("xa", False), ("xb", 258), ("xc", None), ("xd", b""), ("xd", bytes(range(127))), ("xd", bytes(128)), ("xe", 0), ("xe", -32769)])
    # X.696 16: preamble with 0/1/7/8/9/16/17 optional components, with and without extension bit
    def optseq(n, ext, nadds=0, mand=True):
        comps = ([{"id": "m", "type": T("INTEGER", cons=cons(0, 255))}] if mand else [])
        comps += [{"id": f"o{i}", "type": T("INTEGER", cons=cons(0, 255)), "opt": ("OPTIONAL" if i % 3 else ("DEFAULT", "7", 7))} for i in range(n)]
        t = T("SEQUENCE", comps=comps)
        if ext:
            t["ext"] = len(comps)
            for j in range(nadds):
                comps.append({"id": f"x{j}", "type": [T("BOOLEAN"), T("OCTET STRING", size=None), T("INTEGER", cons=None), T("NULL")][j % 4], "opt": "OPTIONAL"})
        return t
    def optvals(t, rng):
        ids = [c["id"] for c in t["comps"] if c.get("opt")]
        def val(c, sel):
            k = c["type"]["k"]
            return {"INTEGER": (sel * 37 + 1) % 200 + 8 if c["type"].get("cons") else -sel - 200, "BOOLEAN": bool(sel % 2), "OCTET STRING": bytes(sel % 300), "NULL": None}[k]
        out = []
        pats = [set(), set(ids), set(ids[::2]), set(ids[1::2]), set(ids[:1]), set(ids[-1:]), set(ids[7:9]), set(i for i in ids if i.startswith("x")),
                set(i for i in ids if i.startswith("o")), set(i for i in ids if i.startswith("x"))and set([i for i in ids if i.startswith("x")][-1:])]
        for _ in range(4): pats.append(set(i for i in ids if rng.random() < 0.5))
        seen = []
        for sel, p in enumerate(pats):
            if p in seen: continue
            seen.append(p)
            v = {}
            for c in t["comps"]:
                if not c.get("opt") or c["id"] in p: v[c["id"]] = val(c, sel + len(c["id"]))
            out.append(v)
        return out
    for n in (0, 1, 7, 8, 9, 15, 16, 17):
        for ext, nadds in ((False, 0), (True, 0), (True, 1), (True, 3)):
            if n == 0 and not ext: continue
            if nadds == 3 and n not in (0, 7, 8): continue
            t = optseq(n, ext, nadds)
            add(f"OS{n}{'e' if ext else 'n'}{nadds}", t, optvals(t, rng))
    for nadds in (7, 8, 9, 16, 17):
        t = optseq(1, True, nadds, mand=False)
        add(f"OSa{nadds}", t, optvals(t, rng))
    # mandatory extension additions, DEFAULT among the additions is not generated (F16 family lives in UPER)
    add("OSm", T("SEQUENCE", ext=1, comps=[{"id": "q", "type": T("BOOLEAN")}, {"id": "r", "type": T("INTEGER", cons=cons(0, 7))},
                                          {"id": "s", "type": T("IA5String", size=cons(2, 2)), "opt": "OPTIONAL"}]),
        [{"q": True, "r": 3}, {"q": False, "r": 0, "s": "ab"}])
    add("OSempty", T("SEQUENCE", comps=[]), [{}])
    add("OSemptyE", T("SEQUENCE", comps=[], ext=0), [{}])
    # X.696 13/14/27: fixed-size strings have no length determinant
    def s(n): return "".join(rng.choice("AZ09") for _ in range(n))
    add("OFo0", T("OCTET STRING", size=cons(0, 0)), [b""])
    add("OFo3", T("OCTET STRING", size=cons(3, 3)), [b"\x00\x01\xff", b"abc"])
    add("OFo128", T("OCTET STRING", size=cons(128, 128)), [bytes(range(128))])
    add("OFoE", T("OCTET STRING", size=cons(3, 3, True)), [b"abc", b"abcd", b""])
    add("OFoR", T("OCTET STRING", size=cons(3, 4)), [b"abc", b"abcd"])
    for n in (1, 7, 8, 9, 16, 17):
        nb = (n + 7) // 8; u = nb * 8 - n
        vs = []
        for _ in range(3):
            b = bytearray(rng.getrandbits(8) for _ in range(nb)); b[-1] = (b[-1] & (0xff << u) & 0xff) | (1 << u)
            vs.append((bytes(b), u))
        add(f"OFb{n}", T("BIT STRING", size=cons(n, n)), vs)
    add("OFbE", T("BIT STRING", size=cons(9, 9, True)), [(b"\xff\x80", 7), (b"\xc0", 6), (b"", 0)])
    add("OFbV", T("BIT STRING", size=None), [(b"", 0), (b"\x80", 7), (b"\xff", 0), (b"\xaa\x40", 6), (bytes(126) + b"\x01", 0), (bytes(127) + b"\x02", 1)])
    for k in ("IA5String", "VisibleString", "PrintableString", "NumericString", "BMPString", "UniversalString", "UTF8String"):
        mk = (lambda n: "".join(rng.choice("0123456789") for _ in range(n)))
        add(f"OFs{k[:3]}4", T(k, size=cons(4, 4)), [mk(4)])
        add(f"OFs{k[:3]}R", T(k, size=cons(1, 4)), [mk(1), mk(4)])
        add(f"OFs{k[:3]}E", T(k, size=cons(4, 4, True)), [mk(4), mk(5)])
    add("OFsA", T("IA5String", size=cons(2, 2), alpha=[("A", "Z")]), ["AZ"])
    # X.696 17/19: quantity field
    # (the harness splits a line into at most 65536 tokens, so the 65535/65536 boundary of the count is
    #  out of reach here; it is covered by the L1 theorems on the length determinant / INTEGER shapes)
    add("OQb", T("SEQUENCE OF", elem=T("BOOLEAN"), size=None), [[bool(rng.getrandbits(1)) for _ in range(n)] for n in (0, 1, 127, 128, 255, 256, 30000)])
    add("OQs", T("SEQUENCE OF", elem=T("INTEGER", cons=cons(0, 7)), size=cons(2, 2)), [[1, 2]])
    add("OQset", T("SET OF", elem=T("INTEGER", cons=None), size=None), [[], [5], [1, 2, 3], [0, 0], [-1, -1, -1]])
    add("OQn", T("SEQUENCE OF", elem=T("NULL"), size=None), [[None] * n for n in (0, 1, 200)])
    # REAL, OID, time
    add("OR", T("REAL"), [0, 0x8000000000000000, 0x7ff0000000000000, 0xfff0000000000000, 0x3ff0000000000000, 0xbff8000000000000, 0x7fefffffffffffff, 0x3fb999999999999a,
                        0x0000000000000003, 0x800fffffffffffff, 0x3ff0200000000000])   # subnormals, shift-by-5 mantissa (F1/F31 repaired)
    add("OOid", T("OBJECT IDENTIFIER"), [[1, 2], [2, 999, 3], [0, 39, 16383, 16384], [1, 2] + [4294967295] * 30])
    add("ORoid", T("RELATIVE-OID"), [[0], [127, 128], [4294967295] * 26])
    add("OUt", T("UTCTime"), ["991231235959Z"]); add("OGt", T("GeneralizedTime"), ["20240229120000Z", "19000101000000.5Z"])
    add("ONull", T("NULL"), [None]); add("OBool", T("BOOLEAN"), [True, False])
    return {"name": "OERB", "tagdefault": "AUTOMATIC", "types": types}, vals

def set_to_sequence(t):
    """SET has no OER codec in asn1c (F32): to keep the generated modules inside the comparable region
    every SET is rewritten as a SEQUENCE with the same components (values are dicts by identifier in both
    cases; the generator tags every SET component, so the result is a legal SEQUENCE)."""
    t = dict(t)
    if t["k"] == "SET": t["k"] = "SEQUENCE"
    if t["k"] in ("SEQUENCE", "CHOICE"):
        t["comps"] = [dict(c, type=set_to_sequence(c["type"])) for c in t["comps"]]
    elif t["k"] in ("SEQUENCE OF", "SET OF"):
        t["elem"] = set_to_sequence(t["elem"])
    return t

def run_oer(ctx):
    replay_proposed(ctx)
    nb = 6 if ctx.quick else 40
    nvals = 8 if ctx.quick else 25
    mods = c01.gen_bundles(ctx, nb)
    # every second generated module keeps its SETs (F32 region skipped), the others are rewritten
    for i, m in enumerate(mods):
        if i % 2 == 0: m["types"] = [(n, set_to_sequence(t)) for n, t in m["types"]]
    bm, bvals = genmod.boundary_module(ctx.rng, ctx.quick)
    om, ovals = oer_shapes_module(ctx.rng, ctx.quick)
    cases = [(om, ovals), (bm, bvals)]
    for m in mods:
        env = dict(m["types"])
        vg = genmod.ValGen(ctx.rng, env)
        cases.append((m, {n: vg.values(t, nvals) for n, t in m["types"]}))
    skipped = collections.Counter()
    allst = collections.Counter(); alldis = []
    for m, vals in cases:
        env = dict(m["types"])
        def sk(syn, t, env_, skipped=skipped): return oer_skip(syn, t, env_, skipped) is not None
        nbroken = len(ctx.broken)
        st, dis = l2k.k_leg(ctx, "oer:" + m["name"], [(m, vals)], [("oer", "oer", "oer", "oer")], skip=sk, max_report=0)
        del ctx.broken[nbroken:]
        for d in dis: d["_t"] = env[d["type"]]
        # F121: the C *decoder* misreads the extension bit of SEQUENCEs with >= 8 optional root components
        # (the encoder is right and stays compared)
        keep = []
        for d in dis:
            if d["stage"] == "decode" and "ext_seq_ge8_optional" in oer_features(d["_t"], env) \
                    and ctx.match_finding(lambda f: f["id"] == "F121" and f.get("property") == "C02"):
                skipped["F121"] += 1; st["oer_dec_diff"] -= 1; st["oer_dec_F121"] += 1
            else: keep.append(d)
        dis = keep
        ctx.cov["correspondence"]["oer:" + m["name"]] = dict(st)
        allst.update(st); alldis += dis
    compared = allst["oer_enc_same"] + allst["oer_enc_diff"]
    allst["oer_enc_total"] = compared + allst["skipped_region"] + allst["unsupported_type"]
    allst["oer_enc_compared"] = compared
    ctx.cov["predicate"]["oer_bytes_eq_reference"] = dict(allst)
    ctx.cov["predicate"]["oer_skipped_known_regions"] = dict(skipped)
    for d in alldis[:5]:
        ctx.violation(f"C02: C oer {d['stage']} differs from the X.696 reference for type {d['type']}: {d['op'][:160]} C={d['c'][:100]} ref={d['model'][:100]}",
                      {"module": d["module"], "type": d["type"], "op": d["op"], "c_output": d["c"], "reference": d["model"], "syntax": "oer", "stage": d["stage"]})
    ctx.log("C02 OER:", dict(allst), "skipped", dict(skipped))
    return allst, alldis
