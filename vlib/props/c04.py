"""C04 — decoding arbitrary bytes is memory-safe, terminates, and reports consistently."""
import collections, re
from .. import bervar, build, core, genmod, bundle, gfind, mutate
from . import c01, l1per

DEC = {"der": "ber", "uper": "uper", "oer": "oer", "xer": "xer", "cxer": "xer"}

DIRECTED_MODULE = ("XD DEFINITIONS AUTOMATIC TAGS ::= BEGIN XUtf ::= UTF8String XIa5 ::= IA5String XBmp ::= BMPString "
                   "XUni ::= UniversalString XGt ::= GeneralizedTime XBool ::= BOOLEAN XInt ::= INTEGER XNull ::= NULL "
                   "XOct ::= OCTET STRING XBits ::= BIT STRING XEnum ::= ENUMERATED { red, green, blue-sky } END")

def directed_xer(ctx):
    """decoder inputs aimed at repaired findings (c01_xer.DIRECTED: numeric character references without digits / of value
    zero - F152 was an assert -, white space and value tags named like the element inside primitive elements) and their
    truncations, through the full pipeline (decode, print, validate, re-encode, free)"""
    from .. import c01_xer
    names = re.findall(r"(\w+) ::=", DIRECTED_MODULE.split("BEGIN", 1)[1])
    b = bundle.Bundle("XD", DIRECTED_MODULE, names)
    bad = []
    try:
        exe = b.build()
        lines = []
        for n, data in c01_xer.DIRECTED:
            if n not in names: continue
            for d in [data] + [data[:k] for k in range(max(0, len(data) - 12), len(data))]:
                lines.append((f"@{n} dec xer {d.hex() if d else '-'}", len(d)))
        # named and numeric character references cut at EVERY offset (the input is an exact-size heap copy: a look-ahead past the
        # end of a truncated reference is an ASan report), for every string kind that goes through the XER text converter
        for n, body in (("XUtf", b"a&lt;b&amp;c&gt;d&#65;&#x42;e"), ("XIa5", b"&amp;&lt;&gt;x&amp;"), ("XBmp", b"p&lt;q&amp;r&gt;"),
                        ("XUni", b"&gt;&#x263A;&lt;"), ("XGt", b"2024&#48;229120000Z")):
            data = b"<" + n.encode() + b">" + body + b"</" + n.encode() + b">"
            for k in range(len(data) + 1):
                d = data[:k]
                lines.append((f"@{n} dec xer {d.hex() if d else '-'}", len(d)))
        outs, _ = ctx.run_c_parallel(exe, [l for l, _ in lines], timeout=300, env={"VERIF_LINE_TIMEOUT": "1"})
        for (l, size), o in zip(lines, outs):
            ctx.cov["evaluations"] += 1
            mm = re.match(r"(ok|more|fail) (\d+) ", str(o))
            if o == "HANG" or o is None or str(o).startswith("CRASH") or not mm or int(mm.group(2)) > size: bad.append((l, str(o)))
            else: ctx.count_nontrivial(("directed-xer", hash(l)))
        ctx.cov["predicate"]["directed_xer"] = {"cases": len(lines), "failures": len(bad)}
    finally:
        b.cleanup()
    for l, o in bad[:3]:
        ctx.violation(f"C04: decoding misbehaves on a directed XER input: {l[:160]} -> {o[:200]}",
                      {"module": DIRECTED_MODULE, "type": l.split()[0][1:], "op": l, "c_output": o[:3000], "why": "crash / hang / inconsistent result"})

def run(ctx):
    ctx.lean()
    from .. import c05_stream
    c05_stream.audit_once(ctx)      # stream_consumed_le / berDec_consumed_le / stream_rc_total: the C04 half of the streaming BER model
    gfind.replay_witnesses(ctx)
    gfind.replay_fixed_witnesses(ctx)      # former witnesses of repaired findings must not reproduce
    directed_xer(ctx)
    nb = 3 if ctx.quick else 30
    nvals = 3 if ctx.quick else 8
    mods = c01.gen_bundles(ctx, nb, allow_recursion=True)
    stats = collections.Counter()
    fails = []          # (module text, type, op line, output, why)
    for m in mods:
        txt = genmod.module_text(m); env = dict(m["types"])
        b = bundle.Bundle(m["name"], txt, [n for n, _ in m["types"]])
        try: exe = b.build()
        except Exception as e:
            stats["build_failed"] += 1; ctx.module_not_built(m, e); b.cleanup(); continue
        vg = genmod.ValGen(ctx.rng, env)
        # 1. valid encodings from C itself
        enc_lines, meta = [], []
        for n, t in m["types"]:
            feats = gfind.features(t, env)
            for v in vg.values(t, nvals):
                sx = genmod.val_sexp(t, v, env)
                for syn in c01.SYNTAXES:
                    if c01.skip_region(syn, feats, collections.Counter()): continue
                    enc_lines.append(f"@{n} enc {syn} {sx}"); meta.append((n, syn))
        outs, _ = ctx.run_c_bisect(exe, enc_lines)
        corpus = []
        for (n, syn), o in zip(meta, outs):
            if o and o.startswith("ok ") and len(o) < (1200 if ctx.quick else 6000):
                corpus.append((n, syn, bytes.fromhex(o[3:]) if o[3:] != "-" else b""))
        # 2. malformed stream
        lines, lmeta = [], []
        def add(n, syn, data, kind):
            lines.append(f"@{n} dec {DEC[syn]} {data.hex() if data else '-'}"); lmeta.append((n, syn, len(data), kind))
        for n, syn, data in corpus:
            add(n, syn, data, "valid")
            for d in mutate.truncations(data, cap=32 if ctx.quick else 400): add(n, syn, d, "trunc")
            for d in (mutate.all_bitflips(data, 6 if ctx.quick else 64)): add(n, syn, d, "flip")
            for d in mutate.surgery(data, ctx.rng, 8 if ctx.quick else 60): add(n, syn, d, "surgery")
            for d in mutate.byte_sweep(data, 12 if ctx.quick else 64): add(n, syn, d, "sweep")
            if syn == "der" and data:
                # indefinite-length forms with damaged end-of-contents octets (00 00 -> 00 ff / ff 00 / 00 / 00 01 …): the
                # end-of-contents scanning loops of the constructed decoders (the CHOICE_decode_ber loop of finding F141 needed
                # exactly `00 xx` after an indefinite tagged CHOICE) are not reached by mutating definite-length DER
                try:
                    for vname, vb in bervar.variants(data, ctx.rng, 1, strings=False)[:2]:
                        if vname != "all-indefinite" or vb == data: continue
                        add(n, syn, vb, "indef")
                        eocs = [i for i in range(len(vb) - 1) if vb[i] == 0 and vb[i + 1] == 0]
                        for i in (eocs if len(eocs) <= 6 else ctx.rng.sample(eocs, 6)):
                            for rep in (b"\x00\xff", b"\xff\x00", b"\x00\x01", b"\x00", b""):
                                add(n, syn, vb[:i] + rep + vb[i + 2:], "indef-eoc")
                        for d in mutate.truncations(vb, cap=8 if ctx.quick else 64): add(n, syn, d, "indef-trunc")
                except Exception:
                    pass
        # splices of two encodings and random bytes, against every type
        # admissible (type, syntax) pairs (e.g. no UPER/OER decoding of types containing SET: F32)
        pairs = []
        for n, t in m["types"]:
            feats = gfind.features(t, env)
            pairs += [(n, syn) for syn in c01.SYNTAXES if not c01.skip_region(syn, feats, collections.Counter())]
        for _ in range(40 if ctx.quick else 400):
            if len(corpus) >= 2 and pairs:
                a, c = ctx.rng.choice(corpus), ctx.rng.choice(corpus)
                cut = ctx.rng.randrange(len(a[2]) + 1)
                cand = [p for p in pairs if p[1] == a[1]]
                if cand: add(ctx.rng.choice(cand)[0], a[1], a[2][:cut] + c[2], "splice")
        for d in mutate.randoms(ctx.rng, 60 if ctx.quick else 600):
            if pairs:
                n, syn = ctx.rng.choice(pairs)
                add(n, syn, d, "random")
        outs, crashes = ctx.run_c_parallel(exe, lines, timeout=900, env={"VERIF_LINE_TIMEOUT": "1"})
        for l, o, (n, syn, size, kind) in zip(lines, outs, lmeta):
            stats["cases"] += 1; stats["kind:" + kind] += 1
            why = None
            if o == "HANG": why = "hang: decoder does not return"
            elif o is None or o.startswith("CRASH"): why = "crash: " + str(o)[:300]
            else:
                mm = re.match(r"(ok|more|fail) (\d+) ", o)
                if not mm: why = "bad return code / output: " + o[:80]
                else:
                    stats["rc:" + mm.group(1)] += 1
                    if int(mm.group(2)) > size: why = f"consumed {mm.group(2)} > size {size}"
                    elif kind == "valid" and mm.group(1) != "ok": why = "valid encoding not decoded: " + o[:60]
            if why: fails.append((txt, n, l, str(o), why, syn))
            else: ctx.count_nontrivial((kind, syn, hash(l)))
        b.cleanup()
    ctx.cov["evaluations"] += stats["cases"]
    ctx.cov["distribution"] = dict(stats)
    ctx.cov["predicate"]["malformed_stream"] = {"cases": stats["cases"], "failures": len(fails)}
    ctx.cov["rule"] = ("valid encodings produced by C for generated modules (incl. a recursive type), then truncation at every offset, "
                       "single-bit flips, length/tag surgery, splices, random bytes; each decoded under ASan+UBSan+LSan and the result printed, "
                       "validated, re-encoded and freed; non-trivial = distinct (mutation kind, syntax, input)")
    # classification
    unexplained = []
    for f in fails:
        txt, n, l, o, why, syn = f
        if "INTEGER_decode_oer" in o or ("INTEGER_oer.c" in o):
            if ctx.match_finding(lambda k: k["id"] == "F5"): continue
        if o == "HANG" and syn == "der" and "80" in l:
            if ctx.match_finding(lambda k: k["id"] == "F141"): continue
        if "heap-buffer-overflow" in o and "INTEGER_decode_oer" in o:
            if ctx.match_finding(lambda k: k["id"] == "F5"): continue
        if "LeakSanitizer" in o:
            # the leak is the CANONICAL-XER re-encoding of the decoded structure (SET_OF_encode_xer failure paths, F21)
            if ctx.match_finding(lambda k: k["id"] == "F21"): continue
        if "UniversalString.c:100" in o and "left shift" in o:
            if ctx.match_finding(lambda k: k["id"] == "F50"): continue
        if "OCTET_STRING.c:587" in o and ("shift exponent" in o or "left shift" in o):
            if ctx.match_finding(lambda k: k["id"] == "F52"): continue
        if "OCTET_STRING.c:1224" in o and "shift exponent" in o:
            if ctx.match_finding(lambda k: k["id"] == "F71"): continue
        if "stack-overflow" in o and "_constraint" in o:
            if ctx.match_finding(lambda k: k["id"] == "F48"): continue
        unexplained.append(f)
    sig = collections.Counter()
    first = {}
    for f in unexplained:
        m2 = re.search(r"(\S+\.[ch]:\d+)", f[4]) if f[4].startswith("crash") else None
        key = (f[5], m2.group(1) if m2 else f[4][:50])
        sig[key] += 1; first.setdefault(key, f)
    for key, cnt in sig.most_common(12):
        ctx.log("  class", cnt, key, "| e.g.", first[key][2][:100])
    unexplained = [first[k] for k, _ in sig.most_common()]
    for txt, n, l, o, why, syn in unexplained[:5]:
        ctx.violation(f"C04: decoding arbitrary bytes misbehaves for type {n} ({syn}): {why} on {l[:120]}",
                      {"module": txt, "type": n, "op": l, "c_output": o, "why": why})
    ctx.log("C04:", {k: v for k, v in stats.items() if not k.startswith("kind")}, "failures", len(fails), "unexplained", len(unexplained))
    # K leg for the readers whose in-bounds theorems are audited here
    l1per.run(ctx)

def replay(ctx, path):
    c01.replay(ctx, path)
