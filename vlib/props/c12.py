"""C12 — compiler output is deterministic and invariant under pretty-print round trip.

L: Props/C12.lean (parse_print, print_fixpoint, print_injective on the printed subset; module lookup is
   invariant under permutation of the module list).
K: token text of `asn1c -E` = token text of the Lean `print` on the generator's subset.
P: (1) two/three runs of asn1c on the same module (normal, `setarch -R` = ASLR off, large environment +
       MALLOC_PERTURB_) -> byte-identical file sets;
   (2) module set split into 2-4 files with IMPORTS, and sets of 2-3 modules that define a top-level type of the
       same name / colliding inner member names, every permutation of the file list -> identical per-type .c/.h;
   (3) `asn1c -E` text re-fed to `asn1c -E`: accepted, identical (one and two applications), over generated
       modules and the shipped corpus (tests/tests-asn1c-compiler/*-OK*.asn1, examples/*.asn1);
   (4) generated non-parameterized modules: code generated from the printed text = code generated from the original."""
import os, re, glob, json, shutil, itertools, collections, platform
from .. import build, core, genmod, cgen

PROPOSED_FINDINGS = []      # F90 ('ANY DEFINED BY' printed as 'ANY') is repaired: its witness and neighbours are directed cases below

# former witness of F90 and its neighbourhood: (tag, module); each must be accepted, print to a fixpoint and keep the words DEFINED BY
ANY_DEFINED_BY = [
 ("F90-witness", "M DEFINITIONS ::= BEGIN T ::= SEQUENCE { algorithm OBJECT IDENTIFIER, parameters ANY DEFINED BY algorithm OPTIONAL } END"),
 ("F90-mandatory", "M DEFINITIONS ::= BEGIN T ::= SEQUENCE { type INTEGER, value ANY DEFINED BY type } END"),
 ("F90-tagged", "M DEFINITIONS ::= BEGIN T ::= SEQUENCE { type INTEGER, value [0] ANY DEFINED BY type, plain ANY OPTIONAL } END"),
 ("F90-set", "M DEFINITIONS ::= BEGIN T ::= SET { id OBJECT IDENTIFIER, v [1] EXPLICIT ANY DEFINED BY id } U ::= ANY END"),
 # character string values with embedded quotation marks (printed doubled), incl. the string that is just one quotation mark
 ("cstring-quotes", 'M DEFINITIONS ::= BEGIN A ::= IA5String (FROM("a" | """" | "z")) B ::= SEQUENCE { s IA5String DEFAULT """", t UTF8String DEFAULT "a""b", '
                    'u IA5String DEFAULT """""" } q IA5String ::= """" r IA5String ::= "x""" w IA5String ::= """y" C ::= IA5String (""""|"ab""cd") END'),
 # Tuple / Quadruple character values in permitted alphabets (rows and cells >= 128); no plain number may follow a quadruple
 # in the same file (finding F232: the lexer leaves errno = ERANGE behind)
 ("quadruple-alphabets", "M DEFINITIONS ::= BEGIN A ::= BMPString (FROM({0,0,172,0}..{0,0,215,163})) B ::= UniversalString (FROM({0,1,244,0}..{0,1,246,79})) "
                         "C ::= BMPString (FROM({0,0,255,253} | {0,0,128,0})) D ::= IA5String (FROM({1,0}..{7,15})) END"),
 ("value-notation", "M DEFINITIONS ::= BEGIN i INTEGER ::= -5 b BOOLEAN ::= TRUE o OCTET STRING ::= 'AB01'H s BIT STRING ::= '0101'B "
                    "id OBJECT IDENTIFIER ::= { 1 2 840 } T ::= INTEGER (i..10) U ::= SEQUENCE { a INTEGER DEFAULT i, f BOOLEAN DEFAULT b } END"),
]

OPTSETS = [("compound", ["-fcompound-names"]), ("default", []), ("wide-noper", ["-fwide-types", "-no-gen-PER", "-fcompound-names"]),
           ("indirect-nooer", ["-findirect-choice", "-no-gen-OER", "-fcompound-names"])]

# ------------------------------------------------------------------ module -> model line
BUILTIN = {"BOOLEAN": "BOOLEAN", "NULL": "NULL", "REAL": "REAL", "OBJECT IDENTIFIER": "OID", "RELATIVE-OID": "RELOID",
           "UTCTime": "UTCTime", "GeneralizedTime": "GeneralizedTime", "BIT STRING": "BITSTRING", "OCTET STRING": "OCTETSTRING",
           "IA5String": "IA5String", "VisibleString": "VisibleString", "PrintableString": "PrintableString",
           "NumericString": "NumericString", "UTF8String": "UTF8String", "BMPString": "BMPString", "UniversalString": "UniversalString"}

def m_tag(t):
    if not t: return "-"
    cls, num, mode = t
    return {"ctx": "c", "app": "a", "priv": "p", "univ": "u"}[cls] + str(num) + {"": "d", "IMPLICIT": "i", "EXPLICIT": "e"}[mode]

def m_val_int(v): return "min" if v == "MIN" else "max" if v == "MAX" else f"i{v}"

def m_eset_range(c):
    lo = "min" if c["lo"] is None else f"i{c['lo']}"
    hi = "max" if c["hi"] is None else f"i{c['hi']}"
    el = f"1 {lo}" if (c["lo"] is not None and c["lo"] == c["hi"]) else f"2 {lo} {hi}"
    return f"1 {el} {1 if c['ext'] else 0}"

def m_eset_alpha(al):
    els = []
    for a in al:
        if isinstance(a, tuple): els.append(f"2 s{a[0].encode().hex()} s{a[1].encode().hex()}")
        else: els.append(f"1 s{a.encode().hex()}")
    return f"{len(els)} " + " ".join(els) + " 0"

def m_default(txt):
    if txt == "TRUE": return "T"
    if txt == "FALSE": return "F"
    if re.fullmatch(r"-?\d+", txt): return f"i{txt}"
    return "d" + txt

def m_type(t):
    k = t["k"]
    if k == "REF": return f"R {t['name']}"
    if k == "INTEGER":
        named = t.get("named") or []
        s = f"I {len(named)} " + "".join(f"{n} {v} " for n, v in named)
        return s + ("v " + m_eset_range(t["cons"]) if t.get("cons") else "-")
    if k == "ENUMERATED":
        ents = [f"i {n} {'-' if v is None else v}" for n, v in t["items"]]
        if t.get("ext") is not None:
            ents.append(".")
            ents += [f"i {n} {'-' if v is None else v}" for n, v in t["ext"]]
        return f"E {len(ents)} " + " ".join(ents)
    if k in BUILTIN:
        sz, al = t.get("size"), t.get("alpha")
        if sz and al: c = "sa " + m_eset_range(sz) + " " + m_eset_alpha(al)
        elif sz: c = "s " + m_eset_range(sz)
        elif al: c = "a " + m_eset_alpha(al)
        else: c = "-"
        return f"P {BUILTIN[k]} {c}"
    if k in ("SEQUENCE", "SET", "CHOICE"):
        out = [f"C {'s' if k == 'SEQUENCE' else 't' if k == 'SET' else 'c'}"]
        ext = t.get("ext")
        for i, c in enumerate(t["comps"]):
            if ext is not None and i == ext: out.append("x")
            opt = c.get("opt")
            mk = "o" if opt == "OPTIONAL" else ("d " + m_default(opt[1])) if isinstance(opt, tuple) else "n"
            out.append(f"m {c['id']} {m_tag(c['type'].get('tag'))} {m_type(c['type'])} {mk}")
        if ext is not None and ext >= len(t["comps"]): out.append("x")
        out.append(";")
        return " ".join(out)
    if k in ("SEQUENCE OF", "SET OF"):
        el = t["elem"]
        return f"L {1 if k == 'SET OF' else 0} {m_eset_range(t['size']) if t.get('size') else '-'} {m_tag(el.get('tag'))} {m_type(el)}"
    raise ValueError(k)

def m_module(m):
    td = {"EXPLICIT": "E", "IMPLICIT": "I", "AUTOMATIC": "A", None: "-"}[m.get("tagdefault")]
    return f"{m['name']} {td} {len(m['types'])} " + " ".join(f"{n} {m_tag(t.get('tag'))} {m_type(t)}" for n, t in m["types"])

TOKEN_RE = re.compile(r'"(?:[^"]|"")*"|::=|\.\.\.|\.\.|[{}()\[\],|^;:]|-?\d+|[A-Za-z][A-Za-z0-9-]*|\S')
def asn1_tokens(text):
    text = re.sub(r"--.*?(--|$)", " ", text, flags=re.M)
    return TOKEN_RE.findall(text)

# ------------------------------------------------------------------ helpers
def E(asn1c, path, extra=()):
    r = cgen.run_asn1c(asn1c, [path], None, ["-E"] + list(extra))
    return r

def compile_in(asn1c, d, files, opts, prefix=(), env_extra=None):
    """runs asn1c in cwd=d with -D out; returns (result, {file: bytes})"""
    r = cgen.run_asn1c(asn1c, files, "out", ["-no-gen-example"] + list(opts), cwd=d, prefix=prefix, env_extra=env_extra)
    return r, (cgen.read_tree(os.path.join(d, "out")) if r["rc"] == 0 else {})

def is_old_syntax(text, err):
    return "Obsolete X.208 syntax" in err

def run(ctx):
    have = {f["id"] for f in ctx.findings}
    for f in PROPOSED_FINDINGS:
        if f["id"] not in have:
            ctx.findings.append(f)
            ctx.assumptions.append(f"finding {f['id']} is not in KNOWN_FINDINGS.json yet; using the proposed entry embedded in vlib/props/c12.py")
    fmap = {f["id"]: f for f in ctx.findings}
    asn1c = build.build_asn1c()
    ctx.lean()
    ctx.cov["rule"] = ("generated modules (+ shipped corpus for the -E legs): K asn1c -E tokens vs Lean print; P1 repeated runs (ASLR on/off, "
                       "environment size, MALLOC_PERTURB_) byte-identical; P2 all permutations of 2-4 module files; P3 -E fixpoint x1/x2; "
                       "P4 same generated code from printed text; distinct = distinct (module, leg, variant) comparisons")
    setarch = shutil.which("setarch")
    aslr_off = [setarch, platform.machine(), "-R"] if setarch else []
    if not setarch: ctx.assumptions.append("setarch not available: ASLR variation replaced by environment size / MALLOC_PERTURB_ only")
    nmods = 32 if ctx.quick else 160
    mods = []
    for i in range(nmods):
        td = [None, "AUTOMATIC", "IMPLICIT", "EXPLICIT"][i % 4]
        mods.append(cgen.gen_valid(ctx.rng, f"G{i}", 8 if ctx.quick else 10, td, nasty=0.3, allow_recursion=(i % 5 == 0)))
    fails = collections.Counter(); samples = {}
    def fail(cls, detail, replay):
        key = (cls, re.sub(r"\d+", "N", detail)[:60])
        fails[key] += 1
        samples.setdefault(key, (detail, replay))
    root = cgen.fresh_dir("c12", str(os.getpid()))
    try:
        # ------------------------------------------------------------ K and P3/P4 on generated modules
        def gen_job(a):
            i, m = a
            text = genmod.module_text(m)
            d = os.path.join(root, f"g{i}"); os.makedirs(d)
            src = os.path.join(d, "module.asn1"); open(src, "w").write(text)
            out = {"i": i, "text": text}
            e1 = E(asn1c, src); out["e1"] = e1
            if e1["rc"] != 0 or cgen.died(e1): return out
            p1 = os.path.join(d, "p1"); os.makedirs(p1); f1 = os.path.join(p1, "module.asn1"); open(f1, "w").write(e1["out"])
            e2 = E(asn1c, f1); out["e2"] = e2
            if e2["rc"] == 0:
                p2 = os.path.join(d, "p2"); os.makedirs(p2); f2 = os.path.join(p2, "module.asn1"); open(f2, "w").write(e2["out"])
                out["e3"] = E(asn1c, f2)
            # P4: same code from the printed text (options vary with the module index)
            on, opts = OPTSETS[i % len(OPTSETS)]
            out["opts"] = opts
            ra, ta = compile_in(asn1c, d, ["module.asn1"], opts)
            rb, tb = compile_in(asn1c, p1, ["module.asn1"], opts)
            out["p4"] = (ra["rc"], rb["rc"], cgen.diff_trees(ta, tb) if ra["rc"] == 0 and rb["rc"] == 0 else None, len(ta))
            # P1: repeated runs under different address-space / heap / environment conditions
            variants = [("aslr-off", aslr_off, None), ("bigenv-perturb", [], {"MALLOC_PERTURB_": "165", "VERIF_PADDING": "x" * 70000}),
                        ("perturb-2", [], {"MALLOC_PERTURB_": "90", "LANG": "C", "TZ": "Asia/Tokyo"})]
            out["p1"] = []
            for vn, pre, env in variants:
                dv = os.path.join(d, "v-" + vn); os.makedirs(dv); shutil.copy(src, os.path.join(dv, "module.asn1"))
                rv, tv = compile_in(asn1c, dv, ["module.asn1"], opts, prefix=pre, env_extra=env)
                out["p1"].append((vn, rv["rc"], cgen.diff_trees(ta, tv) if rv["rc"] == ra["rc"] == 0 else None, cgen.died(rv)))
                shutil.rmtree(dv, ignore_errors=True)
            out["rc_a"] = ra["rc"]; out["died_a"] = cgen.died(ra)
            shutil.rmtree(d, ignore_errors=True)
            return out
        ctx.log(f"{nmods} generated modules: -E x3, 5 code generations each")
        gres = cgen.pmap(gen_job, list(enumerate(mods)))
        klines = ["print " + m_module(m) for m in mods] + ["printrt " + m_module(m) for m in mods]
        rc, kouts, kerr = ctx.run_lines(build.model_exe(), klines)
        if rc != 0 or len(kouts) != len(klines): raise RuntimeError("model driver failed: " + kerr[-300:])
        kdis = 0; nE = 0; nP4 = 0; nP1 = 0
        for g, m, mo, rt in zip(gres, mods, kouts[:nmods], kouts[nmods:]):
            rp = {"module": g["text"]}
            e1 = g["e1"]
            if cgen.died(e1) or e1["rc"] != 0:
                fail("E-rejects-generated", (e1["err"] or cgen.death_summary(e1))[:200], rp); continue
            # K
            ct = asn1_tokens(e1["out"]); mt = asn1_tokens(mo)
            st = ctx.cov["correspondence"].setdefault("print", {"lines": 0, "disagreements": 0, "c_crashes": 0})
            st["lines"] += 1
            if ct != mt or rt != "ok":
                kdis += 1; st["disagreements"] += 1
                k = next((j for j, (a, b) in enumerate(zip(ct, mt)) if a != b), min(len(ct), len(mt)))
                if kdis <= 3: ctx.log("K print disagreement at token", k, "C:", " ".join(ct[max(0, k - 6):k + 6]), "| model:", " ".join(mt[max(0, k - 6):k + 6]), "| rt:", rt)
                ctx.broken.append({"kind": "correspondence", "name": "print", "module": g["text"][:1500], "c_tokens": ct[max(0, k - 8):k + 8], "model_tokens": mt[max(0, k - 8):k + 8], "printrt": rt})
            elif len(ctx.cov["samples"]) < 4:
                ctx.cov["samples"].append({"op": klines[g["i"]][:300], "c": " ".join(ct)[:300], "model": " ".join(mt)[:300]})
            # P3
            nE += 1
            e2 = g.get("e2")
            if e2 is None or e2["rc"] != 0 or cgen.died(e2): fail("E-text-rejected", (e2["err"] if e2 else "")[:200], rp)
            elif e2["out"] != e1["out"]: fail("E-not-fixpoint", first_diff(e1["out"], e2["out"]), rp)
            elif g["e3"]["rc"] != 0 or g["e3"]["out"] != e2["out"]: fail("E-not-fixpoint-2", first_diff(e2["out"], g["e3"]["out"]), rp)
            else: ctx.count_nontrivial(("E", g["i"]))
            # P4
            rca, rcb, diff, nfiles = g["p4"]
            rp2 = dict(rp, options=g["opts"])
            if g["died_a"]: fail("asn1c-died", "rc=%s" % rca, rp2)
            elif rca != rcb: fail("printed-text-different-verdict", f"rc {rca} vs {rcb}", rp2)
            elif rca == 0:
                nP4 += 1
                if diff: fail("printed-text-different-code", " ".join(diff[:6]), rp2)
                else: ctx.count_nontrivial(("same-code", g["i"], nfiles))
            # P1
            for vn, rcv, dv, dd in g["p1"]:
                if dd: fail("asn1c-died", f"variant {vn}", rp2)
                elif rcv != rca: fail("nondeterministic-verdict", f"{vn}: rc {rca} vs {rcv}", rp2)
                elif rca == 0:
                    nP1 += 1
                    if dv: fail("nondeterministic-output", f"{vn}: " + " ".join(dv[:6]), rp2)
                    else: ctx.count_nontrivial(("rerun", g["i"], vn))
        ctx.cov["predicate"]["generated"] = {"modules": nmods, "E_fixpoint_checked": nE, "same_code_checked": nP4, "rerun_comparisons": nP1}

        # ------------------------------------------------------------ P2: permutations of the file list
        nperm_mods = 12 if ctx.quick else 60
        pjobs = []
        for i in range(nperm_mods):
            m = mods[i % len(mods)]
            k = [2, 3, 4, 3][i % 4]
            if len(m["types"]) < k: continue
            parts = cgen.split_module(m, ctx.rng, k)
            perms = list(itertools.permutations(range(k)))
            if ctx.quick and len(perms) > 12:
                perms = [perms[0]] + ctx.rng.sample(perms[1:], 11)
            for pi, perm in enumerate(perms):
                pjobs.append((i, pi, perm, parts, OPTSETS[i % 2][1]))
        # module sets in which two modules define a top-level type of the SAME name (each used in its own module;
        # asn1c prefixes both with the module name), and sets with colliding inner member names: all orders
        nsame = 8 if ctx.quick else 40
        for i in range(nsame):
            mode = "same-toplevel" if i % 4 != 3 else ctx.rng.choice(["cross-import", "none", "member-cross"])
            k = [2, 3, 2, 3][i % 4]
            td = ctx.rng.choice([None, "AUTOMATIC", "IMPLICIT", "EXPLICIT"])
            files, _, desc = cgen.gen_multi(ctx.rng, f"S{i}", k, mode, td)
            parts = [(fn[:-5], text) for fn, text in files]
            for pi, perm in enumerate(itertools.permutations(range(k))):
                pjobs.append((1000 + i, pi, perm, parts, [["-fcompound-names"], [], ["-fcompound-names", "-no-gen-OER"]][i % 3]))
        # parameterized types instantiated in a file that is not the first (their generated names embed the source line of the
        # template within its own file), and -fline-refs (line numbers in comments): all orders
        npar = 3 if ctx.quick else 12
        for i in range(npar):
            pad = "\n" * ctx.rng.randrange(0, 9) + "-- filler\n" * ctx.rng.randrange(0, 4)
            pa = (f"PA{i}", f"PA{i} DEFINITIONS AUTOMATIC TAGS ::= BEGIN\n" + "  -- c\n" * ctx.rng.randrange(0, 6) +
                  f"  Plain{i} ::= SEQUENCE {{ a INTEGER, b BOOLEAN OPTIONAL }}\n  Lst{i} ::= SEQUENCE OF Plain{i}\nEND\n")
            pb = (f"PB{i}", pad + f"PB{i} DEFINITIONS AUTOMATIC TAGS ::= BEGIN\n  Pair{i} {{T}} ::= SEQUENCE {{ first T, second T }}\n"
                  f"  Named{i} ::= SEQUENCE {{ p Pair{i} {{INTEGER}}, q Pair{i} {{BOOLEAN}} }}\nEND\n")
            pc = (f"PC{i}", f"PC{i} DEFINITIONS IMPLICIT TAGS ::= BEGIN\n  Box{i} {{T, INTEGER:n}} ::= SEQUENCE (SIZE(1..n)) OF T\n"
                  f"  Boxes{i} ::= CHOICE {{ a [0] Box{i} {{IA5String, 4}}, b [1] Box{i} {{BOOLEAN, 2}} }}\nEND\n")
            parts = [pa, pb, pc][: 2 + i % 2]
            for pi, perm in enumerate(itertools.permutations(range(len(parts)))):
                pjobs.append((2000 + i, pi, perm, parts, [["-fcompound-names"], ["-fline-refs"], ["-fcompound-names", "-fline-refs"]][i % 3]))
        def perm_job(a):
            i, pi, perm, parts, opts = a
            d = os.path.join(root, f"perm{i}-{pi}"); os.makedirs(d)
            for (n, text) in parts: open(os.path.join(d, n + ".asn1"), "w").write(text)
            files = [parts[j][0] + ".asn1" for j in perm]
            r, t = compile_in(asn1c, d, files, opts)
            shutil.rmtree(d, ignore_errors=True)
            return i, pi, perm, r, t
        ctx.log(f"{len(pjobs)} permutation runs")
        pres = cgen.pmap(perm_job, pjobs)
        base = {}
        nperm = 0
        for (i, pi, perm, r, t), job in zip(pres, pjobs):
            rp = {"files": dict(job[3]), "order": [job[3][j][0] for j in perm], "options": job[4]}
            if cgen.died(r): fail("asn1c-died", "permutation run: " + cgen.death_summary(r), rp); continue
            if pi == 0: base[i] = (r, t, perm); continue
            if i not in base: continue
            r0, t0, perm0 = base[i]
            if r["rc"] != r0["rc"]: fail("order-dependent-verdict", f"rc {r0['rc']} vs {r['rc']}: {r['err'][:120]}", rp); continue
            if r["rc"] != 0: continue
            nperm += 1
            per_type = lambda n: n.endswith((".c", ".h"))
            d = cgen.diff_trees(t0, t, per_type)
            if d: fail("order-dependent-output", " ".join(d[:6]), rp)
            else: ctx.count_nontrivial(("perm", i, perm))
        ctx.cov["predicate"]["permutations"] = {"module_sets": nperm_mods, "same_name_sets": nsame, "runs": len(pjobs), "compared": nperm}

        # ------------------------------------------------------------ P3 on the shipped corpus
        corpus = sorted(glob.glob(os.path.join(build.REPO, "tests", "tests-asn1c-compiler", "*-OK*.asn1"))) + \
                 sorted(glob.glob(os.path.join(build.REPO, "examples", "*.asn1")))
        def corpus_job(f):
            d = os.path.join(root, "c-" + os.path.basename(f)); os.makedirs(d)
            e1 = E(asn1c, f)
            out = {"f": f, "e1": e1}
            if e1["rc"] == 0 and not cgen.died(e1):
                f1 = os.path.join(d, "p1.asn1"); open(f1, "wb").write(e1["out"].encode("latin1"))
                e2 = E(asn1c, f1); out["e2"] = e2
                if e2["rc"] == 0 and not cgen.died(e2):
                    f2 = os.path.join(d, "p2.asn1"); open(f2, "wb").write(e2["out"].encode("latin1"))
                    out["e3"] = E(asn1c, f2)
            shutil.rmtree(d, ignore_errors=True)
            return out
        cres = cgen.pmap(corpus_job, corpus)
        cstat = collections.Counter()
        for c in cres:
            name = os.path.basename(c["f"])
            src = open(c["f"], encoding="latin1").read()
            rp = {"file": c["f"]}
            e1 = c["e1"]
            if cgen.died(e1): fail("asn1c-died", f"-E {name}: " + cgen.death_summary(e1), rp); continue
            if e1["rc"] != 0: cstat["not-accepted"] += 1; continue
            if is_old_syntax(src, e1["err"]): cstat["old-syntax-skipped"] += 1; continue
            e2 = c.get("e2")
            if e2["rc"] != 0 or cgen.died(e2):
                fail("E-text-rejected", f"{name}: " + e2["err"].strip().split("\n")[-2 if e2['err'].count(chr(10)) > 1 else 0][:160], rp)
                continue
            if e2["out"] != e1["out"]: fail("E-not-fixpoint", f"{name}: " + first_diff(e1["out"], e2["out"]), rp); continue
            e3 = c["e3"]
            if e3["rc"] != 0 or e3["out"] != e2["out"]: fail("E-not-fixpoint-2", name, rp); continue
            cstat["fixpoint"] += 1
            ctx.count_nontrivial(("corpus", name))
        ctx.cov["predicate"]["corpus"] = {"files": len(corpus), **dict(cstat)}
        # former witness of F90 and neighbours: accepted, DEFINED BY kept, fixpoint
        nany = 0
        for tag, text in ANY_DEFINED_BY:
            w = os.path.join(root, tag + ".asn1"); open(w, "w").write(text)
            rp = {"module": text, "tag": tag}
            e1 = E(asn1c, w)
            if cgen.died(e1) or e1["rc"] != 0: fail("directed-rejected", f"{tag}: -E rc={e1['rc']}", rp); continue
            if e1["out"].count("DEFINED BY") != text.count("DEFINED BY"): fail("E-drops-DEFINED-BY", f"{tag}: " + " ".join(e1["out"].split())[:160], rp); continue
            w2 = os.path.join(root, tag + "-p.asn1"); open(w2, "w").write(e1["out"])
            e2 = E(asn1c, w2)
            if cgen.died(e2) or e2["rc"] != 0: fail("E-text-rejected", f"{tag}: " + e2["err"].strip().split("\n")[0][:160], rp); continue
            if e2["out"] != e1["out"]: fail("E-not-fixpoint", f"{tag}: " + first_diff(e1["out"], e2["out"]), rp); continue
            # same generated code from the printed text (none of the directed modules has parameterized types)
            da = os.path.join(root, "dir-" + tag + "-a"); db = os.path.join(root, "dir-" + tag + "-b"); os.makedirs(da); os.makedirs(db)
            open(os.path.join(da, "module.asn1"), "w").write(text); open(os.path.join(db, "module.asn1"), "w").write(e1["out"])
            ra, ta = compile_in(asn1c, da, ["module.asn1"], ["-fcompound-names"])
            rb, tb = compile_in(asn1c, db, ["module.asn1"], ["-fcompound-names"])
            if ra["rc"] != rb["rc"]: fail("printed-text-different-verdict", f"{tag}: rc {ra['rc']} vs {rb['rc']}", rp); continue
            if ra["rc"] == 0:
                dd = cgen.diff_trees(ta, tb)
                if dd: fail("printed-text-different-code", f"{tag}: " + " ".join(dd[:6]), rp); continue
            nany += 1; ctx.count_nontrivial(("any-defined-by", tag))
        ctx.cov["predicate"]["any_defined_by"] = {"modules": len(ANY_DEFINED_BY), "fixpoint": nany}
    finally:
        shutil.rmtree(root, ignore_errors=True)
    ctx.cov["evaluations"] += len(gres) * 9 + len(pjobs) + len(corpus) * 3
    ctx.cov["programs"] = nP4
    ctx.cov["distribution"]["option_sets"] = [n for n, _ in OPTSETS]
    nviol = 0
    for (cls, sig), n in fails.most_common(12):
        detail, rp = samples[(cls, sig)]
        ctx.log("FAIL", n, cls, "|", str(detail)[:260])
        if nviol < 5:
            nviol += 1
            ctx.violation(f"C12 fails on C ({cls}): {str(detail)[:200]}", dict(rp, failure=cls, detail=str(detail)[:2000], count_in_class=n))

def first_diff(a, b):
    la, lb = a.split("\n"), b.split("\n")
    for i, (x, y) in enumerate(zip(la, lb)):
        if x != y: return f"line {i + 1}: {x.strip()[:80]!r} vs {y.strip()[:80]!r}"
    return f"length {len(la)} vs {len(lb)} lines"

def replay(ctx, path):
    r = json.load(open(path))
    asn1c = build.build_asn1c()
    root = cgen.fresh_dir("c12", "replay%d" % os.getpid())
    try:
        if "module" in r:
            f = os.path.join(root, "module.asn1"); open(f, "w").write(r["module"])
            e1 = E(asn1c, f); print("replay: -E rc", e1["rc"], e1["err"][:200])
            if e1["rc"] == 0:
                os.makedirs(os.path.join(root, "p")); f1 = os.path.join(root, "p", "module.asn1"); open(f1, "w").write(e1["out"])
                e2 = E(asn1c, f1); print("replay: -E(-E) rc", e2["rc"], "same text:", e2["out"] == e1["out"], e2["err"][:200])
                ra, ta = compile_in(asn1c, root, ["module.asn1"], r.get("options", []))
                rb, tb = compile_in(asn1c, os.path.join(root, "p"), ["module.asn1"], r.get("options", []))
                print("replay: code rc", ra["rc"], rb["rc"], "differing files:", cgen.diff_trees(ta, tb)[:10])
        elif "files" in r:
            for n, t in r["files"].items(): open(os.path.join(root, n + ".asn1"), "w").write(t)
            names = sorted(r["files"])
            r0, t0 = compile_in(asn1c, root, [n + ".asn1" for n in names], r.get("options", []))
            shutil.rmtree(os.path.join(root, "out"), ignore_errors=True)
            r1, t1 = compile_in(asn1c, root, [n + ".asn1" for n in r["order"]], r.get("options", []))
            print("replay: rc", r0["rc"], r1["rc"], "differing per-type files:", cgen.diff_trees(t0, t1, lambda n: n.endswith((".c", ".h")))[:10])
        elif "file" in r:
            e1 = E(asn1c, r["file"]); f1 = os.path.join(root, "p1.asn1"); open(f1, "wb").write(e1["out"].encode("latin1"))
            e2 = E(asn1c, f1); print("replay: rc", e1["rc"], e2["rc"], "same:", e1["out"] == e2["out"], e2["err"][-300:])
        else:
            print("replay: nothing to run:", json.dumps(r.get("broken", r))[:600])
    finally:
        shutil.rmtree(root, ignore_errors=True)
