"""C16, REAL part: asn_double2REAL / asn_REAL2double on IEEE-754 bit patterns.

K leg: the real C functions vs the Lean model (Impl/Real.lean) on the same op lines.
P leg: an independent oracle written from X.690 8.5 / 11.3 with struct / math.frexp / Fraction
(not the Lean model): the stored octets are the DER form and the round trip is bit-exact
(NaN -> NaN); hand-built binary REALs decode to the correctly rounded value."""
import math, struct
from fractions import Fraction

MASK64 = (1 << 64) - 1
EXP_INF = 0x7ff << 52

def hx(bs): return bytes(bs).hex() if bs else "-"
def unhx(s): return b"" if s == "-" else bytes.fromhex(s)

def bits2double(bits): return struct.unpack(">d", struct.pack(">Q", bits))[0]
def double2bits(d): return struct.unpack(">Q", struct.pack(">d", d))[0]

def is_nan_bits(b): return (b >> 52) & 0x7ff == 0x7ff and b & ((1 << 52) - 1) != 0
def is_subnormal_bits(b): return (b >> 52) & 0x7ff == 0 and b & ((1 << 52) - 1) != 0

def twos_min(v):
    n = 1
    while not (-(1 << (8 * n - 1)) <= v < (1 << (8 * n - 1))): n += 1
    return v.to_bytes(n, "big", signed=True)

def der_real(bits):
    """X.690 8.5 + 11.3: content octets of the DER encoding of the double with this bit pattern."""
    d = bits2double(bits)
    neg = bits >> 63
    if d != d: return b"\x42"
    if math.isinf(d): return b"\x41" if neg else b"\x40"
    if d == 0: return b"\x43" if neg else b""
    m, e = math.frexp(abs(d))            # |d| = m * 2^e, 0.5 <= m < 1, exact
    n = int(m * (1 << 53)); e -= 53       # |d| = n * 2^e, n integer (exact: m has <= 53 bits)
    assert Fraction(n) * Fraction(2) ** e == Fraction(abs(d))
    while n % 2 == 0:                     # 11.3.1: mantissa odd
        n //= 2; e += 1
    eo = twos_min(e)                      # fewest octets
    assert len(eo) <= 3
    mo = n.to_bytes((n.bit_length() + 7) // 8, "big")
    return bytes([0x80 | (neg << 6) | (len(eo) - 1)]) + eo + mo

def round_fraction(x):
    """correctly rounded (nearest-even) double of a non-negative Fraction; None on overflow"""
    try:
        d = x.numerator / x.denominator      # int / int is correctly rounded in CPython
    except OverflowError:
        return None
    if math.isinf(d): return None
    return d

def pow2(k):
    return Fraction(1 << k) if k >= 0 else Fraction(1, 1 << (-k))

def decode_oracle(o):
    """X.690 8.5 reading of content octets `o` (binary / special forms).
    Returns ('ok', bits, mantissa_bit_length) | ('erange', 0, mantissa_bit_length) | ('nan',) | ('einval',) | ('skip',)"""
    if len(o) == 0: return ("ok", 0, 0)
    f = o[0]
    if f & 0xC0 == 0x40:
        if f == 0x40: return ("ok", EXP_INF, 0)
        if f == 0x41: return ("ok", (1 << 63) | EXP_INF, 0)
        if f == 0x42: return ("nan",)
        if f == 0x43: return ("ok", 1 << 63, 0)
        return ("einval",)
    if f & 0xC0 == 0x00:
        if f == 0 or f & 0x3C: return ("einval",)
        return ("skip",)                    # ISO 6093 decimal
    base = (f >> 4) & 3
    if base == 3: return ("einval",)       # reserved
    basef = (1, 3, 4)[base]
    neg = (f >> 6) & 1
    scale = (f >> 2) & 3
    el = f & 3
    if el == 3:
        if len(o) < 2: return ("einval",)
        x = o[1]
        # 8.5.7.4 d): "the third up to the (X plus 3)th (inclusive) contents octets" = X + 1 octets
        if x == 0: return ("einval",)
        p, ne = 2, x + 1
    else:
        p, ne = 1, el + 1
    if len(o) < p + ne: return ("einval",)
    if ne > 3: return ("skip",)            # implementation limit (int32 exponent): not judged here
    if len(o) == p + ne: return ("skip",)  # no mantissa octets at all: not a well-formed 8.5.7.5 number, not judged
    e = int.from_bytes(o[p:p + ne], "big", signed=True)
    n = int.from_bytes(o[p + ne:], "big")
    if n == 0: return ("ok", neg << 63, 0)
    # the accumulation `m = ldexp(m, 8) + octet` is done in a double: a mantissa of >= 2^1024 is an
    # implementation limit (ERANGE even if a negative exponent brings the value back in range)
    if n.bit_length() > 1023: return ("skip",)
    k = e * basef + scale
    nb = n.bit_length()
    # avoid astronomically large integers: decide far overflow / underflow by magnitude
    if nb + k > 1100: return ("erange", 0, nb)
    if nb + k < -1200: return ("ok", neg << 63, nb)
    d = round_fraction(Fraction(n) * pow2(k))
    if d is None: return ("erange", 0, nb)
    return ("ok", (neg << 63) | double2bits(d), nb)

def ordered(bits):
    """monotone integer image of a non-negative finite double's bits"""
    return bits & ~(1 << 63)

# ---------------------------------------------------------------- generators

def gen_double_bits(ctx):
    rng = ctx.rng
    out = []
    F52 = (1 << 52) - 1
    # specials, zeros, NaNs of every flavour
    out += [0, 1 << 63, EXP_INF, (1 << 63) | EXP_INF]
    for s in (0, 1 << 63):
        for fr in (1, 2, 1 << 51, (1 << 51) | 1, (1 << 51) - 1, F52, 0x000123456789a):
            out.append(s | EXP_INF | fr)
    # per binary exponent: min / max / structured / random mantissas
    nr = 2 if ctx.quick else 12
    for E in range(1, 2047):
        base = E << 52
        fr = [0, F52, 1, 1 << 51]
        fr += [rng.getrandbits(52) for _ in range(nr)]
        k = rng.randrange(0, 52)
        fr.append(((rng.getrandbits(52) | 1) << k) & F52)        # k trailing zero bits
        for f in fr:
            out.append((rng.getrandbits(1) << 63) | base | f)
    # every trailing-zero count k (odd-mantissa shift + mstop logic), several exponents
    exps = [1, 2, 3, 51, 52, 53, 54, 895, 896, 897, 1022, 1023, 1024, 1025, 1074, 1075, 1076, 1150, 1151, 1152, 2045, 2046]
    exps += [rng.randrange(1, 2047) for _ in range(6 if ctx.quick else 60)]
    for k in range(0, 53):
        for E in exps:
            for _ in range(2):
                f = ((rng.getrandbits(52) | 1) << k) & F52 if k < 52 else 0
                out.append((rng.getrandbits(1) << 63) | (E << 52) | f)
            if k < 52:
                out.append((E << 52) | (1 << k))                   # single fraction bit
                out.append((E << 52) | (F52 & ~((1 << k) - 1)))    # all ones above k
    # octet patterns of the 7-octet scratch pad: last non-zero octet x every octet value class
    for pos in range(0, 7):
        for v in (0x01, 0x02, 0x04, 0x08, 0x10, 0x20, 0x40, 0x80, 0x60, 0xa0, 0xc0, 0xe0, 0xf0, 0xff, 0x81, 0x7e):
            for hi in (0, rng.getrandbits(52)):
                sh = 8 * (6 - pos)
                f = ((hi >> (sh + 8)) << (sh + 8)) | (v << sh)
                f &= F52 if pos > 0 else 0xF << 48
                if pos == 0: f = (v & 0xF) << 48
                out.append((rng.getrandbits(1) << 63) | (rng.randrange(1, 2047) << 52) | f)
    # subnormals (no hidden bit, fixed exponent -1074; leading zero octets of the scratch pad)
    sub = [1, 2, 3, 4, 5, 6, 7, 8, F52, F52 - 1, 1 << 51, (1 << 51) + 1, (1 << 51) - 1]
    for k in range(0, 52):
        sub += [1 << k, (1 << k) + 1, (1 << k) | (1 << (k // 2))]
        sub += [((rng.getrandbits(52) | 1) << k) & F52, ((rng.getrandbits(rng.randrange(1, 53)) | 1) << k) & F52]   # k trailing zero bits
    sub += [rng.getrandbits(rng.randrange(1, 53)) for _ in range(100 if ctx.quick else 3000)]
    for f in sub:
        f &= F52
        if f: out.append((rng.getrandbits(1) << 63) | f)
    # random 64-bit patterns
    out += [rng.getrandbits(64) for _ in range(3000 if ctx.quick else 300000)]
    seen = set(); res = []
    for b in out:
        if b not in seen:
            seen.add(b); res.append(b)
    return res

def enc_exp(v, n):
    return (v & ((1 << (8 * n)) - 1)).to_bytes(n, "big")

def gen_reals(ctx):
    """hand-built content octets for R2d (never starting with 0x01..0x03 = decimal forms)"""
    rng = ctx.rng
    out = []
    mants = [b"", b"\x00", b"\x01", b"\x03", b"\xff", b"\x00\x01", b"\x00\x00\x05", b"\x80", b"\x01\x00",
             bytes.fromhex("1fffffffffffff"), bytes.fromhex("10000000000000"), bytes.fromhex("0010000000000001"),
             bytes.fromhex("20000000000001"), bytes.fromhex("20000000000002"), bytes.fromhex("20000000000003"),
             bytes.fromhex("3fffffffffffff"), bytes.fromhex("40000000000002"), bytes.fromhex("40000000000006"),
             bytes.fromhex("ffffffffffffffff"), bytes.fromhex("8000000000000400"), bytes.fromhex("8000000000000c00"),
             bytes.fromhex("8000000000000401"), bytes.fromhex("80000000000003ff"), bytes.fromhex("fffffffffffffbff"),
             bytes.fromhex("fffffffffffffc00"), bytes.fromhex("0000ffffffffffffffff"),
             bytes.fromhex("01" + "00" * 20), b"\xff" * 20, b"\x01" + b"\x00" * 127, b"\xff" * 128, b"\x01" + b"\x00" * 128,
             b"\xff" * 140, b"\x00" * 10 + b"\x07"]
    exps1 = [0, 1, -1, 2, 52, 53, -52, -53, 127, -128, 100, -100]
    exps2 = [128, -129, 255, 256, -256, 970, 971, 972, 1022, 1023, 1024, 1025, -1021, -1022, -1023, -1074, -1075, -1076,
             -1126, -1127, -1128, -1137, -1138, 341, 342, -358, -359, 255, 256, -268, -269, 32767, -32768, 0, 1, -1, 127, -128]
    exps3 = [32768, -32769, 65535, -65536, 8388607, -8388608, 100000, -100000, 0, 1, -1, 1023, -1074, 300, -300]
    for base in (0, 1, 2, 3):
        for scale in (0, 1, 2, 3):
            for sign in (0, 1):
                hdr = 0x80 | (sign << 6) | (base << 4) | (scale << 2)
                sel = mants if (scale == 0 or base == 0) else mants[::3]
                for m in sel:
                    for e in exps1 + [rng.randrange(-128, 128)]:
                        out.append(bytes([hdr | 0]) + enc_exp(e, 1) + m)
                    for e in exps2[::1 if len(m) <= 8 else 4] + [rng.randrange(-1200, 1200)]:
                        out.append(bytes([hdr | 1]) + enc_exp(e, 2) + m)
                    for e in exps3[::1 if len(m) <= 2 else 5]:
                        out.append(bytes([hdr | 2]) + enc_exp(e, 3) + m)
                # long form (second octet = X; X + 1 exponent octets follow)
                for x, eo in ((0, b"\x00"), (1, b"\x00\x05"), (1, b"\xff\xfb"), (1, b"\x03\xff"), (2, b"\x00\x00\x05"),
                              (2, b"\xff\xff\xfe"), (2, b"\x00\x03\xff"), (3, b"\x00\x00\x00\x05"), (4, b"\x00" * 5),
                              (255, b"\x00" * 4), (200, b"\x01" * 201), (2, b"\x00"), (1, b"\x00"), (1, b"")):
                    for m in (b"", b"\x01", b"\x00\x03", bytes.fromhex("1fffffffffffff")):
                        out.append(bytes([hdr | 3, x]) + eo + m)
                # truncated
                out += [bytes([hdr | 0]), bytes([hdr | 1]), bytes([hdr | 1, 0]), bytes([hdr | 2]), bytes([hdr | 2, 0, 0]),
                        bytes([hdr | 3]), bytes([hdr | 3, 1]), bytes([hdr | 3, 1, 0]), bytes([hdr | 3, 1, 0, 0])]
    # subnormal / overflow edges with rounding in the final ldexp
    nrand = 400 if ctx.quick else 20000
    for _ in range(nrand):
        n = rng.getrandbits(rng.choice([1, 2, 3, 8, 20, 52, 53, 53, 54, 55, 60, 64, 64, 70, 100]))
        m = n.to_bytes((n.bit_length() + 7) // 8, "big") if n else b""
        if rng.random() < 0.2: m = b"\x00" * rng.randrange(1, 3) + m
        base = rng.choice([0, 0, 0, 1, 2]); scale = rng.randrange(4) if rng.random() < 0.5 else 0
        basef = (1, 3, 4)[base]
        nb = max(1, n.bit_length())
        tgt = rng.choice([-1080, -1074, -1070, -1060, -1022, -1021, 0, 53, 1020, 1023, 1024, rng.randrange(-1200, 1200)])
        e = (tgt - nb) // basef + rng.randrange(-2, 3)
        ne = 1 if -128 <= e < 128 and rng.random() < 0.7 else 2 if -32768 <= e < 32768 and rng.random() < 0.8 else 3
        out.append(bytes([0x80 | (rng.getrandbits(1) << 6) | (base << 4) | (scale << 2) | (ne - 1)]) + enc_exp(e, ne) + m)
    # special / reserved first octets
    for f in [0x00] + list(range(0x04, 0x40)) + list(range(0x40, 0x80)):
        out.append(bytes([f])); out.append(bytes([f, 0x00])); out.append(bytes([f, 0x31, 0x32]))
    # random octet strings
    for _ in range(1500 if ctx.quick else 100000):
        k = rng.choice([1, 2, 2, 3, 3, 4, 5, 6, 8, 9, 10, 12])
        b = bytearray(rng.getrandbits(8) for _ in range(k))
        b[0] = rng.choice([0x80, 0x80, 0x81, 0x82, 0x83, 0xc0, 0xc1, 0x90, 0xa0, 0xa5, 0x8c]) if rng.random() < 0.7 else b[0]
        if 1 <= b[0] <= 3: b[0] |= 0x80
        out.append(bytes(b))
    seen = set(); res = []
    for o in out:
        if o and 1 <= o[0] <= 3: continue
        if o not in seen:
            seen.add(o); res.append(o)
    return res

# ---------------------------------------------------------------- run

def run(ctx, drv):
    dbits = gen_double_bits(ctx)
    lines = [f"d2R 0x{b:016x}" for b in dbits]
    lines += ["d2R 3", "d2R 0", "d2R 9223372036854775808", "d2R 4607182418800017408"]   # decimal spelling too
    nd = len(lines)
    dis, couts, mouts = ctx.correspond("real", drv, lines)
    ctx.cov["distribution"]["real_d2R_ops"] = nd

    pfail = []          # (line, c_output, why, class)
    # ---- P leg 1: octets are the DER form
    second, second_src = [], []
    classes = {}
    for l, c in zip(lines, couts):
        bits = int(l.split()[1], 0)
        if c is None or c.startswith("CRASH"):
            pfail.append((l, c, "crash", bits)); continue
        if c in ("fail", "bad-op"):
            pfail.append((l, c, "conversion failed", bits)); continue
        o = unhx(c)
        want = der_real(bits)
        cls = ("nan" if is_nan_bits(bits) else "subnormal" if is_subnormal_bits(bits) else
               "special/zero" if len(want) <= 1 else "normal")
        classes[cls] = classes.get(cls, 0) + 1
        if o != want:
            pfail.append((l, c, f"stored octets are not the X.690 DER form {hx(want)}", bits))
        second.append("R2d " + c); second_src.append((l, bits))
    ctx.cov["distribution"]["real_double_classes"] = classes
    # ---- P leg 2: round trip is bit-exact (NaN -> NaN)
    c2, _ = ctx.run_c_bisect(drv, second)
    ctx.cov["evaluations"] += len(second)
    for (l, bits), l2, c in zip(second_src, second, c2):
        exp = "ok nan" if is_nan_bits(bits) else f"ok {bits:016x}"
        if c != exp:
            pfail.append((l + " ; " + l2, c, f"round trip must return {exp}", bits))

    # ---- R2d: the d2R outputs (model correspondence) + hand-built REALs
    reals = gen_reals(ctx)
    seen = set(reals)
    for c in couts:
        if c and not c.startswith("CRASH") and c not in ("fail", "bad-op"):
            o = unhx(c)
            if o not in seen:
                seen.add(o); reals.append(o)
    rlines = ["R2d " + hx(o) for o in reals]
    dis2, rc, rm = ctx.correspond("real", drv, rlines)
    dis = list(dis) + list(dis2)
    ctx.cov["distribution"]["real_R2d_ops"] = len(rlines)
    kinds = {}
    nR = 0
    for o, l, c in zip(reals, rlines, rc):
        if c is None or c.startswith("CRASH"):
            pfail.append((l, c, "crash", None)); continue
        r = decode_oracle(o)
        kinds[r[0]] = kinds.get(r[0], 0) + 1
        if r[0] == "skip": continue
        nR += 1
        if r[0] == "nan": exp = "ok nan"
        elif r[0] in ("einval", "erange"): exp = r[0]
        else: exp = f"ok {r[1]:016x}"
        if c == exp: continue
        if r[0] in ("ok", "erange") and r[2] > 53:
            # mantissa wider than 53 bits: the C code rounds at every accumulation step; accept a
            # faithfully rounded result (within one unit in the last place, incl. the overflow edge)
            MAXF = EXP_INF - 1
            if r[0] == "erange": ok = c.startswith("ok ") and c != "ok nan" and ordered(int(c[3:], 16)) == MAXF
            elif c == "erange": ok = ordered(r[1]) >= MAXF
            elif c.startswith("ok ") and c != "ok nan":
                cb = int(c[3:], 16)
                ok = (cb >> 63) == (r[1] >> 63) and abs(ordered(cb) - ordered(r[1])) <= 1
            else: ok = False
            if ok:
                kinds["wide-mantissa-faithful"] = kinds.get("wide-mantissa-faithful", 0) + 1
                continue
        pfail.append((l, c, f"X.690 8.5.7 value of the content octets is {exp}", None))
    ctx.cov["distribution"]["real_R2d_oracle_kinds"] = kinds
    ctx.cov["predicate"]["real"] = {"cases": nd + len(second) + nR, "failures": len(pfail)}

    # ---- every P failure is a violation (the former known regions F1 = subnormal doubles and F31 = redundant
    # leading 00 mantissa octet are repaired: no classification, nothing is suppressed)
    unexplained = [(l, c, why) for l, c, why, bits in pfail]
    for l, c, why in unexplained[:5]:
        ctx.violation(f"C16 predicate fails on C: {l} -> {c}: {why}",
                      {"op": l.split(" ; ")[0], "ops": l.split(" ; "), "c_output": c, "why": why, "driver": "prim_driver"})
    for i, l, c, m in dis[:50]:
        ctx.broken.append({"kind": "correspondence", "name": "real", "op": l, "c": c, "model": m})
    if dis:
        ctx.log(f"real correspondence: {len(dis)} disagreements, first: {dis[0][1:]}")
    ctx.log(f"real: {nd} d2R + {len(second)} round trips + {len(rlines)} R2d; P failures {len(pfail)} "
            f"(subnormal doubles {classes.get('subnormal', 0)}, all counted)")
