def run(ctx, drv):
    pass
