"""C15 translator: re-extracts from /repo/skeletons, on every run,
 (a) the numeric limits that bound stack and heap use of the decoders and
 (b) for every decoder entry point whether its body contains an *effective* ASN__STACK_OVERFLOW_CHECK
and writes lean/Asn1cModel/Generated/StackGuard.lean.  Regex over function bodies, nothing clever:
asn1c's skeletons put the function name at column 0 and the closing brace of a function at column 0."""
import os, re
from .. import build

KEYWORDS = {"if", "for", "while", "switch", "return", "sizeof", "do", "else", "typedef", "struct", "enum", "union", "static", "extern"}

def functions(path):
    """yield (name, body_text) for each function definition of a skeleton .c/.h file"""
    try:
        lines = open(path, errors="replace").read().split("\n")
    except OSError:
        return
    i = 0; n = len(lines)
    while i < n:
        m = re.match(r"^([A-Za-z_]\w*)\s*\(", lines[i])
        if m and m.group(1) not in KEYWORDS and not lines[i].rstrip().endswith(";"):
            # header runs to the first '{' that ends a line; a ';' before it means a prototype
            j = i; proto = False
            while j < n and not lines[j].rstrip().endswith("{"):
                if lines[j].rstrip().endswith(";"): proto = True; break
                j += 1
            if proto or j >= n:
                i += 1; continue
            k = j + 1
            while k < n and not lines[k].startswith("}"):
                k += 1
            yield m.group(1), "\n".join(lines[j + 1:k])
            i = k + 1
        else:
            i += 1

def strip_comments(s):
    s = re.sub(r"/\*.*?\*/", " ", s, flags=re.S)
    return re.sub(r"//[^\n]*", " ", s)

# entry points of the constructed types: the decoders through which a (recursive) type definition nests
CONSTRUCTED_NAME = re.compile(r"^(SEQUENCE|SEQUENCE_OF|SET|SET_OF|CHOICE)_decode_(ber|uper|oer|xer)$")

DECODER_NAME = re.compile(r"(_decode_(ber|uper|oer|xer)$)|(^ber_skip_length$)|(^ber_check_tags$)|(^ber_decode_primitive$)"
                          r"|(^oer_decode_primitive$)|(^uper_open_type_\w+$)|(^oer_open_type_\w+$)|(^xer_decode_general$)"
                          r"|(^xer_decode_primitive$)|(^xer_skip_unknown$)|(^OPEN_TYPE_\w+_get$)")

def macro(text, name):
    m = re.search(r"^\s*#\s*define\s+" + name + r"\s+(.*)$", text, re.M)
    return m.group(1).strip() if m else None

# allocation sites whose size comes from a length prefix of the input: (file, function, alloc-variable, checked-variable)
LENGTH_ALLOC_SITES = [
    ("asn_codecs_prim.c", "ber_decode_primitive", r"length", r"length"),
    ("NativeReal.c", "NativeReal_decode_ber", r"length", r"length"),
    ("oer_decoder.c", "oer_decode_primitive", r"expected_length", r"expected_length"),
    ("OCTET_STRING_oer.c", "OCTET_STRING_decode_oer", r"expected_length", r"expected_length"),
    ("BIT_STRING_oer.c", "BIT_STRING_decode_oer", r"expected_length", r"expected_length"),
    ("INTEGER_oer.c", "INTEGER_decode_oer", r"(?:req_bytes|useful_size)", r"req_bytes"),
    ("REAL.c", "REAL_decode_oer", r"real_body_len", r"real_body_len"),
    ("NativeReal.c", "NativeReal_decode_oer", r"real_body_len", r"real_body_len"),
]

def extract(repo=None):
    repo = repo or build.REPO
    sk = os.path.join(repo, "skeletons")
    out = {}
    internal = strip_comments(open(os.path.join(sk, "asn_internal.h")).read())
    system = strip_comments(open(os.path.join(sk, "asn_system.h")).read())
    m = macro(internal, "ASN__DEFAULT_STACK_MAX")
    mm = re.fullmatch(r"\(?\s*(\d+)\s*\)?", m or "")
    out["defaultStackMax"] = int(mm.group(1)) if mm else None
    # the check itself: `usedstack < -(ptrdiff_t)ctx->max_stack_size` guarded by `ctx && ctx->max_stack_size`
    chk = dict(functions(os.path.join(sk, "asn_internal.h"))).get("ASN__STACK_OVERFLOW_CHECK", "")
    chk = strip_comments(chk)
    out["checkComparesUsedWithMax"] = bool(re.search(r"usedstack\s*<\s*-\s*\(ptrdiff_t\)\s*ctx->max_stack_size", chk)
                                           and re.search(r"return\s+-1", chk)
                                           and re.search(r"ctx\s*&&\s*ctx->max_stack_size", chk))
    # RSIZE_MAX / RSSIZE_MAX as shifts of SIZE_MAX (LP64: SIZE_MAX = 2^64-1 from <stdint.h>)
    r1 = re.search(r"#\s*define\s+RSIZE_MAX\s+\(SIZE_MAX\s*>>\s*(\d+)\)", system)
    r2 = re.search(r"#\s*define\s+RSSIZE_MAX\s+\(\(ssize_t\)\(RSIZE_MAX\s*>>\s*(\d+)\)\)", system)
    out["rsizeMax"] = ((1 << 64) - 1) >> int(r1.group(1)) if r1 else None
    out["rssizeMax"] = (out["rsizeMax"] >> int(r2.group(1))) if (r1 and r2) else None
    fl = strip_comments(dict(functions(os.path.join(sk, "ber_tlv_length.c"))).get("ber_fetch_length", ""))
    out["berLengthLimitedByRssizeMax"] = bool(re.search(r"len\s*>\s*RSSIZE_MAX", fl))
    ol = strip_comments(dict(functions(os.path.join(sk, "oer_support.c"))).get("oer_fetch_length", ""))
    out["oerLengthLimitedByRsizeMax"] = bool(re.search(r"len\s*>\s*RSIZE_MAX", ol))
    # zero-width element guards
    su = strip_comments(dict(functions(os.path.join(sk, "constr_SET_OF.c"))).get("SET_OF_decode_uper", ""))
    # (F47 repaired) the guard compares the stream position before and after the element decoder, not rv.consumed:
    # `size_t moved = pd->moved;` ... uper_decoder(...) ... `if(pd->moved == moved && nelems > N) ASN__DECODE_FAILED`
    g = re.search(r"moved\s*=\s*pd->moved\s*;.*?->uper_decoder\s*\(.*?if\s*\(\s*pd->moved\s*==\s*moved\s*&&\s*nelems\s*>\s*(\d+)\s*\)\s*\{[^}]*ASN__DECODE_FAILED", su, re.S)
    out["zeroWidthLimitUper"] = int(g.group(1)) if g else None
    so = strip_comments(dict(functions(os.path.join(sk, "constr_SET_OF_oer.c"))).get("SET_OF_decode_oer", ""))
    g = re.search(r"rv\.consumed\s*==\s*0\s*&&\s*base_ptr\s*==\s*ptr\s*&&\s*\(base_ctx_left\s*-\s*ctx->left\)\s*>\s*(\d+)\s*\)\s*\{[^}]*ASN__DECODE_FAILED", so)
    out["zeroWidthLimitOer"] = int(g.group(1)) if g else None
    # zero-width characters (single-character permitted alphabet): a fragmented length is refused
    ou = strip_comments(dict(functions(os.path.join(sk, "OCTET_STRING.c"))).get("OCTET_STRING_decode_uper", ""))
    out["zeroWidthCharGuardUper"] = bool(re.search(r"if\s*\(\s*unit_bits\s*==\s*0\s*&&\s*repeat\s*\)\s*\{\s*RETURN\s*\(\s*RC_FAIL\s*\)", ou))
    # fragment size of uper_get_length
    gl = strip_comments(dict(functions(os.path.join(sk, "per_support.c"))).get("uper_get_length", ""))
    g = re.search(r"return\s*\(\s*(\d+)\s*\*\s*value\s*\)", gl)
    g2 = re.search(r"value\s*<\s*(\d+)\s*\|\|\s*value\s*>\s*(\d+)", gl)
    out["uperFragmentUnit"] = int(g.group(1)) if g else None
    out["uperFragmentMaxMult"] = int(g2.group(2)) if g2 else None
    # decoder inventory
    guarded = {}; discarded = []; via_tags = {}
    files = sorted(f for f in os.listdir(sk) if f.endswith(".c") and f != "converter-example.c")
    for f in files:
        for name, body in functions(os.path.join(sk, f)):
            if not DECODER_NAME.search(name): continue
            b = strip_comments(body)
            eff = bool(re.search(r"if\s*\(\s*ASN__STACK_OVERFLOW_CHECK\s*\(", b))
            anyc = bool(re.search(r"ASN__STACK_OVERFLOW_CHECK\s*\(", b))
            guarded[name] = eff
            if anyc and not eff: discarded.append(name)
            via_tags[name] = bool(re.search(r"\bber_check_tags\s*\(", b)) and name != "ber_check_tags"
    out["guardedDecoders"] = sorted(guarded.items())
    out["constructedDecoders"] = sorted(n for n in guarded if CONSTRUCTED_NAME.match(n))
    out["discardedChecks"] = sorted(discarded)
    out["callsBerCheckTags"] = sorted(via_tags.items())
    # which wrappers install the default limit
    inst = []
    for f, fn in (("ber_decoder.c", "ber_decode"), ("per_decoder.c", "uper_decode"), ("oer_decoder.c", "oer_decode"), ("xer_decoder.c", "xer_decode")):
        b = strip_comments(dict(functions(os.path.join(sk, f))).get(fn, ""))
        inst.append((fn, bool(re.search(r"max_stack_size\s*=\s*ASN__DEFAULT_STACK_MAX", b))))
    out["installsDefaultLimit"] = inst
    # length-prefix allocations: is the length compared with the remaining size before the allocation?
    sites = []
    for f, fn, av, cv in LENGTH_ALLOC_SITES:
        b = strip_comments(dict(functions(os.path.join(sk, f))).get(fn, ""))
        a = re.search(r"\b(?:MALLOC|CALLOC)\s*\((?:\s*1\s*,)?\s*" + av + r"\s*\+\s*1\s*\)", b)
        c = re.search(r"(?:\b" + cv + r"\s*>\s*(?:\(\w+\)\s*)?size\b)|(?:\bsize\s*<\s*" + cv + r"\b)", b)
        sites.append((fn, bool(a and c and c.start() < a.start())))
    out["lengthCheckedSites"] = sites
    return out

def lean_bool(b): return "true" if b else "false"
def lean_optnat(v): return "none" if v is None else f"some {v}"

def render(x):
    L = []
    L.append("/- GENERATED by vlib/props/c15_translate.py from /repo/skeletons on every run of `./check C15`.  Do not edit. -/")
    L.append("namespace Asn1c.Generated.StackGuard\n")
    L.append("/-- `#define ASN__DEFAULT_STACK_MAX` (asn_internal.h) -/")
    L.append(f"def defaultStackMax : Option Nat := {lean_optnat(x['defaultStackMax'])}")
    L.append("/-- ASN__STACK_OVERFLOW_CHECK returns -1 iff `ctx && ctx->max_stack_size` and used stack > max_stack_size -/")
    L.append(f"def checkComparesUsedWithMax : Bool := {lean_bool(x['checkComparesUsedWithMax'])}")
    L.append("/-- RSIZE_MAX, RSSIZE_MAX of asn_system.h on LP64 -/")
    L.append(f"def rsizeMax : Option Nat := {lean_optnat(x['rsizeMax'])}")
    L.append(f"def rssizeMax : Option Nat := {lean_optnat(x['rssizeMax'])}")
    L.append(f"def berLengthLimitedByRssizeMax : Bool := {lean_bool(x['berLengthLimitedByRssizeMax'])}")
    L.append(f"def oerLengthLimitedByRsizeMax : Bool := {lean_bool(x['oerLengthLimitedByRsizeMax'])}")
    L.append("/-- the `pd->moved == moved && nelems > N` guard of SET_OF_decode_uper, `moved` taken before the element decoder (none = guard not found) -/")
    L.append(f"def zeroWidthLimitUper : Option Nat := {lean_optnat(x['zeroWidthLimitUper'])}")
    L.append("/-- the `rv.consumed == 0 && base_ptr == ptr && (base_ctx_left - ctx->left) > N` guard of SET_OF_decode_oer -/")
    L.append(f"def zeroWidthLimitOer : Option Nat := {lean_optnat(x['zeroWidthLimitOer'])}")
    L.append("/-- the `unit_bits == 0 && repeat` guard of OCTET_STRING_decode_uper (zero-width characters are not accepted in fragments) -/")
    L.append(f"def zeroWidthCharGuardUper : Bool := {lean_bool(x['zeroWidthCharGuardUper'])}")
    L.append("/-- uper_get_length: a fragment announces `unit * m` items, 1 <= m <= maxMult -/")
    L.append(f"def uperFragmentUnit : Option Nat := {lean_optnat(x['uperFragmentUnit'])}")
    L.append(f"def uperFragmentMaxMult : Option Nat := {lean_optnat(x['uperFragmentMaxMult'])}")
    L.append("\n/-- decoder entry points of the skeletons × \"body contains `if(ASN__STACK_OVERFLOW_CHECK(...))`\" -/")
    L.append("def guardedDecoders : List (String × Bool) := [")
    L.append(",\n".join(f'  ("{n}", {lean_bool(b)})' for n, b in x["guardedDecoders"]))
    L.append("]")
    L.append("\n/-- the rows of `guardedDecoders` that are entry points of a constructed type (SEQUENCE, SET, SET OF, CHOICE) in any syntax -/")
    L.append("def constructedDecoders : List String := [" + ", ".join(f'"{n}"' for n in x["constructedDecoders"]) + "]")
    L.append("\n/-- decoders that call ASN__STACK_OVERFLOW_CHECK but throw the verdict away -/")
    L.append("def discardedChecks : List String := [" + ", ".join(f'"{n}"' for n in x["discardedChecks"]) + "]")
    L.append("\n/-- decoder entry points × \"body calls ber_check_tags\" (the BER decoders are guarded through it) -/")
    L.append("def callsBerCheckTags : List (String × Bool) := [")
    L.append(",\n".join(f'  ("{n}", {lean_bool(b)})' for n, b in x["callsBerCheckTags"]))
    L.append("]")
    L.append("\n/-- top-level wrappers × \"installs ASN__DEFAULT_STACK_MAX when the caller gives no context\" -/")
    L.append("def installsDefaultLimit : List (String × Bool) := [" + ", ".join(f'("{n}", {lean_bool(b)})' for n, b in x["installsDefaultLimit"]) + "]")
    L.append("\n/-- allocations sized by a length prefix × \"the length is compared with the remaining input before the allocation\" -/")
    L.append("def lengthCheckedSites : List (String × Bool) := [" + ", ".join(f'("{n}", {lean_bool(b)})' for n, b in x["lengthCheckedSites"]) + "]")
    L.append("\nend Asn1c.Generated.StackGuard\n")
    return "\n".join(L)

def write(lean_dir=None, repo=None):
    x = extract(repo)
    text = render(x)
    path = os.path.join(lean_dir or build.LEAN, "Asn1cModel", "Generated", "StackGuard.lean")
    os.makedirs(os.path.dirname(path), exist_ok=True)
    old = open(path).read() if os.path.exists(path) else None
    if old != text:
        with open(path, "w") as fh: fh.write(text)
    return x, path

if __name__ == "__main__":
    import json
    x, p = write()
    print(p); print(json.dumps(x, indent=1))
