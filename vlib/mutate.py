"""Structure-aware-ish mutations of valid encodings (malformed stream of C04/C14/C15/C18)."""
def truncations(b, cap=None):
    n = len(b)
    idx = range(n) if cap is None or n <= cap else sorted(set(list(range(min(n, cap // 2))) + [n - 1 - i for i in range(min(n, cap // 4))] + [n * i // (cap // 4) for i in range(cap // 4)]))
    return [b[:i] for i in idx]

def bitflips(b, rng, k):
    out = []
    n = len(b)
    if n == 0: return out
    for _ in range(k):
        i = rng.randrange(n); bit = 1 << rng.randrange(8)
        out.append(b[:i] + bytes([b[i] ^ bit]) + b[i + 1:])
    return out

def all_bitflips(b, cap_bytes=24):
    out = []
    for i in range(min(len(b), cap_bytes)):
        for bit in range(8):
            out.append(b[:i] + bytes([b[i] ^ (1 << bit)]) + b[i + 1:])
    return out

def surgery(b, rng, k):
    """length / tag surgery: overwrite a byte with boundary values, insert / delete bytes, splice"""
    out = []
    n = len(b)
    if n == 0: return [b"\x00", b"\xff", b"\x80"]
    specials = [0x00, 0x01, 0x7f, 0x80, 0x81, 0x82, 0x84, 0x88, 0xff, 0x1f, 0x3f, 0xbf, 0x30, 0xa0]
    for _ in range(k):
        i = rng.randrange(n)
        c = rng.randrange(5)
        if c == 0: out.append(b[:i] + bytes([rng.choice(specials)]) + b[i + 1:])
        elif c == 1: out.append(b[:i] + bytes([rng.choice(specials)]) + b[i:])
        elif c == 2: out.append(b[:i] + b[i + 1:])
        elif c == 3: out.append(b[:i] + bytes([0x84, 0x7f, 0xff, 0xff, 0xff]) + b[i + 1:])
        else:
            j = rng.randrange(n)
            out.append(b[:i] + b[j:])
    return out

def randoms(rng, k, maxlen=40):
    return [bytes(rng.getrandbits(8) for _ in range(rng.randrange(0, maxlen))) for _ in range(k)]

def byte_sweep(b, cap_pos=16, values=(0x00, 0xff, 0x80)):
    """every position (up to cap_pos) overwritten with each boundary value, with and without
    truncation right after the overwritten byte: hits every length / count / tag octet"""
    out = []
    for i in range(min(len(b), cap_pos)):
        for v in values:
            if b[i] != v:
                out.append(b[:i] + bytes([v]) + b[i + 1:])
                out.append(b[:i] + bytes([v]))
    return out
