"""Translator for C19: inventory of the writable state of the skeleton library.

Run by `vlib/props/c19.py` on EVERY check run; writes `Asn1cModel/Generated/Globals.lean` into the
Lean project (build.LEAN), so the theorems of Props/C19.lean (closed by `decide` over the generated
lists) are re-checked against what /repo's working tree says *now*.

Two independent detection methods, the union is emitted:

  (1) objects:  every skeletons/*.c (except converter-example.c) is compiled with plain flags
      (-O0: nothing is optimised away) and `nm -f sysv` lists every OBJECT symbol together with its
      section.  Writable = .data* / .bss* / .tdata / .tbss / COMMON; `.data.rel.ro*` is `const` data
      that merely needs load-time relocation (class "relro", read-only once the program runs).
      Function-local statics appear as `name.N`.
  (2) source:   a comment/string-stripped scan for `static` definitions of non-`const` objects at file
      scope and inside function bodies, *ignoring* preprocessor conditionals, so variants that are not
      compiled on this platform are seen as well.

Symbols are named `function::name` (function-local static) or `name` (file scope).
Classes: "table"     – initialised descriptor/table (asn_DEF_*, asn_OP_*, asn_SPC_*, …_tags, …_specs,
                        …_constraints …; historic missing `const`, never written by codecs),
         "relro"     – const after relocation,
         "unwritten" – a non-const internal-linkage object that gcc -O2 places in a read-only section
                        (.rodata / .data.rel.ro): the compiler has proved that the translation unit never
                        stores to it and that its address does not escape (historic missing `const`),
         "mutable"   – everything else (scratch buffers, counters, caches).

Also emitted: how every mutable object is used inside its function (`mutableGlobalUses`), which
objects import a function that owns a mutable static (`mutableOwnerImporters`), the non-reentrant libc
functions imported by the objects / mentioned by the source (`nonReentrantCalls`), and the time
functions actually linked (`timeImports`: which timegm variant is compiled on this platform)."""
import os, re, subprocess, json
from . import build

TABLE_RE = re.compile(
    r"^(asn_(DEF|OP|SPC|MBR|PER|OER|MAP|IOS|VAL|TAG2EL|CANONICAL|TYPE)_\w+"
    r"|\w+_(tags|all_tags|specs|constraints|per_constraints|oer_constraints|constraint_size|tag2el|tag2el_cxer|value2enum|enum2value|mmap|oms|presence_map)(_\d+)?)$")

NONREENTRANT = ["localtime", "gmtime", "ctime", "asctime", "strtok", "setenv", "putenv", "unsetenv", "tzset",
                "rand", "srand", "random", "srandom", "drand48", "lrand48", "mrand48", "strerror", "setlocale",
                "getlogin", "ttyname", "readdir", "gethostbyname", "getpwnam", "getpwuid", "getgrnam", "ecvt", "fcvt",
                "strsignal", "tmpnam", "basename", "dirname", "wcstombs", "mbstowcs", "mblen", "mbtowc", "wctomb"]
TIMEFUNCS = ["timegm", "mktime", "localtime_r", "gmtime_r", "localtime", "gmtime", "setenv", "unsetenv", "putenv", "tzset", "getenv", "time"]
WRITABLE_SECT = re.compile(r"^(\.data(?!\.rel\.ro)|\.bss|\.tdata|\.tbss|\*COM\*|\.sdata|\.sbss)")
RELRO_SECT = re.compile(r"^\.data\.rel\.ro")

PLAIN_FLAGS = ["-std=gnu99", build.GUARD, "-w"]       # no -g: `nm -f sysv` would parse the DWARF line table

# ------------------------------------------------------------------ objects

def compile_plain(opt="-O0"):
    """Objects of every skeleton source with plain flags; cached by content hash.  Returns {src: obj}."""
    srcs = build.skel_sources()
    flags = PLAIN_FLAGS + [opt, "-I" + os.path.join(build.REPO, "skeletons")]
    key = "skel-nm-" + build._hash(srcs + build.skel_headers(), flags)
    d = os.path.join(build.CACHE, key)
    stamp = os.path.join(d, "ok")
    with build._Lock(key):
        if not os.path.exists(stamp) or os.environ.get("VERIF_NO_CACHE"):
            import shutil
            shutil.rmtree(d, ignore_errors=True)
            build.compile_objects(srcs, os.path.join(d, "obj"), flags)
            open(stamp, "w").close()
        else:
            os.utime(d)
    build._evict()
    return {s: os.path.join(d, "obj", os.path.basename(s)[:-2] + ".o") for s in srcs}

_NM_CACHE = {}

def nm_many(objs):
    """One `nm -f sysv` call for many objects (process start-up dominates); fills the cache used by nm_objects."""
    objs = [o for o in objs if o not in _NM_CACHE]
    if not objs: return
    r = subprocess.run(["nm", "-f", "sysv"] + objs, stdout=subprocess.PIPE, stderr=subprocess.PIPE, text=True)
    if r.returncode != 0:
        raise build.BuildError("nm failed\n" + r.stderr[-2000:])
    cur = objs[0] if len(objs) == 1 else None
    for o in objs: _NM_CACHE[o] = ([], [], set())
    for line in r.stdout.split("\n"):
        m = re.match(r"^(?:Undefined symbols|Symbols) from (.*):$", line)
        if m: cur = m.group(1); continue
        f = [x.strip() for x in line.split("|")]
        if len(f) != 7 or f[0] == "Name" or cur is None: continue
        syms, undef, funcs = _NM_CACHE[cur]
        name, _val, cls, typ, _size, _line, sect = f
        if cls == "U" or sect == "*UND*":
            undef.append(name); continue
        if typ == "FUNC": funcs.add(name); continue
        if typ in ("OBJECT", "TLS", "COMMON") or cls in "bBdDsSgGcC":
            syms.append((name, sect, cls, "local" if cls.islower() else "global"))

def nm_objects(obj):
    """([(name, section, nm-class, "local"|"global")] of OBJECT/TLS/COMMON symbols, [undefined names], {function names})."""
    nm_many([obj])
    return _NM_CACHE[obj]

# ------------------------------------------------------------------ source scan

_TOK_RE = re.compile(r"""
    (?P<cmt>/\*.*?\*/|//[^\n]*)
  | (?P<str>"(?:\\.|[^"\\\n])*"|'(?:\\.|[^'\\\n])*')
  | (?P<pp>^[ \t]*\#(?:[^\n\\]|\\\n|\\.)*)
""", re.S | re.M | re.X)

def strip_c(text, keep_pp=False):
    """Blank out comments, string/char literals and (unless keep_pp) preprocessor lines, keeping offsets and newlines."""
    def blank(t): return re.sub(r"[^\n]", " ", t)
    def rep(m):
        t = m.group(0)
        if m.group("cmt") is not None: return blank(t)
        if m.group("str") is not None: return t[0] + blank(t[1:-1]) + t[-1]
        if keep_pp:
            # keep the directive text but still blank comments/strings inside it
            return _TOK_RE.sub(lambda k: k.group(0) if k.group("pp") is not None and k.start() == 0 else rep(k), t[:1]) + \
                   _INNER_RE.sub(lambda k: blank(k.group(0)) if k.group("cmt") is not None else k.group(0)[0] + blank(k.group(0)[1:-1]) + k.group(0)[-1], t[1:])
        return blank(t)
    return _TOK_RE.sub(rep, text)

_INNER_RE = re.compile(r"""(?P<cmt>/\*.*?\*/|//[^\n]*)|(?P<str>"(?:\\.|[^"\\\n])*"|'(?:\\.|[^'\\\n])*')""", re.S)

def _strip_brackets(s):
    out = []; d = 0
    for ch in s:
        if ch == "[": d += 1
        elif ch == "]": d -= 1
        elif d == 0: out.append(ch)
    return "".join(out)

KEYWORDS = {"if", "while", "for", "switch", "return", "sizeof", "do", "else", "case"}

def scan_statics(text):
    """[(function|None, name, is_const, decl_offset, body_start, body_end)] of every `static` object definition."""
    s = strip_c(text)
    n = len(s)
    hits = []
    # function extents: at depth 0 a '{' preceded by ')' (modulo spaces) opens a function body
    depth = 0; i = 0; func = None; fstart = None
    stack = []
    funcs = []      # (name, start, end)
    while i < n:
        c = s[i]
        if c == "{":
            if depth == 0:
                j = i - 1
                while j >= 0 and s[j].isspace(): j -= 1
                func = None
                if j >= 0 and s[j] == ")":
                    # find the matching '('
                    d = 0; k = j
                    while k >= 0:
                        if s[k] == ")": d += 1
                        elif s[k] == "(":
                            d -= 1
                            if d == 0: break
                        k -= 1
                    m = re.search(r"(\w+)\s*$", s[:k])
                    if m and m.group(1) not in KEYWORDS: func = m.group(1)
                fstart = i
            depth += 1
        elif c == "}":
            depth -= 1
            if depth == 0 and func:
                funcs.append((func, fstart, i)); func = None
        i += 1
    def func_at(off):
        for name, a, b in funcs:
            if a < off < b: return name, a, b
        return None, 0, n
    fnames = set(f[0] for f in funcs)
    for m in re.finditer(r"\bstatic\b", s):
        off = m.start()
        # declaration text up to the terminating ';' (initialisers / struct bodies may contain braces);
        # a '{' directly after ')' at depth 0 is a function body: not an object
        j = m.end(); pd = 0; bd = 0; is_func = False
        while j < n:
            ch = s[j]
            if ch == "(": pd += 1
            elif ch == ")": pd -= 1
            elif ch == "{":
                if pd == 0 and bd == 0:
                    k = j - 1
                    while k >= 0 and s[k].isspace(): k -= 1
                    if s[k] == ")": is_func = True; break
                bd += 1
            elif ch == "}": bd -= 1
            elif ch == ";" and pd == 0 and bd == 0: break
            if pd < 0 or bd < 0: break
            j += 1
        if is_func: continue
        decl = s[m.end():j]
        # cut at the initialiser: the first '=' outside braces/parens/brackets
        d = 0; cut = len(decl)
        for k, ch in enumerate(decl):
            if ch in "({[": d += 1
            elif ch in ")}]": d -= 1
            elif ch == "=" and d == 0: cut = k; break
        head = decl[:cut]
        # drop struct/union/enum bodies and attribute macros
        head = re.sub(r"\{[^{}]*\}", " ", head)
        head = re.sub(r"\b(CC_NOTUSED|CC_ATTRIBUTE\s*\([^)]*\)|__attribute__\s*\(\([^)]*\)\))", " ", head)
        head_nb = _strip_brackets(head)
        if "(" in head_nb:      # prototype or function pointer
            mm = re.match(r"[^(]*\(\s*\*\s*(const\s+)?(\w+)", head_nb)
            if not mm: continue
            name = mm.group(2); is_const = bool(mm.group(1))
        else:
            mm = re.search(r"(\w+)\s*$", head_nb.strip())
            if not mm: continue
            name = mm.group(1)
            if "*" in head_nb:
                is_const = bool(re.search(r"\bconst\b", head_nb[head_nb.rfind("*"):]))
            else:
                is_const = bool(re.search(r"\bconst\b", head_nb))
        if name in ("inline", "struct", "union", "enum") or name in fnames: continue   # `static fn_typedef name;` prototypes
        fn, a, b = func_at(off)
        hits.append((fn, name, is_const, off, a, b, j))
    return s, hits

def use_kinds(s, name, a, b, decl_off, decl_end):
    """How `name` is used between offsets a..b of stripped source s (excluding its declaration).
    Kinds: sizeof | write | addr | arg<k>:<callee> (k = 0-based argument position) | return | read."""
    kinds = set()
    for m in re.finditer(r"\b" + re.escape(name) + r"\b", s[a:b]):
        off = a + m.start()
        if decl_off <= off <= decl_end: continue
        if off > 0 and (s[off - 1] == "." or s[off - 2:off] == "->"): continue      # a member of the same name
        before = s[max(0, off - 40):off].rstrip()
        if re.search(r"\b(struct|enum|union)\s*$", before): continue                 # a tag of the same name
        k = off + len(name)
        while True:         # skip index expressions
            while k < b and s[k].isspace(): k += 1
            if k < b and s[k] == "[":
                d = 0
                while k < b:
                    if s[k] == "[": d += 1
                    elif s[k] == "]":
                        d -= 1
                        if d == 0: k += 1; break
                    k += 1
                continue
            break
        after = s[k:k + 3]
        if re.search(r"sizeof\s*\(?\s*$", before): kinds.add("sizeof"); continue
        if re.match(r"(=[^=]|\+=|-=|\*=|/=|%=|&=|\|=|\^=|<<=|>>=|\+\+|--)", after) or before.endswith("++") or before.endswith("--"):
            kinds.add("write"); continue
        if before.endswith("&") and not before.endswith("&&"): kinds.add("addr"); continue
        # innermost enclosing '(' within the statement, and the argument position
        d = 0; p = off - 1; callee = None; argi = 0
        while p >= a:
            ch = s[p]
            if ch in ")]": d += 1
            elif ch == "[": d -= 1
            elif ch == "," and d == 0: argi += 1
            elif ch == "(":
                if d == 0:
                    mm = re.search(r"(\w+)\s*$", s[a:p])
                    callee = mm.group(1) if mm else "?"
                    break
                d -= 1
            elif ch in ";{}" and d == 0: break
            p -= 1
        if callee and callee not in KEYWORDS and callee != "?": kinds.add("arg%d:%s" % (argi, callee)); continue
        if re.search(r"\breturn\s*$", before): kinds.add("return"); continue
        kinds.add("read")
    return sorted(kinds)

# ------------------------------------------------------------------ translate

RO_SECT = re.compile(r"^(\.rodata|\.data\.rel\.ro)")

GEN_BSS_TABLE_RE = re.compile(r"^asn_(PER|OER)_(type|memb)_\w+_constr_\d+$")

def classify(name, sect, is_const=None, opt_sects=None, generated=False):
    """opt_sects: sections of the same static in the optimised (-O2) object, if any.
    A "table" must match the descriptor/table name patterns, be a file-scope object and be *initialised*
    data (.data*): a zero-initialised or function-local object named `..._specs` is not a table.
    (generated module objects: all-zero `asn_OER/PER_*_constr_N` records land in .bss.)"""
    local = bool(re.search(r"\.\d+$", name))
    base = re.sub(r"\.\d+$", "", name)
    if sect is not None and RELRO_SECT.match(sect): return "relro"
    if is_const: return "relro"
    if TABLE_RE.match(base) and not local:
        if sect is None or sect.startswith(".data"): return "table"
        if generated and GEN_BSS_TABLE_RE.match(base): return "table"
    if opt_sects and all(RO_SECT.match(x) for x in opt_sects): return "unwritten"
    return "mutable"

def inventory(srcs_objs, srcs_objs_opt=None):
    """srcs_objs: {src: obj} (-O0), srcs_objs_opt: {src: obj} (-O2).  Returns the lists described in the module doc."""
    globs = {}          # (file, symbol) -> {"class", "how": set}
    uses = []           # (file, symbol, [kinds])
    owners = {}         # function -> file   (functions owning a mutable static)
    undef_by_file = {}
    nonre = []; timei = []
    nm_many(sorted(srcs_objs.values()) + (sorted(srcs_objs_opt.values()) if srcs_objs_opt else []))
    for src in sorted(srcs_objs):
        obj = srcs_objs[src]
        fname = os.path.basename(src)
        text = open(src, errors="replace").read()
        s, hits = scan_statics(text)
        syms, undef, funcs = nm_objects(obj)
        opt = {}
        if srcs_objs_opt:
            osyms, oundef, _ = nm_objects(srcs_objs_opt[src])
            for name, sect, cls, bind in osyms:
                opt.setdefault(re.sub(r"\.\d+$", "", name), []).append(sect)
            undef = sorted(set(undef) | set(oundef))
        undef_by_file[fname] = set(undef)
        hits = [h for h in hits if h[1] not in funcs]
        local = {}; filescope = {}
        for h in hits:
            (local if h[0] else filescope).setdefault(h[1], []).append(h)
        seen_src = set()
        for name, sect, cls, bind in syms:
            writable = bool(WRITABLE_SECT.match(sect)); relro = bool(RELRO_SECT.match(sect))
            if not (writable or relro): continue
            m = re.match(r"^(.*)\.(\d+)$", name)
            info = None
            if m:
                base = m.group(1); cands = local.get(base, [])
                cands2 = [c for c in cands if c[2] == relro] or cands     # compatible const-ness
                if len(cands2) == 1:
                    info = cands2[0]; q = info[0] + "::" + base; seen_src.add((info[0], base))
                elif len(cands2) > 1:
                    q = "|".join(sorted(set(c[0] for c in cands2))) + "::" + base
                    for c in cands2: seen_src.add((c[0], base))
                else:
                    q = "?::" + base
            else:
                base = name; q = name; info = (filescope.get(name) or [None])[0]
                seen_src.add((None, name))
            # gcc only moves internal-linkage objects it has proved unwritten; external ones stay where they are
            c = classify(name, sect, None, opt.get(base) if bind == "local" else None)
            e = globs.setdefault((fname, q), {"class": c, "how": set(), "sect": sect})
            e["how"].add("nm")
            if c == "unwritten": e["how"].add("O2:" + ",".join(sorted(set(opt.get(base)))))
            if c in ("mutable", "unwritten"):
                if info and info[0]:
                    uses.append((fname, q, use_kinds(s, base, info[4], info[5], info[3], info[6])))
                    if c == "mutable": owners[info[0]] = fname
                elif info:
                    uses.append((fname, q, use_kinds(s, base, 0, len(s), info[3], info[6])))
                else:
                    uses.append((fname, q, ["unknown"]))
        # source-only hits (not compiled here, or under an inactive #if)
        for fn, name, is_const, off, a, b, dend in hits:
            q = (fn + "::" + name) if fn else name
            c = classify(name + ".0" if fn else name, None, is_const)
            if (fn, name) in seen_src:
                if (fname, q) in globs: globs[(fname, q)]["how"].add("source")
                continue
            if is_const: continue           # const objects not in a writable section: irrelevant
            e = globs.setdefault((fname, q), {"class": c, "how": set(), "sect": "(source only)"})
            e["how"].add("source")
            if c == "mutable":
                uses.append((fname, q, use_kinds(s, name, a, b, off, dend)))
                if fn: owners[fn] = fname
        # non-reentrant libc (macro bodies included: GeneralizedTime.c hides setenv/tzset in #define ATZ*)
        s_pp = strip_c(text, keep_pp=True)
        for f in NONREENTRANT:
            if f in undef: nonre.append((fname, f, "import"))
            elif re.search(r"(?<![\w.>])" + f + r"\s*\(", s_pp): nonre.append((fname, f, "source"))
        for f in TIMEFUNCS:
            if f in undef: timei.append((fname, f))
    importers = []
    for fname, und in sorted(undef_by_file.items()):
        for fn in sorted(owners):
            if fn in und: importers.append((fname, fn))
    # calls from inside the defining file (not visible as imports): outside ASN_DEBUG(...) statements
    for fn, fname in sorted(owners.items()):
        src = [x for x in srcs_objs if os.path.basename(x) == fname][0]
        s = strip_c(open(src, errors="replace").read())
        for m in re.finditer(r"\b" + re.escape(fn) + r"\s*\(", s):
            p = m.start() - 1; d = 0       # back to the statement start
            while p >= 0:
                if s[p] == ")": d += 1
                elif s[p] == "(": d -= 1
                elif s[p] in ";{}" and d <= 0: break
                p -= 1
            stmt = s[p + 1:m.start()]
            if re.match(r"\s*ASN_DEBUG\s*\(", stmt): continue
            if d == 0 and re.fullmatch(r"[\w\s\*]*", stmt): continue        # the definition / a prototype
            importers.append((fname + "(self)", fn))
    wl = sorted((f, q, e["class"]) for (f, q), e in globs.items())
    return {"writableGlobals": wl,
            "methods": {f + ":" + q: sorted(e["how"]) + [e["sect"]] for (f, q), e in globs.items()},
            "mutableGlobalUses": sorted(set((f, q, tuple(k)) for f, q, k in uses)),
            "mutableOwnerImporters": sorted(set(importers)),
            "nonReentrantCalls": sorted(set(nonre)),
            "timeImports": sorted(set(timei))}

def lean_str(s):
    return '"' + s.replace("\\", "\\\\").replace('"', '\\"') + '"'

def render(inv):
    L = []
    L.append("/- GENERATED by vlib/trans_globals.py from the skeleton sources of the asn1c working tree")
    L.append("   (nm on freshly compiled objects + source scan).  Do not edit: rewritten by every `./check C19`. -/")
    L.append("namespace Asn1c.Generated")
    L.append("")
    L.append("/-- (file, symbol, class): every object in a writable section of a skeleton object, and every")
    L.append("    `static` non-const definition found in the source.  class ∈ table | relro | unwritten | mutable. -/")
    L.append("def writableGlobals : List (String × String × String) := [")
    L.append(",\n".join(f"  ({lean_str(f)}, {lean_str(q)}, {lean_str(c)})" for f, q, c in inv["writableGlobals"]))
    L.append("]")
    L.append("")
    L.append("/-- (file, symbol, kinds of use inside the owning function) for every mutable object. -/")
    L.append("def mutableGlobalUses : List (String × String × List String) := [")
    L.append(",\n".join(f"  ({lean_str(f)}, {lean_str(q)}, [{', '.join(lean_str(k) for k in ks)}])" for f, q, ks in inv["mutableGlobalUses"]))
    L.append("]")
    L.append("")
    L.append("/-- (importing object/file, function): references to a function that owns a mutable static. -/")
    L.append("def mutableOwnerImporters : List (String × String) := [")
    L.append(",\n".join(f"  ({lean_str(f)}, {lean_str(q)})" for f, q in inv["mutableOwnerImporters"]))
    L.append("]")
    L.append("")
    L.append("/-- (file, libc function, \"import\" = linked on this platform | \"source\" = only in the text). -/")
    L.append("def nonReentrantCalls : List (String × String × String) := [")
    L.append(",\n".join(f"  ({lean_str(f)}, {lean_str(q)}, {lean_str(h)})" for f, q, h in inv["nonReentrantCalls"]))
    L.append("]")
    L.append("")
    L.append("/-- (file, time/environment function imported by the compiled object). -/")
    L.append("def timeImports : List (String × String) := [")
    L.append(",\n".join(f"  ({lean_str(f)}, {lean_str(q)})" for f, q in inv["timeImports"]))
    L.append("]")
    L.append("")
    L.append("end Asn1c.Generated")
    return "\n".join(L) + "\n"

def translate(lean_dir=None):
    """Compile, scan, write Generated/Globals.lean (only when the content changed).  Returns the inventory."""
    lean_dir = lean_dir or build.LEAN
    inv = inventory(compile_plain("-O0"), compile_plain("-O2"))
    text = render(inv)
    path = os.path.join(lean_dir, "Asn1cModel", "Generated", "Globals.lean")
    os.makedirs(os.path.dirname(path), exist_ok=True)
    old = open(path).read() if os.path.exists(path) else None
    if old != text:
        with build._Lock("lake"):
            tmp = path + ".tmp%d" % os.getpid()
            with open(tmp, "w") as fh: fh.write(text)
            os.replace(tmp, path)
    inv["path"] = path; inv["changed"] = old != text
    return inv

def scan_objects(objs):
    """Writable-section OBJECT symbols of arbitrary objects (used on the generated module objects)."""
    out = []
    nm_many(list(objs))
    for o in objs:
        syms, _, _ = nm_objects(o)
        for name, sect, cls, bind in syms:
            if WRITABLE_SECT.match(sect):
                out.append((os.path.basename(o), name, classify(name, sect, generated=True)))
    return out

if __name__ == "__main__":
    import sys
    inv = inventory(compile_plain("-O0"), compile_plain("-O2"))
    sys.stdout.write(render(inv))
    print(json.dumps(inv["methods"], indent=1), file=sys.stderr)
