"""Tiny s-expression parser for values dumped by the C driver / Lean driver."""
def parse(s):
    toks = s.replace("(", " ( ").replace(")", " ) ").split()
    pos = 0
    def rd():
        nonlocal pos
        t = toks[pos]; pos += 1
        if t == "(":
            out = []
            while toks[pos] != ")":
                out.append(rd())
            pos += 1
            return out
        return t
    v = rd()
    return v

def canon(v):
    """canonical form for comparison: SET members sorted by name"""
    if isinstance(v, list):
        v = [canon(x) for x in v]
        if v and v[0] == "set":
            v = ["set"] + sorted(v[1:], key=lambda m: m[0])
        return v
    return v

def same(a, b):
    try:
        return canon(parse(a)) == canon(parse(b))
    except Exception:
        return a == b
