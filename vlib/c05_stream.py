"""C05/C04 K leg for the streaming BER decoder model (lean/Asn1cModel/Impl/BerStream.lean).

For every type of a generated module the *compiled* descriptor tables are dumped by the C driver (`@T descr`)
and handed to the Lean model (`l2mod (module none (T <descr>) ...)`), so the model runs on exactly the tables
the C decoders read.  Then for valid encodings (DER and the BER variants of vlib/bervar.py), truncated and
mutated encodings (vlib/mutate.py) and several chunk schedules the C trace

    @T decchunks ber <hex> <cuts>   ->  more:<consumed> ... final <rc> <total> <value>

is compared with the model's `@T l2chunks ber <hex> <cuts>` line, character by character.
Types the model does not cover (REAL, SET, ANY, open types, recursive types ...) are counted as not_modelled."""
import collections, json, os, re
from . import build, genmod, bervar, mutate

def audit_once(ctx):
    """L leg of the streaming model: build Props/C05Stream + audit the theorems of lean/props/C05STREAM.json
    (once per check run; added to the obligations of the calling property)"""
    if getattr(ctx, "_c05stream_audited", False): return
    ctx._c05stream_audited = True
    path = os.path.join(build.LEAN, "props", "C05STREAM.json")
    if not os.path.exists(path):
        ctx.broken.append({"kind": "lean-theorem", "theorem": "C05STREAM.json", "msg": "missing"}); return
    info = json.load(open(path))
    ok, log = build.lean_build([info["module"], "a1model"])
    if not ok:
        ctx.broken.append({"kind": "lean-build", "module": info["module"], "log_tail": "\n".join(log.strip().split("\n")[-30:])}); return
    res, _ = build.lean_audit(info["module"], info["theorems"])
    good = 0
    for r in res:
        if r["ok"]: good += 1
        else: ctx.broken.append({"kind": "lean-theorem", "theorem": r["name"], "msg": r["msg"]})
    ctx.cov["obligations"] += len(res); ctx.cov["discharged"] += good
    ctx.cov.setdefault("theorems", []).extend(r["name"] for r in res)
    ctx.cov["trusted_base"] = list(ctx.cov.get("trusted_base", [])) + info.get("trusted", [])
    ctx.log(f"Lean (streaming BER model): {good}/{len(res)} obligations discharged")

FIXED_MODULE = """STRMFIX DEFINITIONS AUTOMATIC TAGS ::= BEGIN
  FxSeqOf ::= [5] EXPLICIT SEQUENCE OF INTEGER
  FxSetOf ::= [6] EXPLICIT SET OF BOOLEAN
  FxChoice ::= [7] CHOICE { x INTEGER, y BOOLEAN, z OCTET STRING }
  FxOs ::= [8] EXPLICIT OCTET STRING
  FxBits ::= BIT STRING
  FxExtSeq ::= SEQUENCE { a INTEGER, b BOOLEAN OPTIONAL, ..., c BOOLEAN, d NULL OPTIONAL }
  FxExtCh ::= CHOICE { x INTEGER, ..., y BOOLEAN }
  FxTwo ::= [9] EXPLICIT FxSeqOf
  FxIa ::= [APPLICATION 3] EXPLICIT IA5String
  FxTagEl ::= [10] EXPLICIT SET OF [1] EXPLICIT SEQUENCE { s [0] EXPLICIT FxOs, t [1] IMPLICIT FxIa OPTIONAL }
  FxMany ::= SEQUENCE { m0 INTEGER OPTIONAL, m1 BOOLEAN OPTIONAL, m2 NULL OPTIONAL, m3 INTEGER OPTIONAL, m4 BOOLEAN OPTIONAL,
                        m5 OCTET STRING OPTIONAL, m6 INTEGER OPTIONAL, m7 BOOLEAN OPTIONAL, m8 NULL OPTIONAL, m9 INTEGER OPTIONAL,
                        m10 BOOLEAN }
  FxInner ::= CHOICE { p NULL, q BOOLEAN, r SEQUENCE OF INTEGER }
  FxUntag ::= SEQUENCE { h INTEGER, ch CHOICE { u [10] NULL, v [11] FxInner, w [12] IMPLICIT SEQUENCE OF BOOLEAN } OPTIONAL, t BOOLEAN }
  FxNest ::= SEQUENCE OF SEQUENCE { k OCTET STRING, l SET OF FxExtCh }
  FxBig ::= INTEGER (0..18446744073709551615)
END
"""
FIXED_VALUES = [
    ("FxSeqOf", "(list (int 1) (int 300) (int -5))"), ("FxSeqOf", "(list)"),
    ("FxSetOf", "(list (bool t) (bool f))"),
    ("FxChoice", "(choice z (os 0102030405))"), ("FxChoice", "(choice x (int 70000))"),
    ("FxOs", "(os 00112233445566778899)"), ("FxBits", "(bs 0102f0 4)"), ("FxBits", "(bs - 0)"),
    ("FxExtSeq", "(seq (a (int 5)) (b (bool t)) (c (bool f)) (d (null)))"), ("FxExtSeq", "(seq (a (int 5)))"),
    ("FxExtCh", "(choice y (bool t))"),
    ("FxMany", "(seq (m1 (bool t)) (m5 (os 0a0b)) (m9 (int 9)) (m10 (bool f)))"), ("FxMany", "(seq (m10 (bool t)))"),
    ("FxMany", "(seq (m0 (int 1)) (m1 (bool t)) (m2 (null)) (m3 (int 3)) (m4 (bool f)) (m5 (os 01)) (m6 (int 6)) (m7 (bool t)) (m8 (null)) (m9 (int 9)) (m10 (bool t)))"),
    ("FxUntag", "(seq (h (int 1)) (ch (choice v (choice r (list (int 1) (int 2))))) (t (bool t)))"), ("FxUntag", "(seq (h (int 1)) (t (bool f)))"),
    ("FxUntag", "(seq (h (int 1)) (ch (choice w (list (bool t)))) (t (bool f)))"),
    ("FxNest", "(list (seq (k (os 010203)) (l (list (choice x (int 1)) (choice y (bool t))))) (seq (k (os -)) (l (list))))"),
    ("FxBig", "(int 18446744073709551615)"), ("FxBig", "(int 0)"),
    ("FxTwo", "(list (int 1) (int -300))"), ("FxIa", "(os 6162636465)"),
    ("FxTagEl", "(list (seq (s (os 0102)) (t (os 6162))) (seq (s (os -))))"),
]
# hand-made BER: unknown extension additions / alternatives that the decoders have to skip (ber_skip_length)
FIXED_RAW = [
    ("FxExtSeq", "300e800105 9f8101 02aabb 8201ff 8403010203"),        # unknown [129] and [4] inside the extension group
    ("FxExtSeq", "3080800105 bf2a80 0401aa 0000 8201ff 0000"),           # indefinite outer, constructed indefinite unknown extension
    ("FxExtCh", "8503010203"), ("FxExtCh", "a580040101 0000"),           # unknown alternatives (primitive, constructed indefinite)
    ("FxMany", "3080 8a01ff 0000"), ("FxMany", "3006 8a01ff 8101ff"),    # out-of-order member after the mandatory one
]

# string types of the fixed module below a written tag: length of the tag chain (for bervar.string_variants)
TAGGED_STRINGS = {("STRMFIX", "FxOs"): 2, ("STRMFIX", "FxIa"): 2}

def _fixed_bundle(ctx):
    """a fixed module exercising the shapes a random module may miss: EXPLICIT tags on SEQUENCE OF / SET OF / CHOICE /
    OCTET STRING / IA5String (two- and three-tag chains, the former region of finding F160), tagged SET OF elements,
    extension skipping, > 8 OPTIONAL members (bsearch path), untagged CHOICE members"""
    from . import bundle
    names = re.findall(r"^\s*(Fx\w+) ::=", FIXED_MODULE, re.M)
    b = bundle.Bundle("STRMFIX", FIXED_MODULE, names)
    exe = b.build()
    outs, _ = ctx.run_c_bisect(exe, [f"@{n} enc der {v}" for n, v in FIXED_VALUES])
    valid = [(n, bytes.fromhex(o[3:])) for (n, _), o in zip(FIXED_VALUES, outs) if o and str(o).startswith("ok ") and o[3:] != "-"]
    valid += [(n, bytes.fromhex(h.replace(" ", ""))) for n, h in FIXED_RAW]
    m = {"name": "STRMFIX", "types": [(n, None) for n in names], "_text": FIXED_MODULE}
    return b, (m, exe, valid)

def _schedules(rng, ln, quick, full):
    """chunk schedules for an input of ln octets: one-shot, 2-splits, byte-wise, random k-splits"""
    out = ["-"]
    if ln >= 2:
        pts = list(range(1, ln))
        if full and ln <= (40 if quick else 200): out += [str(c) for c in pts]
        else: out += [str(c) for c in sorted(rng.sample(pts, min(len(pts), 3 if quick else 8)))]
        if ln <= (200 if quick else 1500): out.append(",".join(map(str, pts)))
        for _ in range(1 if quick else 4):
            k = rng.randrange(2, min(ln - 1, 6) + 1) if ln > 3 else 1
            out.append(",".join(map(str, sorted(rng.sample(pts, min(k, len(pts)))))))
    return out

def _norm(s):
    return re.sub(r"\s+", " ", str(s)).strip()

def run_stream(ctx, bundles):
    """bundles: iterable of (module dict, C driver exe, [(type name, DER bytes)]).  Accumulates into
    ctx.cov["correspondence"]["ber_stream"]; disagreements go to ctx.broken (first few)."""
    audit_once(ctx)
    fixed = None
    if not getattr(ctx, "_c05stream_fixed", False):
        ctx._c05stream_fixed = True
        try:
            fixed, fb = _fixed_bundle(ctx)
            bundles = [fb] + list(bundles)
        except Exception as e:
            ctx.broken.append({"kind": "harness-exception", "msg": "ber_stream fixed module: " + str(e)[:500]})
    st = ctx.cov["correspondence"].setdefault("ber_stream", {})
    cnt = collections.Counter(st)
    dis = []
    rng = ctx.rng
    quick = ctx.quick
    for m, exe, valid in bundles:
        names = [n for n, _ in m["types"]]
        descr, _ = ctx.run_c_bisect(exe, [f"@{n} descr" for n in names])
        defs = [(n, d) for n, d in zip(names, descr) if d and str(d).startswith("(type ")]
        if not defs: continue
        msx = "l2mod (module none " + " ".join(f"({n} {d})" for n, d in defs) + ")"
        rc, mo, err = ctx.run_lines(build.model_exe(), [msx] + [f"@{n} l2sdescr" for n, _ in defs])
        if rc != 0 or len(mo) != len(defs) + 1: raise RuntimeError("model driver failed: " + err[-300:])
        modelled = {}
        for (n, _), o in zip(defs, mo[1:]):
            if o.startswith("ok "): modelled[n] = o[3:] == "1"; cnt["types_modelled"] += 1; cnt["types_in_theorem_domain"] += (o[3:] == "1")
            else: cnt["types_not_modelled"] += 1; cnt["not_modelled:" + o.split(" ", 1)[1][:28]] += 1
        seen = set()
        lines = []      # (type, hex, cuts, class)
        per_type = collections.Counter()
        cap_valid = (3 if quick else 8) if m["name"] != "STRMFIX" else 99
        for n, der in valid:
            if n not in modelled: cnt["inputs_not_modelled"] += 1; continue
            if (n, der) in seen or per_type[n] >= cap_valid or len(der) == 0 or len(der) > (300 if quick else 3000): continue
            seen.add((n, der)); per_type[n] += 1
            inputs = [("der", der, True)]
            for vn, vb in bervar.variants(der, rng, 1 if quick else 3):
                inputs.append(("ber:" + vn.rstrip("0123456789"), vb, vn in ("all-indefinite", "long-form")))
            if (m["name"], n) in TAGGED_STRINGS:
                for vn, vb in bervar.string_variants(der, TAGGED_STRINGS[(m["name"], n)], False, rng):
                    inputs.append(("ber:" + vn, vb, vn.endswith("indef")))
            muts = []
            tr = mutate.truncations(der, cap=8 if quick else 32)
            muts += [("trunc", x) for x in (tr if not quick else rng.sample(tr, min(len(tr), 4)))]
            muts += [("bitflip", x) for x in mutate.bitflips(der, rng, 3 if quick else 12)]
            muts += [("surgery", x) for x in mutate.surgery(der, rng, 3 if quick else 12)]
            muts += [("sweep", x) for x in rng.sample(mutate.byte_sweep(der), min(4 if quick else 16, len(mutate.byte_sweep(der))))]
            if len(inputs) > 2:
                vb = inputs[2][1]
                muts += [("trunc-indef", x) for x in rng.sample(mutate.truncations(vb), min(3 if quick else 10, len(vb)))]
                muts += [("bitflip-indef", x) for x in mutate.bitflips(vb, rng, 2 if quick else 8)]
            for cls, x in muts:
                if 0 < len(x) <= 400: inputs.append((cls, x, False))
            for cls, data, full in inputs:
                hx = data.hex()
                for cuts in _schedules(rng, len(data), quick, full):
                    lines.append((n, hx, cuts, cls))
        if not lines: continue
        cl = [f"@{n} decchunks ber {hx} {cuts}" for n, hx, cuts, _ in lines]
        ml = [msx] + [f"@{n} l2chunks ber {hx} {cuts}" for n, hx, cuts, _ in lines]
        co, _ = ctx.run_c_parallel(exe, cl, env={"VERIF_LINE_TIMEOUT": "3"})
        rc, mo, err = ctx.run_lines(build.model_exe(), ml)
        if rc != 0 or len(mo) != len(ml): raise RuntimeError("model driver failed: " + err[-300:])
        txt = None
        # P leg on the C outputs alone (independent of the model): every chunk schedule must end like the one-shot run
        # (same rc; same total / value unless RC_FAIL) -- the statement of `stream_chunked_eq_oneshot`, whose domain covers
        # tag chains of any length since the repair of finding F160 (a fixed finding suppresses nothing)
        fin = re.compile(r"final (\w+) (\d+) (.*)$")
        oneshot = {}
        for (n, hx, cuts, cls), c in zip(lines, co):
            if cuts == "-":
                mmm = fin.search(_norm(c))
                if mmm: oneshot[(n, hx)] = mmm.groups()
        for (n, hx, cuts, cls), c in zip(lines, co):
            if cuts == "-" or (n, hx) not in oneshot: continue
            mmm = fin.search(_norm(c))
            if not mmm: continue
            o = oneshot[(n, hx)]; g = mmm.groups()
            same = g[0] == o[0] and (g[0] == "fail" or (g[1] == o[1] and g[2] == o[2]))
            cnt["p_chunked_vs_oneshot"] += 1
            if same: continue
            if modelled.get(n):
                cnt["p_diff_in_domain"] += 1
                if txt is None: txt = m.get("_text") or genmod.module_text(m)
                ctx.violation(f"C05 (BER stream): chunked decoding {g[:2]} != one-shot {o[:2]} for type {n} inside the theorem domain: decchunks ber {hx[:80]} {cuts[:40]}",
                              {"module": txt, "type": n, "op": f"@{n} decchunks ber {hx} {cuts}", "c_output": _norm(c)[:600], "oneshot": list(o)})
            else:
                cnt["p_diff_outside_domain"] += 1
                if txt is None: txt = m.get("_text") or genmod.module_text(m)
                ctx.violation(f"C05 (BER stream): chunked decoding {g[:2]} != one-shot {o[:2]} for type {n} (outside the theorem domain): decchunks ber {hx[:80]} {cuts[:40]}",
                              {"module": txt, "type": n, "op": f"@{n} decchunks ber {hx} {cuts}", "c_output": _norm(c)[:600], "oneshot": list(o)})
        for (n, hx, cuts, cls), c, mm in zip(lines, co, mo[1:]):
            cnt["traces"] += 1; cnt["class:" + cls] += 1
            c = _norm(c); mm = _norm(mm)
            if c.startswith("CRASH") or c == "HANG": cnt["c_crash_or_hang"] += 1; continue    # C04/C14 territory
            if c != mm and " final ok " in (" " + c) and " final ok " in (" " + mm):
                # same trace, same rc/total: compare the decoded values as abstract values (an absent DEFAULT member that the
                # C structure holds inline is dumped with its zero value by reflect.c, the model dumps it as absent)
                try:
                    ch, cv = (" " + c).rsplit(" final ok ", 1); mh, mv = (" " + mm).rsplit(" final ok ", 1)
                    ct, cval = cv.split(" ", 1); mt, mval = mv.split(" ", 1)
                    env_ = dict(m["types"])
                    if ch == mh and ct == mt and n in env_ and genmod.same_value(env_[n], cval, mval, env_):
                        cnt["same_up_to_inline_default"] += 1; mm = c
                except Exception:
                    pass
            if c == mm:
                cnt["same"] += 1
                fin = c.rsplit("final ", 1)[-1].split(" ", 1)[0]
                cnt["final:" + fin] += 1
                if cuts != "-": ctx.count_nontrivial(("ber_stream", cls, hash((n, hx, cuts))))
            else:
                cnt["diff"] += 1
                if txt is None: txt = m.get("_text") or genmod.module_text(m)
                dis.append({"module": txt, "type": n, "op": f"@{n} decchunks ber {hx} {cuts}", "c": c[:300], "model": mm[:300], "class": cls,
                            "in_theorem_domain": modelled.get(n)})
    if fixed is not None: fixed.cleanup()
    ctx.cov["evaluations"] += cnt["traces"] - st.get("traces", 0)
    ctx.cov["correspondence"]["ber_stream"] = dict(cnt)
    for d in dis[:6]:
        ctx.broken.append({"kind": "correspondence", "name": "ber_stream", **{k: (v if k != "module" else v[:3000]) for k, v in d.items()}})
    if dis:
        sig = collections.Counter((d["class"], d["c"].rsplit("final ", 1)[-1][:12], d["model"].rsplit("final ", 1)[-1][:12]) for d in dis)
        for k, v in sig.most_common(6): ctx.log("  ber_stream disagreement class", v, k)
    return cnt, dis
