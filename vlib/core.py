"""Check context: Lean leg (L), correspondence leg (K), property-predicate leg (P),
classification (known finding / violation), evidence and replay files."""
import json, os, random, re, subprocess, sys, time, hashlib
from . import build

VERIF = build.VERIF
EVID = os.path.join(VERIF, "evidence")
REPLAYS = os.path.join(VERIF, "replays")
KF_PATH = os.path.join(VERIF, "KNOWN_FINDINGS.json")
PROPS_DIR = os.path.join(build.LEAN, "props")

def load_findings():
    try:
        return json.load(open(KF_PATH))["findings"]
    except FileNotFoundError:
        return []

class Ctx:
    def __init__(self, prop, tier, seed):
        self.prop, self.tier, self.seed = prop, tier, seed
        self.rng = random.Random(seed * 1000003 + int(prop[1:]))
        self.t0 = time.time()
        self.violations = []          # list of (replay_path, found_input)
        self.known_printed = set()
        self.cov = {"obligations": 0, "discharged": 0, "checker_cmd": "", "trusted_base": [],
                    "evaluations": 0, "distinct_nontrivial": 0, "rule": "", "samples": [],
                    "correspondence": {}, "predicate": {}, "known_findings_replayed": [],
                    "distribution": {}}
        self.assumptions = []
        self.findings = [f for f in load_findings() if f.get("property") == prop or prop in f.get("properties", [])]
        self.broken = []              # broken obligations / correspondences (names)
        self._distinct = set()
        self.quick = tier == "quick"

    # ------------------------------------------------------------ logging
    def log(self, *a):
        print("[%s %6.1fs]" % (self.prop, time.time() - self.t0), *a, flush=True)

    # ------------------------------------------------------------ L leg
    def lean(self, extra_targets=()):
        """Build the property's Lean closure + the driver, audit its theorems."""
        info = json.load(open(os.path.join(PROPS_DIR, self.prop + ".json")))
        module = info["module"]
        theorems = info["theorems"]
        self.cov["obligations"] = len(theorems)
        self.cov["checker_cmd"] = (f"cd /verif/lean && lake build {module} a1model && "
                                   f"lake env lean <(#print axioms of {len(theorems)} theorems)"
                                   + ("; lake env leanchecker " + module if not self.quick else ""))
        ok, log = build.lean_build([module, "a1model"] + list(extra_targets))
        self.lean_log = log
        if not ok:
            self.log("Lean build FAILED for", module)
            tail = "\n".join(log.strip().split("\n")[-40:])
            self.broken.append({"kind": "lean-build", "module": module, "log_tail": tail})
            # which theorems still check?  try the driver alone so that K/P can still run
            ok2, _ = build.lean_build(["a1model"])
            self.driver_ok = ok2
            self.cov["discharged"] = 0
            return False
        self.driver_ok = True
        hits = build.lean_grep_forbidden()
        if hits:
            self.broken.append({"kind": "lean-forbidden-token", "hits": hits})
        res, out = build.lean_audit(module, theorems)
        axioms = set()
        good = 0
        for r in res:
            if r["ok"]:
                good += 1; axioms.update(r["axioms"])
            else:
                self.broken.append({"kind": "lean-theorem", "theorem": r["name"], "msg": r["msg"]})
        self.cov["discharged"] = good if not hits else 0
        self.cov["trusted_base"] = ["Lean 4 kernel"] + ["axiom " + a for a in sorted(axioms)] + info.get("trusted", [])
        self.cov["theorems"] = [r["name"] for r in res]
        if not self.quick and info.get("leanchecker", True):
            r = build.lake(["env", "leanchecker", module], timeout=3600)
            self.cov["leanchecker"] = "ok" if r.returncode == 0 else "FAILED"
            if r.returncode != 0:
                self.broken.append({"kind": "leanchecker", "module": module, "log_tail": r.stdout[-2000:]})
        self.log(f"Lean: {good}/{len(theorems)} obligations discharged; axioms {sorted(axioms)}")
        return not self.broken

    # ------------------------------------------------------------ K leg
    def run_lines(self, exe, lines, env=None, timeout=600, args=()):
        """Feed lines to a driver; returns list of output lines (one per input) or raises."""
        data = "\n".join(lines) + "\n"
        e = dict(os.environ)
        e.setdefault("ASAN_OPTIONS", "detect_leaks=1:abort_on_error=0:allocator_may_return_null=1")
        e.setdefault("UBSAN_OPTIONS", "print_stacktrace=1:halt_on_error=1")
        if env: e.update(env)
        p = subprocess.run([exe] + list(args), input=data, stdout=subprocess.PIPE, stderr=subprocess.PIPE,
                           text=True, env=e, timeout=timeout)
        out = p.stdout.split("\n")
        if out and out[-1] == "": out.pop()
        return p.returncode, out, p.stderr

    def run_c_bisect(self, exe, lines, **kw):
        """Run a C driver; if it dies (sanitizer / signal), bisect to the killing line.
        Returns (outputs list with 'CRASH <summary>' entries, crash_count)."""
        outs = [None] * len(lines)
        crashes = 0
        def go(lo, hi):
            nonlocal crashes
            rc, out, err = self.run_lines(exe, lines[lo:hi], **kw)
            if rc == 0 and len(out) == hi - lo:
                outs[lo:hi] = out
                return
            if hi - lo == 1 and out and out[-1] == "HANG":
                crashes += 1
                outs[lo] = "HANG"
                return
            if hi - lo == 1:
                crashes += 1
                summ = "signal/exit %d" % rc
                for l in err.split("\n"):
                    if "ERROR: AddressSanitizer" in l or "runtime error" in l or "Assertion" in l or "LeakSanitizer" in l:
                        summ = l.strip()[:200]; break
                for l in err.split("\n"):
                    if l.startswith("SUMMARY:"):
                        summ += " | " + l.strip()[:200]; break
                outs[lo] = "CRASH " + summ
                return
            if rc != 0 and len(out) == hi - lo and "LeakSanitizer" in err:
                # every line was answered and the report came at exit: a leak of SOME line of the batch, not a death of
                # the last one - halve until the leaking line(s) are alone
                mid = (lo + hi) // 2
                go(lo, mid); go(mid, hi)
                return
            # the driver printed `len(out)` complete lines before dying
            good = min(len(out), hi - lo - 1) if rc != 0 else 0
            if good > 0:
                outs[lo:lo + good] = out[:good]
                go(lo + good, lo + good + 1)
                if lo + good + 1 < hi: go(lo + good + 1, hi)
            else:
                mid = (lo + hi) // 2
                go(lo, mid); go(mid, hi)
        if lines: go(0, len(lines))
        return outs, crashes

    def run_c_parallel(self, exe, lines, jobs=16, **kw):
        """run_c_bisect over `jobs` slices concurrently (lines must be stateless)"""
        from concurrent.futures import ThreadPoolExecutor
        if len(lines) < 200: return self.run_c_bisect(exe, lines, **kw)
        step = (len(lines) + jobs - 1) // jobs
        slices = [lines[i:i + step] for i in range(0, len(lines), step)]
        with ThreadPoolExecutor(jobs) as ex:
            res = list(ex.map(lambda sl: self.run_c_bisect(exe, sl, **kw), slices))
        outs = [o for r in res for o in r[0]]
        return outs, sum(r[1] for r in res)

    def correspond(self, name, cexe, lines, canon=None, **kw):
        """Differential run of the C driver and the Lean model on the same lines.
        Returns list of (index, line, c_out, m_out) disagreements."""
        if not getattr(self, "driver_ok", True):
            self.broken.append({"kind": "correspondence", "name": name, "msg": "Lean driver does not build"})
            return []
        couts, crashes = self.run_c_bisect(cexe, lines, **kw)
        rc, mouts, merr = self.run_lines(build.model_exe(), lines)
        if rc != 0 or len(mouts) != len(lines):
            raise RuntimeError("model driver failed: rc=%s %s" % (rc, merr[-500:]))
        dis = []
        for i, (l, c, m) in enumerate(zip(lines, couts, mouts)):
            cc, mm = (canon(l, c), canon(l, m)) if canon else (c, m)
            if cc != mm:
                dis.append((i, l, c, m))
        st = self.cov["correspondence"].setdefault(name, {"lines": 0, "disagreements": 0, "c_crashes": 0})
        st["lines"] += len(lines); st["disagreements"] += len(dis); st["c_crashes"] += crashes
        self.cov["evaluations"] += len(lines)
        for l, c in zip(lines, couts):
            self._distinct.add(hashlib.md5((l + "\x00" + str(c)).encode()).digest())
        if lines and len(self.cov["samples"]) < 12:
            for j in sorted(set([0, len(lines) // 2, len(lines) - 1])):
                self.cov["samples"].append({"op": lines[j][:300], "c": str(couts[j])[:300], "model": mouts[j][:300]})
        return dis, couts, mouts

    def count_nontrivial(self, key):
        self._distinct.add(key)

    # ------------------------------------------------------------ classification
    def module_not_built(self, m, err):
        """a module that asn1c rejects or that does not compile: for a randomly generated module that is C10's subject (counted),
        for a directed (fixed) module the directed cases would be lost silently, so the check is reported broken"""
        name = m["name"] if isinstance(m, dict) else str(m)
        self.cov.setdefault("modules_not_built", []).append(name)
        if not re.fullmatch(r"[A-Z]\d+", name):
            msg = (getattr(err, "out", None) or str(err)).strip().split("\n")[0][:300]
            self.broken.append({"kind": "harness", "name": "directed module does not build", "module": name, "msg": msg})

    def match_finding(self, pred):
        """pred: f(finding dict) -> bool.  Prints KNOWN-FINDING once per matched entry."""
        for f in self.findings:
            if f.get("status") != "known":
                continue
            try:
                hit = pred(f)
            except Exception:
                hit = False
            if hit:
                self.known(f)
                return f
        return None

    def known(self, f):
        if f["id"] not in self.known_printed:
            self.known_printed.add(f["id"])
            print(f"KNOWN-FINDING: property={self.prop} {f['id']} {f['what']}", flush=True)
            self.cov["known_findings_replayed"].append(f["id"])

    def violation(self, what, replay, found_input=True):
        os.makedirs(REPLAYS, exist_ok=True)
        n = len(self.violations)
        path = os.path.join(REPLAYS, f"{self.prop}-{self.tier}-{self.seed}-{n}.json")
        replay = dict(replay)
        replay.update({"property": self.prop, "tier": self.tier, "seed": self.seed, "what": what,
                       "rerun": f"cd /verif && VERIF_SEED={self.seed} ./check {self.prop} --tier {self.tier}"})
        with open(path, "w") as fh:
            json.dump(replay, fh, indent=1, default=str)
        self.violations.append((path, found_input))
        tail = "" if found_input else " no-failing-input-found"
        print(f"VIOLATION property={self.prop} replay={path}{tail}", flush=True)
        self.log("  ->", what)

    # ------------------------------------------------------------ finish
    def finish(self):
        # broken obligations / correspondences for which no failing input was found
        if self.broken and not any(fi for _, fi in self.violations):
            self.violation("proof obligation or correspondence no longer checks; search found no failing input",
                           {"broken": self.broken}, found_input=False)
        self.cov["distinct_nontrivial"] = max(self.cov.get("distinct_nontrivial", 0), len(self._distinct))
        ev = {"property_id": self.prop, "tier": self.tier, "seed": self.seed, "level": "proof",
              "coverage": self.cov, "assumptions": self.assumptions,
              "wall_s": round(time.time() - self.t0, 2), "violations": len(self.violations)}
        os.makedirs(EVID, exist_ok=True)
        with open(os.path.join(EVID, self.prop + ".json"), "w") as fh:
            json.dump(ev, fh, indent=1, default=str)
        self.log("done: violations=%d evaluations=%d wall=%.1fs" % (len(self.violations), self.cov["evaluations"], ev["wall_s"]))
        return 1 if self.violations else 0
