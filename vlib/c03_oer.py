"""C03 (OER and UPER legs) — the decoders accept the valid encodings that the library's own encoder never emits.

Variant generator: the Lean reference models `L2.OerVar.encV` (lean/Asn1cModel/L2/OerVariants.lean, X.696 BASIC-OER
sender's options) and `L2.UperVar.encUV` (lean/Asn1cModel/L2/UperVariants.lean, X.691 version skew of extensible
SEQUENCEs), driven through `@T l2encvar oer|uper <kind> <index> <val>`.  `Props/C03Oer.lean` / `Props/C03Uper.lean` prove
that the reference decoders accept every such encoding and return the value (lean/props/C03OER.json, audited here).

  P leg: C `reenc <syn> <variant hex>` must answer RC_OK, consume everything, yield the same abstract value
         (genmod.same_value: SET OF as multiset, DEFAULT-valued members dropped) and the same DER re-encoding.
  K leg: the C result vs the model's `l2dec <syn> <variant hex>`.

Variation kinds (OER): bool (TRUE as 0x01..0xFE), enum (long form for 0..127), len (long-form / zero-padded length
determinants), older (shorter extension presence bitmap), newer (longer bitmap, unknown additions absent or present
with arbitrary open-type contents), setof (SET OF elements in another order).  UPER: older, newer.
Known deviations of the unchanged tree are skipped narrowly (c02_oer.oer_skip / c02_uper regions)."""
import collections, json, os, re, time
from . import build, genmod, bundle, sexp

T = lambda k, **kw: dict(k=k, **kw)
cons = genmod.cons

# ------------------------------------------------------------------ fixed module: extensible SEQUENCEs with 0/1/3/8/9 additions
def fixed_module(rng, quick=True):
    types = []; vals = {}
    def add(n, t, vs): types.append((n, t)); vals[n] = vs
    u8 = lambda: T("INTEGER", cons=cons(0, 255))
    add_kinds = [lambda: T("BOOLEAN"), lambda: T("OCTET STRING", size=None), lambda: T("INTEGER", cons=None), lambda: T("NULL"),
                 lambda: T("ENUMERATED", items=[("e0", 0), ("e1", 1), ("e127", 127), ("e128", 128)]), lambda: T("IA5String", size=None)]
    def aval(t, sel):
        k = t["k"]
        return {"BOOLEAN": bool(sel % 2), "OCTET STRING": bytes((sel * 7 + i) % 256 for i in range([0, 1, 3, 127, 128, 200][sel % 6])),
                "INTEGER": [7, -1, 128, -32769, 1 << 40, 0][sel % 6] if not t.get("cons") else (sel * 37 + 1) % 200 + 8,
                "NULL": None, "ENUMERATED": [0, 1, 127, 128][sel % 4], "IA5String": "v" * (sel % 5)}[k]
    def extseq(nadds, nopt=1, mand_add=None, dflt_adds=()):
        comps = [{"id": "m", "type": u8()}]
        for i in range(nopt):
            comps.append({"id": f"o{i}", "type": u8(), "opt": ("OPTIONAL" if i % 2 == 0 else ("DEFAULT", "7", 7))})
        t = T("SEQUENCE", comps=comps); t["ext"] = len(comps)
        for j in range(nadds):
            c = {"id": f"x{j}", "type": add_kinds[j % len(add_kinds)](), "opt": "OPTIONAL"}
            if j in dflt_adds:
                c["type"] = T("INTEGER", cons=cons(0, 1000)); c["opt"] = ("DEFAULT", "5", 5)
            if j == mand_add: del c["opt"]
            comps.append(c)
        return t
    def seqvals(t, rng, extra_pats=()):
        adds = [c["id"] for c in t["comps"][t["ext"]:]]
        opts = [c["id"] for c in t["comps"][:t["ext"]] if c.get("opt")]
        pats = [set(), set(adds), set(adds[:1]), set(adds[-1:]), set(adds[:-1]), set(adds[:len(adds) // 2]), set(adds[::2]), set(adds[1:2]),
                set(adds[:1]) | set(opts), set(adds[6:8]), set(adds[7:8]), set(adds[:8])]
        for _ in range(3): pats.append(set(i for i in adds + opts if rng.random() < 0.5))
        out = []; seen = []
        for sel, p in enumerate(pats):
            if p in seen: continue
            seen.append(p)
            v = {}
            for c in t["comps"]:
                if not c.get("opt") or c["id"] in p:
                    if c["id"].startswith("x") and c["id"] not in p: continue      # mandatory addition of a newer version: absent
                    x = aval(c["type"], sel + len(c["id"]) + ord(c["id"][-1]))
                    if isinstance(c.get("opt"), tuple) and x == c["opt"][2]: continue
                    v[c["id"]] = x
            out.append(v)
        return out
    for n, kw in ((0, {}), (1, {}), (3, {"dflt_adds": (2,)}), (8, {"dflt_adds": (3,)}), (9, {"nopt": 2, "dflt_adds": (8,)}), (17, {})):
        t = extseq(n, **kw); add(f"VE{n}", t, seqvals(t, rng))
    t = extseq(3, nopt=0, mand_add=1); add("VEm", t, seqvals(t, rng))
    t = extseq(2, nopt=7); add("VE7o", t, seqvals(t, rng))           # preamble exactly 8 bits
    t = extseq(2, nopt=8); add("VE8o", t, seqvals(t, rng))           # preamble 9 bits (F121 region when not fixed)
    # nested: extensible SEQUENCEs inside additions, inside SEQUENCE OF / SET OF / CHOICE
    inner = extseq(3, dflt_adds=(2,))
    add("VIn", inner, seqvals(inner, rng)[:6])
    iv = vals["VIn"]
    nest = T("SEQUENCE", ext=1, comps=[
        {"id": "h", "type": T("REF", name="VIn")},
        {"id": "n", "type": T("REF", name="VIn"), "opt": "OPTIONAL"},
        {"id": "l", "type": T("SEQUENCE OF", elem=T("REF", name="VIn"), size=None), "opt": "OPTIONAL"},
        {"id": "c", "type": T("REF", name="VCh"), "opt": "OPTIONAL"},
        {"id": "z", "type": T("BOOLEAN"), "opt": "OPTIONAL"}])
    chx = T("CHOICE", ext=2, comps=[{"id": "ca", "type": T("BOOLEAN")}, {"id": "cb", "type": T("REF", name="VIn")},
                                    {"id": "cc", "type": T("OCTET STRING", size=None)}, {"id": "cd", "type": T("REF", name="VIn")}])
    add("VCh", chx, [("ca", True), ("cb", iv[1]), ("cc", b"\x01\x02\x03"), ("cd", iv[2]), ("cd", iv[0])])
    add("VNest", nest, [{"h": iv[0]}, {"h": iv[1], "n": iv[2]}, {"h": iv[2], "n": iv[3], "l": [iv[1], iv[0], iv[4]]},
                        {"h": iv[3], "c": ("cd", iv[1]), "l": []}, {"h": iv[4 % len(iv)], "n": iv[1], "c": ("cb", iv[3])},
                        {"h": iv[1], "l": [iv[2]], "z": True}, {"h": iv[5 % len(iv)], "z": False}])
    add("VSetIn", T("SET OF", elem=T("REF", name="VIn"), size=None), [[iv[0], iv[1], iv[2]], [iv[3], iv[3]], [iv[1]], []])
    # primitives: every kind of position
    add("VBool", T("BOOLEAN"), [True, False])
    add("VEnum", T("ENUMERATED", items=[("p0", 0), ("p1", 1), ("p127", 127), ("p128", 128), ("n1", -1), ("p65536", 65536)]), [0, 1, 127, 128, -1, 65536])
    add("VInt", T("INTEGER", cons=None), [0, 127, 128, -129, 1 << 62, -(1 << 63)])
    add("VIntU", T("INTEGER", cons=cons(0, None)), [0, 255, 256, (1 << 63) - 1])
    add("VOs", T("OCTET STRING", size=None), [b"", b"\x00", bytes(range(127)), bytes(range(128)), bytes(300)])
    add("VBs", T("BIT STRING", size=None), [(b"", 0), (b"\x80", 7), (b"\xaa\x40", 6), (bytes(126) + b"\x01", 0), (bytes(127) + b"\x02", 1)])
    add("VStr", T("IA5String", size=None), ["", "abc", "x" * 127, "y" * 128])
    add("VUtf", T("UTF8String", size=None), ["", "hé", "z" * 200])
    add("VReal", T("REAL"), [0, 0x3ff0000000000000, 0xbff8000000000000, 0x7ff0000000000000, 0x0000000000000003, 0x3ff0200000000000])
    add("VOid", T("OBJECT IDENTIFIER"), [[1, 2], [2, 999, 3]])
    add("VSeqOfB", T("SEQUENCE OF", elem=T("BOOLEAN"), size=None), [[], [True], [True, False, True], [True] * 127, [False, True] * 64, [True] * 300])
    add("VSetOfI", T("SET OF", elem=T("INTEGER", cons=None), size=None), [[], [5], [3, 1, 2], [0, 0], [-1, 300, -1, 7]])
    add("VSetOfS", T("SET OF", elem=T("SEQUENCE", comps=[{"id": "a", "type": T("INTEGER", cons=None)}, {"id": "b", "type": T("BOOLEAN"), "opt": "OPTIONAL"},
                                                            {"id": "s", "type": T("SET OF", elem=T("BOOLEAN"), size=None)}]), size=None),
        [[{"a": 1, "s": [True, False]}, {"a": 2, "b": True, "s": []}, {"a": -5, "b": False, "s": [False, True, True]}], [{"a": 0, "s": [True, False]}]])
    add("VChP", T("CHOICE", ext=1, comps=[{"id": "pa", "type": T("BOOLEAN")}, {"id": "pb", "type": T("INTEGER", cons=None)},
                                          {"id": "pc", "type": T("BOOLEAN")}, {"id": "pd", "type": T("ENUMERATED", items=[("q0", 0), ("q5", 5)])}]),
        [("pa", True), ("pb", 300), ("pc", True), ("pd", 5), ("pd", 0)])
    return {"name": "C03V", "tagdefault": "AUTOMATIC", "types": types}, vals

# ------------------------------------------------------------------ random module of extensible SEQUENCEs (version skew needs them)
def random_ext_module(rng, quick=True):
    """extensible SEQUENCEs with random roots and 1..12 additions (OPTIONAL / DEFAULT / mandatory, primitive or a
    reference to an earlier extensible SEQUENCE, SEQUENCE OF / SET OF / extensible CHOICE of them); the values include
    "version cuts": every addition from some index on absent, as an older version of the type would send them"""
    g = genmod.Gen(rng, tagdefault="AUTOMATIC")
    types = []; vals = {}
    ntypes = 6 if quick else 14
    for i in range(ntypes):
        nroot = rng.choice([0, 1, 1, 2, 3, 9]); nadds = rng.choice([1, 2, 3, 3, 4, 5, 8, 9, 12])
        comps = []
        for j in range(nroot + nadds):
            ct = None
            if types and rng.random() < 0.3:
                ref = T("REF", name=rng.choice(types)[0]); x = rng.random()
                ct = ref if x < 0.5 else T("SEQUENCE OF", elem=ref, size=None) if x < 0.75 else T("SET OF", elem=ref, size=None)
            if ct is None: ct = g.prim()
            c = {"id": f"c{j}", "type": ct}
            x = rng.random()
            if j >= nroot:
                if x < 0.7: c["opt"] = "OPTIONAL"
                elif x < 0.85:
                    d = g.default_for(ct)
                    if d: c["opt"] = ("DEFAULT", d[1], d[0])
                    else: c["opt"] = "OPTIONAL"
            elif x < 0.4: c["opt"] = "OPTIONAL"
            elif x < 0.5:
                d = g.default_for(ct)
                if d: c["opt"] = ("DEFAULT", d[1], d[0])
            comps.append(c)
        t = T("SEQUENCE", comps=comps); t["ext"] = nroot
        types.append((f"R{i}", t))
    env = dict(types)
    vg = genmod.ValGen(rng, env)
    for n, t in types:
        out = []
        for v in vg.values(t, 5 if quick else 10):
            out.append(v)
            adds = [c["id"] for c in t["comps"][t["ext"]:]]
            k = rng.randrange(0, len(adds) + 1)
            cut = {a: b for a, b in v.items() if a not in adds[k:]}
            if cut != v: out.append(cut)
        vals[n] = out
    return {"name": "C03R", "tagdefault": "AUTOMATIC", "types": types}, vals

# ------------------------------------------------------------------ variant selectors
NEWER = ["-", "e", "00", "-,-,-", "ff,-,0102", "-,-,-,-,-,-,-,-,-", "e,e", "-,-,-,-,-,-,-,-,0a0b0c,-,-,-,-,-,-,-,-,-", "80" + "41" * 128, "-," + "00" * 5,
         "0a0b0c,-,000000", "-,e,-,e"]

def oer_selectors(rng, quick):
    sels = [("none", "0")]
    for i in ("0", "1", "2", "0+"): sels.append((f"bool:{rng.randrange(254)}", i))
    sels += [("bool:0", "0+"), ("bool:253", "0")]
    for i in ("0", "1", "0+"): sels.append(("enum", i))
    for pad, i in ((0, "0+"), (0, "0"), (0, "1"), (1, "0+"), (1, "2"), (2, "3"), (7, "0"), (8, "1"), (9, "0+"), (118, "0"), (126, "0"), (3, str(rng.randrange(8)))):
        sels.append((f"len:{pad}", i))
    for p, i in ((0, "0"), (0, "0+"), (1, "0"), (1, "1"), (2, "0+"), (5, "0"), (7, "2"), (rng.randrange(16), "0+")):
        sels.append((f"older:{p}", i))
    for x in NEWER: sels.append((f"newer:{x}", "0"))
    sels += [("newer:e,-,00", "1"), ("newer:e,-", "1"), ("newer:-,-,e", "0+"), ("newer:-,ff", "2"), ("newer:0102", "0+"), ("newer:-", "0+"), (f"newer:{'-,' * rng.randrange(1, 12)}e", "0+")]
    for p, i in ((0, "0"), (1, "0"), (2, "0"), (1, "1"), (1, "0+"), (0, "0+")): sels.append((f"setof:{p}", i))
    return sels

def uper_selectors(rng, quick):
    sels = [("none", "0")]
    for p, i in ((0, "0"), (0, "0+"), (1, "0"), (1, "1"), (2, "0+"), (5, "0"), (rng.randrange(16), "0+")): sels.append((f"older:{p}", i))
    for x in NEWER: sels.append((f"newer:{x}", "0"))
    sels += [("newer:e,-,00", "1"), ("newer:0a0b0c,-", "1"), ("newer:-,-,e", "0+"), ("newer:414243", "0+"), ("newer:-,ff", "2"), ("newer:0102", "0+"), ("newer:-", "0+"), (f"newer:{'-,' * rng.randrange(1, 12)}e", "0+")]
    return sels

# ------------------------------------------------------------------ Lean obligations
def audit_once(ctx):
    if getattr(ctx, "_c03oer_audited", False): return
    ctx._c03oer_audited = True
    path = os.path.join(build.LEAN, "props", "C03OER.json")
    if not os.path.exists(path):
        ctx.broken.append({"kind": "lean-theorem", "theorem": "C03OER.json", "msg": "missing"}); return
    info = json.load(open(path))
    ok, log = build.lean_build([info["module"], "a1model"])
    if not ok:
        ctx.broken.append({"kind": "lean-build", "module": info["module"], "log_tail": "\n".join(log.strip().split("\n")[-30:])}); return
    res, _ = build.lean_audit(info["module"], info["theorems"])
    good = 0
    for r in res:
        if r["ok"] and all(a in ("propext", "Quot.sound", "Classical.choice") for a in r["axioms"]): good += 1
        else: ctx.broken.append({"kind": "lean-theorem", "theorem": r["name"], "msg": r["msg"]})
    ctx.cov["obligations"] += len(res); ctx.cov["discharged"] += good
    ctx.cov.setdefault("theorems", []).extend(r["name"] for r in res)
    ctx.cov["trusted_base"] = list(ctx.cov.get("trusted_base", [])) + info.get("trusted", [])
    if not ctx.quick:
        r = build.lake(["env", "leanchecker", info["module"]], timeout=3600)
        ctx.cov["leanchecker_c03oer"] = "ok" if r.returncode == 0 else "FAILED"
        if r.returncode != 0:
            ctx.broken.append({"kind": "leanchecker", "module": info["module"], "log_tail": r.stdout[-2000:]})
    ctx.log(f"Lean (OER/UPER variants): {good}/{len(res)} obligations discharged")

# ------------------------------------------------------------------ known regions
def skip_region(syn, t, env, skipped, tagdefault=None):
    from .props import c01, c02_oer, c02_uper
    from . import gfind
    feats = gfind.features(t, env, tagdefault=tagdefault)
    if c01.skip_region(syn, feats, skipped): return True
    if syn == "oer": return c02_oer.oer_skip("oer", t, env, skipped) is not None
    fid = c02_uper.type_region(t, env, tagdefault)
    if fid: skipped[fid] += 1
    return fid is not None

def value_skip(syn, t, v, env, skipped, tagdefault=None):
    if syn != "uper": return False
    from .props import c02_uper
    fid = c02_uper.value_region(t, v, env, tagdefault)
    if fid: skipped[fid] += 1
    return fid is not None

# ------------------------------------------------------------------ the legs
class Acc:
    def __init__(self, ctx=None):
        import random
        # own random stream: the BER/XER part of C03 keeps its per-seed stream
        self.rng = random.Random((ctx.seed if ctx else 1) * 7919 + 303)
        self.stats = collections.Counter(); self.fails = []; self.kdis = []; self.skipped = collections.Counter()
        self.seconds = 0.0

def run_bundle(ctx, m, exe, vals, acc, syntaxes=("oer", "uper"), max_sel=None):
    """m: module dict, exe: built gen driver of the module, vals: {type name: [python values]}"""
    t_start = time.time()
    try: _run_bundle(ctx, m, exe, vals, acc, syntaxes, max_sel)
    finally: acc.seconds += time.time() - t_start

def _run_bundle(ctx, m, exe, vals, acc, syntaxes, max_sel):
    txt = genmod.module_text(m); env = dict(m["types"])
    msx = "l2mod " + genmod.module_sexp(m)
    st = acc.stats
    for syn in syntaxes:
        sels = oer_selectors(acc.rng, ctx.quick) if syn == "oer" else uper_selectors(acc.rng, ctx.quick)
        if max_sel is not None and len(sels) > max_sel: sels = sels[:1] + acc.rng.sample(sels[1:], max_sel - 1)
        ml, meta = [msx], []
        for n, t in m["types"]:
            if n not in vals or skip_region(syn, t, env, acc.skipped, m.get("tagdefault")): continue
            for v in vals[n]:
                if value_skip(syn, t, v, env, acc.skipped, m.get("tagdefault")): continue
                try: pos = genmod.val_pos_sexp(t, v, env); sx = genmod.val_sexp(t, v, env)
                except Exception: continue
                if len(pos) > 20000: continue
                for kind, idx in sels:
                    ml.append(f"@{n} l2encvar {syn} {kind} {idx} {pos}"); meta.append((n, t, sx, kind, idx))
        if len(ml) == 1: continue
        rc, mo, err = ctx.run_lines(build.model_exe(), ml)
        if rc != 0 or len(mo) != len(ml): raise RuntimeError("model driver failed: " + err[-300:])
        mo = mo[1:]
        cl, cmeta, seen = [], [], set()
        der_of = {}
        for (n, t, sx, kind, idx), o in zip(meta, mo):
            st[f"{syn}_gen_" + (o.split(" ")[0] if o else "?")] += 1
            if not o.startswith("ok "): continue
            hx = o[3:]
            if (n, hx) in seen and kind != "none": st[f"{syn}_gen_dup"] += 1; continue
            seen.add((n, hx))
            cl.append(f"@{n} reenc {syn} {hx}"); cmeta.append((n, t, sx, kind, idx, hx))
            if (n, sx) not in der_of: der_of[(n, sx)] = None
        dl = [f"@{n} enc der {sx}" for (n, sx) in der_of]
        douts, _ = ctx.run_c_bisect(exe, dl)
        for key, o in zip(list(der_of), douts): der_of[key] = o[3:] if o and o.startswith("ok ") else None
        couts, _ = ctx.run_c_parallel(exe, cl, env={"VERIF_LINE_TIMEOUT": "3"})
        kl = [msx] + [f"@{c[0]} l2dec {syn} {c[5]}" for c in cmeta]
        rc, ko, err = ctx.run_lines(build.model_exe(), kl)
        ko = ko[1:]
        base_bad = set()
        # pass 1: the unvaried encoding must itself be accepted (otherwise the (type, value) belongs to C01/C02's regions)
        for (n, t, sx, kind, idx, hx), o in zip(cmeta, couts):
            if kind == "none":
                mm = re.match(r"ok (\d+) (\S+) (.*)$", str(o))
                if not (mm and int(mm.group(1)) == len(hx) // 2 and genmod.same_value(t, mm.group(3), sx, env)):
                    base_bad.add((n, sx)); st[f"{syn}_baseline_not_accepted"] += 1
        for (n, t, sx, kind, idx, hx), o, k in zip(cmeta, couts, ko):
            kk = kind.split(":")[0]
            if (n, sx) in base_bad: st[f"{syn}_skipped_baseline"] += 1; continue
            st[f"{syn}_cases"] += 1; st[f"{syn}_variant:{kk}"] += 1
            ctx.cov["evaluations"] += 1
            o = str(o); why = None
            mm = re.match(r"(\w+) (\d+) (\S+) (.*)$", o)
            nbytes = len(hx) // 2
            if not mm: why = "crash/unparsable: " + o[:100]
            elif mm.group(1) != "ok": why = f"valid {syn} encoding ({kk}) rejected: rc={mm.group(1)}"
            elif int(mm.group(2)) != nbytes: why = f"consumed {mm.group(2)} of {nbytes}"
            elif not genmod.same_value(t, mm.group(4), sx, env): why = "decoded value differs from the encoded value"
            elif der_of.get((n, sx)) and mm.group(3) != der_of[(n, sx)] and not genmod.contains_kind(t, env, ("SET OF",)):
                why = "DER re-encoding of the decoded variant differs from the DER of the value"
            # K leg
            kp = k.split(" ", 2)
            agree = False
            if mm and kp[0] == mm.group(1) == "ok" and len(kp) == 3 and kp[1] == mm.group(2):
                try: agree = genmod.norm_sexp(t, genmod.pos_to_named(t, sexp.parse(kp[2]), env), env) == genmod.norm_sexp(t, sexp.parse(mm.group(4)), env)
                except Exception: agree = False
            elif mm and kp[0] == mm.group(1) and kp[0] in ("more", "fail"): agree = True
            st[f"{syn}_k_agree" if agree else f"{syn}_k_disagree"] += 1
            # the model must accept its own variants (theorem oer_accepts_variant): a model rejection is a broken harness
            line = f"@{n} reenc {syn} {hx}"
            if kp[0] != "ok": acc.kdis.append((txt, n, line, o, "model rejects its own variant: " + k[:80], kind)); continue
            if why:
                acc.fails.append({"module": txt, "type": n, "op": line, "c_output": o[:600], "why": why, "syntax": syn, "variant": kind, "index": idx,
                                  "value": sx[:600], "features": t, "env": env})
            else:
                ctx.count_nontrivial((syn, kk, hash(line)))
                if not agree: acc.kdis.append((txt, n, line, o, k, kind))

def classify(ctx, f):
    """-> finding dict or None.  Matchers of the C03 OER/UPER findings of the unchanged tree."""
    for fd in PROPOSED_FINDINGS + [x for x in ctx.findings if x.get("status") == "known"]:
        mt = MATCHERS.get(fd["id"])
        if mt and mt(f):
            if any(x["id"] == fd["id"] and x.get("status") == "fixed" for x in ctx.findings): return None
            return fd
    return None

def _payloads(f):
    k, _, p = f["variant"].partition(":")
    if k != "newer": return None
    return [bytes.fromhex(x) if x not in ("-", "e") else (b"" if x == "e" else None) for x in p.split(",")]

def _m_f170(f):
    ps = _payloads(f)
    return f["syntax"] == "oer" and ps is not None and any(x for x in ps)

def _m_f171(f):
    ps = _payloads(f)
    if f["syntax"] != "uper" or ps is None: return False
    ps = [(x or b"\0") for x in ps if x is not None]          # an empty open type is sent as one zero octet
    return any(len(x) % 3 != 0 and x != b"\0" for x in ps)

MATCHERS = {"F170": _m_f170, "F171": _m_f171}
_WMOD = ("M DEFINITIONS AUTOMATIC TAGS ::= BEGIN T ::= SEQUENCE { a INTEGER (0..255), ..., b BOOLEAN OPTIONAL } "
         "U ::= SEQUENCE { t T, z BOOLEAN } END")
PROPOSED_FINDINGS = [
 {"id": "F170", "property": "C03", "properties": ["C03"], "status": "known",
  "what": "OER: oer_open_type_skip returns only the size of the length determinant (it calls oer_fetch_length and forgets to add the "
          "length): an extension addition of a newer version of a SEQUENCE that is present and not empty is not skipped - "
          "SEQUENCE_decode_oer (phase 4) leaves its contents octets unconsumed, so the top-level decode reports RC_OK with "
          "consumed < size, a following component is decoded from the contents octets of the unknown addition (silently wrong "
          "value), or the decode fails / asks for more data (X.696 16.5, 30: unknown additions shall be skipped)",
  "witness": {"module": _WMOD, "type": "U", "op": "dec oer 80070206400100ff", "expect": r"^ok 7 \(seq \(t \(seq \(a \(int 7\)\)\)\) \(z \(bool f\)\)\)"},
  "matcher": "syntax == oer and the encoding comes from a newer version of an extensible SEQUENCE with a present unknown extension "
             "addition whose open type contents are not empty (variant kind newer with a non-empty payload)"},
 {"id": "F171", "property": "C03", "properties": ["C03"], "status": "known",
  "what": "UPER: uper_open_type_skip decodes the unknown extension addition with uper_sot_suck, which consumes the open type 24 bits at "
          "a time; uper_open_type_get_simple then treats what is left (8 or 16 bits when the length is not a multiple of 3 octets) as "
          "padding: 'too large padding' / 'non-zero padding' => failure, which SEQUENCE_decode_uper turns into RC_WMORE.  Only unknown "
          "additions of 3k octets (or a single zero octet) can be skipped; every other encoding sent by a newer version of an extensible "
          "SEQUENCE is rejected (X.691 19.9 / X.680 extensibility: unknown additions shall be skipped)",
  "witness": {"module": _WMOD, "type": "T", "op": "dec uper 838140804080", "expect": r"^more 0 -"},
  "matcher": "syntax == uper and the encoding comes from a newer version of an extensible SEQUENCE with a present unknown extension "
             "addition whose open type length is not a multiple of 3 octets and which is not the single octet 00"},
]

def replay_proposed(ctx):
    """replays the witnesses of the proposed entries that are not (yet) in KNOWN_FINDINGS.json"""
    have = {f["id"] for f in ctx.findings}
    for f in PROPOSED_FINDINGS:
        if f["id"] in have: continue
        a = f"finding {f['id']} is not in KNOWN_FINDINGS.json yet; using the proposed entry embedded in vlib/c03_oer.py"
        if hasattr(ctx, "assumptions") and a not in ctx.assumptions: ctx.assumptions.append(a)
        w = f["witness"]
        names = re.findall(r"(\w+)\s*::=", w["module"].split("BEGIN", 1)[1])
        b = bundle.Bundle("w" + f["id"], w["module"], names)
        try:
            exe = b.build()
            outs, _ = ctx.run_c_bisect(exe, [f"@{w['type']} {w['op']}"])
            if re.search(w["expect"], outs[0] or ""): ctx.known(f)
            else: ctx.log(f"note: finding {f['id']} no longer reproduces on its witness ({(outs[0] or '')[:120]})")
        except Exception as e:
            ctx.log(f"note: witness of {f['id']} could not be built: {str(e)[:120]}")
        finally:
            b.cleanup()

def finish(ctx, acc):
    st = acc.stats
    ncases = sum(v for k, v in st.items() if k.endswith("_cases"))
    known = collections.Counter(); rest = []
    for f in acc.fails:
        fd = classify(ctx, f)
        if fd:
            known[fd["id"]] += 1
            if not any(x["id"] == fd["id"] for x in ctx.findings) and hasattr(ctx, "assumptions"):
                a = f"finding {fd['id']} is not in KNOWN_FINDINGS.json yet; using the proposed entry embedded in vlib/c03_oer.py"
                if a not in ctx.assumptions: ctx.assumptions.append(a)
            ctx.known(fd)
        else: rest.append(f)
    ctx.cov["predicate"]["oer_uper_variants"] = {"cases": ncases, "failures": len(rest), "known": dict(known), "skipped_regions": dict(acc.skipped)}
    ctx.cov["correspondence"]["l2-oer-uper-variants"] = {"agree": st["oer_k_agree"] + st["uper_k_agree"], "disagree": st["oer_k_disagree"] + st["uper_k_disagree"]}
    ctx.cov["distribution"].update({"c03v:" + k: v for k, v in st.items()})
    sig = collections.Counter(); first = {}
    for f in rest:
        key = (f["syntax"], f["variant"].split(":")[0], f["why"][:60]); sig[key] += 1; first.setdefault(key, f)
    for key, cnt in sig.most_common(10):
        ctx.log("  class", cnt, key, "| e.g.", first[key]["type"], first[key]["op"][:110], "=>", first[key]["c_output"][:80])
    for key, cnt in list(sig.most_common())[:5]:
        f = dict(first[key]); f.pop("features", None); f.pop("env", None); f["count_in_class"] = cnt
        ctx.violation(f"C03: {f['why']} for type {f['type']}: {f['op'][:140]}", f)
    # K disagreements on cases where P holds are model/C divergences; on P failures they are the same event
    for txt, n, l, o, k, kind in acc.kdis[:10]:
        ctx.broken.append({"kind": "correspondence", "name": "l2-oer-uper-variants", "module": txt[:3000], "type": n, "op": l[:600], "c": o[:300], "model": k[:300], "variant": kind})
    if acc.kdis: ctx.log("  K disagreements:", len(acc.kdis), "e.g.", acc.kdis[0][1], acc.kdis[0][2][:100], "| C:", acc.kdis[0][3][:80], "| M:", acc.kdis[0][4][:80])
    ctx.cov["predicate"]["oer_uper_variants"]["seconds_in_variant_legs"] = round(acc.seconds, 1)
    ctx.log("C03 OER/UPER variants:", dict(st), "known", dict(known), "failures", len(rest), "seconds", round(acc.seconds, 1))

def run_fixed(ctx, acc, syntaxes=("oer", "uper")):
    fm, fvals = fixed_module(acc.rng, ctx.quick)
    b = bundle.Bundle(fm["name"], genmod.module_text(fm), [n for n, _ in fm["types"]])
    try:
        t0 = time.time(); exe = b.build(); acc.seconds += time.time() - t0
        run_bundle(ctx, fm, exe, fvals, acc, syntaxes)
    finally:
        b.cleanup()
    # random extensible SEQUENCEs; a module asn1c or the C compiler rejects (known generator regions) is not retried
    rm, rvals = random_ext_module(acc.rng, ctx.quick)
    b = bundle.Bundle(rm["name"], genmod.module_text(rm), [n for n, _ in rm["types"]])
    try:
        t0 = time.time(); exe = b.build(); acc.seconds += time.time() - t0
        run_bundle(ctx, rm, exe, rvals, acc, syntaxes)
    except (bundle.Asn1cFailed, build.BuildError) as e:
        acc.stats["random_ext_module_not_built"] += 1
        ctx.log("note: random extensible-SEQUENCE module not built:", str(e)[:160].replace("\n", " "))
    finally:
        b.cleanup()

def run_generated(ctx, m, exe, acc, nvals=None, max_sel=None):
    """variants for a generated module whose driver `exe` the caller has built"""
    env = dict(m["types"])
    vg = genmod.ValGen(acc.rng, env)
    nvals = nvals or (4 if ctx.quick else 10)
    vals = {}
    for n, t in m["types"]:
        try: vals[n] = vg.values(t, nvals)
        except Exception: pass
    run_bundle(ctx, m, exe, vals, acc, max_sel=max_sel or (16 if ctx.quick else None))
