"""Generator of information-object-class modules for property C18:

    M DEFINITIONS AUTOMATIC TAGS ::= BEGIN
      FRAME-CLS ::= CLASS { &id INTEGER UNIQUE, &Type } WITH SYNTAX { &Type IDENTIFIED BY &id }
      Row1 ::= ...   Row2 ::= ...                       -- row types are NAMED types (plain built-in types work too since F27 was repaired)
      Frames FRAME-CLS ::= { { Row1 IDENTIFIED BY 1 } | { Row2 IDENTIFIED BY 7 } [, ...] }
      Frame ::= SEQUENCE { ident FRAME-CLS.&id ({Frames}), value FRAME-CLS.&Type ({Frames}{@ident}) [, ...] }
    END

A module is the genmod dict {"name","tagdefault","types"} plus "ioc": the class / object-set / frame
description.  `shape="clean"` stays inside the domain in which the unchanged tree works
(found experimentally, see SHAPES); every other shape is the *minimal departure* into one
known-finding region and is used for witnesses and for the evidence of rejected shapes.
"""
from . import genmod

# shape -> (finding id or None, what happens on the unchanged tree)
SHAPES = {
    "clean":     (None,   "INTEGER ids, >= 2 objects per '|'-group, open type (tagged or not) after the identifier, mandatory, OPTIONAL or extension addition"),
    "oid":       ("F100", "OBJECT IDENTIFIER ids: asn1c prints FATAL, exits 0, emits { \"not supported\", 0 } cells: nothing resolves"),
    "singleton": ("F101", "a comma-separated item with a single object is dropped from the table"),
    "id_after":  ("F103", "identifier member declared after the open type: selector reads the zeroed field"),
    "dup_type":  ("F104", "two rows with the same &Type: asn1c exits 0, emitted C has duplicate enumerators"),
    "builtin":   (None,   "built-in type directly in &Type (former finding F27, repaired: the table cell refers to the built-in type's descriptor)"),
    "one_row_type_first": ("F107", "one-row table with &Type declared before &id: asn1c FATAL 'Can not find referenced object class column' (operator precedence in the column search loop)"),
    "dup_id":    ("F106", "two objects with the same &id (UNIQUE violated) are accepted; first row wins"),
}

ROW_KINDS = ["BOOLEAN", "NULL", "INTEGER", "ENUMERATED", "OCTET STRING", "BIT STRING", "OBJECT IDENTIFIER", "RELATIVE-OID",
             "UTCTime", "GeneralizedTime", "IA5String", "VisibleString", "UTF8String", "BMPString"]
# (UniversalString rows left out: mutated code points >= 2^31 trip UBSan in UniversalString.c:100 (signed shift) when the
#  decoded value is printed - a defect of another property, reported separately)

SAFE_PRIM = ["OCTET STRING", "BIT STRING", "BMPString"]

class IocGen:
    def __init__(self, rng, max_depth=2, safe_rows=False):
        self.r = rng
        self.max_depth = max_depth
        # safe_rows: only row types whose descriptor has size-led `specifics` (outside the F105 region)
        self.safe_rows = safe_rows

    def gen_module(self, name, shape="clean", nrows=None, open_opt=None, untagged=None, open_ext=None, ids=None, idkind=None, opts=(),
                   prim_rows=False):
        """ids: explicit identifier values (one row each; octet-boundary modules); idkind: force INTEGER / CINT-inline / CINT-named;
        opts: extra asn1c options of the module's bundle (-fwide-types: the identifier member and the table cells are INTEGER_t,
        asn1c then only takes identifiers 0..32767); prim_rows: primitive row types only"""
        r = self.r
        assert shape in SHAPES
        wide = "-fwide-types" in opts
        if ids is not None: nrows = len(ids)
        tagdefault = "AUTOMATIC"
        manual_tags = False
        if shape == "clean" and (r.random() < 0.3 or untagged):
            tagdefault = r.choice([None, "IMPLICIT", "EXPLICIT"]); manual_tags = True
        g = genmod.Gen(r, tagdefault="AUTOMATIC", kinds=ROW_KINDS, max_depth=self.max_depth, allow_default=True,
                       avoid=genmod.Avoid(semi_constrained_nonzero_lb=True))
        g.hoisted = []; g.env_types = {}
        if nrows is None: nrows = r.choice([1, 2, 2, 3, 3, 4, 6, 9])
        if shape in ("singleton", "dup_id", "dup_type") and nrows < 3: nrows = 3
        if shape == "one_row_type_first": nrows = 1
        types = []
        rows = []
        for i in range(nrows):
            g.hoisted = []
            # first rows: one primitive and one constructed, then random
            if self.safe_rows:
                t = g.gen_type(0) if i else {"k": r.choice(SAFE_PRIM), "size": g.size_cons()}
                while t["k"] not in ("SEQUENCE", "CHOICE", "SEQUENCE OF", "SET OF") + tuple(SAFE_PRIM): g.hoisted = []; t = g.gen_type(0)
            elif i == 0 or prim_rows: t = g.prim()
            elif i == 1:
                t = g.gen_type(0)
                while t["k"] not in ("SEQUENCE", "CHOICE", "SEQUENCE OF", "SET OF", "SET"): g.hoisted = []; t = g.gen_type(0)
            else: t = g.gen_type(0)
            if manual_tags or tagdefault != "AUTOMATIC":
                t = _retag_for(t)       # components were generated for AUTOMATIC TAGS: give them explicit context tags
                g.hoisted = [(hn, _retag_for(ht)) for hn, ht in g.hoisted]
            t = _tame(t)
            g.hoisted = [(hn, _tame(ht)) for hn, ht in g.hoisted]
            for hn, ht in g.hoisted: g.env_types[hn] = ht
            types.extend(g.hoisted)
            rn = f"Row{i + 1}"
            types.append((rn, t)); g.env_types[rn] = t
            rows.append({"name": rn, "id": None})
        # identifiers
        drawn = r.choice(["INTEGER", "INTEGER", "CINT-inline", "CINT-named"])
        idkind = "OID" if shape == "oid" else (idkind or drawn)
        if wide and idkind == "CINT-inline": idkind = "CINT-named"     # region of finding F230 (long member vs INTEGER_t cells: the selector crashes)
        if ids is not None and idkind != "OID":
            ids = list(ids)
        elif idkind == "OID":
            ids = []
            while len(ids) < nrows:
                v = [r.choice([0, 1, 2]), r.choice([0, 5, 39])] + [r.choice([1, 2, 127, 128, 840, 113549]) for _ in range(r.choice([1, 2, 4]))]
                if v not in ids: ids.append(v)
        elif idkind == "INTEGER":
            pool = [0, 1, 2, 3, 7, 127, 128, 129, 255, 256, 257, 300, 32767, 32768, 65535, 65536, 2147483647, 2147483648, 4294967295, 4294967296, -1, -5, -128, -129, -256, -32769]
            if wide: pool = [v for v in pool if 0 <= v <= 32767] + [126, 130, 254, 511, 512, 16383, 16384]
            ids = r.sample(pool, nrows) if nrows <= len(pool) else list(range(nrows))
        else:
            pool = [0, 1, 2, 3, 7, 127, 128, 129, 255, 256, 257, 300, 1000, 16383, 16384, 32766, 32767]
            ids = r.sample(pool, nrows)
        for row, v in zip(rows, ids): row["id"] = v
        if shape == "dup_id": rows[2]["id"] = rows[0]["id"]
        if shape == "dup_type": rows[2]["name"] = rows[0]["name"]
        if shape == "builtin": rows[0]["name"] = "BOOLEAN"
        # object-set syntax: comma separated items, each a '|'-union of objects or "..."
        idx = list(range(nrows))
        items = []
        ext = r.random() < 0.5
        if shape == "singleton":
            k = r.randrange(0, 2)
            if k == 0 or nrows < 3: items = [["u", [0]]]; idx = []        # { {A} }  ->  empty table
            else: items = [["u", idx[:-1]], ["e"], ["u", idx[-1:]]]; idx = []   # { a | b, ..., c }
        else:
            if nrows == 1:
                items = [["u", [0, 0]]]                   # { a | a }: the only way to a one-row table (F101)
            elif ext and nrows >= 4 and r.random() < 0.5:
                cut = r.randrange(2, nrows - 1)
                items = [["u", idx[:cut]], ["e"], ["u", idx[cut:]]]
            else:
                items = [["u", idx]]
                if r.random() < 0.2 and nrows >= 2: items[0][1] = idx + [idx[0]]      # a repeated object is ignored
                if ext: items.append(["e"])
        # frame
        frame = {"id_first": shape != "id_after", "open_tag": None, "open_opt": False, "extras": [], "seq_ext": False, "tags": {}}
        if shape == "clean":
            # OPTIONAL open type member (a pointer member; F22 repaired): forced by the caller or one module in four
            frame["open_opt"] = (r.random() < 0.25) if open_opt is None else bool(open_opt)
            frame["seq_ext"] = r.random() < 0.25
            ek = ["BOOLEAN", "INTEGER", "OCTET STRING", "IA5String", "NULL"]
            for pos in ("pre", "mid", "post"):
                if r.random() < 0.3:
                    et = {"k": r.choice(ek)}
                    if et["k"] == "INTEGER": et["cons"] = r.choice([None, genmod.cons(0, 7), genmod.cons(0, 255), genmod.cons(-5, 300)])
                    frame["extras"].append({"pos": pos, "id": "x" + pos, "type": et, "opt": "OPTIONAL" if r.random() < 0.4 else None})
        if tagdefault != "AUTOMATIC":
            frame["manual"] = True      # every member gets its own context tag; the open type's is (necessarily) EXPLICIT
            # None: the open type member carries no tag (the usual X.681 style; F102 repaired): it takes the row's own tag,
            # so - as for ANY - it is mandatory and no OPTIONAL member stands before it (X.680: distinct tags required)
            frame["open_tag"] = r.choice(["", "EXPLICIT ", None, None]) if untagged is None else (None if untagged else "")
            if frame["open_tag"] is None and open_ext:
                frame["open_tag"] = ""
            if frame["open_tag"] is None:
                frame["open_opt"] = False
                for e in frame["extras"]:
                    if e["pos"] in ("pre", "mid"): e["opt"] = None
        if shape == "clean" and not (frame.get("manual") and frame["open_tag"] is None) and ((r.random() < 0.12) if open_ext is None else open_ext):
            # the open type member as an extension addition: `{ ident, ..., value }` (a pointer member like OPTIONAL ones;
            # BER / XER decode it since the repair of F22, UPER cannot: F109)
            frame["open_ext"] = True; frame["open_opt"] = True; frame["seq_ext"] = False
            frame["extras"] = [e for e in frame["extras"] if e["pos"] != "post"]
        return {"name": name, "tagdefault": tagdefault, "types": types, "opts": tuple(opts),
                "ioc": {"shape": shape, "finding": SHAPES[shape][0], "cls_order": "id" if (nrows == 1 or shape == "singleton") else r.choice(["id", "id", "type"]), "idkind": idkind,
                        "rows": rows, "items": items, "frame": frame}} if shape != "one_row_type_first" else \
               {"name": name, "tagdefault": tagdefault, "types": types, "opts": tuple(opts),
                "ioc": {"shape": shape, "finding": "F107", "cls_order": "type", "idkind": idkind, "rows": rows, "items": items, "frame": frame}}

def _tame(t):
    """a NAMED type whose only constraint is (0..MAX) / (MIN..MAX) / SIZE(0..MAX) makes asn_check_constraints recurse
    forever on the unchanged tree (the emitted <T>_constraint calls itself; a C08 defect, not this property's): drop it"""
    t = dict(t)
    for key in ("cons", "size"):
        c = t.get(key)
        if c and c["hi"] is None and c["lo"] in (None, 0): t[key] = None
    return t

def _retag_for(t):
    """components generated for AUTOMATIC TAGS carry no tags: number them [0],[1],.. so the type is valid under any default"""
    t = dict(t)
    if t["k"] in ("SEQUENCE", "SET", "CHOICE"):
        comps = []
        for i, c in enumerate(t["comps"]):
            c = dict(c); ct = _retag_for(c["type"])
            mode = "EXPLICIT" if genmod.resolve_kind(ct) == "CHOICE" or ct["k"] == "REF" else ""
            ct["tag"] = ("ctx", i, mode); c["type"] = ct; comps.append(c)
        t["comps"] = comps
    elif t["k"] in ("SEQUENCE OF", "SET OF"):
        t["elem"] = _retag_for(t["elem"])
    return t

# ------------------------------------------------------------------ rendering
def id_text(m, v):
    if m["ioc"]["idkind"] == "OID": return "{ " + " ".join(str(a) for a in v) + " }"
    return str(v)

def id_sexp(m, v):
    if m["ioc"]["idkind"] == "OID": return "(oid %s)" % genmod.hx(genmod.oid_octets(v))
    return "(int %d)" % v

def frame_members(m):
    """ordered member list of Frame: (kind, id) with kind in ident/value/extra"""
    f = m["ioc"]["frame"]
    ex = {p: [e for e in f["extras"] if e["pos"] == p] for p in ("pre", "mid", "post")}
    core = [("ident", "ident"), ("mid", None), ("value", "value")] if f["id_first"] else [("value", "value"), ("mid", None), ("ident", "ident")]
    out = [("extra", e) for e in ex["pre"]]
    for k, v in core:
        if k == "mid": out += [("extra", e) for e in ex["mid"]]
        else: out.append((k, v))
    out += [("extra", e) for e in ex["post"]]
    return out

def module_text(m):
    ioc = m["ioc"]; f = ioc["frame"]
    td = {"EXPLICIT": "EXPLICIT TAGS ", "IMPLICIT": "IMPLICIT TAGS ", "AUTOMATIC": "AUTOMATIC TAGS ", None: ""}[m.get("tagdefault")]
    out = [f"{m['name']} DEFINITIONS {td}::= BEGIN"]
    idt = {"INTEGER": "INTEGER", "CINT-inline": "INTEGER (0..32767)", "CINT-named": "CInt", "OID": "OBJECT IDENTIFIER"}[ioc["idkind"]]
    if ioc["idkind"] == "CINT-named": out.append("  CInt ::= INTEGER (0..32767)")
    fields = [f"&id {idt} UNIQUE", "&Type"]
    if ioc["cls_order"] == "type": fields.reverse()
    out.append("  FRAME-CLS ::= CLASS { " + ", ".join(fields) + " } WITH SYNTAX { &Type IDENTIFIED BY &id }")
    for name, t in m["types"]:
        out.append(f"  {name} ::= {genmod.type_text(t)}")
    def obj(i): return "{ %s IDENTIFIED BY %s }" % (ioc["rows"][i]["name"], id_text(m, ioc["rows"][i]["id"]))
    items = []
    for it in ioc["items"]:
        items.append("..." if it[0] == "e" else " | ".join(obj(i) for i in it[1]))
    out.append("  Frames FRAME-CLS ::= { " + ", ".join(items) + " }")
    membs = []
    n = 0
    for k, v in frame_members(m):
        tag = f"[{n}] " if f.get("manual") else ""
        if k == "ident": membs.append(f"ident {tag}FRAME-CLS.&id ({{Frames}})")
        elif k == "value":
            if f.get("manual"): tag = f"[{n}] {f['open_tag']}" if f["open_tag"] is not None else ""
            if f.get("open_ext"): membs.append("...")
            membs.append(f"value {tag}FRAME-CLS.&Type ({{Frames}}{{@ident}})" + (" OPTIONAL" if f["open_opt"] and not f.get("open_ext") else ""))
        else:
            membs.append(f"{v['id']} {tag}{genmod.type_text(v['type'])}" + (" OPTIONAL" if v["opt"] else ""))
        n += 1
    if f["seq_ext"]: membs.append("...")
    out.append("  Frame ::= SEQUENCE { " + ", ".join(membs) + " }")
    out.append("END")
    return "\n".join(out) + "\n"

def type_names(m):
    return [n for n, _ in m["types"]] + ["Frame"]

# ------------------------------------------------------------------ the table the standard prescribes / the model input
def spec_objects(m):
    """X.681: all objects written in the set (root and additions), duplicates merged: [(id, row type name)]"""
    out = []
    for it in m["ioc"]["items"]:
        if it[0] == "e": continue
        for i in it[1]:
            o = (repr(m["ioc"]["rows"][i]["id"]), m["ioc"]["rows"][i]["name"])
            if o not in out: out.append(o)
    return out

def type_index(m):
    """row type name -> small integer used as `ty` by the Lean model (first occurrence order)"""
    idx = {}
    for row in m["ioc"]["rows"]: idx.setdefault(row["name"], len(idx))
    return idx

def model_items(m):
    """object-set syntax in the Lean driver's format (INTEGER ids only)"""
    ti = type_index(m)
    parts = []
    for it in m["ioc"]["items"]:
        if it[0] == "e": parts.append("e")
        else: parts.append("u:" + ",".join(f"{m['ioc']['rows'][i]['id']}:{ti[m['ioc']['rows'][i]['name']]}" for i in it[1]))
    return ";".join(parts)

def is_extensible(m):
    return any(it[0] == "e" for it in m["ioc"]["items"])

# ------------------------------------------------------------------ values
def extras_values(m, vg, mode):
    """extras part of a frame value: {id: python value}; mode 0 = all present, 1 = optionals absent, else random"""
    out = {}
    for e in m["ioc"]["frame"]["extras"]:
        if e["opt"] and (mode == 1 or (mode >= 2 and vg.r.random() < 0.5)): continue
        out[e["id"]] = vg.value(e["type"], None)
    return out

def frame_sexp(m, idval, rowname, row_sexp, extras=None, env=None):
    """s-expression of a Frame value; rowname/row_sexp None => open type member left out"""
    parts = []
    for k, v in frame_members(m):
        if k == "ident":
            if idval is not None: parts.append("(ident %s)" % id_sexp(m, idval))
        elif k == "value":
            if rowname is not None: parts.append("(value (open %s %s))" % (rowname, row_sexp))
        elif extras and v["id"] in extras:
            parts.append("(%s %s)" % (v["id"], genmod.val_sexp(v["type"], extras[v["id"]], env or {})))
    return "(seq " + " ".join(parts) + ")" if parts else "(seq)"
